(* C09 - the two arithmetic facts about the start-point generators, over the reals (NumR instance of the model).
   Float rounding at the end points of a cell / range is outside the model. *)
From Coq Require Import List Arith ZArith Bool Reals Lra Lia.
From MV Require Import Common.Num Common.NumR Core.Ensemble Core.Ensemble_Proofs.
Import ListNotations.
Open Scope R_scope.

Lemma of_nat_R : forall n, of_nat NumR n = INR n.
Proof. intros; unfold of_nat; cbn. symmetry. apply INR_IZR_INZ. Qed.

Lemma half_R : half NumR = 1 / 2.
Proof. unfold half; cbn. lra. Qed.

(* lower[i] + (j+0.5)*step with step = 1.*abs(upper[i]-lower[i])/nbins[i] *)
Lemma bin_centre_R : forall lo hi n j,
  bin_centre NumR lo hi n j = lo + (INR j + 1 / 2) * (Rabs (hi - lo) / INR n).
Proof.
  intros. unfold bin_centre, bin_step. rewrite !of_nat_R, half_R. cbn. f_equal. f_equal. f_equal. lra.
Qed.

(* one axis: the j-th centre lies in the j-th cell [lo + j w, lo + (j+1) w], w = (hi - lo)/n; and inside [lo, hi] *)
Theorem centre_in_own_cell : forall lo hi n j,
  (0 < n)%nat -> lo <= hi -> (j < n)%nat ->
  let w := (hi - lo) / INR n in
  let c := nth j (bin_centres NumR lo hi n) 0 in
  lo + INR j * w <= c <= lo + (INR j + 1) * w /\ lo <= c <= hi.
Proof.
  intros lo hi n j Hn Hle Hj w c.
  assert (Hc : c = lo + (INR j + 1 / 2) * w).
  { unfold c, bin_centres. rewrite (nth_indep _ 0 (bin_centre NumR lo hi n 0)) by (rewrite map_length, seq_length; lia).
    rewrite map_nth, seq_nth by lia. cbn [Nat.add]. rewrite bin_centre_R. rewrite Rabs_pos_eq by lra. reflexivity. }
  assert (Hnpos : 0 < INR n) by (apply lt_0_INR; lia).
  assert (Hw : 0 <= w) by (unfold w; apply Rmult_le_pos; [lra | left; now apply Rinv_0_lt_compat]).
  assert (Hj0 : 0 <= INR j) by apply pos_INR.
  assert (Hjn : INR j + 1 <= INR n) by (rewrite <- S_INR; apply le_INR; lia).
  assert (Hnw : INR n * w = hi - lo) by (unfold w; field; lra).
  rewrite Hc. split; split; try nra.
Qed.

(* all axes: the k-th start point of the lattice, k the lexicographic rank of the cell indices js, is the centre of
   cell js in every coordinate *)
Inductive cells_ok : list R -> list R -> list nat -> list nat -> Prop :=
| co_nil : cells_ok [] [] [] []
| co_cons : forall lo hi n j los his ns js,
    (0 < n)%nat -> lo <= hi -> (j < n)%nat -> cells_ok los his ns js -> cells_ok (lo :: los) (hi :: his) (n :: ns) (j :: js).

Inductive in_cells : list R -> list R -> list nat -> list nat -> list R -> Prop :=
| ic_nil : in_cells [] [] [] [] []
| ic_cons : forall lo hi n j c los his ns js cs,
    lo + INR j * ((hi - lo) / INR n) <= c <= lo + (INR j + 1) * ((hi - lo) / INR n) -> lo <= c <= hi ->
    in_cells los his ns js cs -> in_cells (lo :: los) (hi :: his) (n :: ns) (j :: js) (c :: cs).

Lemma axes_lengths : forall los his ns js, cells_ok los his ns js ->
  map (@length R) (axes NumR los his ns) = ns /\ Forall2 (fun j ax => (j < length ax)%nat) js (axes NumR los his ns).
Proof.
  induction 1; cbn [axes map]; [split; constructor|]. destruct IHcells_ok as [IH1 IH2].
  assert (L : length (bin_centres NumR lo hi n) = n) by (unfold bin_centres; now rewrite map_length, seq_length).
  split; [f_equal; [exact L | exact IH1] | constructor; [|exact IH2]].
  change (length (bin_centres NumR lo hi n)) with (length (bin_centres NumR lo hi n)) in L.
  eapply Nat.lt_le_trans; [exact H1|]. apply Nat.eq_le_incl. symmetry. exact L.
Qed.

Lemma grid_point_in_cells : forall los his ns js, cells_ok los his ns js ->
  in_cells los his ns js (grid_point 0 js (axes NumR los his ns)).
Proof.
  induction 1; cbn [axes grid_point]; [constructor|].
  destruct (centre_in_own_cell lo hi n j H H0 H1) as [C1 C2]. constructor; auto.
Qed.

Theorem lattice_start_in_own_cell : forall los his ns js pts,
  cells_ok los his ns js ->
  lattice_points NumR los his ns = Some pts ->
  length pts = prod_nat ns /\
  in_cells los his ns js (nth (grid_rank js ns) pts []).
Proof.
  intros los his ns js pts Hok Hl. unfold lattice_points in Hl.
  destruct (existsb (Nat.eqb 0) ns); [discriminate|]. destruct ns as [|n ns]; [discriminate|].
  injection Hl as <-. destruct (axes_lengths _ _ _ _ Hok) as [HL HF].
  pose proof (gridpts_length R (axes NumR los his (n :: ns))) as GL. rewrite HL in GL.
  pose proof (gridpts_nth R (axes NumR los his (n :: ns)) js 0 HF) as GN. rewrite HL in GN.
  split; [exact GL|].
  refine (eq_ind_r (in_cells los his (n :: ns) js) _ GN).
  apply grid_point_in_cells. exact Hok.
Qed.

(* the hypotheses are the ones the real code grants: a request without a zero bin count does return points *)
Lemma lattice_points_defined : forall los his ns js, cells_ok los his ns js -> ns <> [] ->
  exists pts, lattice_points NumR los his ns = Some pts.
Proof.
  intros los his ns js Hok Hne. unfold lattice_points.
  assert (H0 : existsb (Nat.eqb 0) ns = false).
  { induction Hok; [reflexivity|]. cbn. destruct n; [lia|]. cbn. destruct ns; [reflexivity|]. apply IHHok. discriminate. }
  rewrite H0. destruct ns; [congruence | eauto].
Qed.

(* samples: lo + (hi - lo) * u for a draw u in [0,1) stays in [lo, hi]   (pts[i] * abs(ub - lb) + lb) *)
Theorem sample_within_range : forall lo hi u, lo <= hi -> 0 <= u < 1 ->
  lo <= scale_draw NumR lo hi u <= hi.
Proof.
  intros lo hi u Hle Hu. unfold scale_draw; cbn. rewrite Rabs_pos_eq by lra. split; nra.
Qed.

Inductive boxed : list R -> list R -> list R -> Prop :=
| bx_nil : boxed [] [] []
| bx_cons : forall lo hi x los his xs, lo <= x <= hi -> boxed los his xs -> boxed (lo :: los) (hi :: his) (x :: xs).

Inductive draws_ok (npts : nat) : list R -> list R -> list (list R) -> Prop :=
| do_nil : draws_ok npts [] [] []
| do_cons : forall lo hi row los his rows,
    lo <= hi -> length row = npts -> Forall (fun u => 0 <= u < 1) row ->
    draws_ok npts los his rows -> draws_ok npts (lo :: los) (hi :: his) (row :: rows).

Theorem samples_within_ranges : forall npts los his draws p,
  draws_ok npts los his draws ->
  In p (sample_points NumR los his npts draws) -> boxed los his p.
Proof.
  intros npts los his draws p Hok Hin. unfold sample_points, transpose in Hin.
  apply in_map_iff in Hin. destruct Hin as (k & <- & Hk). apply in_seq in Hk.
  induction Hok; cbn [scale_rows map]; [constructor|]. constructor; [|exact IHHok].
  assert (Hkr : (k < length row)%nat).
  { destruct Hk as [_ Hk]. cbn in Hk. eapply Nat.lt_le_trans; [exact Hk|]. apply Nat.eq_le_incl. symmetry. exact H0. }
  rewrite (nth_indep _ (zero NumR) (scale_draw NumR lo hi 0)) by (rewrite map_length; exact Hkr).
  rewrite map_nth. apply sample_within_range; [assumption|].
  rewrite Forall_forall in H1. apply H1. apply nth_In. exact Hkr.
Qed.

Theorem sample_count : forall (N : Num) los his npts draws, length (sample_points N los his npts draws) = npts.
Proof. intros. unfold sample_points, transpose. now rewrite map_length, seq_length. Qed.
