(* scipy_optimize.NelderMeadSimplexSolver as a program over the machine.  The candidate points (initial simplex vertices,
   reflection, expansion, contractions, shrink points) are oracle inputs of a step, in the order the algorithm evaluates
   them (their arithmetic is C08's subject); modelled here: which candidates are evaluated, the accept/reject tree,
   the stable sort, constraints applied to vertex 0, what is stored and logged.  No proofs here. *)
From Coq Require Import List ZArith Bool.
From MV Require Import Common.Num Core.Machine.
Import ListNotations.
Open Scope Z_scope.

Section NM.
  Variable N : Num.
  Variable inf : T N.
  Notation E := (T N).
  Notation vec := (vec N).
  Notation prog := (prog N).

  Record nm := { sim : list vec; fsim : list E }.
  Record nm_in := { cands : list vec; ndeco : option (list vec); inpl : bool; perm : list nat }.
  (* perm: the permutation numpy.argsort returned for this step's energies (its treatment of ties is not specified:
     numpy's SIMD sorts are not stable), checked by the model to be a sorting permutation *)
  (* inpl: the installed constraints function modifies its (numpy array) argument in place and no strict ranges
     are set (tools.wrap_nested copies with x[:], which for an array is a view): an evaluated candidate is then
     stored in its constrained form *)

  Definition nm_best (c : nm) : vec * E := (hd [] (sim c), hd inf (fsim c)).

  (* numpy.take(sim, argsort(fsim)): apply the recorded permutation after checking that it sorts *)
  Definition apply_perm (p : list nat) (l : list (vec * E)) : list (vec * E) :=
    map (fun i => nth i l ([], inf)) p.
  Fixpoint sorted_e (l : list (vec * E)) : bool :=
    match l with
    | a :: ((b :: _) as r) => (negb (ltb N (snd b) (snd a)) && sorted_e r)%bool
    | _ => true
    end.
  Fixpoint count_nat (i : nat) (p : list nat) : nat :=
    match p with [] => O | j :: r => if Nat.eqb i j then S (count_nat i r) else count_nat i r end.
  Definition is_perm (p : list nat) (n : nat) : bool :=
    (Nat.eqb (length p) n && forallb (fun i => Nat.eqb (count_nat i p) 1) (seq 0 n))%bool.
  Definition valid_perm (p : list nat) (l : list (vec * E)) : bool :=
    (is_perm p (length l) && sorted_e (apply_perm p l))%bool.

  Fixpoint eval_all (xs : list vec) : prog (list (vec * E)) :=
    match xs with
    | [] => Ret []
    | x :: r => Eval x (fun e => bind (eval_all r) (fun l => Ret ((x, e) :: l)))
    end.

  (* evaluate a candidate; the continuation gets the vector that ends up stored *)
  Definition evalc (ip : bool) (x : vec) (k : vec -> E -> prog (nm * list (vec * E))) : prog (nm * list (vec * E)) :=
    (Eval x (fun e => if ip then Cons x (fun xc => k xc e) else k x e)).
  Fixpoint evalc_all (ip : bool) (xs : list vec) : prog (list (vec * E)) :=
    match xs with
    | [] => Ret []
    | x :: r => Eval x (fun e =>
        if ip then Cons x (fun xc => bind (evalc_all ip r) (fun l => Ret ((xc, e) :: l)))
        else bind (evalc_all ip r) (fun l => Ret ((x, e) :: l)))
    end.

  Definition replace_last (l : list (vec * E)) (p : vec * E) : list (vec * E) := removelast l ++ [p].

  (* numpy.argsort always answers with a sorting permutation; for any other recorded answer the model falls back to its own
     stable insertion sort, so that the step is total *)
  Fixpoint insert_e (a : vec * E) (l : list (vec * E)) : list (vec * E) :=
    match l with
    | [] => [a]
    | b :: r => if ltb N (snd b) (snd a) then b :: insert_e a r else a :: l
    end.
  Definition isort (l : list (vec * E)) : list (vec * E) := fold_right insert_e [] l.

  (* sort, then constrain vertex 0 (the point whose energy is stored), then log it *)
  Definition finish (p : list nat) (l : list (vec * E)) : prog (nm * list (vec * E)) :=
    let sl := if valid_perm p l then apply_perm p l else isort l in
    match sl with
    | [] => Ret ({| sim := []; fsim := [] |}, [])
    | (x0, f0) :: r =>
        Cons x0 (fun x0c =>
          let sl' := (x0c, f0) :: r in
          Ret ({| sim := map fst sl'; fsim := map snd sl' |}, [(x0c, f0)]))
    end.

  Definition nm_step (s : sys N) (c : nm) (i : nm_in) : prog (nm * list (vec * E)) :=
    let gens := Nat.pred (length (stepmon N s)) in
    match stepmon N s with
    | [] =>                                   (* generation 0: evaluate the (constrained) initial point *)
        let x0 := hd [] (sim c) in
        let n := length x0 in
        Cons x0 (fun x0c => Eval x0c (fun e =>
          Ret ({| sim := x0c :: repeat (repeat (zero N) n) n; fsim := e :: repeat inf n |}, [(x0c, e)])))
    | _ =>
      match gens with
      | O =>                                  (* generation 1: populate the simplex *)
          let x0 := hd [] (sim c) in
          let n := length x0 in
          bind (eval_all (firstn n (cands i))) (fun vs =>
            finish (perm i) ((x0, hd inf (fsim c)) :: vs))
      | _ =>
          let l := combine (sim c) (fsim c) in
          match l with
          | [] => Ret (c, [])
          | (x0, f0) :: rest =>
            Cons x0 (fun x0c =>
              let l0 := (x0c, f0) :: rest in
              let fl := snd (last l0 (x0c, f0)) in                       (* fsim[-1] *)
              let f2 := snd (last (removelast l0) (x0c, f0)) in          (* fsim[-2] *)
              let xr := nth 0 (cands i) [] in
              let x1 := nth 1 (cands i) [] in
              let ip := inpl i in
              let shrink := fun _ : unit =>
                bind (evalc_all ip (firstn (length rest) (skipn 2 (cands i)))) (fun vs => finish (perm i) ((x0c, f0) :: vs)) in
              evalc ip xr (fun xr' fxr =>
                if ltb N fxr f0 then
                  evalc ip x1 (fun x1' fxe =>
                    if ltb N fxe fxr then finish (perm i) (replace_last l0 (x1', fxe))
                    else finish (perm i) (replace_last l0 (xr', fxr)))
                else if ltb N fxr f2 then finish (perm i) (replace_last l0 (xr', fxr))
                else if ltb N fxr fl then
                  evalc ip x1 (fun x1' fxc =>
                    if leb N fxc fxr then finish (perm i) (replace_last l0 (x1', fxc)) else shrink tt)
                else
                  evalc ip x1 (fun x1' fxcc =>
                    if ltb N fxcc fl then finish (perm i) (replace_last l0 (x1', fxcc)) else shrink tt)))
          end
      end
    end.

  Definition nm_decorate (s : sys N) (c : nm) (i : nm_in) : nm :=
    match ndeco i with Some p => {| sim := p; fsim := fsim c |} | None => c end.

  Definition nm_algo : algo N nm nm_in := {|
    a_nested := true;
    a_npop := fun _ => 1;
    a_ndim := fun c => Z.of_nat (length (hd [] (sim c)));
    a_iterscale := 200; a_evalscale := 200;
    a_ehist_extra := fun _ => [];
    a_best := nm_best;
    a_decorate := nm_decorate;
    a_step := nm_step;
    a_finalize := fun _ c => (c, []);
    a_set_pop := fun c p => {| sim := p; fsim := fsim c |};
    a_fix_counter := fun _ s1 _ => fcalls N s1;
    a_cons_finalizes := true
  |}.

  Definition nm_init (ndim : nat) : nm :=
    {| sim := repeat (repeat (zero N) ndim) (S ndim); fsim := repeat inf (S ndim) |}.
End NM.
