(* C08 - PowellRef: Powell's direction-set method as published in scipy.optimize.fmin_powell (Powell 1964; Numerical Recipes),
   written from the reference, NOT from mystic, over a LINE-SEARCH ORACLE: Brent's method is not modelled, each line search
   consumes one recorded answer (alpha_min, fret, number of objective calls).
     loop: fx = fval; sweep the N directions with a line search each, remembering the largest decrease (delta, bigind);
           iter += 1; stop if 2(fx-fval) <= ftol(|fx|+|fval|)+1e-20, or fcalls >= maxfun, or iter >= maxiter;
           extrapolated point x2 = 2x - x1; if fx > fx2 and t < 0: line search along x - x1, direc[bigind] = direc[-1], direc[-1] = new.
   [first_test] = true is the reference.  mystic's default stop rule NormalizedChangeOverGeneration(ftol, 2) needs three history
   entries, so it cannot stop after the first sweep: first_test = false models that (known finding, see Properties_C08).
   Definitions only; proofs are in PowellRef_Proofs.v. *)
From Coq Require Import List Arith Bool ZArith.
From MV Require Import Common.Num.
Import ListNotations.

Section Powell.
  Variable N : Num.
  Notation T := (T N).
  Definition pvec := list T.
  Definition lsrec := (T * T * nat)%type.          (* alpha_min, fret, objective calls made by the line search *)

  Variable f : pvec -> option T.                    (* objective (recorded table); used only at the extrapolated point *)
  Variable ftol : T.
  Variable eta : T.                                 (* 1e-20 *)
  Variable first_test : bool.

  Definition two : T := add N (one N) (one N).
  Definition pmap2 (g : T -> T -> T) (a b : pvec) : pvec := map (fun p => g (fst p) (snd p)) (combine a b).
  Definition pscale (c : T) (v : pvec) : pvec := map (mul N c) v.

  (* _linesearch_powell: xi = alpha_min*xi; return fret, p + xi, xi *)
  Definition ls_point (p xi : pvec) (alpha : T) : pvec := pmap2 (add N) p (pscale alpha xi).

  Record sweepst := mkSw { sw_x : pvec; sw_f : T; sw_delta : T; sw_big : nat; sw_calls : nat; sw_ls : list lsrec }.

  (* for i in range(N): fx2 = fval; fval, x, _ = linesearch(x, direc[i]); if (fx2 - fval) > delta: delta = fx2 - fval; bigind = i *)
  Fixpoint sweep (i : nat) (dirs : list pvec) (s : sweepst) : option sweepst :=
    match dirs with
    | [] => Some s
    | d :: r =>
        match sw_ls s with
        | [] => None
        | (alpha, fret, c) :: ls' =>
            let dec := sub N (sw_f s) fret in
            let upd := ltb N (sw_delta s) dec in
            sweep (S i) r (mkSw (ls_point (sw_x s) d alpha) fret (if upd then dec else sw_delta s)
                                (if upd then i else sw_big s) (sw_calls s + c) ls')
        end
    end.

  Fixpoint set_dir (k : nat) (v : pvec) (l : list pvec) : list pvec :=
    match l, k with [], _ => [] | _ :: r, O => v :: r | a :: r, S j => a :: set_dir j v r end.
  (* direc[bigind] = direc[-1]; direc[-1] = direc1 *)
  Definition replace_dir (direc : list pvec) (bigind : nat) (d1 : pvec) : list pvec :=
    let direc' := set_dir bigind (last direc []) direc in
    set_dir (length direc' - 1) d1 direc'.

  Record pwstate := mkPw { pw_x : pvec; pw_f : T; pw_x1 : pvec; pw_direc : list pvec; pw_iter : nat; pw_calls : nat;
                           pw_ls : list lsrec;
                           pw_sweeps : list (pvec * T);     (* (x, fval) after each sweep, newest first *)
                           pw_vecs : list pvec }.           (* x after each completed iteration (after the extrapolation phase) *)

  (* t = 2(fx+fx2-2fval); temp = fx-fval-delta; t *= temp*temp; temp = fx-fx2; t -= delta*temp*temp *)
  Definition t_value (fx fx2 fval delta : T) : T :=
    let t := mul N two (sub N (add N fx fx2) (mul N two fval)) in
    let temp := sub N (sub N fx fval) delta in
    let t := mul N t (mul N temp temp) in
    let temp := sub N fx fx2 in
    sub N t (mul N (mul N delta temp) temp).

  Definition tol_stop (fx fval : T) : bool :=
    leb N (mul N two (sub N fx fval)) (add N (mul N ftol (add N (abs N fx) (abs N fval))) eta).

  (* the part of an iteration after the stop tests *)
  Definition extrapolate (st : pwstate) (fx : T) (sw : sweepst) : option pwstate :=
    let x := sw_x sw in let fval := sw_f sw in
    let direc1 := pmap2 (sub N) x (pw_x1 st) in
    let x2 := pmap2 (sub N) (pscale two x) (pw_x1 st) in
    match f x2 with
    | None => None
    | Some fx2 =>
        let calls := S (sw_calls sw) in
        let keep := mkPw x fval x (pw_direc st) (S (pw_iter st)) calls (sw_ls sw) ((x, fval) :: pw_sweeps st) (x :: pw_vecs st) in
        if ltb N fx2 fx then
          if ltb N (t_value fx fx2 fval (sw_delta sw)) (zero N) then
            match sw_ls sw with
            | [] => None
            | (alpha, fret, c) :: ls' =>
                let xn := ls_point x direc1 alpha in
                Some (mkPw xn fret x (replace_dir (pw_direc st) (sw_big sw) (pscale alpha direc1))
                           (S (pw_iter st)) (calls + c) ls' ((x, fval) :: pw_sweeps st) (xn :: pw_vecs st))
            end
          else Some keep
        else Some keep
    end.

  Definition finish (st : pwstate) (sw : sweepst) : pwstate :=
    mkPw (sw_x sw) (sw_f sw) (pw_x1 st) (pw_direc st) (S (pw_iter st)) (sw_calls sw) (sw_ls sw)
         ((sw_x sw, sw_f sw) :: pw_sweeps st) (sw_x sw :: pw_vecs st).

  (* rem = maxiter - iter at the start of the iteration *)
  Fixpoint powell_loop (rem maxfun : nat) (st : pwstate) : option pwstate :=
    let fx := pw_f st in
    match sweep 0 (pw_direc st) (mkSw (pw_x st) fx (zero N) 0 (pw_calls st) (pw_ls st)) with
    | None => None
    | Some sw =>
        if ((first_test || Nat.ltb 0 (pw_iter st)) && tol_stop fx (sw_f sw)) || Nat.leb maxfun (sw_calls sw)
        then Some (finish st sw)
        else match rem with
             | S (S r as rem') =>
                 match extrapolate st fx sw with
                 | None => None
                 | Some st' => powell_loop rem' maxfun st'
                 end
             | _ => Some (finish st sw)          (* iter >= maxiter *)
             end
    end.

  Record pwresult := mkPR { pr_x : pvec; pr_f : T; pr_iter : nat; pr_calls : nat; pr_warn : nat; pr_direc : list pvec;
                            pr_sweeps : list (pvec * T); pr_vecs : list pvec; pr_unused : nat }.

  Definition powell_run (x0 : pvec) (direc : list pvec) (maxiter maxfun : nat) (ls : list lsrec) : option pwresult :=
    match f x0 with
    | None => None
    | Some f0 =>
        match powell_loop maxiter maxfun (mkPw x0 f0 x0 direc 0 1 ls [] [x0]) with
        | None => None
        | Some st =>
            Some (mkPR (pw_x st) (pw_f st) (pw_iter st) (pw_calls st)
                       (if Nat.leb maxfun (pw_calls st) then 1 else if Nat.leb maxiter (pw_iter st) then 2 else 0)
                       (pw_direc st) (rev (pw_sweeps st)) (rev (pw_vecs st)) (length (pw_ls st)))
        end
    end.
End Powell.
