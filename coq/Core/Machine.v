(* The solver API of mystic.abstract_solver as one state machine, generic in the optimisation algorithm.
   An algorithm is a *program* (interaction tree) that can only (a) ask for the decorated objective at a point,
   (b) apply the composed constraints to a point, (c) read oracle inputs handed to the step.  The machine
   interprets (a) exactly as tools.wrap_function / wrap_bounds / wrap_penalty / wrap_nested / reduced compose
   the objective, threading the evaluation counter, the call log and the evaluation monitor.
   Definitions only; proofs are in Machine_Proofs.v.                                                   *)
From Coq Require Import List ZArith Bool.
From MV Require Import Common.Num.
Import ListNotations.
Open Scope Z_scope.

Section Machine.
  Variable N : Num.
  Variable inf : T N.
  Notation E := (T N).
  Definition vec := list E.

  (* value returned by the user's cost: a scalar or an array (to be reduced) *)
  Inductive yval := YS (e : E) | YV (l : list E).

  Inductive limit := LNone | LStar | LAbs (n : Z).

  (* termination conditions used by the solver-level model (C10 models the full library) *)
  Inductive term :=
  | TNever
  | TVTR (tol target : E)
  | TCOG (tol : E) (g : nat)
  | TNCOG (tol : E) (g : nat)
  | TOr (a b : term)
  | TAnd (a b : term).

  (* one record of the call log: argument, raw value, and the box / constraints in force when it was made *)
  Record call := { c_x : vec; c_y : yval; c_e : E; c_box : option (vec * vec); c_cons : vec -> vec }.
  (* c_e: the objective value (reduced cost + penalty) the solver obtained from this call *)

  Record sys := {
    fcalls : Z;                        (* solver._fcalls[0] *)
    calls : list call;                 (* every real call of the user's cost, oldest first *)
    evalmon : list (vec * yval);       (* contents of the evaluation monitor *)
    emon_on : bool;                    (* an evaluation monitor is installed (otherwise Null) *)
    stepmon : list (vec * E);          (* contents of the step monitor *)
    cblog : list vec;                  (* arguments the callback received *)
    maxiter : limit; maxfun : limit;
    exitreq : bool;                    (* _EARLYEXIT *)
    live : bool;                       (* _live *)
    box : option (vec * vec);          (* strict ranges, when _useStrictRange *)
    u_raw : vec -> yval;               (* raw cost *)
    u_pen : vec -> E;                  (* penalty *)
    u_cons : vec -> vec;               (* constraints as composed with the bounds constraint *)
    u_red : option (list E -> E);      (* reducer *)
    u_term : term;
    has_cb : bool;
    stuck : bool                       (* the model left the modelled fragment (array energy without reducer...) *)
  }.

  Definition set_fcalls (s : sys) v := {| fcalls := v; calls := calls s; evalmon := evalmon s; emon_on := emon_on s; stepmon := stepmon s; cblog := cblog s; maxiter := maxiter s; maxfun := maxfun s; exitreq := exitreq s; live := live s; box := box s; u_raw := u_raw s; u_pen := u_pen s; u_cons := u_cons s; u_red := u_red s; u_term := u_term s; has_cb := has_cb s; stuck := stuck s |}.
  Definition log_call (s : sys) (x : vec) (y : yval) (e : E) :=
    {| fcalls := fcalls s + 1; calls := calls s ++ [{| c_x := x; c_y := y; c_e := e; c_box := box s; c_cons := u_cons s |}];
       evalmon := (if emon_on s then evalmon s ++ [(x, y)] else evalmon s); emon_on := emon_on s; stepmon := stepmon s; cblog := cblog s; maxiter := maxiter s; maxfun := maxfun s; exitreq := exitreq s; live := live s; box := box s; u_raw := u_raw s; u_pen := u_pen s; u_cons := u_cons s; u_red := u_red s; u_term := u_term s; has_cb := has_cb s; stuck := stuck s |}.
  Definition set_stuck (s : sys) := {| fcalls := fcalls s; calls := calls s; evalmon := evalmon s; emon_on := emon_on s; stepmon := stepmon s; cblog := cblog s; maxiter := maxiter s; maxfun := maxfun s; exitreq := exitreq s; live := live s; box := box s; u_raw := u_raw s; u_pen := u_pen s; u_cons := u_cons s; u_red := u_red s; u_term := u_term s; has_cb := has_cb s; stuck := true |}.
  Definition set_stepmon (s : sys) v := {| fcalls := fcalls s; calls := calls s; evalmon := evalmon s; emon_on := emon_on s; stepmon := v; cblog := cblog s; maxiter := maxiter s; maxfun := maxfun s; exitreq := exitreq s; live := live s; box := box s; u_raw := u_raw s; u_pen := u_pen s; u_cons := u_cons s; u_red := u_red s; u_term := u_term s; has_cb := has_cb s; stuck := stuck s |}.
  Definition set_evalmon (s : sys) v := {| fcalls := fcalls s; calls := calls s; evalmon := v; emon_on := true; stepmon := stepmon s; cblog := cblog s; maxiter := maxiter s; maxfun := maxfun s; exitreq := exitreq s; live := live s; box := box s; u_raw := u_raw s; u_pen := u_pen s; u_cons := u_cons s; u_red := u_red s; u_term := u_term s; has_cb := has_cb s; stuck := stuck s |}.
  Definition set_cblog (s : sys) v := {| fcalls := fcalls s; calls := calls s; evalmon := evalmon s; emon_on := emon_on s; stepmon := stepmon s; cblog := v; maxiter := maxiter s; maxfun := maxfun s; exitreq := exitreq s; live := live s; box := box s; u_raw := u_raw s; u_pen := u_pen s; u_cons := u_cons s; u_red := u_red s; u_term := u_term s; has_cb := has_cb s; stuck := stuck s |}.
  Definition set_limits (s : sys) mi mf := {| fcalls := fcalls s; calls := calls s; evalmon := evalmon s; emon_on := emon_on s; stepmon := stepmon s; cblog := cblog s; maxiter := mi; maxfun := mf; exitreq := exitreq s; live := live s; box := box s; u_raw := u_raw s; u_pen := u_pen s; u_cons := u_cons s; u_red := u_red s; u_term := u_term s; has_cb := has_cb s; stuck := stuck s |}.
  Definition set_exit (s : sys) v := {| fcalls := fcalls s; calls := calls s; evalmon := evalmon s; emon_on := emon_on s; stepmon := stepmon s; cblog := cblog s; maxiter := maxiter s; maxfun := maxfun s; exitreq := v; live := live s; box := box s; u_raw := u_raw s; u_pen := u_pen s; u_cons := u_cons s; u_red := u_red s; u_term := u_term s; has_cb := has_cb s; stuck := stuck s |}.
  Definition set_live (s : sys) v := {| fcalls := fcalls s; calls := calls s; evalmon := evalmon s; emon_on := emon_on s; stepmon := stepmon s; cblog := cblog s; maxiter := maxiter s; maxfun := maxfun s; exitreq := exitreq s; live := v; box := box s; u_raw := u_raw s; u_pen := u_pen s; u_cons := u_cons s; u_red := u_red s; u_term := u_term s; has_cb := has_cb s; stuck := stuck s |}.
  Definition set_box (s : sys) v := {| fcalls := fcalls s; calls := calls s; evalmon := evalmon s; emon_on := emon_on s; stepmon := stepmon s; cblog := cblog s; maxiter := maxiter s; maxfun := maxfun s; exitreq := exitreq s; live := live s; box := v; u_raw := u_raw s; u_pen := u_pen s; u_cons := u_cons s; u_red := u_red s; u_term := u_term s; has_cb := has_cb s; stuck := stuck s |}.
  Definition set_raw (s : sys) v := {| fcalls := fcalls s; calls := calls s; evalmon := evalmon s; emon_on := emon_on s; stepmon := stepmon s; cblog := cblog s; maxiter := maxiter s; maxfun := maxfun s; exitreq := exitreq s; live := live s; box := box s; u_raw := v; u_pen := u_pen s; u_cons := u_cons s; u_red := u_red s; u_term := u_term s; has_cb := has_cb s; stuck := stuck s |}.
  Definition set_pen (s : sys) v := {| fcalls := fcalls s; calls := calls s; evalmon := evalmon s; emon_on := emon_on s; stepmon := stepmon s; cblog := cblog s; maxiter := maxiter s; maxfun := maxfun s; exitreq := exitreq s; live := live s; box := box s; u_raw := u_raw s; u_pen := v; u_cons := u_cons s; u_red := u_red s; u_term := u_term s; has_cb := has_cb s; stuck := stuck s |}.
  Definition set_cons (s : sys) v := {| fcalls := fcalls s; calls := calls s; evalmon := evalmon s; emon_on := emon_on s; stepmon := stepmon s; cblog := cblog s; maxiter := maxiter s; maxfun := maxfun s; exitreq := exitreq s; live := live s; box := box s; u_raw := u_raw s; u_pen := u_pen s; u_cons := v; u_red := u_red s; u_term := u_term s; has_cb := has_cb s; stuck := stuck s |}.
  Definition set_red (s : sys) v := {| fcalls := fcalls s; calls := calls s; evalmon := evalmon s; emon_on := emon_on s; stepmon := stepmon s; cblog := cblog s; maxiter := maxiter s; maxfun := maxfun s; exitreq := exitreq s; live := live s; box := box s; u_raw := u_raw s; u_pen := u_pen s; u_cons := u_cons s; u_red := v; u_term := u_term s; has_cb := has_cb s; stuck := stuck s |}.
  Definition set_term (s : sys) v := {| fcalls := fcalls s; calls := calls s; evalmon := evalmon s; emon_on := emon_on s; stepmon := stepmon s; cblog := cblog s; maxiter := maxiter s; maxfun := maxfun s; exitreq := exitreq s; live := live s; box := box s; u_raw := u_raw s; u_pen := u_pen s; u_cons := u_cons s; u_red := u_red s; u_term := v; has_cb := has_cb s; stuck := stuck s |}.
  Definition set_has_cb (s : sys) v := {| fcalls := fcalls s; calls := calls s; evalmon := evalmon s; emon_on := emon_on s; stepmon := stepmon s; cblog := cblog s; maxiter := maxiter s; maxfun := maxfun s; exitreq := exitreq s; live := live s; box := box s; u_raw := u_raw s; u_pen := u_pen s; u_cons := u_cons s; u_red := u_red s; u_term := u_term s; has_cb := v; stuck := stuck s |}.

  Definition init_sys (t : term) : sys :=
    {| fcalls := 0; calls := []; evalmon := []; emon_on := false; stepmon := []; cblog := []; maxiter := LNone; maxfun := LNone;
       exitreq := false; live := false; box := None; u_raw := fun _ => YS inf; u_pen := fun _ => zero N;
       u_cons := fun x => x; u_red := None; u_term := t; has_cb := false; stuck := false |}.

  (* ---- the decorated objective ---- *)

  (* tools.wrap_bounds: any((x<min)|(x>max)) *)
  Fixpoint outside_box (lo hi x : vec) : bool :=
    match x, lo, hi with
    | xi :: xr, l :: lr, h :: hr => (ltb N xi l || ltb N h xi || outside_box lr hr xr)%bool
    | _, _, _ => false
    end.
  Definition outside (b : option (vec * vec)) (x : vec) : bool :=
    match b with None => false | Some (lo, hi) => outside_box lo hi x end.

  Definition yadd (y : yval) (p : E) : yval :=
    match y with YS e => YS (add N e p) | YV l => YV (map (fun v => add N v p) l) end.

  (* objective(x) = reduced( wrap_bounds(wrap_function(raw))(c) + penalty(c) ), c = constraints(x) when nested *)
  Definition energy_of (s : sys) (yp : yval) : option E :=
    match yp, u_red s with
    | YS e, _ => Some e
    | YV l, Some r => Some (r l)
    | YV [e], None => Some e
    | YV _, None => None
    end.
  Definition objective (nested : bool) (s : sys) (x : vec) : sys * E :=
    let c := if nested then u_cons s x else x in
    let out := outside (box s) c in
    let y := if out then YS inf else u_raw s c in
    let eo := energy_of s (yadd y (u_pen s c)) in
    let e := match eo with Some e => e | None => inf end in
    let s1 := if out then s else log_call s c y e in
    (match eo with Some _ => s1 | None => set_stuck s1 end, e).

  (* ---- algorithms as programs ---- *)
  Inductive prog (R : Type) : Type :=
  | Ret (r : R)
  | Eval (x : vec) (k : E -> prog R)
  | Cons (x : vec) (k : vec -> prog R).
  Arguments Ret {R}. Arguments Eval {R}. Arguments Cons {R}.

  Fixpoint run_prog {R} (nested : bool) (s : sys) (p : prog R) : sys * R :=
    match p with
    | Ret r => (s, r)
    | Eval x k => let se := objective nested s x in run_prog nested (fst se) (k (snd se))
    | Cons x k => run_prog nested s (k (u_cons s x))
    end.

  Fixpoint bind {A B} (p : prog A) (f : A -> prog B) : prog B :=
    match p with
    | Ret a => f a
    | Eval x k => Eval x (fun e => bind (k e) f)
    | Cons x k => Cons x (fun v => bind (k v) f)
    end.

  (* ---- termination conditions on the solver view ---- *)
  Definition last_e (h : list E) : E := last h (zero N).
  (* python hist[-g]: g = 0 is hist[0]; otherwise the g-th from the end *)
  Definition py_neg (h : list E) (g : nat) : E :=
    match g with O => hd (zero N) h | _ => nth (length h - g) h (zero N) end.
  Fixpoint eval_term (t : term) (hist : list E) : bool :=
    match t with
    | TNever => false
    | TVTR tol target =>
        match hist with [] => false | _ => leb N (abs N (sub N (last_e hist) target)) tol end
    | TCOG tol g =>
        match hist with [] => false | _ =>
          if Nat.leb (length hist) g then false
          else (leb N (sub N (py_neg hist g) (last_e hist)) tol || eqb N (py_neg hist g) (last_e hist))%bool end
    | TNCOG tol g =>
        match hist with [] => false | _ =>
          if Nat.leb (length hist) g then false
          else (eqb N (py_neg hist g) (last_e hist) ||
                leb N (mul N (of_Z N 2) (sub N (py_neg hist g) (last_e hist)))
                      (add N (mul N tol (add N (abs N (py_neg hist g)) (abs N (last_e hist)))) (div N (of_Z N 1) (npow N (of_Z N 10) 20))))%bool end
    | TOr a b => (eval_term a hist || eval_term b hist)%bool
    | TAnd a b => (eval_term a hist && eval_term b hist)%bool
    end.

  (* ---- the algorithm interface ---- *)
  Variable C : Type.                       (* algorithm-owned state: population, energies, best, internals *)
  Variable I : Type.                       (* oracle input of one step (trial vectors, line-search answers, draws) *)
  Record algo := {
    a_nested : bool;
    a_npop : C -> Z;
    a_ndim : C -> Z;
    a_iterscale : Z; a_evalscale : Z;
    a_ehist_extra : C -> list E;                         (* Powell's decoupled last energy *)
    a_best : C -> vec * E;                               (* bestSolution, bestEnergy *)
    a_decorate : sys -> C -> I -> C;                     (* population clipping when (re)decorated under strict ranges *)
    a_step : sys -> C -> I -> prog (C * list (vec * E)); (* _Step: new state and the step-monitor records it writes *)
    a_finalize : sys -> C -> C * list (vec * E);         (* Finalize (Powell logs a last record) *)
    a_set_pop : C -> list vec -> C;                      (* SetInitialPoints & co: install a population *)
    a_fix_counter : sys -> sys -> C -> Z;                (* counter after _Step given the systems before/after (DE2 recomputes it) *)
    a_cons_finalizes : bool                              (* SetConstraints calls Finalize (not for DE) *)
  }.
  Variable A : algo.

  Definition energy_history (s : sys) (c : C) : list E := map snd (stepmon s) ++ a_ehist_extra A c.
  Definition generations (s : sys) (c : C) : Z := Z.max 0 (Z.of_nat (length (energy_history s c)) - 1).

  (* abstract_solver._SetEvaluationLimits: resolve None / "*" on first use *)
  Definition resolve_limits (s : sys) (c : C) : sys :=
    let base_i := a_ndim A c * a_npop A c * a_iterscale A in
    let base_e := a_ndim A c * a_npop A c * a_evalscale A in
    let mi := match maxiter s with LNone => LAbs base_i | LStar => LAbs (base_i + generations s c) | l => l end in
    let mf := match maxfun s with LNone => LAbs base_e | LStar => LAbs (base_e + fcalls s) | l => l end in
    set_limits s mi mf.

  Inductive stopmsg := MNone | MLimits | MInterrupt | MTerm.

  (* abstract_solver.Terminated (info=True), after resolving the limits *)
  Definition terminated (s : sys) (c : C) : sys * stopmsg :=
    let s1 := resolve_limits s c in
    let msg := if eval_term (u_term s1) (energy_history s1 c) then MTerm else MNone in
    let m :=
      match maxfun s1, maxiter s1 with
      | LAbs mf, LAbs mi =>
          if Z.leb mf (fcalls s1) then MLimits
          else if Z.leb mi (generations s1 c) then MLimits
          else if exitreq s1 then MInterrupt else msg
      | _, _ => msg
      end in
    (s1, m).

  (* _bootstrap_objective / _decorate_objective: (re)bind counter and monitor, clip the population *)
  Definition bootstrap (s : sys) (c : C) (i : I) : sys * C :=
    if live s then (s, c)
    else (set_live s true, match box s with Some _ => a_decorate A s c i | None => c end).

  Definition finalize (s : sys) (c : C) : sys * C :=
    let cf := a_finalize A s c in
    (set_live (set_stepmon s (stepmon s ++ snd cf)) false, fst cf).

  (* abstract_solver.Step *)
  Definition step (s : sys) (c : C) (i : I) : sys * C * stopmsg :=
    let sc := bootstrap s c i in
    let s1 := fst sc in let c1 := snd sc in
    let pre := match stepmon s1 with [] => (s1, MNone) | _ => terminated s1 c1 end in
    match snd pre with
    | MNone =>
        let r := run_prog (a_nested A) (fst pre) (a_step A (fst pre) c1 i) in
        let s2 := fst r in let c2 := fst (snd r) in
        let s2' := set_fcalls s2 (a_fix_counter A (fst pre) s2 c2) in
        let s3 := set_stepmon s2' (stepmon s2' ++ snd (snd r)) in
        let s4 := if has_cb s3 then set_cblog s3 (cblog s3 ++ [fst (a_best A c2)]) else s3 in
        let t1 := terminated s4 c2 in
        let fc := match snd t1 with MNone => (fst t1, c2) | _ => finalize (fst t1) c2 end in
        let t2 := terminated (fst fc) (snd fc) in
        (fst t2, snd fc, snd t2)
    | m => (fst pre, c1, m)
    end.

  (* abstract_solver._Solve: Step until a stop message; fuel only bounds the recursion *)
  Fixpoint solve (fuel : nat) (s : sys) (c : C) (is : list I) (dflt : I) : sys * C * stopmsg * bool :=
    match fuel with
    | O => (s, c, MNone, false)
    | S f =>
        let i := hd dflt is in
        let r := step s c i in
        match snd r with
        | MNone => solve f (fst (fst r)) (snd (fst r)) (tl is) dflt
        | m => (fst (fst r), snd (fst r), m, true)
        end
    end.

  (* SetEvaluationLimits(generations, evaluations, new) *)
  Definition set_evaluation_limits (s : sys) (c : C) (g e : option Z) (new : bool) : sys :=
    let mi := match g with Some n => LAbs (if new then n + generations s c else n) | None => if new then LStar else LNone end in
    let mf := match e with Some n => LAbs (if new then n + fcalls s else n) | None => if new then LStar else LNone end in
    set_limits s mi mf.

  (* ---- the API as operations ---- *)
  Inductive op :=
  | OSetObjective (f : vec -> yval)
  | OSetPenalty (p : vec -> E)
  | OSetConstraints (c : vec -> vec)
  | OSetStrictRanges (b : option (vec * vec))
  | OSetReducer (r : option (list E -> E))
  | OSetLimits (g e : option Z) (new : bool)
  | OSetTermination (t : term)
  | OSetEvalMonitor (new : bool)
  | OSetStepMonitor (new : bool)
  | OSetPopulation (pop : list vec)
  | OStep (cb : bool) (i : I)
  | OSolve (cb : bool) (is : list I) (dflt : I)
  | OFinalize
  | ORequestExit
  | OSameEvalMonitor      (* SetEvaluationMonitor handed the monitor already in use: nothing is prepended, nothing rebound, no Finalize *)
  | OSetRangesCons (b : option (vec * vec)) (c : vec -> vec).   (* SetStrictRanges in the tight / clip modes: the ranges AND the function applied where constraints are (constraints.and_ of the user's constraints and the bounds function) *)

  Definition fin (sc : sys * C) : sys * C := finalize (fst sc) (snd sc).

  (* result of an operation: new state and, for Step/Solve, the stop message *)
  Definition apply (sc : sys * C) (o : op) : sys * C * stopmsg :=
    let s := fst sc in let c := snd sc in
    match o with
    | OSetObjective f => (set_live (set_raw s f) false, c, MNone)       (* SetObjective: _live = False, no Finalize *)
    | OSetPenalty p => let sc' := fin sc in (set_pen (fst sc') p, snd sc', MNone)
    | OSetConstraints k =>
        let sc' := if a_cons_finalizes A then fin sc else sc in (set_cons (fst sc') k, snd sc', MNone)
    | OSetStrictRanges b => let sc' := fin sc in (set_box (fst sc') b, snd sc', MNone)
    | OSetReducer r => let sc' := fin sc in (set_red (fst sc') r, snd sc', MNone)
    | OSetLimits g e new => (set_evaluation_limits s c g e new, c, MNone)
    | OSetTermination t => (set_term s t, c, MNone)
    | OSetEvalMonitor new => let sc' := fin sc in (set_evalmon (fst sc') (if new then [] else evalmon (fst sc')), snd sc', MNone)
    | OSetStepMonitor new => (set_stepmon s (if new then [] else stepmon s), c, MNone)
    | OSetPopulation pop => (s, a_set_pop A c pop, MNone)
    | OStep cb i => step (set_has_cb s cb) c i
    | OSolve cb is dflt =>
        let r := solve (S (length is)) (set_exit (set_has_cb s cb) false) c is dflt in
        (fst (fst (fst r)), snd (fst (fst r)), snd (fst r))
    | OFinalize => let sc' := fin sc in (fst sc', snd sc', MNone)
    | ORequestExit => (set_exit s true, c, MNone)
    | OSameEvalMonitor => (s, c, MNone)
    | OSetRangesCons b k => let sc' := fin sc in (set_cons (set_box (fst sc') b) k, snd sc', MNone)
    end.

  Definition run (sc : sys * C) (ops : list op) : sys * C :=
    fold_left (fun sc o => fst (apply sc o)) ops sc.

  (* trace of states after every operation, with the stop messages *)
  Fixpoint trace (sc : sys * C) (ops : list op) : list (sys * C * stopmsg) :=
    match ops with
    | [] => []
    | o :: r => let x := apply sc o in x :: trace (fst x) r
    end.
End Machine.

Arguments Ret {N R}. Arguments Eval {N R}. Arguments Cons {N R}.
Arguments bind {N A B}. Arguments run_prog {N} inf {R}.
Arguments OSetObjective {N I}. Arguments OSetPenalty {N I}. Arguments OSetConstraints {N I}. Arguments OSetStrictRanges {N I}.
Arguments OSetReducer {N I}. Arguments OSetLimits {N I}. Arguments OSetTermination {N I}. Arguments OSetEvalMonitor {N I}.
Arguments OSetStepMonitor {N I}. Arguments OSetPopulation {N I}. Arguments OStep {N I}. Arguments OSolve {N I}.
Arguments OFinalize {N I}. Arguments ORequestExit {N I}. Arguments OSameEvalMonitor {N I}. Arguments OSetRangesCons {N I}.
