(* C08 - proofs about Core/Strategy.v (any Num; no arithmetic fact is used). *)
From Coq Require Import List Arith Bool Lia QArith.
From MV Require Import Common.Num Common.Order Core.Strategy.
Import ListNotations.
Close Scope Q_scope.
Open Scope nat_scope.

Lemma nth_map_seq {A} (g : nat -> A) D i d : i < D -> nth i (map g (seq 0 D)) d = g i.
Proof.
  intros H. rewrite (nth_indep _ d (g 0)) by (rewrite map_length, seq_length; exact H).
  rewrite map_nth. now rewrite seq_nth.
Qed.

Section Proofs.
  Variable N : Num.
  Notation T := (T N).

  (* ---- random.sample's answer *)
  Lemma nodupb_NoDup l : nodupb l = true -> NoDup l.
  Proof.
    induction l as [|a r IH]; simpl; intros H; [constructor|].
    apply andb_true_iff in H as [H1 H2]. constructor; [|auto].
    intros Hin. apply negb_true_iff in H1.
    assert (existsb (Nat.eqb a) r = true) as E.
    { apply existsb_exists. exists a; split; [exact Hin|apply Nat.eqb_refl]. }
    congruence.
  Qed.

  Lemma sample_ok_spec NP ex k rs : sample_ok NP ex k rs = true ->
    length rs = k /\ NoDup rs /\ forall r, In r rs -> r < NP /\ r <> ex.
  Proof.
    unfold sample_ok; intros H.
    apply andb_true_iff in H as [H H3]. apply andb_true_iff in H as [H1 H2].
    split; [now apply Nat.eqb_eq|]. split; [now apply nodupb_NoDup|].
    intros r Hin. rewrite forallb_forall in H3. specialize (H3 r Hin).
    apply andb_true_iff in H3 as [A B]. split; [now apply Nat.ltb_lt|].
    apply negb_true_iff in B. now apply Nat.eqb_neq.
  Qed.

  (* ---- the exponential run length = min(D, number of leading draws < CR) *)
  Lemma exp_len_spec CR d : forall us L, exp_len N CR d us = Some L ->
    L <= d /\ (forall k, k < L -> ltb N (nth k us (zero N)) CR = true)
    /\ (L < d -> ltb N (nth L us (zero N)) CR = false).
  Proof.
    induction d as [|d IH]; intros us L H; destruct us as [|u r]; simpl in H; try discriminate.
    - injection H as <-. split; [lia|]. split; intros; lia.
    - destruct (ltb N u CR) eqn:E.
      + destruct (exp_len N CR d r) as [L'|] eqn:E'; simpl in H; [|discriminate].
        injection H as <-. destruct (IH r L' E') as (A & B & C).
        split; [lia|]. split.
        * intros k Hk. destruct k; simpl; [exact E|]. apply B; lia.
        * intros Hl. simpl. apply C; lia.
      + injection H as <-. split; [lia|]. split; [intros; lia|]. intros _. exact E.
  Qed.

  (* ---- the cyclic run n, n+1, ..., n+L-1 (mod D) *)
  Lemma in_run_spec D n L i : n < D -> i < D ->
    (in_run D n L i = true <-> exists k, k < L /\ k < D /\ i = (n + k) mod D).
  Proof.
    intros Hn Hi. unfold in_run. rewrite Nat.ltb_lt. split.
    - intros H. exists ((i + D - n) mod D). split; [exact H|]. split; [apply Nat.mod_upper_bound; lia|].
      destruct (le_lt_dec n i) as [G|G].
      + replace (i + D - n) with ((i - n) + 1 * D) by lia. rewrite Nat.mod_add by lia.
        rewrite (Nat.mod_small (i - n)) by lia. replace (n + (i - n)) with i by lia. now rewrite Nat.mod_small.
      + rewrite (Nat.mod_small (i + D - n)) by lia. replace (n + (i + D - n)) with (i + 1 * D) by lia.
        rewrite Nat.mod_add by lia. now rewrite Nat.mod_small.
    - intros (k & Hk & HkD & ->).
      destruct (le_lt_dec D (n + k)) as [G|G].
      + replace (n + k) with ((n + k - D) + 1 * D) by lia. rewrite Nat.mod_add by lia.
        rewrite (Nat.mod_small (n + k - D)) by lia. replace (n + k - D + D - n) with k by lia.
        now rewrite Nat.mod_small.
      + rewrite (Nat.mod_small (n + k)) by lia. replace (n + k + D - n) with (k + 1 * D) by lia.
        rewrite Nat.mod_add by lia. now rewrite Nat.mod_small.
  Qed.

  (* ---- shape of the trial vector *)
  Definition mutated (r : rule) (CR : T) (D n : nat) (us : list T) (i : nat) : Prop :=
    match r with
    | Exp => exists L, exp_len N CR D us = Some L /\ exists k, k < L /\ k < D /\ i = (n + k) mod D
    | Bin => i = n \/ ltb N (nth i us (zero N)) CR = true
    end.

  Theorem trial_shape r f pop best cand F CR rs n us t :
    trial_rule N r f pop best cand F CR rs n us = Some t ->
    let parent := pnth N pop cand in let D := length parent in
    length t = D /\ n < D
    /\ (length rs = nsample f /\ NoDup rs /\ forall m, In m rs -> m < length pop /\ m <> cand)
    /\ forall i, i < D ->
         (mutated r CR D n us i /\ nth i t (zero N) = mutant N f pop best parent F rs i)
         \/ (~ mutated r CR D n us i /\ nth i t (zero N) = vnth N parent i).
  Proof.
    unfold trial_rule. cbv zeta. intros H.
    set (parent := pnth N pop cand) in *. set (D := length parent) in *.
    destruct (sample_ok (length pop) cand (nsample f) rs) eqn:Es; simpl in H; [|discriminate].
    destruct (Nat.ltb n D) eqn:En; simpl in H; [|discriminate].
    apply Nat.ltb_lt in En. apply sample_ok_spec in Es.
    destruct r.
    - (* Bin *)
      destruct (Nat.ltb (length us) D) eqn:El; [discriminate|]. injection H as <-.
      split; [unfold build; now rewrite map_length, seq_length|]. split; [exact En|]. split; [exact Es|].
      intros i Hi. unfold build. rewrite nth_map_seq by exact Hi. unfold in_bin, mutated.
      destruct (Nat.eqb i n) eqn:E1; simpl.
      + left. split; [left; now apply Nat.eqb_eq|reflexivity].
      + destruct (ltb N (nth i us (zero N)) CR) eqn:E2.
        * left. split; [now right|reflexivity].
        * right. split; [|reflexivity]. intros [A|A]; [apply Nat.eqb_neq in E1; contradiction|congruence].
    - (* Exp *)
      destruct (exp_len N CR D us) as [L|] eqn:El; [|discriminate]. injection H as <-.
      split; [unfold build; now rewrite map_length, seq_length|]. split; [exact En|]. split; [exact Es|].
      intros i Hi. unfold build. rewrite nth_map_seq by exact Hi. unfold mutated.
      destruct (in_run D n L i) eqn:E1.
      + left. split; [|reflexivity]. exists L; split; [exact El|]. now apply in_run_spec.
      + right. split; [|reflexivity]. intros (L' & HL & Hk). rewrite El in HL. injection HL as <-.
        apply (in_run_spec D n L i En Hi) in Hk. congruence.
  Qed.

  (* ---- selection *)
  Lemma set_nth_length {A} c (v : A) l : length (set_nth c v l) = length l.
  Proof. revert c; induction l; destruct c; simpl; auto. Qed.
  Lemma set_nth_same {A} c (v : A) l d : c < length l -> nth c (set_nth c v l) d = v.
  Proof. revert c; induction l; destruct c; simpl; intros; try lia; auto. apply IHl; lia. Qed.
  Lemma set_nth_other {A} c c' (v : A) l d : c <> c' -> nth c' (set_nth c v l) d = nth c' l d.
  Proof. revert c c'; induction l; destruct c, c'; simpl; intros; try lia; auto. Qed.
  Lemma set_nth_oob {A} c (v : A) l : length l <= c -> set_nth c v l = l.
  Proof. revert c; induction l; destruct c; simpl; intros; try lia; auto. f_equal. apply IHl; lia. Qed.

  Variable cost : vec N -> option T.
  Notation dm := (@nil T, zero N).

  (* a member after the generation is the old one, or an evaluated trial of strictly lower energy *)
  Definition member_ok (old new : member N) : Prop :=
    new = old \/ exists tr e, new = (tr, e) /\ cost tr = Some e /\ ltb N e (snd old) = true.

  Lemma sel_step_pop c tr e st : cost tr = Some e ->
    length (de_pop N (sel_step N c tr e st)) = length (de_pop N st) /\
    member_ok (nth c (de_pop N st) dm) (nth c (de_pop N (sel_step N c tr e st)) dm) /\
    forall c', c' <> c -> nth c' (de_pop N (sel_step N c tr e st)) dm = nth c' (de_pop N st) dm.
  Proof.
    intros Hc. unfold sel_step.
    destruct (ltb N e (snd (nth c (de_pop N st) dm))) eqn:E; simpl.
    - split; [apply set_nth_length|]. split.
      + destruct (le_lt_dec (length (de_pop N st)) c) as [G|G].
        * rewrite set_nth_oob by exact G. now left.
        * rewrite set_nth_same by exact G. right. exists tr, e. auto.
      + intros c' Hne. apply set_nth_other. congruence.
    - split; [reflexivity|]. split; [now left|]. reflexivity.
  Qed.

  (* only transitivity of "strictly lower" is needed: IEEE comparison has it also in the presence of NaN energies (a NaN is never
     strictly lower than anything, nor anything than it) *)
  Hypothesis Htrans : forall x y z : T, ltb N x y = true -> ltb N y z = true -> ltb N x z = true.

  Lemma member_ok_trans a b c : member_ok a b -> member_ok b c -> member_ok a c.
  Proof.
    intros [->|(tr & e & -> & H1 & H2)] H; [exact H|].
    destruct H as [->|(tr' & e' & -> & H3 & H4)].
    - right. exists tr, e. auto.
    - right. exists tr', e'. split; [reflexivity|]. split; [exact H3|].
      simpl in H4. exact (Htrans _ _ _ H4 H2).
  Qed.

  Lemma sel_step_best c tr e st : cost tr = Some e -> member_ok (de_best N st) (de_best N (sel_step N c tr e st)).
  Proof.
    intros Hc. unfold sel_step. destruct (ltb N e (snd (nth c (de_pop N st) dm))); simpl; [|now left].
    destruct (ltb N e (snd (de_best N st))) eqn:E; [|now left]. right. exists tr, e. auto.
  Qed.

  Definition gen_ok (st st' : destate N) : Prop :=
    length (de_pop N st') = length (de_pop N st)
    /\ (forall c, member_ok (nth c (de_pop N st) dm) (nth c (de_pop N st') dm))
    /\ member_ok (de_best N st) (de_best N st').

  Lemma gen_ok_refl st : gen_ok st st.
  Proof. split; [reflexivity|]. split; [intros; now left|now left]. Qed.

  Lemma gen_ok_step c tr e st st' : cost tr = Some e -> gen_ok (sel_step N c tr e st) st' -> gen_ok st st'.
  Proof.
    intros Hc (L & M & B). destruct (sel_step_pop c tr e st Hc) as (L1 & M1 & O1).
    split; [congruence|]. split.
    - intros c'. destruct (Nat.eq_dec c' c) as [->|Hne].
      + eapply member_ok_trans; [exact M1|apply M].
      + specialize (M c'). rewrite (O1 c' Hne) in M. exact M.
    - eapply member_ok_trans; [apply sel_step_best; exact Hc|exact B].
  Qed.

  Lemma sel_all_ok : forall trs c st, Forall (fun m => cost (fst m) = Some (snd m)) trs -> gen_ok st (sel_all N c trs st).
  Proof.
    induction trs as [|[tr e] r IH]; intros c st HF; simpl; [apply gen_ok_refl|].
    inversion HF as [|? ? H1 H2]; subst. simpl in H1.
    eapply gen_ok_step; [exact H1|]. apply IH. exact H2.
  Qed.

  Lemma de2_trials_spec s F CR st : forall ds c trs, de2_trials N cost s F CR st c ds = Some trs ->
    length trs = length ds /\ Forall (fun m => cost (fst m) = Some (snd m)) trs
    /\ forall k, k < length ds -> trial_of N s F CR st (c + k) (nth k ds ([], 0, [])) = Some (fst (nth k trs dm)).
  Proof.
    induction ds as [|d r IH]; intros c trs H; simpl in H.
    - injection H as <-. split; [reflexivity|]. split; [constructor|]. simpl; intros; lia.
    - destruct (trial_of N s F CR st c d) as [tr|] eqn:Et; [|discriminate].
      destruct (cost tr) as [e|] eqn:Ec; [|discriminate].
      destruct (de2_trials N cost s F CR st (S c) r) as [l|] eqn:El; [|discriminate].
      injection H as <-. destruct (IH (S c) l El) as (A & B & C).
      split; [simpl; congruence|]. split; [constructor; [exact Ec|exact B]|].
      intros k Hk. destruct k; simpl.
      + rewrite Nat.add_0_r. exact Et.
      + replace (c + S k) with (S c + k) by lia. apply C. simpl in Hk. lia.
  Qed.

  Theorem de2_gen_ok s F CR ds st st' : de2_gen N cost s F CR ds st = Some st' -> gen_ok st st'.
  Proof.
    unfold de2_gen. destruct (Nat.eqb (length ds) (length (de_pop N st))); [|discriminate].
    destruct (de2_trials N cost s F CR st 0 ds) as [trs|] eqn:E; simpl; [|discriminate].
    intros H; injection H as <-. apply sel_all_ok. now destruct (de2_trials_spec s F CR st ds 0 trs E) as (_ & B & _).
  Qed.

  Lemma de1_loop_ok s F CR : forall ds c st st', de1_loop N cost s F CR c ds st = Some st' -> gen_ok st st'.
  Proof.
    induction ds as [|d r IH]; intros c st st' H; simpl in H.
    - injection H as <-. apply gen_ok_refl.
    - destruct (trial_of N s F CR st c d) as [tr|] eqn:Et; [|discriminate].
      destruct (cost tr) as [e|] eqn:Ec; [|discriminate].
      eapply gen_ok_step; [exact Ec|]. eapply IH. exact H.
  Qed.

  Theorem de1_gen_ok s F CR ds st st' : de1_gen N cost s F CR ds st = Some st' -> gen_ok st st'.
  Proof.
    unfold de1_gen. destruct (Nat.eqb (length ds) (length (de_pop N st))); [|discriminate]. apply de1_loop_ok.
  Qed.
End Proofs.

(* ---- names vs. code *)
Lemma coded_rule_matches_name_partial s :
  In s [Best1Exp; Best1Bin; Rand1Exp; RandToBest1Exp; Best2Exp; Rand2Exp] -> coded_rule s = named_rule s.
Proof. intros H; repeat (destruct H as [<-|H]; [reflexivity|]); destruct H. Qed.

Lemma coded_rule_bin_named_exp s :
  In s [Rand1Bin; RandToBest1Bin; Best2Bin; Rand2Bin] -> named_rule s = Bin /\ coded_rule s = Exp.
Proof. intros H; repeat (destruct H as [<-|H]; [split; reflexivity|]); destruct H. Qed.

(* "a strategy named ...Bin forms its trial by the binomial rule" is false of the code's behaviour *)
Definition bin_named_strategies_are_binomial : Prop :=
  forall s pop best cand F CR rs n us, named_rule s = Bin ->
    trial NumQ s pop best cand F CR rs n us = trial_rule NumQ Bin (family_of s) pop best cand F CR rs n us.

Lemma bin_named_strategies_are_binomial_refuted : ~ bin_named_strategies_are_binomial.
Proof.
  intros H.
  specialize (H Rand1Bin [[0;0;0]; [1;1;1]; [2;4;8]; [3;3;3]]%Q [0;0;0]%Q 0 (1#2)%Q (1#2)%Q [1;2;3] 0
                [(3#4); (1#4); (1#4); (1#4)]%Q eq_refl).
  vm_compute in H. discriminate H.
Qed.
