(* C07 - results depend only on configuration, not on the order of the Set* calls, nor on the order in which a map
   evaluates its work items. *)
From Coq Require Import List ZArith Bool Lia Permutation.
From MV Require Import Common.Num Core.Machine Core.Machine_Proofs.
Import ListNotations.
Open Scope Z_scope.

Section Config.
  Variable N : Num.
  Variable inf : T N.
  Variables C I : Type.
  Variable A : algo N C I.
  Notation sys := (sys N).
  Notation op := (op N I).

  (* algorithms whose Finalize only clears the live flag (both DE solvers, Nelder-Mead) *)
  Hypothesis Hfin : forall s c, a_finalize N C I A s c = (c, []).
  (* installing a population does not touch the algorithm's private energy history (Powell) *)
  Hypothesis Hpop : forall c p, a_ehist_extra N C I A (a_set_pop N C I A c p) = a_ehist_extra N C I A c.

  Inductive kind := KObj | KPen | KCons | KBox | KRed | KLim | KTerm | KEmon | KSmon | KPop | KOther.
  Definition kind_of (o : op) : kind :=
    match o with
    | OSetObjective _ => KObj | OSetPenalty _ => KPen | OSetConstraints _ => KCons | OSetStrictRanges _ => KBox
    | OSetReducer _ => KRed | OSetLimits _ _ _ => KLim | OSetTermination _ => KTerm | OSetEvalMonitor _ => KEmon
    | OSetPopulation _ => KPop | _ => KOther   (* replacing the generation monitor is not a setting: it resets the iteration count *)
    end.
  Definition is_cfg (o : op) : Prop := kind_of o <> KOther.

  Lemma finalize_trivial s c : finalize N C I A s c = (set_live N s false, c).
  Proof.
    unfold finalize. rewrite Hfin. cbn [fst snd]. rewrite app_nil_r. destruct s; reflexivity.
  Qed.

  Definition cfg_step (sc : sys * C) (o : op) : sys * C := fst (apply N inf C I A sc o).

  (* two configuration calls for different settings commute, from any state *)
  Lemma cfg_commute sc o1 o2 :
    is_cfg o1 -> is_cfg o2 -> kind_of o1 <> kind_of o2 ->
    cfg_step (cfg_step sc o1) o2 = cfg_step (cfg_step sc o2) o1.
  Proof.
    destruct sc as [s c]. intros H1 H2 Hk. unfold cfg_step.
    destruct o1; try (exfalso; apply H1; reflexivity);
    destruct o2; try (exfalso; apply H2; reflexivity); try (exfalso; apply Hk; reflexivity);
      cbn [apply fst snd]; unfold fin; cbn [fst snd];
      try (destruct (a_cons_finalizes N C I A));
      repeat (rewrite finalize_trivial; cbn [fst snd]);
      destruct s; try reflexivity;
      unfold set_evaluation_limits, generations, energy_history; cbn; rewrite ?Hpop; reflexivity.
  Qed.

  Lemma cfg_run_perm : forall l1 l2, Permutation l1 l2 ->
    Forall is_cfg l1 -> NoDup (map kind_of l1) ->
    forall sc, fold_left cfg_step l1 sc = fold_left cfg_step l2 sc.
  Proof.
    induction 1 as [|x l l' Hp IH|x y l|l l' l'' Hp1 IH1 Hp2 IH2]; intros Hc Hn sc; simpl; auto.
    - inversion Hc; subst. inversion Hn; subst. apply IH; auto.
    - inversion Hc as [|? ? Hy Hc']; subst. inversion Hc' as [|? ? Hx Hl]; subst.
      inversion Hn as [|? ? Hny Hn']; subst. f_equal.
      apply cfg_commute; auto. intros E. apply Hny. simpl. left. auto.
    - rewrite IH1; auto. apply IH2.
      + eapply Permutation_Forall; eauto.
      + eapply Permutation_NoDup; [apply Permutation_map; exact Hp1|exact Hn].
  Qed.

  (* the trajectory of any subsequent operations is the same whatever the order of the configuration calls *)
  Theorem config_order_irrelevant (cfg1 cfg2 rest : list op) (sc : sys * C) :
    Permutation cfg1 cfg2 -> Forall is_cfg cfg1 -> NoDup (map kind_of cfg1) ->
    run N inf C I A sc (cfg1 ++ rest) = run N inf C I A sc (cfg2 ++ rest) /\
    trace N inf C I A (run N inf C I A sc cfg1) rest = trace N inf C I A (run N inf C I A sc cfg2) rest.
  Proof.
    intros Hp Hc Hn. unfold run. rewrite !fold_left_app.
    assert (E : fold_left (fun sc o => fst (apply N inf C I A sc o)) cfg1 sc =
                fold_left (fun sc o => fst (apply N inf C I A sc o)) cfg2 sc).
    { apply (cfg_run_perm cfg1 cfg2 Hp Hc Hn sc). }
    rewrite E. auto.
  Qed.
End Config.

(* the same for algorithms whose Finalize is trivial only on the states that satisfy an invariant G of the algorithm state which the
   configuration calls preserve (Powell: nothing pending to be logged, true of every solver that has not been stepped yet) *)
Section ConfigInv.
  Variable N : Num.
  Variable inf : T N.
  Variables C I : Type.
  Variable A : algo N C I.
  Notation sys := (sys N).
  Notation op := (op N I).
  Variable G : C -> Prop.
  Hypothesis HfinG : forall s c, G c -> a_finalize N C I A s c = (c, []).
  Hypothesis HpopG : forall c p, G c -> G (a_set_pop N C I A c p).
  Hypothesis Hpop : forall c p, a_ehist_extra N C I A (a_set_pop N C I A c p) = a_ehist_extra N C I A c.

  Lemma finalize_trivial_G s c : G c -> finalize N C I A s c = (set_live N s false, c).
  Proof.
    intros HG. unfold finalize. rewrite (HfinG s c HG). cbn [fst snd]. rewrite app_nil_r. destruct s; reflexivity.
  Qed.

  Notation cstep := (cfg_step N inf C I A).

  Lemma cfg_step_G sc o : is_cfg N I o -> G (snd sc) -> G (snd (cstep sc o)).
  Proof.
    destruct sc as [s c]. intros Ho HG. cbn [snd] in HG. unfold cfg_step.
    destruct o; try (exfalso; apply Ho; reflexivity); cbn [apply fst snd]; unfold fin; cbn [fst snd];
      try (destruct (a_cons_finalizes N C I A)); rewrite ?(finalize_trivial_G _ _ HG); cbn [fst snd]; auto.
  Qed.

  Lemma cfg_commute_G sc o1 o2 : G (snd sc) ->
    is_cfg N I o1 -> is_cfg N I o2 -> kind_of N I o1 <> kind_of N I o2 ->
    cstep (cstep sc o1) o2 = cstep (cstep sc o2) o1.
  Proof.
    destruct sc as [s c]. intros HG H1 H2 Hk. cbn [snd] in HG. unfold cfg_step.
    assert (HGp : forall p, G (a_set_pop N C I A c p)) by (intros p; apply HpopG; exact HG).
    destruct o1; try (exfalso; apply H1; reflexivity);
    destruct o2; try (exfalso; apply H2; reflexivity); try (exfalso; apply Hk; reflexivity);
      cbn [apply fst snd]; unfold fin; cbn [fst snd];
      try (destruct (a_cons_finalizes N C I A));
      repeat (first [rewrite (finalize_trivial_G _ _ HG) | rewrite (finalize_trivial_G _ _ (HGp _))]; cbn [fst snd]);
      destruct s; try reflexivity;
      unfold set_evaluation_limits, generations, energy_history; cbn; rewrite ?Hpop; reflexivity.
  Qed.

  Lemma cfg_fold_G : forall l sc, Forall (is_cfg N I) l -> G (snd sc) -> G (snd (fold_left cstep l sc)).
  Proof.
    induction l as [|o l IH]; intros sc Hc HG; simpl; auto.
    inversion Hc; subst. apply IH; auto. apply cfg_step_G; auto.
  Qed.

  Lemma cfg_run_perm_G : forall l1 l2, Permutation l1 l2 ->
    Forall (is_cfg N I) l1 -> NoDup (map (kind_of N I) l1) ->
    forall sc, G (snd sc) -> fold_left cstep l1 sc = fold_left cstep l2 sc.
  Proof.
    induction 1 as [|x l l' Hp IH|x y l|l l' l'' Hp1 IH1 Hp2 IH2]; intros Hc Hn sc HG; simpl; auto.
    - inversion Hc; subst. inversion Hn; subst. apply IH; auto. apply cfg_step_G; auto.
    - inversion Hc as [|? ? Hy Hc']; subst. inversion Hc' as [|? ? Hx Hl]; subst.
      inversion Hn as [|? ? Hny Hn']; subst. f_equal.
      apply cfg_commute_G; auto. intros E. apply Hny. simpl. left. auto.
    - rewrite IH1; auto. apply IH2; auto.
      + eapply Permutation_Forall; eauto.
      + eapply Permutation_NoDup; [apply Permutation_map; exact Hp1|exact Hn].
  Qed.

  Theorem config_order_irrelevant_G (cfg1 cfg2 rest : list op) (sc : sys * C) : G (snd sc) ->
    Permutation cfg1 cfg2 -> Forall (is_cfg N I) cfg1 -> NoDup (map (kind_of N I) cfg1) ->
    run N inf C I A sc (cfg1 ++ rest) = run N inf C I A sc (cfg2 ++ rest) /\
    trace N inf C I A (run N inf C I A sc cfg1) rest = trace N inf C I A (run N inf C I A sc cfg2) rest.
  Proof.
    intros HG Hp Hc Hn. unfold run. rewrite !fold_left_app.
    assert (E : fold_left (fun sc o => fst (apply N inf C I A sc o)) cfg1 sc =
                fold_left (fun sc o => fst (apply N inf C I A sc o)) cfg2 sc).
    { apply (cfg_run_perm_G cfg1 cfg2 Hp Hc Hn sc HG). }
    rewrite E. auto.
  Qed.
End ConfigInv.

(* ---- the order in which a map evaluates its work items ---- *)
Section Schedule.
  Variable N : Num.
  Variable inf : T N.
  Notation sys := (sys N).
  Notation vec := (vec N).

  (* evaluate a list of points one after the other (what any in-process map does, in its own order) *)
  Fixpoint eval_list (s : sys) (xs : list vec) : sys * list (vec * T N) :=
    match xs with
    | [] => (s, [])
    | x :: r => let se := objective N inf false s x in
                let rr := eval_list (fst se) r in (fst rr, (x, snd se) :: snd rr)
    end.

  (* the energy of a point depends only on the configuration, not on what was evaluated before *)
  Definition cfg_eq (s s' : sys) : Prop :=
    box N s' = box N s /\ u_raw N s' = u_raw N s /\ u_pen N s' = u_pen N s /\ u_red N s' = u_red N s /\ u_cons N s' = u_cons N s.

  Lemma objective_energy_cfg s s' x : cfg_eq s s' ->
    snd (objective N inf false s' x) = snd (objective N inf false s x).
  Proof.
    intros (Hb & Hr & Hp & Hd & _). unfold objective. cbv zeta. cbn [snd].
    unfold energy_of. rewrite Hb, Hr, Hp, Hd. reflexivity.
  Qed.

  Lemma objective_keeps_cfg s x : cfg_eq s (fst (objective N inf false s x)).
  Proof.
    destruct (objective_cfg N inf false s x) as (Hb & Hc & Hr & Hp & Hd & _). unfold cfg_eq. auto.
  Qed.

  Lemma cfg_eq_trans a b c : cfg_eq a b -> cfg_eq b c -> cfg_eq a c.
  Proof. unfold cfg_eq. intros (A1 & A2 & A3 & A4 & A5) (B1 & B2 & B3 & B4 & B5). repeat split; congruence. Qed.
  Lemma cfg_eq_refl a : cfg_eq a a.
  Proof. unfold cfg_eq. auto. Qed.

  Lemma eval_list_cfg : forall xs s, cfg_eq s (fst (eval_list s xs)).
  Proof.
    induction xs as [|x r IH]; intros s; simpl; [apply cfg_eq_refl|].
    eapply cfg_eq_trans; [apply objective_keeps_cfg|apply IH].
  Qed.

  (* every work item gets the energy it would get if evaluated first, whatever came before *)
  Lemma eval_list_energies : forall xs s s0, cfg_eq s0 s ->
    snd (eval_list s xs) = map (fun x => (x, snd (objective N inf false s0 x))) xs.
  Proof.
    induction xs as [|x r IH]; intros s s0 H; simpl; auto. f_equal.
    - f_equal. apply objective_energy_cfg. exact H.
    - apply IH. eapply cfg_eq_trans; [exact H|apply objective_keeps_cfg].
  Qed.

  (* number of real calls made by evaluating a list: one per in-box point, in any order *)
  Lemma eval_list_ncalls_b : forall xs s b, box N s = b ->
    length (calls N (fst (eval_list s xs))) =
    (length (calls N s) + length (filter (fun x => negb (outside N b x)) xs))%nat.
  Proof.
    induction xs as [|x r IH]; intros s b Hbx; cbn [eval_list fst filter]; [simpl; lia|].
    destruct (objective_cfg N inf false s x) as (Hb & _). cbv zeta in Hb.
    rewrite (IH (fst (objective N inf false s x)) b) by congruence.
    destruct (objective_core N inf false s x) as [Hc|(c & y & e & Ho & Hce & Hcalls & _)].
    - apply (core_eq N) in Hc as (E & _). rewrite E.
      assert (Ho : outside N b x = true).
      { subst b. unfold objective in E. cbv zeta in E. destruct (outside N (box N s) x) eqn:Ho; auto. exfalso.
        revert E. destruct (energy_of N s _); simpl; intros E; apply (f_equal (@length _)) in E;
          rewrite app_length in E; simpl in E; lia. }
      rewrite Ho. simpl. lia.
    - rewrite Hcalls, app_length. subst c b. rewrite Ho. simpl. lia.
  Qed.
  Lemma eval_list_ncalls xs s :
    length (calls N (fst (eval_list s xs))) =
    (length (calls N s) + length (filter (fun x => negb (outside N (box N s) x)) xs))%nat.
  Proof. apply eval_list_ncalls_b. reflexivity. Qed.

  (* schedule irrelevance: a map that evaluates the work items in ANY order pi returns, item by item, the same energies,
     and makes the same number of real calls (hence DE2's selection, population, best and counters do not depend on pi) *)
  Theorem schedule_irrelevant (s : sys) (xs pxs : list vec) :
    Permutation xs pxs ->
    (forall x, In x xs -> In (x, snd (objective N inf false s x)) (snd (eval_list s pxs))) /\
    snd (eval_list s xs) = map (fun x => (x, snd (objective N inf false s x))) xs /\
    length (calls N (fst (eval_list s pxs))) = length (calls N (fst (eval_list s xs))).
  Proof.
    intros Hp. repeat split.
    - intros x Hin. rewrite (eval_list_energies pxs s s (cfg_eq_refl s)).
      apply in_map_iff. exists x. split; auto. eapply Permutation_in; eauto.
    - apply eval_list_energies. apply cfg_eq_refl.
    - rewrite !eval_list_ncalls. f_equal.
      apply Permutation_length. apply Permutation_sym.
      clear -Hp. induction Hp; simpl; auto.
      + destruct (negb _); auto.
      + destruct (negb (outside N (box N s) y)), (negb (outside N (box N s) x)); auto. apply perm_swap.
      + eapply perm_trans; eauto.
  Qed.
End Schedule.
