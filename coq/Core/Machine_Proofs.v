(* Invariants of the solver machine that hold for EVERY algorithm program, every user cost / constraints / penalty,
   every oracle input and every sequence of API operations. *)
From Coq Require Import List ZArith Bool Lia.
From MV Require Import Common.Num Core.Machine.
Import ListNotations.
Open Scope Z_scope.

Section Proofs.
  Variable N : Num.
  Variable inf : T N.
  Notation E := (T N).
  Notation vec := (vec N).
  Notation sys := (sys N).
  Notation call := (call N).
  Notation prog := (prog N).
  Variables C I : Type.
  Variable A : algo N C I.

  Definition call_xy (c : call) : vec * yval N := (c_x N c, c_y N c).

  (* the part of the system state that only evaluations (and monitor installation) change *)
  Definition core (s : sys) := (calls N s, fcalls N s, evalmon N s, emon_on N s).

  (* ---------- invariants ---------- *)
  (* C02: every real call was made inside the box in force at that moment *)
  Definition Inv_box (s : sys) : Prop := Forall (fun c => outside N (c_box N c) (c_x N c) = false) (calls N s).
  (* C04: the counter is the number of real calls *)
  Definition Inv_cnt (s : sys) : Prop := fcalls N s = Z.of_nat (length (calls N s)).
  (* C04: the evaluation monitor holds the most recent real calls, in call order *)
  Definition Inv_emon (s : sys) : Prop :=
    (emon_on N s = false -> evalmon N s = []) /\ exists pre, map call_xy (calls N s) = pre ++ evalmon N s.
  (* C03 (solvers that nest the constraints in the objective): every evaluated point is an output of the constraints in force *)
  Definition Inv_cons (s : sys) : Prop := Forall (fun c => exists x, c_x N c = c_cons N c x) (calls N s).

  Definition counter_faithful : Prop := forall s0 s1 c, a_fix_counter N C I A s0 s1 c = fcalls N s1.

  (* ---------- one evaluation ---------- *)
  Lemma objective_core nested s x :
    core (fst (objective N inf nested s x)) = core s \/
    exists c y e, outside N (box N s) c = false /\ c = (if nested then u_cons N s x else x) /\
      calls N (fst (objective N inf nested s x)) =
        calls N s ++ [{| c_x := c; c_y := y; c_e := e; c_box := box N s; c_cons := u_cons N s |}] /\
      fcalls N (fst (objective N inf nested s x)) = fcalls N s + 1 /\
      evalmon N (fst (objective N inf nested s x)) = (if emon_on N s then evalmon N s ++ [(c, y)] else evalmon N s) /\
      emon_on N (fst (objective N inf nested s x)) = emon_on N s /\ snd (objective N inf nested s x) = e.
  Proof.
    unfold objective. cbv zeta.
    set (c := if nested then u_cons N s x else x).
    destruct (outside N (box N s) c) eqn:Ho.
    - left. destruct (energy_of N s (yadd N (YS N inf) (u_pen N s c))); reflexivity.
    - right. exists c, (u_raw N s c).
      destruct (energy_of N s (yadd N (u_raw N s c) (u_pen N s c))) as [e|];
        eexists; repeat split; try reflexivity; auto.
  Qed.

  Lemma core_eq s s' : core s' = core s ->
    calls N s' = calls N s /\ fcalls N s' = fcalls N s /\ evalmon N s' = evalmon N s /\ emon_on N s' = emon_on N s.
  Proof. unfold core. intros H. injection H as H1 H2 H3 H4. auto. Qed.

  Lemma objective_box nested s x : Inv_box s -> Inv_box (fst (objective N inf nested s x)).
  Proof.
    intros H. destruct (objective_core nested s x) as [Hc|(c & y & e & Ho & _ & Hcalls & _)].
    - apply core_eq in Hc as (E & _). unfold Inv_box. rewrite E. exact H.
    - unfold Inv_box. rewrite Hcalls. apply Forall_app. split; auto.
  Qed.

  Lemma objective_cnt nested s x : Inv_cnt s -> Inv_cnt (fst (objective N inf nested s x)).
  Proof.
    intros H. destruct (objective_core nested s x) as [Hc|(c & y & e & _ & _ & Hcalls & Hf & _)].
    - apply core_eq in Hc as (E1 & E2 & _). unfold Inv_cnt. rewrite E1, E2. exact H.
    - unfold Inv_cnt in *. rewrite Hcalls, Hf, app_length, H. simpl. lia.
  Qed.

  Lemma objective_emon nested s x : Inv_emon s -> Inv_emon (fst (objective N inf nested s x)).
  Proof.
    intros [H0 [pre H]]. destruct (objective_core nested s x) as [Hc|(c & y & e & _ & _ & Hcalls & _ & Hm & Hon & _)].
    - apply core_eq in Hc as (E1 & _ & E3 & E4). unfold Inv_emon. rewrite E1, E3, E4. eauto.
    - unfold Inv_emon. rewrite Hcalls, Hm, Hon. destruct (emon_on N s) eqn:On.
      + split; [discriminate|]. exists pre. rewrite map_app, H, <- app_assoc. reflexivity.
      + split; [auto|]. rewrite (H0 eq_refl) in *.
        eexists. rewrite app_nil_r. reflexivity.
  Qed.

  Lemma objective_cons s x : Inv_cons s -> Inv_cons (fst (objective N inf true s x)).
  Proof.
    intros H. destruct (objective_core true s x) as [Hc|(c & y & e & _ & Hce & Hcalls & _)].
    - apply core_eq in Hc as (E & _). unfold Inv_cons. rewrite E. exact H.
    - unfold Inv_cons. rewrite Hcalls. apply Forall_app. split; auto.
      constructor; [|constructor]. simpl. exists x. exact Hce.
  Qed.

  (* the user functions and the box are not changed by an evaluation *)
  Lemma objective_cfg nested s x :
    let s' := fst (objective N inf nested s x) in
    box N s' = box N s /\ u_cons N s' = u_cons N s /\ u_raw N s' = u_raw N s /\ u_pen N s' = u_pen N s /\
    u_red N s' = u_red N s /\ stepmon N s' = stepmon N s.
  Proof.
    unfold objective. cbv zeta.
    destruct (outside N (box N s) _); destruct (energy_of N s _); simpl; auto 10.
  Qed.

  (* ---------- programs ---------- *)
  Lemma run_prog_inv (P : sys -> Prop) nested
        (Hobj : forall s x, P s -> P (fst (objective N inf nested s x))) :
    forall R (p : prog R) s, P s -> P (fst (run_prog inf nested s p)).
  Proof.
    induction p as [r|x k IH|x k IH]; intros s H; simpl; auto.
    - apply IH. apply Hobj. exact H.
  Qed.

  Lemma run_prog_cfg nested R (p : prog R) : forall s,
    let s' := fst (run_prog inf nested s p) in
    box N s' = box N s /\ u_cons N s' = u_cons N s /\ stepmon N s' = stepmon N s.
  Proof.
    induction p as [r|x k IH|x k IH]; intros s; simpl; auto.
    - destruct (objective_cfg nested s x) as (Hb & Hc & _ & _ & _ & Hs).
      destruct (IH (snd (objective N inf nested s x)) (fst (objective N inf nested s x))) as (Hb' & Hc' & Hs').
      simpl in *. rewrite Hb', Hc', Hs'. auto.
  Qed.

  (* ---------- the non-evaluating parts of Step ---------- *)
  Lemma core_resolve s c : core (resolve_limits N C I A s c) = core s.
  Proof. reflexivity. Qed.
  Lemma core_terminated s c : core (fst (terminated N C I A s c)) = core s.
  Proof. reflexivity. Qed.
  Lemma core_bootstrap s c i : core (fst (bootstrap N C I A s c i)) = core s.
  Proof. unfold bootstrap. destruct (live N s); reflexivity. Qed.
  Lemma core_finalize s c : core (fst (finalize N C I A s c)) = core s.
  Proof. reflexivity. Qed.

  Definition core_pred (Q : list call * Z * list (vec * yval N) * bool -> Prop) (s : sys) : Prop := Q (core s).

  (* Step preserves every invariant of the core that evaluations preserve and that does not mention the counter,
     and the counter invariant when the algorithm does not recompute the counter *)
  (* Step and the counter / the evaluation monitor *)
  Lemma step_core_prog (P : sys -> Prop)
        (Hcore : forall s s', core s' = core s -> P s -> P s')
        (Hprog : forall s c i, P s -> P (fst (run_prog inf (a_nested N C I A) s (a_step N C I A s c i))))
        (Hfix : forall s0 s1 c, P s1 -> P (set_fcalls N s1 (a_fix_counter N C I A s0 s1 c))) :
    forall s c i, P s -> P (fst (fst (step N inf C I A s c i))).
  Proof.
    intros s c i H. unfold step. cbv zeta.
    set (sc := bootstrap N C I A s c i).
    assert (H1 : P (fst sc)) by (apply (Hcore s); [apply core_bootstrap|exact H]).
    set (pre := match stepmon N (fst sc) with [] => (fst sc, MNone) | _ => terminated N C I A (fst sc) (snd sc) end).
    assert (H2 : P (fst pre)).
    { subst pre. destruct (stepmon N (fst sc)); auto. apply (Hcore (fst sc)); auto. }
    destruct (snd pre) eqn:Hm; try exact H2.
    set (r := run_prog inf (a_nested N C I A) (fst pre) (a_step N C I A (fst pre) (snd sc) i)).
    assert (H3 : P (fst r)) by (apply Hprog; auto).
    set (s2' := set_fcalls N (fst r) (a_fix_counter N C I A (fst pre) (fst r) (fst (snd r)))).
    assert (H4 : P s2') by (apply Hfix; exact H3).
    set (s3 := set_stepmon N s2' (stepmon N s2' ++ snd (snd r))).
    assert (H5 : P s3) by (apply (Hcore s2'); [reflexivity|exact H4]).
    set (s4 := if has_cb N s3 then set_cblog N s3 (cblog N s3 ++ [fst (a_best N C I A (fst (snd r)))]) else s3).
    assert (H6 : P s4) by (subst s4; destruct (has_cb N s3); [apply (Hcore s3); [reflexivity|exact H5]|exact H5]).
    set (t1 := terminated N C I A s4 (fst (snd r))).
    assert (H7 : P (fst t1)) by (apply (Hcore s4); [reflexivity|exact H6]).
    set (fc := match snd t1 with MNone => (fst t1, fst (snd r)) | _ => finalize N C I A (fst t1) (fst (snd r)) end).
    assert (H8 : P (fst fc)).
    { subst fc. destruct (snd t1); auto; apply (Hcore (fst t1)); auto; reflexivity. }
    apply (Hcore (fst fc)); [reflexivity|exact H8].
  Qed.

  Lemma step_core_inv (P : sys -> Prop)
        (Hcore : forall s s', core s' = core s -> P s -> P s')
        (Hobj : forall s x, P s -> P (fst (objective N inf (a_nested N C I A) s x)))
        (Hfix : forall s0 s1 c, P s1 -> P (set_fcalls N s1 (a_fix_counter N C I A s0 s1 c))) :
    forall s c i, P s -> P (fst (fst (step N inf C I A s c i))).
  Proof.
    apply step_core_prog; auto. intros s c i H. apply run_prog_inv; auto.
  Qed.

  (* an invariant of the call log that the algorithm's program preserves holds after every operation sequence *)
  Theorem run_calls_prog (Q : list call -> Prop)
        (Hprog : forall s c i, Q (calls N s) -> Q (calls N (fst (run_prog inf (a_nested N C I A) s (a_step N C I A s c i))))) :
    forall ops sc, Q (calls N (fst sc)) -> Q (calls N (fst (run N inf C I A sc ops))).
  Proof.
    assert (Hcore : forall s s' : sys, core s' = core s -> Q (calls N s) -> Q (calls N s')).
    { intros s s' Hc H. apply core_eq in Hc as (E & _). now rewrite E. }
    assert (Hstep : forall s c i, Q (calls N s) -> Q (calls N (fst (fst (step N inf C I A s c i))))).
    { apply (step_core_prog (fun s => Q (calls N s))); auto. }
    assert (Hsolve : forall fuel s c is dflt, Q (calls N s) -> Q (calls N (fst (fst (fst (solve N inf C I A fuel s c is dflt)))))).
    { induction fuel as [|f IH]; intros s c is dflt H; simpl; auto.
      destruct (snd (step N inf C I A s c (hd dflt is))) eqn:Hm; simpl; auto. }
    unfold run. induction ops as [|o ops IH]; intros sc H; simpl; auto.
    apply IH. destruct sc as [s c]. cbn [fst] in H.
    destruct o; cbn [apply fst snd fin finalize]; auto.
    all: try (destruct (a_cons_finalizes N C I A); exact H).
  Qed.

  Lemma step_calls_inv (Q : list call -> Prop)
        (Hobj : forall s x, Q (calls N s) -> Q (calls N (fst (objective N inf (a_nested N C I A) s x)))) :
    forall s c i, Q (calls N s) -> Q (calls N (fst (fst (step N inf C I A s c i)))).
  Proof.
    apply (step_core_inv (fun s => Q (calls N s))).
    - intros s s' Hc H. apply core_eq in Hc as (E & _). now rewrite E.
    - exact Hobj.
    - intros s0 s1 c0 H. exact H.
  Qed.

  Theorem step_box s c i : Inv_box s -> Inv_box (fst (fst (step N inf C I A s c i))).
  Proof.
    apply (step_calls_inv (fun l => Forall (fun c => outside N (c_box N c) (c_x N c) = false) l)).
    intros s0 x. apply objective_box.
  Qed.

  Theorem step_cons s c i :
    a_nested N C I A = true -> Inv_cons s -> Inv_cons (fst (fst (step N inf C I A s c i))).
  Proof.
    intros Hn. apply (step_calls_inv (fun l => Forall (fun c => exists x, c_x N c = c_cons N c x) l)).
    intros s0 x. rewrite Hn. apply objective_cons.
  Qed.

  Theorem step_cnt (Hf : counter_faithful) s c i : Inv_cnt s -> Inv_cnt (fst (fst (step N inf C I A s c i))).
  Proof.
    apply step_core_inv.
    - intros s0 s' Hc. apply core_eq in Hc as (E1 & E2 & _). unfold Inv_cnt. now rewrite E1, E2.
    - intros s0 x. apply objective_cnt.
    - intros s0 s1 c0 H. rewrite Hf. exact H.
  Qed.

  Theorem step_emon s c i : Inv_emon s -> Inv_emon (fst (fst (step N inf C I A s c i))).
  Proof.
    apply step_core_inv.
    - intros s0 s' Hc. apply core_eq in Hc as (E1 & _ & E3 & E4). unfold Inv_emon. now rewrite E1, E3, E4.
    - intros s0 x. apply objective_emon.
    - intros s0 s1 c0 H. exact H.
  Qed.

  (* ---------- Solve and arbitrary operation sequences ---------- *)
  Lemma solve_inv (P : sys -> Prop) (Hstep : forall s c i, P s -> P (fst (fst (step N inf C I A s c i)))) :
    forall fuel s c is dflt, P s -> P (fst (fst (fst (solve N inf C I A fuel s c is dflt)))).
  Proof.
    induction fuel as [|f IH]; intros s c is dflt H; simpl; auto.
    destruct (snd (step N inf C I A s c (hd dflt is))) eqn:Hm; simpl; auto.
  Qed.

  Local Opaque solve step.
  Lemma apply_inv (P : sys -> Prop)
        (Hcore : forall s s', core s' = core s -> P s -> P s')
        (Hstep : forall s c i, P s -> P (fst (fst (step N inf C I A s c i))))
        (Hmon : forall (s : sys) (l : list (vec * yval N)), l = [] \/ l = evalmon N s -> P s -> P (set_evalmon N s l)) :
    forall sc o, P (fst sc) -> P (fst (fst (apply N inf C I A sc o))).
  Proof.
    intros [s c] o H. simpl in H.
    destruct o; simpl;
      try (apply (Hcore s); [reflexivity|exact H]);
      try (destruct (a_cons_finalizes N C I A); apply (Hcore s); [reflexivity|exact H| reflexivity|exact H]).
    - (* SetEvalMonitor *) apply Hmon; [destruct new; auto|]. apply (Hcore s); [reflexivity|exact H].
    - (* Step *) apply Hstep. apply (Hcore s); [reflexivity|exact H].
    - (* Solve *) apply solve_inv; auto. apply (Hcore s); [reflexivity|exact H].
  Qed.
  Local Transparent solve step.

  Lemma run_inv (P : sys -> Prop)
        (Happly : forall sc o, P (fst sc) -> P (fst (fst (apply N inf C I A sc o)))) :
    forall ops sc, P (fst sc) -> P (fst (run N inf C I A sc ops)).
  Proof.
    unfold run. induction ops as [|o ops IH]; intros sc H; simpl; auto.
  Qed.

  Lemma core_transfer_calls (Q : list call -> Prop) s s' : core s' = core s -> Q (calls N s) -> Q (calls N s').
  Proof. intros Hc. apply core_eq in Hc as (E & _). now rewrite E. Qed.

  (* C02: for every algorithm, every user function, every op sequence: no call outside the box in force *)
  Theorem never_outside_box : forall ops sc, Inv_box (fst sc) -> Inv_box (fst (run N inf C I A sc ops)).
  Proof.
    apply run_inv. apply apply_inv.
    - intros s s' Hc. apply (core_transfer_calls (fun l => Forall (fun c => outside N (c_box N c) (c_x N c) = false) l)); auto.
    - apply step_box.
    - intros s l _ H. exact H.
  Qed.

  (* C03 (nested solvers): every evaluated point is an output of the constraints in force when it was evaluated *)
  Theorem evaluated_points_constrained :
    a_nested N C I A = true ->
    forall ops sc, Inv_cons (fst sc) -> Inv_cons (fst (run N inf C I A sc ops)).
  Proof.
    intros Hn. apply run_inv. apply apply_inv.
    - intros s s' Hc. apply (core_transfer_calls (fun l => Forall (fun c => exists x, c_x N c = c_cons N c x) l)); auto.
    - intros s c i. apply step_cons; auto.
    - intros s l _ H. exact H.
  Qed.

  (* hence, for idempotent constraints, every evaluated point satisfies them *)
  Corollary evaluated_points_fixed_by_constraints :
    a_nested N C I A = true ->
    forall ops sc, Inv_cons (fst sc) ->
    Forall (fun c => (forall x, c_cons N c (c_cons N c x) = c_cons N c x) -> c_cons N c (c_x N c) = c_x N c)
           (calls N (fst (run N inf C I A sc ops))).
  Proof.
    intros Hn ops sc H. pose proof (evaluated_points_constrained Hn ops sc H) as K.
    unfold Inv_cons in K. rewrite Forall_forall in *. intros c Hin Hid.
    destruct (K c Hin) as [x ->]. apply Hid.
  Qed.

  (* C04: the counter equals the number of real calls after any op sequence *)
  Theorem counter_is_calls (Hf : counter_faithful) :
    forall ops sc, Inv_cnt (fst sc) -> Inv_cnt (fst (run N inf C I A sc ops)).
  Proof.
    apply run_inv. apply apply_inv.
    - intros s s' Hc. apply core_eq in Hc as (E1 & E2 & _). unfold Inv_cnt. now rewrite E1, E2.
    - apply step_cnt; auto.
    - intros s l _ H. exact H.
  Qed.

  (* C04: the evaluation monitor always holds the latest real calls in call order *)
  Theorem evalmon_is_recent_calls :
    forall ops sc, Inv_emon (fst sc) -> Inv_emon (fst (run N inf C I A sc ops)).
  Proof.
    apply run_inv. apply apply_inv.
    - intros s s' Hc. apply core_eq in Hc as (E1 & _ & E3 & E4). unfold Inv_emon. now rewrite E1, E3, E4.
    - apply step_emon.
    - intros s l Hl [H0 [pre H]]. unfold Inv_emon. simpl. split; [discriminate|].
      destruct Hl as [->| ->].
      + exists (map call_xy (calls N s)). now rewrite app_nil_r.
      + exists pre. exact H.
  Qed.

  Lemma init_invs t : let s := init_sys N inf t in Inv_box s /\ Inv_cnt s /\ Inv_emon s /\ Inv_cons s.
  Proof.
    unfold Inv_box, Inv_cnt, Inv_emon, Inv_cons. simpl. repeat split; auto. exists []. reflexivity.
  Qed.
End Proofs.

(* ---------- invariants relating the system and the algorithm state ---------- *)
Section Joint.
  Variable N : Num.
  Variable inf : T N.
  Variables C I : Type.
  Variable A : algo N C I.
  Notation sys := (sys N).

  Variable P : sys -> C -> Prop.
  Variable ok_in : I -> Prop.                      (* well-formed oracle inputs (e.g. one trial per member, no re-decoration) *)
  (* keep_cons = true: the invariant may mention the constraints function in force; SetConstraints is then not a clean operation *)
  Variable keep_cons : bool.
  (* keep_box = true: the invariant may mention the strict ranges in force; SetStrictRanges is then not a clean operation *)
  Variable keep_box : bool.
  Hypothesis Hcalls : forall s s' c, calls N s' = calls N s -> stepmon N s' = stepmon N s ->
    (keep_cons = true -> u_cons N s' = u_cons N s) -> (keep_box = true -> box N s' = box N s) -> P s c -> P s' c.
  Hypothesis Hdeco : forall s c i, ok_in i -> P s c -> P s (a_decorate N C I A s c i).
  Hypothesis Hstep : forall s c i, ok_in i -> P s c ->
    let r := run_prog inf (a_nested N C I A) s (a_step N C I A s c i) in
    P (set_stepmon N (fst r) (stepmon N (fst r) ++ snd (snd r))) (fst (snd r)).
  Hypothesis Hfin : forall s c, P s c ->
    P (set_stepmon N s (stepmon N s ++ snd (a_finalize N C I A s c))) (fst (a_finalize N C I A s c)).

  Lemma P_frame s s' c : calls N s' = calls N s -> stepmon N s' = stepmon N s -> u_cons N s' = u_cons N s -> box N s' = box N s ->
    P s c -> P s' c.
  Proof. intros H1 H2 H3 H4. apply Hcalls; auto. Qed.

  Lemma finalize_joint s c : P s c -> P (fst (finalize N C I A s c)) (snd (finalize N C I A s c)).
  Proof.
    intros H. unfold finalize. cbn [fst snd].
    apply (P_frame (set_stepmon N s (stepmon N s ++ snd (a_finalize N C I A s c)))); try reflexivity.
    apply Hfin. exact H.
  Qed.

  Theorem step_joint s c i : ok_in i -> P s c ->
    P (fst (fst (step N inf C I A s c i))) (snd (fst (step N inf C I A s c i))).
  Proof.
    intros Hi H. unfold step. cbv zeta.
    set (sc := bootstrap N C I A s c i).
    assert (H1 : P (fst sc) (snd sc)).
    { subst sc. unfold bootstrap. destruct (live N s); [exact H|]. cbn [fst snd].
      destruct (box N s).
      - apply (P_frame s); try reflexivity. apply Hdeco; auto.
      - apply (P_frame s); try reflexivity. exact H. }
    set (pre := match stepmon N (fst sc) with [] => (fst sc, MNone) | _ => terminated N C I A (fst sc) (snd sc) end).
    assert (H2 : P (fst pre) (snd sc)).
    { subst pre. destruct (stepmon N (fst sc)); auto. apply (P_frame (fst sc)); auto; reflexivity. }
    destruct (snd pre) eqn:Hm; try exact H2.
    set (r := run_prog inf (a_nested N C I A) (fst pre) (a_step N C I A (fst pre) (snd sc) i)).
    pose proof (Hstep (fst pre) (snd sc) i Hi H2) as H3. cbv zeta in H3. fold r in H3.
    set (s2' := set_fcalls N (fst r) (a_fix_counter N C I A (fst pre) (fst r) (fst (snd r)))).
    set (s3 := set_stepmon N s2' (stepmon N s2' ++ snd (snd r))).
    assert (H5 : P s3 (fst (snd r))) by (eapply P_frame; [| | | |exact H3]; reflexivity).
    set (s4 := if has_cb N s3 then set_cblog N s3 (cblog N s3 ++ [fst (a_best N C I A (fst (snd r)))]) else s3).
    assert (H6 : P s4 (fst (snd r))).
    { subst s4. destruct (has_cb N s3); [|exact H5]. eapply P_frame; [| | | |exact H5]; reflexivity. }
    set (t1 := terminated N C I A s4 (fst (snd r))).
    assert (H7 : P (fst t1) (fst (snd r))) by (eapply P_frame; [| | | |exact H6]; reflexivity).
    set (fc := match snd t1 with MNone => (fst t1, fst (snd r)) | _ => finalize N C I A (fst t1) (fst (snd r)) end).
    assert (H8 : P (fst fc) (snd fc)).
    { subst fc. destruct (snd t1); auto; apply finalize_joint; exact H7. }
    cbn [fst snd]. eapply P_frame; [| | | |exact H8]; reflexivity.
  Qed.

  Lemma solve_joint : forall fuel s c is dflt, Forall ok_in is -> ok_in dflt -> P s c ->
    let r := solve N inf C I A fuel s c is dflt in P (fst (fst (fst r))) (snd (fst (fst r))).
  Proof.
    induction fuel as [|f IH]; intros s c is dflt His Hd H; cbv zeta; simpl; auto.
    assert (Hi : ok_in (hd dflt is)) by (destruct is; simpl; auto; inversion His; auto).
    pose proof (step_joint s c (hd dflt is) Hi H) as K.
    destruct (snd (step N inf C I A s c (hd dflt is))) eqn:Hm; simpl; auto.
    apply IH; auto. destruct is; simpl; auto. inversion His; auto.
  Qed.

  (* operation sequences that never install a population after construction and only use well-formed oracle inputs *)
  Definition clean_op (o : op N I) : Prop :=
    match o with
    | OSetPopulation _ => False
    | OSetStepMonitor _ => False
    | OSetConstraints _ => keep_cons = false
    | OSetStrictRanges _ => keep_box = false
    | OSetRangesCons _ _ => keep_cons = false /\ keep_box = false
    | OStep _ i => ok_in i
    | OSolve _ is d => Forall ok_in is /\ ok_in d
    | _ => True
    end.

  Local Opaque solve step.
  Theorem apply_joint sc o : clean_op o -> P (fst sc) (snd sc) ->
    let r := apply N inf C I A sc o in P (fst (fst r)) (snd (fst r)).
  Proof.
    destruct sc as [s c]. intros Hc H. cbn [fst snd] in H. cbv zeta.
    destruct o; cbn [apply fst snd fin]; try contradiction;
      try (eapply P_frame; [| | | |apply finalize_joint; exact H]; reflexivity);
      try (eapply P_frame; [| | | |exact H]; reflexivity).
    - (* SetConstraints *) destruct (a_cons_finalizes N C I A).
      + eapply Hcalls; [| | | | apply finalize_joint; exact H]; try reflexivity; intros K; congruence.
      + eapply Hcalls; [| | | | exact H]; try reflexivity; intros K; congruence.
    - (* SetStrictRanges *) eapply Hcalls; [| | | | apply finalize_joint; exact H]; try reflexivity; intros K; congruence.
    - (* Step *) apply step_joint; [exact Hc|]. eapply P_frame; [| | | |exact H]; reflexivity.
    - (* Solve *) destruct Hc as [Hc1 Hc2]. apply solve_joint; auto. eapply P_frame; [| | | |exact H]; reflexivity.
    - (* SetStrictRanges, tight / clip: the constraints function changes too *)
      destruct Hc as [Hc1 Hc2]. eapply Hcalls; [| | | | apply finalize_joint; exact H]; try reflexivity; intros K; congruence.
  Qed.
  Local Transparent solve step.

  Theorem run_joint : forall ops sc, Forall clean_op ops -> P (fst sc) (snd sc) ->
    P (fst (run N inf C I A sc ops)) (snd (run N inf C I A sc ops)).
  Proof.
    unfold run. induction ops as [|o ops IH]; intros sc Hc H; simpl; auto.
    inversion Hc as [|? ? Ho Hops]; subst. apply IH; auto. apply apply_joint; auto.
  Qed.
End Joint.

