(* C09 - ensemble solvers (mystic/abstract_ensemble_solver.py, mystic/ensemble.py) and the point generators
   behind them (mystic/math/grid.py, mystic/math/samples.py).  Executable model, NO proofs in this file.

   The member solvers themselves (Nelder-Mead, Powell, ...) are ABSTRACT here: a member is represented by the
   observable result of its run (best solution, best energy, evaluation counter, log of evaluated points); the
   member solvers are the subject of C01-C05.  What is modelled line by line is what the ensemble does WITH its
   members: creation from the configured nested solver, the start-point generators, the reduction to the best
   member (__update_bestSolver / __update_state), the counters, and the map that runs the members. *)
From Coq Require Import List Arith ZArith Bool.
From MV Require Import Common.Num.
Import ListNotations.

(* ------------------------------------------------------------------------------------------------ *)
(** * 1. Grid points: mystic.math.grid.gridpts *)

Section Grid.
  Variable A : Type.

  (* specification model: lexicographic Cartesian product, FIRST axis slowest, LAST axis fastest
     (docstring: q = [[1,2],[3,4]] -> [[1,3],[1,4],[2,3],[2,4]]) *)
  Fixpoint gridpts (q : list (list A)) : list (list A) :=
    match q with
    | [] => [[]]
    | ax :: rest => flat_map (fun a => map (cons a) (gridpts rest)) ax
    end.

  (* the code as written.  Python:
       if not all(len(i) for i in q): return [] # empty axis, empty product
       w = [[] for i in range(len(q[-1]))]
       for j in range(len(q)-1,-1,-1):
         for k in range(len(q[j])):
           for l in range(k*len(w)//len(q[j]), (k+1)*len(w)//len(q[j])):
             w[l].append(q[j][k])
         if j: w += [i[:] for i in w[:]*(len(q[j-1])-1)]
       pts = [list(reversed(w[i])) for i in range(len(w))]                                    *)
  Fixpoint mapi_from {B C} (f : nat -> B -> C) (i : nat) (l : list B) : list C :=
    match l with [] => [] | x :: r => f i x :: mapi_from f (S i) r end.

  (* for l in range(lo, hi): w[l].append(v) *)
  Definition append_range (w : list (list A)) (lo hi : nat) (v : A) : list (list A) :=
    mapi_from (fun l wl => if (lo <=? l) && (l <? hi) then wl ++ [v] else wl) 0 w.

  (* for k in range(len(axis)): ...   (len(w) does not change inside this loop) *)
  Definition assign_axis (w : list (list A)) (axis : list A) : list (list A) :=
    let n := length axis in let m := length w in
    fold_left (fun w' kv => append_range w' (fst kv * m / n) (S (fst kv) * m / n) (snd kv))
              (combine (seq 0 n) axis) w.

  (* w += [copies of w] * (c - 1)   -- Python's list * (negative or zero) is the empty list *)
  Definition replicate_w (w : list (list A)) (c : nat) : list (list A) :=
    w ++ concat (repeat w (c - 1)).

  (* [rq] = the axes still to be processed, LAST axis first (the loop runs j = len(q)-1 .. 0) *)
  Fixpoint grid_loop (rq : list (list A)) (w : list (list A)) : list (list A) :=
    match rq with
    | [] => w
    | axis :: more =>
        let w1 := assign_axis w axis in
        match more with
        | [] => w1                                           (* j = 0: no replication *)
        | prev :: _ => grid_loop more (replicate_w w1 (length prev))
        end
    end.

  (* if not all(len(i) for i in q): return []     -- the guard runs first; with no axis at all it passes and
     q[-1] then raises IndexError (None) *)
  Definition gridpts_impl (q : list (list A)) : option (list (list A)) :=
    match rev q with
    | [] => None
    | last :: _ =>
        if forallb (fun ax => negb (Nat.eqb (length ax) 0)) q
        then Some (map (@rev A) (grid_loop (rev q) (repeat [] (length last))))
        else Some []                                             (* empty axis, empty product *)
    end.

  (* position of the point with per-axis indices [js] in [gridpts q] (mixed radix, last axis fastest) *)
  Fixpoint grid_rank (js dims : list nat) : nat :=
    match js, dims with
    | j :: js', _ :: ds' => j * fold_right Nat.mul 1 ds' + grid_rank js' ds'
    | _, _ => 0
    end.

  (* the point with per-axis indices js *)
  Fixpoint grid_point (d : A) (js : list nat) (q : list (list A)) : list A :=
    match js, q with
    | j :: js', ax :: q' => nth j ax d :: grid_point d js' q'
    | _, _ => []
    end.
End Grid.
Arguments gridpts {A}. Arguments gridpts_impl {A}. Arguments grid_point {A}.
Arguments mapi_from {B C}.

Definition prod_nat (l : list nat) : nat := fold_right Nat.mul 1 l.
Definition sum_nat (l : list nat) : nat := fold_right Nat.add 0 l.

(* ------------------------------------------------------------------------------------------------ *)
(** * 2. mystic.math.grid.randomly_bin (the path used by LatticeSolver: ndim > 0, ones=True, exact=True) *)

Section RandomlyBin.
  (* def factors(n): for i in chain([2],range(3,n+1,2)): s=0; while n%i==0: n//=i; s+=1
                       result.extend([i]*s); if n == 1: return result                (falls off the end: None) *)
  Fixpoint strip (fuel n i : nat) : nat * nat :=         (* (remaining n, multiplicity s); the while loop *)
    match fuel with
    | O => (n, 0)
    | S f => if (1 <? i) && (0 <? n) && (n mod i =? 0) then let r := strip f (n / i) i in (fst r, S (snd r)) else (n, 0)
    end.

  Fixpoint factors_loop (cands : list nat) (n : nat) (acc : list nat) : option (list nat) :=
    match cands with
    | [] => None                                          (* Python: implicit "return None" -> len(None) TypeError *)
    | i :: more =>
        let r := strip n n i in
        let acc' := acc ++ repeat i (snd r) in
        if fst r =? 1 then Some acc' else factors_loop more (fst r) acc'
    end.

  (* chain([2], range(3, n+1, 2)) *)
  Definition candidates (n : nat) : list nat := 2 :: map (fun k => 3 + 2 * k) (seq 0 ((n - 1) / 2)).
  Definition factors (n : nat) : option (list nat) := factors_loop (candidates n) n [].

  (* sorted(result, key=lambda v: random()): one key drawn per element, in order; the sort is stable *)
  Variable K : Type.
  Variable kltb : K -> K -> bool.
  Fixpoint insert_stable (x : K * nat) (l : list (K * nat)) : list (K * nat) :=
    match l with
    | [] => [x]
    | y :: r => if kltb (fst x) (fst y) then x :: y :: r else y :: insert_stable x r
    end.
  (* stable: process from the right so that earlier elements end up before later ones with an equal key *)
  Definition sort_by_keys (l : list (K * nat)) : list (K * nat) := fold_right insert_stable [] l.

  (* prod(result[i::dim]) : product of the elements whose index is congruent to i modulo dim *)
  Fixpoint strided_prod (l : list nat) (k dim i : nat) : nat :=
    match l with
    | [] => 1
    | x :: r => (if k mod dim =? i then x else 1) * strided_prod r (S k) dim i
    end.

  (* None: factors failed (N <= 0 -> the Python code raises / returns [0]) or too few recorded keys *)
  Definition randomly_bin (N ndim : nat) (keys : list K) : option (list nat) :=
    match factors N with
    | None => None
    | Some fs =>
        let nfact := length fs in
        let result := fs ++ repeat 1 (ndim - nfact / ndim) in
        if length keys <? length result then None else
        let sorted := map snd (sort_by_keys (combine (firstn (length result) keys) result)) in
        Some (map (strided_prod sorted 0 ndim) (seq 0 ndim))
    end.
End RandomlyBin.
Arguments randomly_bin {K}. Arguments sort_by_keys {K}. Arguments insert_stable {K}.

(* ------------------------------------------------------------------------------------------------ *)
(** * 3. Start points: LatticeSolver._InitialPoints, samplepts/_random_samples *)

Section Points.
  Variable N : Num.
  Notation E := (T N).
  Definition vec := list E.

  Definition half : E := div N (one N) (add N (one N) (one N)).
  Definition of_nat (n : nat) : E := of_Z N (Z.of_nat n).

  (* step = 1. * abs(upper[i] - lower[i])/nbins[i];  bins[i] = [lower[i] + (j+0.5)*step for j in range(nbins[i])] *)
  Definition bin_step (lo hi : E) (n : nat) : E := div N (mul N (one N) (abs N (sub N hi lo))) (of_nat n).
  Definition bin_centre (lo hi : E) (n j : nat) : E :=
    add N lo (mul N (add N (of_nat j) half) (bin_step lo hi n)).
  Definition bin_centres (lo hi : E) (n : nat) : list E := map (bin_centre lo hi n) (seq 0 n).

  Fixpoint axes (lo hi : vec) (nbins : list nat) : list (list E) :=
    match lo, hi, nbins with
    | l :: lo', h :: hi', n :: nb' => bin_centres l h n :: axes lo' hi' nb'
    | _, _, _ => []
    end.

  (* None: a bin count of 0 -- a request for zero members: ZeroDivisionError with Python floats, numpy inf and an
     IndexError in __update_bestSolver otherwise; degenerate, outside the model -- or no axis at all *)
  Definition lattice_points (lo hi : vec) (nbins : list nat) : option (list vec) :=
    if existsb (Nat.eqb 0) nbins then None
    else match nbins with [] => None | _ => Some (gridpts (axes lo hi nbins)) end.

  (* _random_samples: pts = rand(dim,npts); pts[i] = (pts[i] * abs(ub[i] - lb[i])) + lb[i]; samplepts: q.T.tolist() *)
  Definition scale_draw (lo hi u : E) : E := add N (mul N u (abs N (sub N hi lo))) lo.
  Fixpoint scale_rows (lo hi : vec) (rows : list (list E)) : list (list E) :=
    match lo, hi, rows with
    | l :: lo', h :: hi', r :: rows' => map (scale_draw l h) r :: scale_rows lo' hi' rows'
    | _, _, _ => []
    end.
  Definition transpose (npts : nat) (rows : list (list E)) : list vec :=
    map (fun k => map (fun row => nth k row (zero N)) rows) (seq 0 npts).
  (* [draws]: the dim x npts matrix returned by numpy.random.rand, row i = the draws of coordinate i *)
  Definition sample_points (lo hi : vec) (npts : nat) (draws : list (list E)) : list vec :=
    transpose npts (scale_rows lo hi draws).

  Definition in_box (lo hi x : vec) : bool :=
    (Nat.eqb (length x) (length lo) && Nat.eqb (length x) (length hi) &&
     forallb (fun t => leb N (fst (fst t)) (snd t) && leb N (snd t) (snd (fst t))) (combine (combine lo hi) x))%bool.
End Points.

(* ------------------------------------------------------------------------------------------------ *)
(** * 4. The ensemble: members, reduction to the best member, counters, the map *)

Section Ensemble.
  Variable X : Type.                       (* parameter vectors *)
  Variable E : Type.                       (* energies *)
  Variable leb : E -> E -> bool.           (* Python's [<=] on energies *)
  Variable Cfg : Type.                     (* what a nested solver is configured with: strict ranges + tight/clip,
                                              constraints, penalty, evaluation limits, termination, monitors, reducer *)

  (* what a member solver reports after (part of) its run *)
  Record result := mkResult {
    r_sol : X;                (* bestSolution *)
    r_energy : E;             (* bestEnergy *)
    r_evals : nat;            (* evaluations ( = _fcalls[0] ) *)
    r_log : list X            (* the points at which this member really called the cost, in call order *)
  }.

  Record member := mkMember { m_id : nat; m_cfg : Cfg; m_start : option X; m_res : result }.

  (* SetNestedSolver accepts a solver CLASS (configured by __get_solver_instance from the ensemble's settings)
     or an already configured solver INSTANCE (returned as is: the ensemble's settings are NOT applied). *)
  Inductive nested := NestedClass | NestedInstance (c : Cfg).

  (* __get_solver_instance *)
  Definition get_solver_instance (ens_cfg : Cfg) (n : nested) : Cfg :=
    match n with NestedClass => ens_cfg | NestedInstance c => c end.

  (* the ensemble's own state, as far as C09 mentions it *)
  Record ens := mkEns {
    e_cfg : Cfg;
    e_nested : nested;
    e_id : nat;                          (* self.id or 0 *)
    e_all : list (option member);        (* _allSolvers *)
    e_best : option member;              (* _bestSolver *)
    e_sol : option X;                    (* bestSolution as reported (None: still the ensemble's own population[0]) *)
    e_energy : E;                        (* bestEnergy as reported *)
    e_evals : nat                        (* evaluations = _fcalls[0] as reported *)
  }.

  (* AbstractEnsembleSolver.__init__: _allSolvers = [None for j in range(npts)], bestEnergy = popEnergy[0] = inf *)
  Definition ens_init (cfg : Cfg) (n : nested) (id npts : nat) (inf : E) : ens :=
    mkEns cfg n id (repeat None npts) None None inf 0.

  (* __init_allSolvers: every empty slot gets a deep copy of the one configured solver, id = i + at.
     [fresh i c] is the state of a just-copied member (it has evaluated nothing yet). *)
  Variable fresh : nat -> Cfg -> member.
  Definition init_allSolvers (e : ens) : list (option member) :=
    let c := get_solver_instance (e_cfg e) (e_nested e) in
    mapi_from (fun i op => match op with None => Some (fresh (i + e_id e) c) | Some s => Some s end) 0 (e_all e).

  (* the map: [sched] is the order in which the work items are EVALUATED (a serial map: 0,1,2,...; a reversed,
     shuffled or thread-pool map: some other order); the results are returned in input order. *)
  Fixpoint assoc {B} (i : nat) (l : list (nat * B)) : option B :=
    match l with [] => None | (k, v) :: r => if Nat.eqb k i then Some v else assoc i r end.
  Definition sched_map {B C} (f : B -> C) (inputs : list B) (sched : list nat) : list (option C) :=
    let done := flat_map (fun i => match nth_error inputs i with Some b => [(i, f b)] | None => [] end) sched in
    map (fun i => assoc i done) (seq 0 (length inputs)).

  (* counters: _all_evals, _total_evals, _all_bestEnergy, _all_bestSolution *)
  Definition all_evals (all : list (option member)) : list nat :=
    map (fun o => match o with Some m => r_evals (m_res m) | None => 0 end) all.
  Definition total_evals (all : list (option member)) : nat := sum_nat (all_evals all).
  Definition all_bestEnergy (all : list (option member)) : list (option E) :=
    map (option_map (fun m => r_energy (m_res m))) all.
  Definition all_bestSolution (all : list (option member)) : list (option X) :=
    map (option_map (fun m => r_sol (m_res m))) all.
  Definition all_logs (all : list (option member)) : list X :=
    flat_map (fun o => match o with Some m => r_log (m_res m) | None => [] end) all.

  (* __update_bestSolver:
        if self._bestSolver is None: self._bestSolver = self._allSolvers[0]          (IndexError when there are no slots)
        bestpath = besteval = None
        for solver in self._allSolvers[:]:
            if solver is None: continue
            energy = getattr(self._bestSolver,'bestEnergy',self.bestEnergy)
            if solver.bestEnergy <= energy:
                self._bestSolver = solver; bestpath = solver._stepmon; besteval = solver._evalmon
     returns (new _bestSolver, "bestpath is not None") *)
  Definition scan_step (own : E) (acc : option member * bool) (s : option member) : option member * bool :=
    match s with
    | None => acc
    | Some s' =>
        let energy := match fst acc with Some b => r_energy (m_res b) | None => own end in
        if leb (r_energy (m_res s')) energy then (Some s', true) else acc
    end.

  Definition update_bestSolver (own : E) (prev : option member) (all : list (option member))
    : option (option member * bool) :=
    match prev, all with
    | None, [] => None                                         (* IndexError *)
    | None, first :: _ => Some (fold_left (scan_step own) all (first, false))
    | Some _, _ => Some (fold_left (scan_step own) all (prev, false))
    end.

  (* __update_state: hand the best member's state back to the ensemble (None = IndexError) *)
  Definition update_state (e : ens) : option ens :=
    match update_bestSolver (e_energy e) (e_best e) (e_all e) with
    | None => None
    | Some (b, false) => Some (mkEns (e_cfg e) (e_nested e) (e_id e) (e_all e) b (e_sol e) (e_energy e) (e_evals e))
    | Some (None, true) => Some e                              (* unreachable: an update always stores a member *)
    | Some (Some b, true) =>
        Some (mkEns (e_cfg e) (e_nested e) (e_id e) (e_all e) (Some b)
                    (Some (r_sol (m_res b))) (r_energy (m_res b)) (r_evals (m_res b)))
    end.

  (* one application of the map to the members: [run m x0] is the ABSTRACT member run (Solve, or one Step);
     x0 = Some start point on the first call, None afterwards.  Work item i that the map did not return keeps its
     old state (cannot happen for a permutation schedule, see the theorems). *)
  Variable run : member -> option X -> result.
  Definition run_member (mx : member * option X) : member :=
    mkMember (m_id (fst mx)) (m_cfg (fst mx))
             (match snd mx with Some x => Some x | None => m_start (fst mx) end) (run (fst mx) (snd mx)).

  Definition somes {B} (l : list (option B)) : list B :=
    flat_map (fun o => match o with Some b => [b] | None => [] end) l.

  (* _Solve / _Step: iv = _InitialPoints() if new else [None]*n; op = __init_allSolvers(); results = map(...);
     __update_allSolvers(results); __update_state().  [starts] = iv. *)
  Definition ens_round (e : ens) (starts : list (option X)) (sched : list nat) : option ens :=
    let ops := somes (init_allSolvers e) in
    let results := sched_map run_member (combine ops starts) sched in
    let all' := mapi_from (fun i old => match nth i results None with Some m => Some m | None => old end)
                          0 (init_allSolvers e) in
    (* in-process maps mutate the member objects: _bestSolver is an alias of its slot *)
    let best' := match e_best e with
                 | None => None
                 | Some b => match find (fun o => match o with Some m => Nat.eqb (m_id m) (m_id b) | None => false end) all' with
                             | Some (Some m) => Some m | _ => Some b end
                 end in
    update_state (mkEns (e_cfg e) (e_nested e) (e_id e) all' best' (e_sol e) (e_energy e) (e_evals e)).
End Ensemble.

Arguments mkResult {X E}. Arguments r_sol {X E}. Arguments r_energy {X E}. Arguments r_evals {X E}. Arguments r_log {X E}.
Arguments mkMember {X E Cfg}. Arguments m_id {X E Cfg}. Arguments m_cfg {X E Cfg}. Arguments m_res {X E Cfg}.
Arguments m_start {X E Cfg}.
Arguments somes {B}.
Arguments mkEns {X E Cfg}. Arguments e_cfg {X E Cfg}. Arguments e_nested {X E Cfg}. Arguments e_id {X E Cfg}.
Arguments e_all {X E Cfg}. Arguments e_best {X E Cfg}. Arguments e_sol {X E Cfg}. Arguments e_energy {X E Cfg}.
Arguments e_evals {X E Cfg}.
Arguments all_evals {X E Cfg}. Arguments total_evals {X E Cfg}. Arguments all_bestEnergy {X E Cfg}.
Arguments all_bestSolution {X E Cfg}. Arguments all_logs {X E Cfg}.
Arguments scan_step {X E} leb {Cfg}. Arguments update_bestSolver {X E} leb {Cfg}. Arguments update_state {X E} leb {Cfg}.
Arguments get_solver_instance {Cfg}. Arguments init_allSolvers {X E Cfg}. Arguments ens_round {X E} leb {Cfg}.
Arguments run_member {X E Cfg}. Arguments sched_map {B C}. Arguments assoc {B}.
Arguments NestedClass {Cfg}. Arguments NestedInstance {Cfg}.
