(* C08 - proofs about Core/NMref.v: for ANY objective, ANY numeric type whose [ltb] is a strict weak order (no NaN), and
   ANY sorter returning a sorted permutation. *)
From Coq Require Import List Arith Bool Lia Permutation Sorting.Sorted.
From MV Require Import Common.Num Common.Order Core.NMref.
Import ListNotations.

Section Proofs.
  Variable N : Num.
  Notation T := (T N).
  Notation vertex := (vertex N).
  Variable P : nmparams N.
  Variable f : nvec N -> option T.
  Hypothesis SW : StrictWeak T (ltb N).

  (* energy order on vertices: v is not worse than w *)
  Definition fle (v w : vertex) : Prop := ltb N (snd w) (snd v) = false.
  Definition stored (v : vertex) : Prop := f (fst v) = Some (snd v).

  Lemma fle_refl v : fle v v.
  Proof. apply (sw_irrefl T (ltb N) SW). Qed.
  Lemma fle_trans a b c : fle a b -> fle b c -> fle a c.
  Proof. unfold fle; intros H1 H2. exact (sw_negtrans T (ltb N) SW _ _ _ H2 H1). Qed.
  Lemma lt_fle a b : ltb N (snd a) (snd b) = true -> fle a b.
  Proof.
    unfold fle; intros H. destruct (ltb N (snd b) (snd a)) eqn:E; [|reflexivity].
    pose proof (sw_trans T (ltb N) SW _ _ _ H E) as C. now rewrite (sw_irrefl T (ltb N) SW) in C.
  Qed.

  (* ---------------------------------------------------------------- insertion sort is a lawful sorter *)
  Lemma insert_perm v l : Permutation (insert N v l) (v :: l).
  Proof.
    induction l as [|w r IH]; simpl; [reflexivity|].
    destruct (ltb N (snd v) (snd w)); [reflexivity|].
    rewrite IH. apply perm_swap.
  Qed.
  Lemma insert_hdrel w v r : fle w v -> HdRel fle w r -> HdRel fle w (insert N v r).
  Proof.
    intros H1 H2. destruct r as [|x r]; simpl; [constructor; exact H1|].
    destruct (ltb N (snd v) (snd x)); constructor; [exact H1|]. now inversion H2.
  Qed.
  Lemma insert_sorted v l : Sorted fle l -> Sorted fle (insert N v l).
  Proof.
    induction l as [|w r IH]; simpl; intros H; [repeat constructor|].
    destruct (ltb N (snd v) (snd w)) eqn:E.
    - constructor; [exact H|]. constructor. now apply lt_fle.
    - inversion H as [|? ? H1 H2]; subst. constructor; [now apply IH|].
      apply insert_hdrel; [exact E|exact H2].
  Qed.
  Lemma isort_ok l : Permutation (isort N l) l /\ Sorted fle (isort N l).
  Proof.
    unfold isort. split.
    - rewrite (Permutation_rev l) at 2. induction (rev l) as [|a r IH]; simpl; [reflexivity|].
      rewrite insert_perm. now constructor.
    - induction (rev l) as [|a r IH]; simpl; [constructor|]. now apply insert_sorted.
  Qed.

  Lemma sorted_head_le v l w : Sorted fle (v :: l) -> In w (v :: l) -> fle v w.
  Proof.
    intros H Hin. apply Sorted_StronglySorted in H; [|intros a b c; apply fle_trans].
    inversion H as [|? ? _ HF]; subst. destruct Hin as [<-|Hin]; [apply fle_refl|].
    rewrite Forall_forall in HF. now apply HF.
  Qed.

  (* the acceptance test of [guided]: an accepted observed simplex is sorted *)
  Lemma sortedb_Sorted l : sortedb N l = true -> Sorted fle l.
  Proof.
    induction l as [|v r IH]; [constructor|]. destruct r as [|w r'].
    - intros _. repeat constructor.
    - intros H. change (negb (ltb N (snd w) (snd v)) && sortedb N (w :: r') = true) in H.
      apply andb_true_iff in H as [A B]. constructor; [now apply IH|]. constructor. now apply negb_true_iff in A.
  Qed.

  (* ---------------------------------------------------------------- one iteration = exactly one of the five published moves *)
  Notation f0 sim := (snd (v_best N sim)).
  Notation fs sim := (snd (v_second N sim)).
  Notation fw sim := (snd (v_worst N sim)).

  Inductive step_spec (sim : list vertex) : nmkind -> list vertex -> nat -> Prop :=
  | SpExpand fr fe :
      f (x_r N P sim) = Some fr -> ltb N fr (f0 sim) = true ->
      f (x_e N P sim) = Some fe -> ltb N fe fr = true ->
      step_spec sim Expand (replace_last N sim (x_e N P sim, fe)) 2
  | SpReflectE fr fe :
      f (x_r N P sim) = Some fr -> ltb N fr (f0 sim) = true ->
      f (x_e N P sim) = Some fe -> ltb N fe fr = false ->
      step_spec sim Reflect (replace_last N sim (x_r N P sim, fr)) 2
  | SpReflect fr :
      f (x_r N P sim) = Some fr -> ltb N fr (f0 sim) = false -> ltb N fr (fs sim) = true ->
      step_spec sim Reflect (replace_last N sim (x_r N P sim, fr)) 1
  | SpContractOut fr fc :
      f (x_r N P sim) = Some fr -> ltb N fr (f0 sim) = false -> ltb N fr (fs sim) = false -> ltb N fr (fw sim) = true ->
      f (x_c N P sim) = Some fc -> Num.leb N fc fr = true ->
      step_spec sim ContractOut (replace_last N sim (x_c N P sim, fc)) 2
  | SpContractIn fr fcc :
      f (x_r N P sim) = Some fr -> ltb N fr (f0 sim) = false -> ltb N fr (fs sim) = false -> ltb N fr (fw sim) = false ->
      f (x_cc N P sim) = Some fcc -> ltb N fcc (fw sim) = true ->
      step_spec sim ContractIn (replace_last N sim (x_cc N P sim, fcc)) 2
  | SpShrinkOut fr fc s :
      f (x_r N P sim) = Some fr -> ltb N fr (f0 sim) = false -> ltb N fr (fs sim) = false -> ltb N fr (fw sim) = true ->
      f (x_c N P sim) = Some fc -> Num.leb N fc fr = false -> shrink N P f sim = Some s ->
      step_spec sim Shrink s (2 + dimn N sim)
  | SpShrinkIn fr fcc s :
      f (x_r N P sim) = Some fr -> ltb N fr (f0 sim) = false -> ltb N fr (fs sim) = false -> ltb N fr (fw sim) = false ->
      f (x_cc N P sim) = Some fcc -> ltb N fcc (fw sim) = false -> shrink N P f sim = Some s ->
      step_spec sim Shrink s (2 + dimn N sim).

  Theorem nm_step_sound sim u k c : nm_step N P f sim = Some (u, k, c) -> step_spec sim k u c.
  Proof.
    unfold nm_step, eval. intros H.
    destruct (f (x_r N P sim)) as [fr|] eqn:Er; simpl in H; [|discriminate].
    destruct (ltb N fr (f0 sim)) eqn:E0.
    - destruct (f (x_e N P sim)) as [fe|] eqn:Ee; simpl in H; [|discriminate].
      destruct (ltb N fe fr) eqn:E1; injection H as <- <- <-; econstructor; eauto.
    - destruct (ltb N fr (fs sim)) eqn:E2.
      + injection H as <- <- <-. econstructor; eauto.
      + destruct (ltb N fr (fw sim)) eqn:E3.
        * destruct (f (x_c N P sim)) as [fc|] eqn:Ec; simpl in H; [|discriminate].
          destruct (Num.leb N fc fr) eqn:E4.
          -- injection H as <- <- <-. econstructor; eauto.
          -- destruct (shrink N P f sim) as [s|] eqn:Es; simpl in H; [|discriminate].
             injection H as <- <- <-. eapply SpShrinkOut; eauto.
        * destruct (f (x_cc N P sim)) as [fcc|] eqn:Ec; simpl in H; [|discriminate].
          destruct (ltb N fcc (fw sim)) eqn:E4.
          -- injection H as <- <- <-. econstructor; eauto.
          -- destruct (shrink N P f sim) as [s|] eqn:Es; simpl in H; [|discriminate].
             injection H as <- <- <-. eapply SpShrinkIn; eauto.
  Qed.

  Theorem nm_step_complete sim u k c : step_spec sim k u c -> nm_step N P f sim = Some (u, k, c).
  Proof.
    intros H; destruct H; unfold nm_step, eval;
      repeat match goal with
             | E : f _ = Some _ |- _ => rewrite E; clear E; simpl
             | E : ltb N _ _ = _ |- _ => rewrite E; clear E; simpl
             | E : Num.leb N _ _ = _ |- _ => rewrite E; clear E; simpl
             | E : shrink _ _ _ _ = Some _ |- _ => rewrite E; clear E; simpl
             end; reflexivity.
  Qed.

  Corollary step_exactly_one sim k1 u1 c1 k2 u2 c2 :
    step_spec sim k1 u1 c1 -> step_spec sim k2 u2 c2 -> k1 = k2 /\ u1 = u2 /\ c1 = c2.
  Proof.
    intros H1 H2. apply nm_step_complete in H1, H2. rewrite H1 in H2. injection H2 as -> -> ->. auto.
  Qed.

  (* ---------------------------------------------------------------- what an iteration preserves *)
  Lemma eval_stored x v : eval N f x = Some v -> stored v /\ fst v = x.
  Proof. unfold eval, stored. destruct (f x) eqn:E; simpl; intros H; [|discriminate]. injection H as <-. simpl. auto. Qed.

  Lemma eval_all_stored xs : forall l, eval_all N f xs = Some l -> Forall stored l /\ length l = length xs.
  Proof.
    induction xs as [|x r IH]; simpl; intros l H.
    - injection H as <-. split; [constructor|reflexivity].
    - destruct (eval N f x) as [v|] eqn:Ev; [|discriminate].
      destruct (eval_all N f r) as [l'|] eqn:El; [|discriminate]. injection H as <-.
      destruct (IH l' eq_refl) as [A B]. split; [constructor; [apply (eval_stored _ _ Ev)|exact A]|simpl; congruence].
  Qed.

  Lemma replace_last_inv (sim : list vertex) v : 2 <= length sim -> stored v -> Forall stored sim ->
    length (replace_last N sim v) = length sim /\ Forall stored (replace_last N sim v)
    /\ In (v_best N sim) (replace_last N sim v).
  Proof.
    intros HL Hv HF. unfold replace_last.
    assert (sim <> []) as Hne by (destruct sim; simpl in HL; [lia|discriminate]).
    pose proof (app_removelast_last (dflt N) Hne) as E.
    assert (length sim = length (removelast sim) + 1) as EL.
    { rewrite E at 1. rewrite app_length. reflexivity. }
    split; [rewrite app_length; simpl; lia|]. split.
    - apply Forall_app. split; [|constructor; [exact Hv|constructor]].
      rewrite E in HF. now apply Forall_app in HF as [A _].
    - apply in_or_app. left. destruct sim as [|a [|b r]]; simpl in *; try lia. now left.
  Qed.

  Lemma shrink_inv (sim : list vertex) s : 1 <= length sim -> Forall stored sim -> shrink N P f sim = Some s ->
    length s = length sim /\ Forall stored s /\ In (v_best N sim) s.
  Proof.
    unfold shrink. intros HL HF H.
    destruct (eval_all N f _) as [l|] eqn:El; simpl in H; [|discriminate]. injection H as <-.
    apply eval_all_stored in El as [A B]. rewrite map_length in B.
    destruct sim as [|a r]; simpl in *; [lia|].
    split; [simpl; rewrite B; reflexivity|]. split; [constructor; [now inversion HF|exact A]|now left].
  Qed.

  Lemma nm_step_inv sim u k c : nm_step N P f sim = Some (u, k, c) -> 2 <= length sim -> Forall stored sim ->
    length u = length sim /\ Forall stored u /\ In (v_best N sim) u.
  Proof.
    intros H HL HF. apply nm_step_sound in H.
    assert (forall x y, f x = Some y -> stored (x, y)) as St by (intros; exact H0).
    destruct H; try (apply replace_last_inv; auto); apply (shrink_inv sim s); auto; lia.
  Qed.

  (* ---------------------------------------------------------------- the run *)
  Variable sorter : nat -> list vertex -> list vertex.
  Hypothesis sorter_ok : forall k u, Permutation (sorter k u) u /\ Sorted fle (sorter k u).

  Definition good (n : nat) (sim : list vertex) : Prop :=
    Sorted fle sim /\ Forall stored sim /\ length sim = S n.

  Lemma sorter_good n k u : Forall stored u -> length u = S n -> good n (sorter k u).
  Proof.
    intros HF HL. destruct (sorter_ok k u) as [Pm So]. split; [exact So|]. split.
    - rewrite Forall_forall in *. intros v Hin. apply HF. now apply (Permutation_in _ Pm).
    - now rewrite (Permutation_length Pm).
  Qed.

  Lemma best_le_after n k sim u : good n (sorter k u) -> In (v_best N sim) u -> fle (v_best N (sorter k u)) (v_best N sim).
  Proof.
    intros (So & _ & HL) Hin. destruct (sorter_ok k u) as [Pm _].
    apply Permutation_sym in Pm. pose proof (Permutation_in _ Pm Hin) as Hin'.
    destruct (sorter k u) as [|v l]; [discriminate|]. simpl. now apply (sorted_head_le v l).
  Qed.

  (* newest-first trace: every simplex good, best energies never increase from one iteration to the next *)
  Fixpoint mono (tr : list (list vertex)) : Prop :=
    match tr with
    | a :: (b :: _) as r => fle (v_best N a) (v_best N b) /\ mono r
    | _ => True
    end.

  Definition inv (n : nat) (st : nmstate N) (tr : list (list vertex)) : Prop :=
    (exists r, tr = st_sim N st :: r) /\ Forall (good n) tr /\ mono tr /\ st_iter N st = length tr.

  Lemma nm_loop_inv n maxfun : forall rem st tr st' tr', 1 <= n ->
    nm_loop N P f sorter rem maxfun st tr = Some (st', tr') -> inv n st tr -> inv n st' tr'.
  Proof.
    induction rem as [|rem IH]; intros st tr st' tr' Hn H I; simpl in H.
    - injection H as <- <-. exact I.
    - destruct (Nat.ltb (st_calls N st) maxfun); [|injection H as <- <-; exact I].
      destruct (crt N P (st_sim N st)); [injection H as <- <-; exact I|].
      destruct (nm_step N P f (st_sim N st)) as [[[u k] c]|] eqn:Es; [|discriminate].
      destruct I as ((r & ->) & HG & HM & HI).
      inversion HG as [|? ? G1 G2]; subst. destruct G1 as (So & HF & HL).
      destruct (nm_step_inv _ _ _ _ Es) as (A & B & C); [lia|exact HF|].
      assert (good n (sorter (st_iter N st) u)) as Gn by (apply sorter_good; [exact B|congruence]).
      eapply IH; [exact Hn|exact H|].
      split; [eexists; reflexivity|]. split; [constructor; [exact Gn|exact HG]|]. split.
      + simpl. split; [|exact HM]. now apply (best_le_after n).
      + simpl. now rewrite HI.
  Qed.

  Theorem nm_run_invariants x0 maxiter maxfun r : x0 <> [] ->
    nm_run N P f sorter x0 maxiter maxfun = Some r ->
    Forall (good (length x0)) (r_trace N r)          (* every simplex: sorted, f-values are the objective at the vertex, N+1 vertices *)
    /\ mono (rev (r_trace N r))                      (* the best value never increases *)
    /\ r_iter N r = length (r_trace N r)             (* iterations counted = simplices produced *)
    /\ f (r_x N r) = Some (r_f N r)                  (* the reported optimum is an evaluated point with its energy *)
    /\ (exists s, last (r_trace N r) [] = s /\ r_x N r = fst (v_best N s) /\ r_f N r = snd (v_best N s)).
  Proof.
    intros Hne. unfold nm_run, nm_init.
    destruct (eval_all N f _) as [u|] eqn:Ei; [|discriminate].
    apply eval_all_stored in Ei as [A B]. simpl in B. rewrite map_length, seq_length in B.
    set (s0 := sorter 0 u).
    destruct (nm_loop N P f sorter (maxiter - 1) maxfun _ _) as [[st tr]|] eqn:El; [|discriminate].
    intros H; injection H as <-. simpl.
    assert (good (length x0) s0) as G0 by (apply sorter_good; auto).
    assert (1 <= length x0) as Hn by (destruct x0; simpl; [congruence|lia]).
    pose proof (nm_loop_inv (length x0) maxfun _ _ _ _ _ Hn El) as I.
    destruct I as ((r & ->) & HG & HM & HI).
    { split; [eexists; reflexivity|]. split; [constructor; [exact G0|constructor]|]. split; [exact I|reflexivity]. }
    split; [apply Forall_rev; exact HG|]. split; [now rewrite rev_involutive|]. split; [now rewrite rev_length|].
    inversion HG as [|? ? G1 _]; subst. destruct G1 as (_ & HF & HL).
    split.
    - destruct (st_sim N st) as [|v l]; [discriminate|]. simpl. now inversion HF.
    - exists (st_sim N st). simpl. split; [|auto]. now rewrite last_last.
  Qed.
End Proofs.
