(* C09 - proofs about the ensemble model (Core/Ensemble.v). *)
From Coq Require Import List Arith ZArith Bool Lia Permutation.
From MV Require Import Common.Num Common.Order Core.Ensemble.
Import ListNotations.

(* ------------------------------------------------------------------------------------------------ *)
(** * A. The reduction to the best member *)

Section Reduce.
  Variables (X E Cfg : Type).
  Variable ltb : E -> E -> bool.
  Variable leb : E -> E -> bool.
  Hypothesis SW : StrictWeak E ltb.
  Hypothesis Hleb : forall x y, leb x y = negb (ltb y x).

  Notation member := (member X E Cfg).
  Definition en (m : member) : E := r_energy (m_res m).
  Definition cur (own : E) (b : option member) : E := match b with Some b => en b | None => own end.

  Lemma leb_is : forall x y, leb x y = Order.leb E ltb x y.
  Proof. intros; unfold Order.leb; apply Hleb. Qed.

  Lemma leb_false_ltb : forall x y, leb x y = false -> ltb y x = true.
  Proof. intros x y H. rewrite Hleb in H. now apply negb_false_iff in H. Qed.

  Lemma leb_tr : forall x y z, leb x y = true -> leb y z = true -> leb x z = true.
  Proof. intros x y z; rewrite !leb_is; apply leb_trans; exact SW. Qed.

  Lemma leb_rf : forall x, leb x x = true.
  Proof. intros; rewrite leb_is; apply leb_refl; exact SW. Qed.

  Lemma lt_le : forall x y, ltb x y = true -> leb x y = true.
  Proof. intros x y; rewrite leb_is; apply ltb_leb; exact SW. Qed.

  Lemma le_lt_tr : forall x y z, leb x y = true -> ltb y z = true -> ltb x z = true.
  Proof. intros x y z; rewrite leb_is; apply leb_ltb_trans; exact SW. Qed.

  Definition scan (own : E) (ms : list member) (acc : option member * bool) : option member * bool :=
    fold_left (fun a s => scan_step leb own a (Some s)) ms acc.

  Lemma scan_somes : forall own (all : list (option member)) acc,
    fold_left (scan_step leb own) all acc = scan own (somes all) acc.
  Proof.
    intros own all; induction all as [|o all IH]; intros acc; [reflexivity|].
    destruct o as [s|]; cbn [fold_left somes flat_map app]; unfold scan in *; cbn [fold_left].
    - apply IH.
    - cbn [scan_step]. apply IH.
  Qed.

  Lemma scan_cons : forall own x ms b u,
    scan own (x :: ms) (b, u) =
    if leb (en x) (cur own b) then scan own ms (Some x, true) else scan own ms (b, u).
  Proof.
    intros. unfold scan, en, cur. cbn [fold_left scan_step fst].
    destruct b; destruct (leb _ _); reflexivity.
  Qed.

  (* the heart: one scan either changes nothing (every member is strictly above the current best) or ends on the
     LAST member whose energy is minimal *)
  Lemma scan_spec : forall own ms b u,
    (scan own ms (b, u) = (b, u) /\ Forall (fun x => leb (en x) (cur own b) = false) ms)
    \/ (exists m l1 l2, scan own ms (b, u) = (Some m, true) /\ ms = l1 ++ m :: l2 /\
          leb (en m) (cur own b) = true /\
          Forall (fun x => leb (en m) (en x) = true) l1 /\
          Forall (fun x => ltb (en m) (en x) = true) l2).
  Proof.
    intros own ms; induction ms as [|x ms IH]; intros b u.
    - left; split; [reflexivity | constructor].
    - rewrite scan_cons.
      destruct (leb (en x) (cur own b)) eqn:Hx.
      + right. destruct (IH (Some x) true) as [[Heq Hall] | (m & l1 & l2 & Heq & Hms & Hle & H1 & H2)].
        * exists x, [], ms. rewrite Heq. repeat split; auto.
          eapply Forall_impl; [|exact Hall]. cbn [cur]. intros a Ha. now apply leb_false_ltb.
        * exists m, (x :: l1), l2. rewrite Heq. cbn [cur] in Hle. subst ms.
          repeat split; auto. eapply leb_tr; eauto.
      + destruct (IH b u) as [[Heq Hall] | (m & l1 & l2 & Heq & Hms & Hle & H1 & H2)].
        * left. rewrite Heq. split; auto.
        * right. exists m, (x :: l1), l2. rewrite Heq. subst ms. repeat split; auto.
          constructor; auto. apply lt_le. eapply le_lt_tr; [exact Hle|]. now apply leb_false_ltb.
  Qed.

  (* the member the scan starts from: _bestSolver, or _allSolvers[0] when there is none yet *)
  Definition start_of (prev : option member) (all : list (option member)) : option member :=
    match prev with Some _ => prev | None => hd None all end.

  Definition is_last_min (m : member) (ms : list member) : Prop :=
    exists l1 l2, ms = l1 ++ m :: l2 /\
      Forall (fun x => leb (en m) (en x) = true) l1 /\ Forall (fun x => ltb (en m) (en x) = true) l2.

  Lemma is_last_min_min : forall m ms, is_last_min m ms -> In m ms /\ forall x, In x ms -> leb (en m) (en x) = true.
  Proof.
    intros m ms (l1 & l2 & -> & H1 & H2). split; [apply in_or_app; right; now left|].
    intros x Hx. apply in_app_or in Hx. destruct Hx as [Hx | [<- | Hx]].
    - rewrite Forall_forall in H1; auto.
    - apply leb_rf.
    - apply lt_le. rewrite Forall_forall in H2; auto.
  Qed.

  (* the last minimal member is unique as a POSITION: two decompositions coincide *)
  Lemma is_last_min_unique : forall m m' ms l1 l2 l1' l2',
    ms = l1 ++ m :: l2 -> ms = l1' ++ m' :: l2' ->
    Forall (fun x => leb (en m) (en x) = true) l1 -> Forall (fun x => ltb (en m) (en x) = true) l2 ->
    Forall (fun x => leb (en m') (en x) = true) l1' -> Forall (fun x => ltb (en m') (en x) = true) l2' ->
    l1 = l1' /\ m = m' /\ l2 = l2'.
  Proof.
    intros m m' ms l1; revert ms; induction l1 as [|a l1 IH]; intros ms l2 l1' l2' E1 E2 A1 A2 B1 B2.
    - destruct l1' as [|a' l1'].
      + cbn in *. subst ms. inversion E2; subst. auto.
      + exfalso. cbn in *. subst ms. inversion E2; subst a' l2. clear E2.
        (* m' occurs after m, so en m < en m'; but m is before m', so en m' <= en m *)
        assert (H: ltb (en m) (en m') = true).
        { rewrite Forall_forall in A2. apply A2. apply in_or_app; right; now left. }
        inversion B1 as [|? ? Hb _]; subst. rewrite Hleb in Hb. rewrite H in Hb. discriminate.
    - destruct l1' as [|a' l1'].
      + exfalso. cbn in *. subst ms. inversion E2; subst a l2'. clear E2.
        assert (H: ltb (en m') (en m) = true).
        { rewrite Forall_forall in B2. apply B2. apply in_or_app; right; now left. }
        inversion A1 as [|? ? Ha _]; subst. rewrite Hleb in Ha. rewrite H in Ha. discriminate.
      + cbn in E1, E2. rewrite E1 in E2. injection E2 as Ea E2'. subst a'.
        apply Forall_inv_tail in A1. apply Forall_inv_tail in B1.
        destruct (IH (l1 ++ m :: l2) l2 l1' l2' eq_refl E2' A1 A2 B1 B2) as (-> & -> & ->); auto.
  Qed.

  Theorem update_bestSolver_spec : forall own prev all b upd,
    update_bestSolver leb own prev all = Some (b, upd) ->
    (exists m, In m (somes all) /\ leb (en m) (cur own (start_of prev all)) = true) ->
    upd = true /\ exists m, b = Some m /\ is_last_min m (somes all).
  Proof.
    intros own prev all b upd Hu (m0 & Hin & Hm0).
    assert (Hfold : scan own (somes all) (start_of prev all, false) = (b, upd)).
    { unfold update_bestSolver in Hu. destruct prev as [p|]; [|destruct all as [|first rest]].
      - rewrite scan_somes in Hu. injection Hu as Hu. exact Hu.
      - discriminate.
      - rewrite scan_somes in Hu. injection Hu as Hu. exact Hu. }
    destruct (scan_spec own (somes all) (start_of prev all) false)
      as [[Heq Hall] | (m & l1 & l2 & Heq & Hms & Hle & H1 & H2)].
    - exfalso. rewrite Forall_forall in Hall. specialize (Hall _ Hin). congruence.
    - rewrite Heq in Hfold. injection Hfold as <- <-. split; [reflexivity|].
      exists m; split; [reflexivity|]. exists l1, l2; auto.
  Qed.

  (* when nothing was selected before, the scan starts from slot 0: the side condition is automatic *)
  Corollary update_bestSolver_fresh : forall own m0 rest b upd,
    update_bestSolver leb own None (Some m0 :: rest) = Some (b, upd) ->
    upd = true /\ exists m, b = Some m /\ is_last_min m (somes (Some m0 :: rest)).
  Proof.
    intros own m0 rest b upd Hu. eapply update_bestSolver_spec; eauto.
    exists m0. split; [cbn; now left|]. cbn. apply leb_rf.
  Qed.

  (* in-process maps: _bestSolver is (an alias of) one of the current members *)
  Corollary update_bestSolver_alias : forall own p all b upd,
    In p (somes all) ->
    update_bestSolver leb own (Some p) all = Some (b, upd) ->
    upd = true /\ exists m, b = Some m /\ is_last_min m (somes all).
  Proof.
    intros own p all b upd Hp Hu. eapply update_bestSolver_spec; eauto.
    exists p; split; auto. cbn. apply leb_rf.
  Qed.

  (* the only error branch is the IndexError on an ensemble without slots (npts = 0) *)
  Corollary update_bestSolver_never_fails_on_slots : forall own (prev : option member) (all : list (option member)),
    all <> [] -> exists r, update_bestSolver leb own prev all = Some r.
  Proof.
    intros own prev all Hne. unfold update_bestSolver. destruct prev; [eauto|]. destruct all; [congruence|eauto].
  Qed.

  (* __update_state hands exactly that member's solution, energy and counter back to the ensemble *)
  Theorem update_state_spec : forall (e e' : ens X E Cfg),
    update_state leb e = Some e' ->
    (exists m, In m (somes (e_all e)) /\ leb (en m) (cur (e_energy e) (start_of (e_best e) (e_all e))) = true) ->
    exists m, is_last_min m (somes (e_all e)) /\
      e_best e' = Some m /\ e_energy e' = r_energy (m_res m) /\ e_sol e' = Some (r_sol (m_res m)) /\
      e_evals e' = r_evals (m_res m) /\ e_all e' = e_all e /\ e_cfg e' = e_cfg e.
  Proof.
    intros e e' Hs Hex. unfold update_state in Hs.
    destruct (update_bestSolver leb (e_energy e) (e_best e) (e_all e)) as [[b upd]|] eqn:Hu; [|discriminate].
    destruct (update_bestSolver_spec _ _ _ _ _ Hu Hex) as (-> & m & -> & Hm).
    injection Hs as <-. exists m. cbn. repeat split; auto.
  Qed.
End Reduce.

(* ------------------------------------------------------------------------------------------------ *)
(** * B. Counters, C. the map, D. member creation *)

Section ListFacts.
  Context {B C : Type}.

  Lemma mapi_from_ext : forall (f : nat -> B -> C) (g : B -> C) l k,
    (forall i x, nth_error l i = Some x -> f (k + i) x = g x) -> mapi_from f k l = map g l.
  Proof.
    intros f g l; induction l as [|x l IH]; intros k H; [reflexivity|].
    cbn [mapi_from map]. f_equal.
    - specialize (H 0 x eq_refl). now rewrite Nat.add_0_r in H.
    - apply IH. intros i y Hi. specialize (H (S i) y Hi). now rewrite Nat.add_succ_r in H.
  Qed.

  Lemma mapi_from_length : forall (f : nat -> B -> C) l k, length (mapi_from f k l) = length l.
  Proof. intros f l; induction l; intros; cbn; auto. Qed.

  Lemma map_seq_ext : forall (h : nat -> C) (g : B -> C) l k,
    (forall i x, nth_error l i = Some x -> h (k + i) = g x) -> map h (seq k (length l)) = map g l.
  Proof.
    intros h g l; induction l as [|x l IH]; intros k H; [reflexivity|].
    cbn [length seq map]. f_equal.
    - specialize (H 0 x eq_refl). now rewrite Nat.add_0_r in H.
    - apply IH. intros i y Hi. specialize (H (S i) y Hi). now rewrite Nat.add_succ_r in H.
  Qed.
End ListFacts.

Lemma somes_map_Some : forall {B} (l : list B), somes (map Some l) = l.
Proof. intros B l; induction l; cbn; [reflexivity|]. unfold somes in IHl. now rewrite IHl. Qed.

Lemma somes_app : forall {B} (a b : list (option B)), somes (a ++ b) = somes a ++ somes b.
Proof. intros; unfold somes; apply flat_map_app. Qed.

Section Map.
  Context {B C : Type}.
  Variable f : B -> C.

  Lemma assoc_done : forall inputs sched i b,
    In i sched -> nth_error inputs i = Some b ->
    assoc i (flat_map (fun k => match nth_error inputs k with Some b => [(k, f b)] | None => [] end) sched) = Some (f b).
  Proof.
    intros inputs sched i b; induction sched as [|k sched IH]; intros Hin Hb; [contradiction|].
    cbn [flat_map]. destruct (Nat.eq_dec k i) as [->|Hne].
    - rewrite Hb. cbn. now rewrite Nat.eqb_refl.
    - destruct Hin as [->|Hin]; [congruence|].
      destruct (nth_error inputs k); cbn.
      + apply Nat.eqb_neq in Hne. rewrite Hne. auto.
      + auto.
  Qed.

  (* Any schedule that evaluates every work item (in ANY order, possibly more than once) returns what the serial
     builtin map returns: the ensemble's result cannot depend on the map's evaluation order, because each work item is
     a function of its own inputs only. *)
  Theorem sched_map_order_irrelevant : forall inputs sched,
    (forall i, i < length inputs -> In i sched) ->
    sched_map f inputs sched = map (fun b => Some (f b)) inputs.
  Proof.
    intros inputs sched Hcov. unfold sched_map.
    apply map_seq_ext. intros i x Hi. cbn [Nat.add].
    apply assoc_done; auto. apply Hcov. apply nth_error_Some. congruence.
  Qed.

  Corollary sched_map_permutation : forall inputs sched,
    Permutation sched (seq 0 (length inputs)) ->
    sched_map f inputs sched = map (fun b => Some (f b)) inputs.
  Proof.
    intros inputs sched P. apply sched_map_order_irrelevant. intros i Hi.
    eapply Permutation_in; [apply Permutation_sym; exact P|]. apply in_seq. lia.
  Qed.
End Map.

Section Counters.
  Variables (X E Cfg : Type).
  Notation member := (member X E Cfg).

  Lemma total_evals_cons : forall (o : option member) all,
    total_evals (o :: all) = match o with Some m => r_evals (m_res m) | None => 0 end + total_evals all.
  Proof. reflexivity. Qed.

  (* _total_evals is the sum of the members' counters ... *)
  Theorem total_evals_is_sum : forall (all : list (option member)),
    total_evals all = sum_nat (map (fun m => r_evals (m_res m)) (somes all)).
  Proof.
    induction all as [|o all IH]; [reflexivity|]. rewrite total_evals_cons, IH.
    destruct o; unfold somes, sum_nat; cbn [flat_map app map fold_right]; reflexivity.
  Qed.

  (* ... and, when every member's counter counts its own real cost calls (C04 for the member solvers), the number of
     entries in the union of the members' call logs, i.e. the number of real cost calls *)
  Theorem total_evals_is_real_calls : forall (all : list (option member)),
    (forall m, In m (somes all) -> r_evals (m_res m) = length (r_log (m_res m))) ->
    total_evals all = length (all_logs all).
  Proof.
    induction all as [|o all IH]; intros H; [reflexivity|].
    rewrite total_evals_cons. unfold all_logs in *. cbn [flat_map]. rewrite app_length.
    destruct o as [m|].
    - rewrite (H m) by (cbn; now left). f_equal. apply IH. intros m' Hm'. apply H. cbn. now right.
    - cbn [length]. apply IH. intros m' Hm'. apply H. exact Hm'.
  Qed.

  Lemma all_evals_length : forall (all : list (option member)), length (all_evals all) = length all.
  Proof. intros; unfold all_evals; apply map_length. Qed.
End Counters.

Section Creation.
  Variables (X E Cfg : Type).
  Variable leb : E -> E -> bool.
  Notation member := (member X E Cfg).
  Variable fresh : nat -> Cfg -> member.
  Hypothesis fresh_cfg : forall i c, m_cfg (fresh i c) = c.
  Hypothesis fresh_id : forall i c, m_id (fresh i c) = i.
  Variable run : member -> option X -> result X E.

  Lemma init_length : forall (e : ens X E Cfg), length (init_allSolvers fresh e) = length (e_all e).
  Proof. intros; unfold init_allSolvers; apply mapi_from_length. Qed.

  (* every slot is filled after __init_allSolvers *)
  Lemma init_all_some : forall (e : ens X E Cfg) o, In o (init_allSolvers fresh e) -> exists m, o = Some m.
  Proof.
    intros e o. unfold init_allSolvers. generalize 0 as k. induction (e_all e) as [|a l IH]; intros k H; [contradiction|].
    cbn [mapi_from] in H. destruct H as [<-|H]; [destruct a; eauto | eauto].
  Qed.

  (* a fresh ensemble: npts slots, each a copy of the ONE configured solver, ids at, at+1, ... *)
  Lemma init_fresh : forall cfg n id npts inf,
    init_allSolvers fresh (ens_init X E Cfg cfg n id npts inf) =
    map (fun i => Some (fresh (i + id) (get_solver_instance cfg n))) (seq 0 npts).
  Proof.
    intros. unfold init_allSolvers, ens_init. cbn [e_all e_cfg e_nested e_id].
    generalize 0 as k. induction npts as [|p IH]; intros k; [reflexivity|].
    cbn [repeat mapi_from seq map]. f_equal. apply IH.
  Qed.

  (* members_inherit_settings: with a solver CLASS as nested solver, every member is created with the ensemble's
     configuration (strict ranges, constraints, penalty, limits, termination, ...) *)
  Theorem members_inherit_settings : forall cfg id npts inf o,
    In o (init_allSolvers fresh (ens_init X E Cfg cfg NestedClass id npts inf)) ->
    exists m, o = Some m /\ m_cfg m = cfg.
  Proof.
    intros cfg id npts inf o H. rewrite init_fresh in H. apply in_map_iff in H.
    destruct H as (i & <- & _). eexists; split; [reflexivity|]. apply fresh_cfg.
  Qed.

  (* the run of a member does not touch its configuration or identity *)
  Lemma run_member_keeps : forall mx, m_cfg (run_member run mx) = m_cfg (fst mx) /\ m_id (run_member run mx) = m_id (fst mx).
  Proof. intros [m x]; split; reflexivity. Qed.

  (* with a configured INSTANCE the members carry the instance's configuration instead (the finding) *)
  Theorem members_take_instance_settings : forall cfg c id npts inf o,
    In o (init_allSolvers fresh (ens_init X E Cfg cfg (NestedInstance c) id npts inf)) ->
    exists m, o = Some m /\ m_cfg m = c.
  Proof.
    intros cfg c id npts inf o H. rewrite init_fresh in H. apply in_map_iff in H.
    destruct H as (i & <- & _). eexists; split; [reflexivity|]. apply fresh_cfg.
  Qed.

  (* the members of a first round, in slot order *)
  Definition first_members (cfg : Cfg) (n : nested Cfg) (id : nat) (starts : list X) : list member :=
    mapi_from (fun i x0 => run_member run (fresh (i + id) (get_solver_instance cfg n), Some x0)) 0 starts.

  Lemma first_members_length : forall cfg n id starts, length (first_members cfg n id starts) = length starts.
  Proof. intros; apply mapi_from_length. Qed.

  Lemma combine_seq_map : forall (g : nat -> member) (starts : list X) k,
    combine (map g (seq k (length starts))) (map Some starts) =
    mapi_from (fun i x0 => (g i, Some x0)) k starts.
  Proof.
    intros g starts; induction starts as [|x l IH]; intros k; [reflexivity|].
    cbn [length seq map combine mapi_from]. f_equal. apply IH.
  Qed.

  Lemma map_mapi_from : forall {A1 A2 A3} (h : A2 -> A3) (g : nat -> A1 -> A2) l k,
    map h (mapi_from g k l) = mapi_from (fun i x => h (g i x)) k l.
  Proof. intros A1 A2 A3 h g l; induction l; intros; cbn; [reflexivity|]. f_equal; auto. Qed.

  Lemma mapi_from_nth_results : forall (ms : list member) (olds : list (option member)),
    length olds = length ms ->
    mapi_from (fun i old => match nth i (map Some ms) None with Some m => Some m | None => old end) 0 olds = map Some ms.
  Proof.
    intros ms olds Hl.
    assert (G : forall k pre, length pre = k ->
              mapi_from (fun i old => match nth i (map Some (pre ++ ms)) None with Some m => Some m | None => old end) k olds
              = map Some ms).
    { revert olds Hl. induction ms as [|m ms IH]; intros olds Hl k pre Hk.
      - destruct olds; [reflexivity | discriminate].
      - destruct olds as [|o olds]; [discriminate|]. cbn [mapi_from map]. f_equal.
        + rewrite map_app, app_nth2 by (rewrite map_length; lia). rewrite map_length, Hk, Nat.sub_diag. reflexivity.
        + specialize (IH olds ltac:(cbn in Hl; lia) (S k) (pre ++ [m])).
          rewrite <- app_assoc in IH. cbn [app] in IH. apply IH. rewrite app_length; cbn; lia. }
    exact (G 0 [] eq_refl).
  Qed.

  (* One Solve of a fresh ensemble under ANY schedule that runs every member: exactly one member per start point, in
     slot order, each configured by the one nested solver, each started at its own point; the ensemble then reports
     the LAST member of minimal energy. *)
  Theorem ens_first_round : forall ltb, StrictWeak E ltb -> (forall x y, leb x y = negb (ltb y x)) ->
    forall cfg n id npts inf (starts : list X) sched,
    length starts = npts -> 0 < npts ->
    (forall i, i < npts -> In i sched) ->
    exists e' m,
      ens_round leb fresh run (ens_init X E Cfg cfg n id npts inf) (map Some starts) sched = Some e' /\
      e_all e' = map Some (first_members cfg n id starts) /\
      is_last_min X E Cfg ltb leb m (first_members cfg n id starts) /\
      e_best e' = Some m /\ e_energy e' = r_energy (m_res m) /\ e_sol e' = Some (r_sol (m_res m)) /\
      e_evals e' = r_evals (m_res m).
  Proof.
    intros ltb SW Hleb cfg n id npts inf starts sched Hlen Hpos Hcov. subst npts.
    unfold ens_round. rewrite init_fresh.
    set (g := fun i => fresh (i + id) (get_solver_instance cfg n)).
    change (map (fun i => Some (fresh (i + id) (get_solver_instance cfg n))) (seq 0 (length starts)))
      with (map (fun i => Some (g i)) (seq 0 (length starts))).
    rewrite <- (map_map g Some), somes_map_Some.
    rewrite combine_seq_map.
    rewrite sched_map_order_irrelevant
      by (intros i Hi; apply Hcov; rewrite mapi_from_length in Hi; lia).
    rewrite <- (map_map (run_member run) Some). rewrite map_mapi_from.
    change (mapi_from (fun (i0 : nat) (x : X) => run_member run (g i0, Some x)) 0 starts)
      with (first_members cfg n id starts).
    rewrite mapi_from_nth_results
      by (rewrite !map_length, seq_length, first_members_length; reflexivity).
    cbn [ens_init e_best e_cfg e_nested e_id e_sol e_energy e_evals].
    destruct (first_members cfg n id starts) as [|m0 rest] eqn:Hfm.
    { exfalso. apply (f_equal (@length _)) in Hfm. rewrite first_members_length in Hfm. cbn in Hfm. lia. }
    unfold update_state. cbn [e_energy e_best e_all map].
    destruct (update_bestSolver leb inf None (Some m0 :: map Some rest)) as [[b upd]|] eqn:Hu.
    2:{ cbn in Hu. discriminate. }
    change (Some m0 :: map Some rest) with (map Some (m0 :: rest)) in Hu.
    destruct (update_bestSolver_fresh X E Cfg ltb leb SW Hleb inf m0 (map Some rest) b upd Hu) as (-> & m & -> & Hm).
    change (Some m0 :: map Some rest) with (map Some (m0 :: rest)) in Hm. rewrite somes_map_Some in Hm.
    eexists; exists m. split; [reflexivity|]. cbn. repeat split; auto.
  Qed.
End Creation.

(* ------------------------------------------------------------------------------------------------ *)
(** * G. randomly_bin: whatever the random keys, the bins multiply to N and there is one per dimension *)

Lemma prod_nat_app : forall a b, prod_nat (a ++ b) = prod_nat a * prod_nat b.
Proof. unfold prod_nat. induction a; intros; cbn [app fold_right]; [lia|]. rewrite IHa. lia. Qed.

Lemma prod_nat_repeat1 : forall k, prod_nat (repeat 1 k) = 1.
Proof. unfold prod_nat. induction k; cbn [repeat fold_right]; lia. Qed.

Lemma prod_nat_repeat : forall i k, prod_nat (repeat i k) = i ^ k.
Proof. unfold prod_nat. induction k; cbn [repeat fold_right Nat.pow]; [reflexivity|]. rewrite IHk. lia. Qed.

Lemma prod_nat_perm : forall a b, Permutation a b -> prod_nat a = prod_nat b.
Proof. unfold prod_nat. induction 1; cbn [fold_right]; lia. Qed.

Lemma strip_spec : forall fuel n i, n = fst (strip fuel n i) * i ^ snd (strip fuel n i).
Proof.
  induction fuel as [|f IH]; intros n i; cbn [strip]; [cbn; lia|].
  destruct ((1 <? i) && (0 <? n) && (n mod i =? 0)) eqn:C; [|cbn; lia].
  apply andb_prop in C. destruct C as [C C3]. apply andb_prop in C. destruct C as [C1 C2].
  apply Nat.ltb_lt in C1. apply Nat.eqb_eq in C3.
  cbn [fst snd]. rewrite Nat.pow_succ_r'.
  specialize (IH (n / i) i).
  assert (Hn : n = i * (n / i)) by (apply Nat.div_exact; lia).
  rewrite Hn at 1. rewrite IH at 1. lia.
Qed.

Lemma factors_loop_spec : forall cands n acc l,
  factors_loop cands n acc = Some l -> prod_nat l = prod_nat acc * n.
Proof.
  induction cands as [|i more IH]; intros n acc l H; [discriminate|].
  cbn [factors_loop] in H. pose proof (strip_spec n n i) as S.
  destruct (strip n n i) as [n' s]. cbn [fst snd] in *.
  destruct (n' =? 1) eqn:C.
  - injection H as <-. apply Nat.eqb_eq in C. subst n'. rewrite prod_nat_app, prod_nat_repeat. lia.
  - apply IH in H. rewrite H, prod_nat_app, prod_nat_repeat. nia.
Qed.

Theorem factors_product : forall n l, factors n = Some l -> prod_nat l = n.
Proof. intros n l H. apply factors_loop_spec in H. cbn in H. lia. Qed.

(* the trial division never falls off the end (and yields at most N factors): swept for every N up to the stated bound *)
Lemma factors_total_bounded : forall n, 1 <= n <= 512 -> exists l, factors n = Some l /\ length l <= n.
Proof.
  assert (H : forallb (fun n => match factors n with Some l => length l <=? n | None => false end) (seq 1 512) = true)
    by (vm_compute; reflexivity).
  intros n Hn. rewrite forallb_forall in H. specialize (H n ltac:(apply in_seq; lia)).
  destruct (factors n) as [l|]; [|discriminate]. exists l. split; [reflexivity|]. now apply Nat.leb_le.
Qed.

Section SortKeys.
  Variable K : Type.
  Variable kltb : K -> K -> bool.

  Lemma insert_stable_perm : forall x l, Permutation (insert_stable kltb x l) (x :: l).
  Proof.
    intros x l; induction l as [|y r IH]; cbn; [auto|].
    destruct (kltb (fst x) (fst y)); [auto|].
    eapply perm_trans; [apply perm_skip; exact IH | apply perm_swap].
  Qed.

  Lemma sort_by_keys_perm : forall l, Permutation (sort_by_keys kltb l) l.
  Proof.
    induction l as [|x l IH]; cbn; [auto|].
    eapply perm_trans; [apply insert_stable_perm | apply perm_skip; exact IH].
  Qed.
End SortKeys.

Lemma strided_none : forall k s c x (g : nat -> nat), c < s ->
  map (fun i => (if c =? i then x else 1) * g i) (seq s k) = map g (seq s k).
Proof.
  induction k as [|k IH]; intros s c x g Hc; [reflexivity|].
  cbn [seq map]. assert (H : c =? s = false) by (apply Nat.eqb_neq; lia). rewrite H, IH by lia. f_equal. lia.
Qed.

Lemma strided_one_gen : forall k s c x (g : nat -> nat), s <= c < s + k ->
  prod_nat (map (fun i => (if c =? i then x else 1) * g i) (seq s k)) = x * prod_nat (map g (seq s k)).
Proof.
  unfold prod_nat. induction k as [|k IH]; intros s c x g Hc; [lia|].
  cbn [seq map fold_right]. destruct (Nat.eq_dec c s) as [->|Hne].
  - rewrite Nat.eqb_refl, strided_none by lia. lia.
  - assert (H : c =? s = false) by (apply Nat.eqb_neq; lia). rewrite H, IH by lia. lia.
Qed.

Lemma strided_one : forall dim c x (g : nat -> nat), c < dim ->
  prod_nat (map (fun i => (if c =? i then x else 1) * g i) (seq 0 dim)) = x * prod_nat (map g (seq 0 dim)).
Proof. intros; apply strided_one_gen; lia. Qed.

Lemma strided_partition : forall l k dim, 0 < dim ->
  prod_nat (map (strided_prod l k dim) (seq 0 dim)) = prod_nat l.
Proof.
  induction l as [|x l IH]; intros k dim Hd.
  - unfold prod_nat. induction (seq 0 dim) as [|a r IHr]; [reflexivity|].
    cbn [map fold_right]. rewrite IHr. reflexivity.
  - cbn [strided_prod].
    rewrite (strided_one dim (k mod dim) x (strided_prod l (S k) dim)) by (apply Nat.mod_upper_bound; lia).
    rewrite IH by lia. reflexivity.
Qed.

Lemma map_snd_combine : forall {K V} (ks : list K) (r : list V), length ks = length r -> map snd (combine ks r) = r.
Proof.
  intros K V ks; induction ks as [|a ks IH]; intros [|x r] Hl; try discriminate; [reflexivity|].
  cbn. f_equal. apply IH. cbn in Hl. lia.
Qed.

Theorem randomly_bin_spec : forall K (kltb : K -> K -> bool) N ndim keys bins,
  0 < ndim -> randomly_bin kltb N ndim keys = Some bins ->
  length bins = ndim /\ prod_nat bins = N.
Proof.
  intros K kltb N ndim keys bins Hd H. unfold randomly_bin in H.
  destruct (factors N) as [fs|] eqn:Hf; [|discriminate].
  destruct (length keys <? length (fs ++ repeat 1 (ndim - length fs / ndim))) eqn:Hk; [discriminate|].
  injection H as <-. split; [now rewrite map_length, seq_length|].
  rewrite strided_partition by exact Hd.
  apply Nat.ltb_ge in Hk.
  set (res := fs ++ repeat 1 (ndim - length fs / ndim)) in *.
  rewrite (prod_nat_perm _ (map snd (combine (firstn (length res) keys) res))).
  - rewrite map_snd_combine by (rewrite firstn_length; lia).
    unfold res. rewrite prod_nat_app, prod_nat_repeat1. apply factors_product in Hf. lia.
  - apply Permutation_map. apply sort_by_keys_perm.
Qed.

(* with enough recorded keys and N within the swept bound the function does return *)
Theorem randomly_bin_total : forall K (kltb : K -> K -> bool) N ndim keys,
  1 <= N <= 512 -> N + ndim <= length keys -> exists bins, randomly_bin kltb N ndim keys = Some bins.
Proof.
  intros K kltb N ndim keys HN Hk. unfold randomly_bin.
  destruct (factors_total_bounded N HN) as (fs & -> & Hlen).
  destruct (length keys <? length (fs ++ repeat 1 (ndim - length fs / ndim))) eqn:C; [|eauto].
  exfalso. apply Nat.ltb_lt in C. rewrite app_length, repeat_length in C. lia.
Qed.

(* ------------------------------------------------------------------------------------------------ *)
(** * E. gridpts is the lexicographic Cartesian product *)

Section GridSpec.
  Variable A : Type.

  Lemma flat_map_length_uniform : forall {B C} (f : B -> list C) m l,
    (forall a, length (f a) = m) -> length (flat_map f l) = length l * m.
  Proof. intros B C f m l H; induction l; cbn; [reflexivity|]. rewrite app_length, H, IHl. lia. Qed.

  Theorem gridpts_length : forall q : list (list A), length (gridpts q) = prod_nat (map (@length A) q).
  Proof.
    induction q as [|ax q IH]; [reflexivity|]. cbn [gridpts map]. unfold prod_nat in *. cbn [fold_right].
    rewrite (flat_map_length_uniform _ (length (gridpts q))) by (intros; apply map_length). rewrite IH. reflexivity.
  Qed.

  Theorem gridpts_In : forall (q : list (list A)) p, In p (gridpts q) <-> Forall2 (@In A) p q.
  Proof.
    induction q as [|ax q IH]; intros p; cbn [gridpts].
    - split; [intros [<-|[]]; constructor | intros H; inversion H; now left].
    - rewrite in_flat_map. split.
      + intros (a & Ha & Hp). apply in_map_iff in Hp. destruct Hp as (p' & <- & Hp'). constructor; [exact Ha|]. now apply IH.
      + intros H. inversion H as [|a ? p' ? Ha Hp']; subst. exists a. split; [exact Ha|]. apply in_map. now apply IH.
  Qed.

  Lemma nth_flat_map_uniform : forall {B C} (f : B -> list C) m l j r d b0,
    (forall a, length (f a) = m) -> j < length l -> r < m ->
    nth (j * m + r) (flat_map f l) d = nth r (f (nth j l b0)) d.
  Proof.
    intros B C f m l; induction l as [|a l IH]; intros j r d b0 Hm Hj Hr; [cbn in Hj; lia|].
    cbn [flat_map]. destruct j as [|j].
    - cbn [Nat.mul Nat.add nth]. apply app_nth1. rewrite Hm. exact Hr.
    - rewrite app_nth2 by (rewrite Hm; cbn; lia). rewrite Hm.
      replace (S j * m + r - m) with (j * m + r) by (cbn; lia). cbn [nth]. apply IH; auto. cbn in Hj. lia.
  Qed.

  (* order: the point with per-axis indices js sits at the mixed-radix position, the LAST axis varying fastest *)
  Theorem gridpts_nth : forall (q : list (list A)) js d,
    Forall2 (fun j ax => j < length ax) js q ->
    nth (grid_rank js (map (@length A) q)) (gridpts q) [] = grid_point d js q.
  Proof.
    induction q as [|ax q IH]; intros js d H; inversion H as [|j ? js' ? Hj Hjs]; subst; [reflexivity|].
    cbn [map grid_rank gridpts grid_point].
    fold (prod_nat (map (@length A) q)). rewrite <- gridpts_length.
    assert (Hr : grid_rank js' (map (@length A) q) < length (gridpts q)).
    { rewrite gridpts_length. clear IH H Hj. revert js' Hjs. induction q as [|ax' q IHq]; intros js' Hjs;
        inversion Hjs as [|j' ? js'' ? Hj' Hjs']; subst; cbn [map grid_rank]; [cbn; lia|].
      specialize (IHq _ Hjs'). unfold prod_nat in *. cbn [fold_right]. nia. }
    rewrite (nth_flat_map_uniform _ (length (gridpts q)) ax j _ [] d) by (auto; intros; apply map_length).
    rewrite (nth_indep _ [] (nth j ax d :: [])) by (rewrite map_length; exact Hr).
    rewrite (map_nth (cons (nth j ax d))). f_equal.
    apply IH. exact Hjs.
  Qed.

  Lemma nodup_app : forall {B} (a b : list B), NoDup a -> NoDup b -> (forall x, In x a -> ~ In x b) -> NoDup (a ++ b).
  Proof.
    intros B a; induction a as [|x a IH]; intros b Ha Hb Hd; [exact Hb|].
    cbn. inversion Ha; subst. constructor.
    - intros Hin. apply in_app_or in Hin. destruct Hin; [contradiction|]. apply (Hd x); [now left | assumption].
    - apply IH; auto. intros y Hy. apply Hd. now right.
  Qed.

  Lemma nodup_map_cons : forall (a : A) l, NoDup l -> NoDup (map (cons a) l).
  Proof.
    intros a l; induction 1 as [|x l Hx Hl IH]; cbn; constructor; auto.
    intros Hin. apply in_map_iff in Hin. destruct Hin as (y & Hy & Hin). injection Hy as ->. contradiction.
  Qed.

  Theorem gridpts_NoDup : forall q : list (list A), Forall (@NoDup A) q -> NoDup (gridpts q).
  Proof.
    induction q as [|ax q IH]; intros H; cbn [gridpts]; [repeat constructor; intros []|].
    inversion H as [|? ? Hax Hq]; subst. specialize (IH Hq).
    induction Hax as [|a ax Ha Hax IHax]; cbn [flat_map]; [constructor|].
    apply nodup_app; [now apply nodup_map_cons | apply IHax; constructor; auto; now inversion H |].
    intros p Hp Hp'. apply in_map_iff in Hp. destruct Hp as (p0 & <- & _).
    apply in_flat_map in Hp'. destruct Hp' as (b & Hb & Hp'). apply in_map_iff in Hp'.
    destruct Hp' as (p1 & Heq & _). injection Heq as -> _. contradiction.
  Qed.
End GridSpec.

Lemma gridpts_empty_axis : forall {A} (q : list (list A)), In [] q -> gridpts q = [].
Proof.
  intros A q; induction q as [|ax q IH]; intros H; [contradiction|]. cbn [gridpts].
  destruct H as [->|H]; [reflexivity|]. rewrite (IH H). induction ax; cbn; auto.
Qed.

(* ------------------------------------------------------------------------------------------------ *)
(** * E'. The loop as written in grid.py (with its empty-axis guard) computes that product *)

Section GridImpl.
  Variable A : Type.

  Lemma mapi_from_app : forall {B C} (f : nat -> B -> C) a b k,
    mapi_from f k (a ++ b) = mapi_from f k a ++ mapi_from f (k + length a) b.
  Proof.
    intros B C f a; induction a as [|x a IH]; intros b k; cbn [app mapi_from length].
    - now rewrite Nat.add_0_r.
    - f_equal. rewrite IH. f_equal. f_equal. lia.
  Qed.

  Lemma mapi_from_id : forall {B} (f : nat -> B -> B) l k,
    (forall i x, i < length l -> f (k + i) x = x) -> mapi_from f k l = l.
  Proof.
    intros B f l k H. rewrite (mapi_from_ext f (fun x => x)); [apply map_id|].
    intros i x Hi. apply H. apply nth_error_Some. congruence.
  Qed.

  Lemma append_range_middle : forall (P Wd R : list (list A)) lo v,
    length P = lo ->
    append_range A (P ++ Wd ++ R) lo (lo + length Wd) v = P ++ map (fun wl => wl ++ [v]) Wd ++ R.
  Proof.
    intros P Wd R lo v HP. unfold append_range. rewrite !mapi_from_app. cbn [Nat.add]. f_equal; [|f_equal].
    - apply mapi_from_id. intros i x Hi. cbn [Nat.add].
      assert (H : lo <=? i = false) by (apply Nat.leb_gt; lia). now rewrite H.
    - apply mapi_from_ext. intros i x Hi.
      assert (Hlt : i < length Wd) by (apply nth_error_Some; congruence).
      assert (H1 : lo <=? length P + i = true) by (apply Nat.leb_le; lia).
      assert (H2 : length P + i <? lo + length Wd = true) by (apply Nat.ltb_lt; lia).
      now rewrite H1, H2.
    - apply mapi_from_id. intros i x Hi.
      assert (H2 : length P + length Wd + i <? lo + length Wd = false) by (apply Nat.ltb_ge; lia).
      rewrite H2. now rewrite andb_false_r.
  Qed.

  Lemma concat_repeat_length : forall (W : list (list A)) n, length (concat (repeat W n)) = n * length W.
  Proof. intros W n; induction n; cbn; [reflexivity|]. rewrite app_length, IHn. reflexivity. Qed.

  Definition app1 (a : A) (p : list A) : list A := p ++ [a].

  Lemma assign_fold : forall (W : list (list A)) n M rest t P,
    0 < n -> M = n * length W -> length P = t * length W ->
    fold_left (fun w' kv => append_range A w' (fst kv * M / n) (S (fst kv) * M / n) (snd kv))
              (combine (seq t (length rest)) rest) (P ++ concat (repeat W (length rest)))
    = P ++ flat_map (fun a => map (app1 a) W) rest.
  Proof.
    intros W n M rest; induction rest as [|a rest IH]; intros t P Hn HM HP.
    - reflexivity.
    - cbn [length seq combine fold_left fst snd repeat concat flat_map].
      assert (D1 : t * M / n = t * length W).
      { subst M. replace (t * (n * length W)) with (t * length W * n) by lia. apply Nat.div_mul. lia. }
      assert (D2 : S t * M / n = t * length W + length W).
      { subst M. replace (S t * (n * length W)) with ((t * length W + length W) * n) by lia. apply Nat.div_mul. lia. }
      rewrite D1, D2. rewrite append_range_middle by exact HP.
      change (map (fun wl => wl ++ [a]) W) with (map (app1 a) W).
      rewrite app_assoc. rewrite (IH (S t) (P ++ map (app1 a) W)); auto.
      + now rewrite <- app_assoc.
      + rewrite app_length, map_length, HP. cbn. lia.
  Qed.

  Lemma assign_blocks : forall (W : list (list A)) axis,
    axis <> [] ->
    assign_axis A (concat (repeat W (length axis))) axis = flat_map (fun a => map (app1 a) W) axis.
  Proof.
    intros W axis Hne. unfold assign_axis.
    rewrite concat_repeat_length.
    apply (assign_fold W (length axis) (length axis * length W) axis 0 []); auto.
    destruct axis; [congruence | cbn; lia].
  Qed.

  Definition G (suffix : list (list A)) : list (list A) := map (@rev A) (gridpts suffix).

  Lemma G_cons : forall axis suffix, flat_map (fun a => map (app1 a) (G suffix)) axis = G (axis :: suffix).
  Proof.
    intros axis suffix. unfold G. cbn [gridpts].
    induction axis as [|a axis IH]; [reflexivity|].
    cbn [flat_map]. rewrite map_app, IH. f_equal. rewrite !map_map. apply map_ext. intros p. reflexivity.
  Qed.

  Lemma replicate_pos : forall (w : list (list A)) c, 0 < c -> replicate_w A w c = concat (repeat w c).
  Proof. intros w [|c] H; [lia|]. unfold replicate_w. cbn. now rewrite Nat.sub_0_r. Qed.

  Lemma loop_inv : forall rq suffix,
    rq <> [] -> Forall (fun ax : list A => ax <> []) rq ->
    grid_loop A rq (concat (repeat (G suffix) (length (hd [] rq)))) = G (rev rq ++ suffix).
  Proof.
    induction rq as [|axis more IH]; intros suffix Hne Hall; [congruence|].
    inversion Hall as [|? ? Hax Hmore]; subst.
    cbn [grid_loop hd]. rewrite assign_blocks by exact Hax. rewrite G_cons.
    destruct more as [|prev more'].
    - reflexivity.
    - rewrite replicate_pos by (inversion Hmore; destruct prev; [congruence | cbn; lia]).
      change (length prev) with (length (hd [] (prev :: more'))).
      rewrite IH by (auto; congruence).
      cbn [rev]. now rewrite <- !app_assoc.
  Qed.

  Lemma guard_true : forall q : list (list A),
    forallb (fun ax => negb (Nat.eqb (length ax) 0)) q = true -> Forall (fun ax => ax <> []) q.
  Proof.
    intros q H. apply Forall_forall. intros ax Hin Heq. rewrite forallb_forall in H. specialize (H ax Hin).
    subst ax. discriminate.
  Qed.

  Lemma guard_false : forall q : list (list A),
    forallb (fun ax => negb (Nat.eqb (length ax) 0)) q = false -> In [] q.
  Proof.
    induction q as [|ax q IH]; cbn; [discriminate|]. intros H. apply andb_false_iff in H. destruct H as [H|H].
    - left. destruct ax; [reflexivity | discriminate].
    - right. auto.
  Qed.

  (* the loop as written (with its empty-axis guard) computes the product for EVERY list of axes; the only rejected
     input is the one without any axis (IndexError) *)
  Theorem gridpts_impl_correct : forall q : list (list A),
    q <> [] -> gridpts_impl q = Some (gridpts q).
  Proof.
    intros q Hne. unfold gridpts_impl.
    destruct (rev q) as [|last rq'] eqn:Hr.
    { exfalso. apply Hne. rewrite <- (rev_involutive q), Hr. reflexivity. }
    destruct (forallb (fun ax => negb (Nat.eqb (length ax) 0)) q) eqn:Hg.
    2:{ apply guard_false in Hg. now rewrite (gridpts_empty_axis q Hg). }
    apply guard_true in Hg. rename Hg into Hall.
    assert (Hinit : repeat (@nil A) (length last) = concat (repeat (G []) (length (hd [] (last :: rq'))))).
    { cbn [hd]. unfold G. cbn [gridpts map rev]. induction (length last); cbn; [reflexivity|]. now f_equal. }
    rewrite Hinit, <- Hr.
    rewrite loop_inv.
    - rewrite rev_involutive, app_nil_r. unfold G. rewrite map_map. f_equal.
      rewrite <- (map_id (gridpts q)) at 2. apply map_ext. apply rev_involutive.
    - rewrite Hr. discriminate.
    - apply Forall_rev. exact Hall.
  Qed.

  (* an input without axes is rejected (IndexError) *)
  Lemma gridpts_impl_no_axes : gridpts_impl (@nil (list A)) = None.
  Proof. reflexivity. Qed.
End GridImpl.

(* ------------------------------------------------------------------------------------------------ *)
(** * Property-level statements (restated in Props/Properties_C09.v) *)

Theorem best_is_min_member : forall (X E Cfg : Type) (ltb leb : E -> E -> bool),
  StrictWeak E ltb -> (forall x y, leb x y = negb (ltb y x)) ->
  forall own prev (all : list (option (member X E Cfg))) b upd,
  update_bestSolver leb own prev all = Some (b, upd) ->
  (exists m, In m (somes all) /\
             leb (r_energy (m_res m)) (cur X E Cfg own (start_of X E Cfg prev all)) = true) ->
  upd = true /\ exists m, b = Some m /\ In m (somes all) /\
    forall x, In x (somes all) -> leb (r_energy (m_res m)) (r_energy (m_res x)) = true.
Proof.
  intros X E Cfg ltb leb SW Hleb own prev all b upd Hu Hex.
  destruct (update_bestSolver_spec X E Cfg ltb leb SW Hleb own prev all b upd Hu Hex) as (-> & m & -> & Hm).
  split; [reflexivity|]. exists m. split; [reflexivity|].
  exact (is_last_min_min X E Cfg ltb leb SW Hleb m (somes all) Hm).
Qed.

Theorem solution_is_that_members : forall (X E Cfg : Type) (ltb leb : E -> E -> bool),
  StrictWeak E ltb -> (forall x y, leb x y = negb (ltb y x)) ->
  forall (e e' : ens X E Cfg),
  update_state leb e = Some e' ->
  (exists m, In m (somes (e_all e)) /\
             leb (r_energy (m_res m)) (cur X E Cfg (e_energy e) (start_of X E Cfg (e_best e) (e_all e))) = true) ->
  exists m l1 l2,
    somes (e_all e) = l1 ++ m :: l2 /\
    Forall (fun x => leb (r_energy (m_res m)) (r_energy (m_res x)) = true) l1 /\
    Forall (fun x => ltb (r_energy (m_res m)) (r_energy (m_res x)) = true) l2 /\
    e_best e' = Some m /\ e_energy e' = r_energy (m_res m) /\ e_sol e' = Some (r_sol (m_res m)) /\
    e_evals e' = r_evals (m_res m) /\ e_all e' = e_all e.
Proof.
  intros X E Cfg ltb leb SW Hleb e e' Hs Hex.
  destruct (update_state_spec X E Cfg ltb leb SW Hleb e e' Hs Hex) as (m & (l1 & l2 & H0 & H1 & H2) & A & B & C & D & F & _).
  exists m, l1, l2. repeat split; auto.
Qed.

Lemma forall2_length : forall {A1 A2} (R : A1 -> A2 -> Prop) l1 l2, Forall2 R l1 l2 -> length l1 = length l2.
Proof. induction 1; cbn; auto. Qed.

Lemma axes_length : forall (N : Num) lo hi ns, length lo = length ns -> length hi = length ns ->
  map (@length (T N)) (axes N lo hi ns) = ns.
Proof.
  intros N lo hi ns; revert lo hi; induction ns as [|n ns IH]; intros [|l lo] [|h hi] H1 H2; try discriminate; [reflexivity|].
  cbn [axes map]. f_equal; [unfold bin_centres; now rewrite map_length, seq_length | apply IH; cbn in *; lia].
Qed.

(* member_count, lattice: one start point per cell, prod(nbins) of them *)
Theorem lattice_count : forall (N : Num) lo hi ns pts, length lo = length ns -> length hi = length ns ->
  lattice_points N lo hi ns = Some pts -> length pts = prod_nat ns /\ Forall (fun p => length p = length ns) pts.
Proof.
  intros N lo hi ns pts H1 H2 H. unfold lattice_points in H.
  destruct (existsb (Nat.eqb 0) ns); [discriminate|]. destruct ns as [|n ns]; [discriminate|]. injection H as <-.
  split.
  - pose proof (gridpts_length (T N) (axes N lo hi (n :: ns))) as GL.
    rewrite (axes_length N lo hi (n :: ns) H1 H2) in GL. exact GL.
  - apply Forall_forall. intros p Hp. apply (gridpts_In (T N)) in Hp. apply forall2_length in Hp.
    pose proof (f_equal (@length nat) (axes_length N lo hi (n :: ns) H1 H2)) as AL. rewrite map_length in AL.
    exact (eq_trans Hp AL).
Qed.

Theorem gridpts_is_product : forall (A : Type) (q : list (list A)),
  length (gridpts q) = prod_nat (map (@length A) q) /\
  (forall p, In p (gridpts q) <-> Forall2 (@In A) p q) /\
  (forall js d, Forall2 (fun j ax => j < length ax) js q ->
       nth (grid_rank js (map (@length A) q)) (gridpts q) [] = grid_point d js q) /\
  (Forall (@NoDup A) q -> NoDup (gridpts q)) /\
  (q <> [] -> gridpts_impl q = Some (gridpts q)).
Proof.
  intros A q. split; [apply gridpts_length|]. split; [apply gridpts_In|]. split; [apply gridpts_nth|].
  split; [apply gridpts_NoDup | apply gridpts_impl_correct].
Qed.
