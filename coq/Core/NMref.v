(* C08 - NMref: the Nelder-Mead simplex method as published in scipy.optimize.fmin (Lagarias, Reeds, Wright & Wright 1998 rules
   with rho=1, chi=2, psi=1/2, sigma=1/2), written from the reference, NOT from mystic:
   initial simplex x0 and x0 with coordinate k scaled by (1+nonzdelt) (zdelt if zero), ordered simplex, centroid of the best N,
   reflect / expand / contract outside / contract inside / shrink with the published acceptance inequalities, stop rule
   max|x_i-x_0| <= xtol and max|f_i-f_0| <= ftol, iteration / evaluation counting with maxiter / maxfun.
   Operation order follows numpy so that the NumF instance is bit-exact: centroid = sequential row sum / N,
   (1+rho)*xbar - rho*x_last elementwise.
   The order among vertices of EQUAL energy after numpy.argsort is unspecified (not stable): the sort is a parameter
   [sorter] (any function returning a sorted permutation); [isort] is one lawful instance, [guided] follows an observed run.
   Definitions only; proofs are in NMref_Proofs.v. *)
From Coq Require Import List Arith Bool ZArith.
From MV Require Import Common.Num.
Import ListNotations.

Inductive nmkind := Reflect | Expand | ContractOut | ContractIn | Shrink.

Section NM.
  Variable N : Num.
  Notation T := (T N).
  Definition nvec := list T.
  Definition vertex := (nvec * T)%type.

  Record nmparams := mkP { nonzdelt : T; zdelt : T; rho : T; chi : T; psi : T; sigma : T; xtol : T; ftol : T }.
  Variable P : nmparams.
  (* the objective; None = the recorded table has no entry (divergence) *)
  Variable f : nvec -> option T.

  Definition vmap2 (g : T -> T -> T) (a b : nvec) : nvec := map (fun p => g (fst p) (snd p)) (combine a b).
  Definition vscale (c : T) (v : nvec) : nvec := map (mul N c) v.
  Definition dflt : vertex := ([], zero N).
  Definition v_best (sim : list vertex) : vertex := hd dflt sim.
  Definition v_worst (sim : list vertex) : vertex := last sim dflt.
  Definition v_second (sim : list vertex) : vertex := nth (length sim - 2) sim dflt.     (* fsim[-2] *)
  Definition dimn (sim : list vertex) : nat := length sim - 1.

  (* xbar = numpy.add.reduce(sim[:-1], 0) / N *)
  Definition xbar (sim : list vertex) : nvec :=
    let rows := map fst (removelast sim) in
    let s := match rows with [] => [] | r0 :: rest => fold_left (vmap2 (add N)) rest r0 end in
    map (fun a => div N a (of_Z N (Z.of_nat (dimn sim)))) s.

  Definition x_r sim := vmap2 (sub N) (vscale (add N (one N) (rho P)) (xbar sim)) (vscale (rho P) (fst (v_worst sim))).
  Definition x_e sim := vmap2 (sub N) (vscale (add N (one N) (mul N (rho P) (chi P))) (xbar sim))
                                      (vscale (mul N (rho P) (chi P)) (fst (v_worst sim))).
  Definition x_c sim := vmap2 (sub N) (vscale (add N (one N) (mul N (psi P) (rho P))) (xbar sim))
                                      (vscale (mul N (psi P) (rho P)) (fst (v_worst sim))).
  Definition x_cc sim := vmap2 (add N) (vscale (sub N (one N) (psi P)) (xbar sim)) (vscale (psi P) (fst (v_worst sim))).
  (* sim[j] = sim[0] + sigma*(sim[j] - sim[0]) *)
  Definition x_shrink (x0 xj : nvec) : nvec := vmap2 (add N) x0 (vscale (sigma P) (vmap2 (sub N) xj x0)).

  Definition eval (x : nvec) : option vertex := option_map (fun y => (x, y)) (f x).
  Fixpoint eval_all (xs : list nvec) : option (list vertex) :=
    match xs with
    | [] => Some []
    | x :: r => match eval x, eval_all r with Some v, Some l => Some (v :: l) | _, _ => None end
    end.
  Definition replace_last (sim : list vertex) (v : vertex) : list vertex := removelast sim ++ [v].
  Definition shrink (sim : list vertex) : option (list vertex) :=
    option_map (cons (v_best sim)) (eval_all (map (fun v => x_shrink (fst (v_best sim)) (fst v)) (tl sim))).

  (* one iteration on an ordered simplex: (unsorted new simplex, which of the five moves, objective evaluations used) *)
  Definition nm_step (sim : list vertex) : option (list vertex * nmkind * nat) :=
    let f0 := snd (v_best sim) in let fs := snd (v_second sim) in let fw := snd (v_worst sim) in
    match eval (x_r sim) with
    | None => None
    | Some vr =>
      if ltb N (snd vr) f0 then
        match eval (x_e sim) with
        | None => None
        | Some ve => if ltb N (snd ve) (snd vr) then Some (replace_last sim ve, Expand, 2)
                     else Some (replace_last sim vr, Reflect, 2)
        end
      else if ltb N (snd vr) fs then Some (replace_last sim vr, Reflect, 1)
      else if ltb N (snd vr) fw then
        match eval (x_c sim) with
        | None => None
        | Some vc => if leb N (snd vc) (snd vr) then Some (replace_last sim vc, ContractOut, 2)
                     else option_map (fun s => (s, Shrink, 2 + dimn sim)) (shrink sim)
        end
      else
        match eval (x_cc sim) with
        | None => None
        | Some vcc => if ltb N (snd vcc) fw then Some (replace_last sim vcc, ContractIn, 2)
                      else option_map (fun s => (s, Shrink, 2 + dimn sim)) (shrink sim)
        end
    end.

  (* initial simplex *)
  Fixpoint set_nth (k : nat) (v : T) (l : nvec) : nvec :=
    match l, k with [], _ => [] | _ :: r, O => v :: r | a :: r, S j => a :: set_nth j v r end.
  Definition init_point (x0 : nvec) (k : nat) : nvec :=
    let y := nth k x0 (zero N) in
    set_nth k (if eqb N y (zero N) then zdelt P else mul N (add N (one N) (nonzdelt P)) y) x0.
  Definition nm_init (x0 : nvec) : option (list vertex) :=
    eval_all (x0 :: map (init_point x0) (seq 0 (length x0))).

  (* stop rule: max |sim[i]-sim[0]| <= xtol and max |fsim[0]-fsim[i]| <= ftol *)
  Definition crt (sim : list vertex) : bool :=
    let x0 := fst (v_best sim) in let f0 := snd (v_best sim) in
    forallb (fun v => forallb (fun p => leb N (abs N (sub N (fst p) (snd p))) (xtol P)) (combine (fst v) x0)) (tl sim)
    && forallb (fun v => leb N (abs N (sub N f0 (snd v))) (ftol P)) (tl sim).

  (* insertion sort by energy, stable (one lawful sorter) *)
  Fixpoint insert (v : vertex) (l : list vertex) : list vertex :=
    match l with
    | [] => [v]
    | w :: r => if ltb N (snd v) (snd w) then v :: l else w :: insert v r
    end.
  Definition isort (l : list vertex) : list vertex := fold_right insert [] (rev l).

  Variable sorter : nat -> list vertex -> list vertex.

  Record nmstate := mkS { st_sim : list vertex; st_iter : nat; st_calls : nat }.

  (* while fcalls < maxfun and iterations < maxiter: if stop rule: break; iterate; sort; iterations += 1
     rem = maxiter - iterations.  Returns the final state and the ordered simplices after each iteration (newest first). *)
  Fixpoint nm_loop (rem maxfun : nat) (st : nmstate) (trace : list (list vertex)) : option (nmstate * list (list vertex)) :=
    match rem with
    | O => Some (st, trace)
    | S r =>
      if Nat.ltb (st_calls st) maxfun then
        if crt (st_sim st) then Some (st, trace)
        else match nm_step (st_sim st) with
             | None => None
             | Some (u, _, c) =>
                 let s' := sorter (st_iter st) u in
                 nm_loop r maxfun (mkS s' (S (st_iter st)) (st_calls st + c)) (s' :: trace)
             end
      else Some (st, trace)
    end.

  Record nmresult := mkR { r_x : nvec; r_f : T; r_iter : nat; r_calls : nat; r_warn : nat; r_trace : list (list vertex) }.

  Definition nm_run (x0 : nvec) (maxiter maxfun : nat) : option nmresult :=
    match nm_init x0 with
    | None => None
    | Some u =>
      let s0 := sorter 0 u in
      match nm_loop (maxiter - 1) maxfun (mkS s0 1 (S (length x0))) [s0] with
      | None => None
      | Some (st, tr) =>
          Some (mkR (fst (v_best (st_sim st))) (snd (v_best (st_sim st))) (st_iter st) (st_calls st)
                    (if Nat.leb maxfun (st_calls st) then 1 else if Nat.leb maxiter (st_iter st) then 2 else 0)
                    (rev tr))
      end
    end.

  (* ---- following an observed run: the observed ordered simplex is accepted iff it is a sorted permutation of the model's *)
  Definition veq (a b : vertex) : bool := list_eqb N (fst a) (fst b) && eqb N (snd a) (snd b).
  Fixpoint remove1 (v : vertex) (l : list vertex) : option (list vertex) :=
    match l with
    | [] => None
    | w :: r => if veq v w then Some r else option_map (cons w) (remove1 v r)
    end.
  Fixpoint perm_eqb (a b : list vertex) : bool :=
    match a with
    | [] => match b with [] => true | _ => false end
    | v :: r => match remove1 v b with Some b' => perm_eqb r b' | None => false end
    end.
  Fixpoint sortedb (l : list vertex) : bool :=
    match l with
    | [] => true
    | v :: r => match r with [] => true | w :: _ => negb (ltb N (snd w) (snd v)) && sortedb r end
    end.
  Definition guided (obs : list (list vertex)) (k : nat) (u : list vertex) : list vertex :=
    let o := nth k obs [] in
    if sortedb o && perm_eqb o u then o else isort u.
End NM.
