(* C04 for Nelder-Mead at run level: in every clean run (no population re-installation, no re-decoration that moves the simplex)
   the best-energy history is non-increasing and its last entry is the reported best energy - for every cost, constraints function
   (also one replaced in the middle of the run), candidate stream and argsort answer, and for simplices of every size (also a single
   vertex, where the accept/reject tree degenerates). *)
From Coq Require Import List ZArith Bool Lia.
From MV Require Import Common.Num Common.Order Core.Machine Core.Machine_Proofs Core.DE_Proofs Core.NM Core.NM_Proofs.
Import ListNotations.
Open Scope Z_scope.

Section NMHistory.
  Variable N : Num.
  Variable inf : T N.
  Notation E := (T N).
  Notation vec := (vec N).
  Notation sys := (sys N).
  Notation nm := (nm N).
  Notation A := (nm_algo N inf).
  Hypothesis Hord : StrictWeak E (ltb N).

  (* what one _Step does to the history: nothing at all (empty simplex), or one record - the new reported best - whose energy is
     not above f0 *)
  Definition step_ok (f0 : E) (c : nm) (r : sys * (nm * list (vec * E))) : Prop :=
    (snd (snd r) = [] /\ fst (snd r) = c) \/
    (snd (snd r) = [nm_best N inf (fst (snd r))] /\ ltb N f0 (snd (nm_best N inf (fst (snd r)))) = false).

  Lemma finish_ok s p l x e f0 c : In (x, e) l -> ltb N f0 e = false ->
    step_ok f0 c (run_prog inf true s (finish N inf p l)).
  Proof.
    intros Hin Hle. unfold finish, step_ok.
    set (sl := if valid_perm N inf p l then apply_perm N inf p l else isort N l).
    assert (Hq : In (x, e) sl /\ sorted_e N sl = true).
    { subst sl. destruct (valid_perm N inf p l) eqn:Hv.
      - unfold valid_perm in Hv. apply andb_true_iff in Hv as [Hp Hs]. split; [|exact Hs].
        destruct (In_nth l (x, e) ([], inf) Hin) as (i & Hi & Hn).
        unfold apply_perm. apply in_map_iff. exists i. split; [exact Hn|]. eapply is_perm_in; eauto.
      - split; [apply (isort_in' N); exact Hin|apply (isort_sorted N Hord)]. }
    destruct Hq as [Hq Hs].
    destruct sl as [|[y0 g0] r]; [destruct Hq|].
    cbn [run_prog fst snd sim fsim map nm_best hd]. right. split; [reflexivity|].
    destruct Hq as [Hq|Hq].
    - injection Hq as _ Hq. subst g0. exact Hle.
    - pose proof (sorted_head_min N Hord r (y0, g0) Hs) as Hm. rewrite Forall_forall in Hm.
      specialize (Hm _ Hq). cbn [snd] in Hm.
      exact (sw_negtrans E (ltb N) Hord _ _ _ Hle Hm).
  Qed.

  Lemma evalc_ok f0 c s ip x k :
    (forall s1 x' e, step_ok f0 c (run_prog inf true s1 (k x' e))) ->
    step_ok f0 c (run_prog inf true s (evalc N ip x k)).
  Proof. intros Hk. unfold evalc. cbn [run_prog]. destruct ip; cbn [run_prog]; apply Hk. Qed.

  Lemma in_replace_last_new (l : list (vec * E)) p : In p (replace_last N l p).
  Proof. unfold replace_last. apply in_or_app. right. left. reflexivity. Qed.

  Lemma lt_not_gt x y : ltb N x y = true -> ltb N y x = false.
  Proof. apply (asym N Hord). Qed.

  Theorem nm_step_history s c i : stepmon N s <> [] ->
    step_ok (snd (nm_best N inf c)) c (run_prog inf true s (nm_step N inf s c i)).
  Proof.
    intros Hsm. unfold nm_step. cbv zeta.
    destruct (stepmon N s) as [|sm0 smr]; [congruence|].
    destruct (Nat.pred (length (sm0 :: smr))).
    - (* generation 1: the list that is sorted starts with the current best *)
      rewrite (bind_run_t' N inf). eapply finish_ok; [left; reflexivity|].
      unfold nm_best. cbn [snd]. apply (sw_irrefl E (ltb N) Hord).
    - destruct (combine (sim N c) (fsim N c)) as [|[x0 f0] rest] eqn:El.
      + cbn [run_prog fst snd]. left. split; reflexivity.
      + assert (Ef : snd (nm_best N inf c) = f0).
        { unfold nm_best. destruct (sim N c) as [|a sr]; [discriminate|]. destruct (fsim N c) as [|b fr]; [discriminate|].
          cbn [combine] in El. injection El as _ -> _. reflexivity. }
        rewrite Ef. cbn [run_prog].
        set (x0c := u_cons N s x0).
        assert (Hirr : ltb N f0 f0 = false) by apply (sw_irrefl E (ltb N) Hord).
        assert (Hshrink : forall s1, step_ok f0 c (run_prog inf true s1
                  (bind (evalc_all N (inpl N i) (firstn (length rest) (skipn 2 (cands N i))))
                        (fun vs => finish N inf (perm N i) ((x0c, f0) :: vs))))).
        { intros s1. rewrite (bind_run_t' N inf). eapply finish_ok; [left; reflexivity|exact Hirr]. }
        destruct rest as [|v1 rest'].
        * (* a single vertex: only a strictly better candidate can replace it *)
          cbn [removelast last snd].
          apply evalc_ok. intros s1 xr' fxr.
          destruct (ltb N fxr f0) eqn:E1.
          { apply evalc_ok. intros s2 x1' fxe. destruct (ltb N fxe fxr) eqn:E2.
            - eapply finish_ok; [apply in_replace_last_new|]. apply lt_not_gt. exact (sw_trans E (ltb N) Hord _ _ _ E2 E1).
            - eapply finish_ok; [apply in_replace_last_new|]. apply lt_not_gt. exact E1. }
          apply evalc_ok. intros s2 x1' fxcc.
          destruct (ltb N fxcc f0) eqn:E3.
          -- eapply finish_ok; [apply in_replace_last_new|]. apply lt_not_gt. exact E3.
          -- apply Hshrink.
        * (* at least two vertices: the best vertex stays in the list that is sorted *)
          assert (Hkeep : forall p0, In (x0c, f0) (replace_last N ((x0c, f0) :: v1 :: rest') p0)).
          { intros p0. unfold replace_last. cbn [removelast]. left. reflexivity. }
          apply evalc_ok. intros s1 xr' fxr.
          destruct (ltb N fxr f0).
          { apply evalc_ok. intros s2 x1' fxe. destruct (ltb N fxe fxr); (eapply finish_ok; [apply Hkeep|exact Hirr]). }
          destruct (ltb N fxr _).
          { eapply finish_ok; [apply Hkeep|exact Hirr]. }
          destruct (ltb N fxr _).
          { apply evalc_ok. intros s2 x1' fxc. destruct (Num.leb N fxc fxr); [eapply finish_ok; [apply Hkeep|exact Hirr]|apply Hshrink]. }
          { apply evalc_ok. intros s2 x1' fxcc. destruct (ltb N fxcc _); [eapply finish_ok; [apply Hkeep|exact Hirr]|apply Hshrink]. }
  Qed.

  (* generation 0 logs exactly one record, the new reported best *)
  Lemma nm_step_first s c i : stepmon N s = [] ->
    snd (snd (run_prog inf true s (nm_step N inf s c i))) = [nm_best N inf (fst (snd (run_prog inf true s (nm_step N inf s c i))))].
  Proof. intros Hsm. unfold nm_step. cbv zeta. rewrite Hsm. cbn [run_prog fst snd]. reflexivity. Qed.

  (* the invariant carried through every clean operation sequence *)
  Definition H_nm (s : sys) (c : nm) : Prop :=
    desc N (map snd (stepmon N s)) /\
    (stepmon N s <> [] -> snd (last (stepmon N s) ([], inf)) = snd (nm_best N inf c)).

  Lemma last_map_snd (q : vec * E) qs : last (map snd (q :: qs)) inf = snd (last (q :: qs) ([], inf)).
  Proof. revert q. induction qs as [|a l IH]; intros q0; auto. simpl in *. apply IH. Qed.

  Theorem nm_history_ok : forall ops sc,
    Forall (clean_op N _ (nm_ok_in N) false false) ops -> H_nm (fst sc) (snd sc) ->
    H_nm (fst (run N inf _ _ A sc ops)) (snd (run N inf _ _ A sc ops)).
  Proof.
    apply (run_joint N inf _ _ A H_nm (nm_ok_in N) false false).
    - intros s s' c _ Es _ _ H. unfold H_nm. rewrite Es. exact H.
    - intros s c i Hi H. cbn [a_decorate nm_algo]. unfold nm_decorate. unfold nm_ok_in in Hi. rewrite Hi. exact H.
    - intros s c i _ (Hd & Hlast). cbv zeta. cbn [a_nested a_step nm_algo].
      destruct (run_prog_cfg N inf true _ (nm_step N inf s c i) s) as (_ & _ & Hs). cbv zeta in Hs.
      unfold H_nm. cbn [stepmon set_stepmon]. rewrite Hs.
      destruct (stepmon N s) as [|q qs] eqn:Eq.
      + rewrite (nm_step_first s c i Eq). cbn [app map]. split; [simpl; auto|]. intros _. reflexivity.
      + assert (Hne : stepmon N s <> []) by (rewrite Eq; discriminate).
        pose proof (nm_step_history s c i Hne) as K. specialize (Hlast ltac:(discriminate)).
        set (r := run_prog inf true s (nm_step N inf s c i)) in *.
        destruct K as [[Hnil Hc]|[Hrec Hle]].
        * rewrite Hnil, Hc, app_nil_r. split; [exact Hd|]. intros _. exact Hlast.
        * rewrite Hrec, map_app. cbn [map]. split.
          -- apply desc_app_last; [exact Hd|].
             pose proof (desc_last_le N Hord (map snd (q :: qs)) inf Hd) as Hall.
             rewrite last_map_snd, Hlast in Hall.
             eapply Forall_impl; [|exact Hall]. intros a Ha. cbv beta in Ha.
             exact (sw_negtrans E (ltb N) Hord _ _ _ Ha Hle).
          -- intros _. rewrite last_app_single. reflexivity.
    - intros s c H. cbn [a_finalize nm_algo fst snd]. unfold H_nm. cbn [stepmon set_stepmon]. rewrite app_nil_r. exact H.
  Qed.

  (* a freshly built solver satisfies the invariant *)
  Lemma nm_history_init s c : stepmon N s = [] -> H_nm s c.
  Proof. intros Hs. unfold H_nm. rewrite Hs. split; [exact Logic.I|congruence]. Qed.
End NMHistory.
