(* scipy_optimize.PowellDirectionalSolver as a program over the machine: bookkeeping only.
   Oracle inputs of a step: for each Brent line search the points it probed (arguments of the decorated objective, in
   order) and which of them it returned; the extrapolated point; whether the extra line search along the extrapolated
   direction was taken (that decision and the direction set are arithmetic: C08's PowellRef).  Modelled here: what is
   evaluated in which order, constraints applied after each line search, what is stored as best, when a generation is
   logged (one phase late), the decoupled last energy, Finalize.  No proofs here. *)
From Coq Require Import List ZArith Bool.
From MV Require Import Common.Num Core.Machine.
Import ListNotations.
Open Scope Z_scope.

Section Powell.
  Variable N : Num.
  Variable inf : T N.
  Notation E := (T N).
  Notation vec := (vec N).
  Notation prog := (prog N).

  Record pw := { px : list vec; pe : list E; pextra_e : list E }.   (* population (1 member), popEnergy, decoupled energy *)
  Record pw_in := { pls : list (list vec * nat); px2 : option vec; ptook : bool; pdeco : option (list vec) }.

  Definition pw_best (c : pw) : vec * E := (hd [] (px c), hd inf (pe c)).

  (* one line search: evaluate the probes in order, return the chosen probe with the energy obtained for it *)
  Fixpoint probe_all (ps : list vec) : prog (list (vec * E)) :=
    match ps with
    | [] => Ret []
    | p :: r => Eval p (fun e => bind (probe_all r) (fun l => Ret ((p, e) :: l)))
    end.
  Definition line_search (cur : vec * E) (l : list vec * nat) : prog (vec * E) :=
    bind (probe_all (fst l)) (fun res => Ret (nth (snd l) res cur)).

  (* a line search followed by the constraints on the returned point *)
  Definition ls_cons (cur : vec * E) (l : list vec * nat) : prog (vec * E) :=
    bind (line_search cur l) (fun r => Cons (fst r) (fun xc => Ret (xc, snd r))).

  Fixpoint sweep (cur : vec * E) (ls : list (list vec * nat)) : prog (vec * E) :=
    match ls with
    | [] => Ret cur
    | l :: r => bind (ls_cons cur l) (fun c' => sweep c' r)
    end.

  Definition is_zero_limit (l : limit) : bool := match l with LAbs 0 => true | _ => false end.

  Definition pw_step (s : sys N) (c : pw) (i : pw_in) : prog (pw * list (vec * E)) :=
    let cur := pw_best c in
    match stepmon N s with
    | [] =>                                      (* generation 0 *)
        Cons (fst cur) (fun x => Eval x (fun f =>
          Ret ({| px := [x]; pe := [f]; pextra_e := pextra_e c |},
               if is_zero_limit (maxiter N s) then [] else [(x, f)])))
    | _ =>
      if Nat.eqb (length (stepmon N s) + length (pextra_e c)) 1 then   (* generations = 0: the second half of the first iteration *)
        bind (sweep cur (pls i)) (fun r =>
          Ret ({| px := [fst r]; pe := [snd r]; pextra_e := [snd r] |}, []))
      else
        match px2 i with
        | None => Ret (c, [])
        | Some x2 =>
          Eval x2 (fun _ =>
            let first := if ptook i then firstn 1 (pls i) else [] in
            let rest := if ptook i then skipn 1 (pls i) else pls i in
            bind (sweep cur first) (fun r1 =>
              let recs := match pextra_e c with [] => [] | _ => [r1] end in    (* logged only if not yet logged by Finalize *)
              bind (sweep r1 rest) (fun r =>
                Ret ({| px := [fst r]; pe := [snd r]; pextra_e := [snd r] |}, recs))))
        end
    end.

  Definition pw_decorate (s : sys N) (c : pw) (i : pw_in) : pw :=
    match pdeco i with Some p => {| px := p; pe := pe c; pextra_e := pextra_e c |} | None => c end.

  (* Finalize: log the pending (best, energy) record if the last energy has not been logged yet *)
  Definition pw_finalize (s : sys N) (c : pw) : pw * list (vec * E) :=
    match pextra_e c with
    | [] => (c, [])
    | _ => if live N s then ({| px := px c; pe := pe c; pextra_e := [] |}, [pw_best c]) else (c, [])
    end.

  Definition pw_algo : algo N pw pw_in := {|
    a_nested := true;
    a_npop := fun _ => 1;
    a_ndim := fun c => Z.of_nat (length (hd [] (px c)));
    a_iterscale := 1000; a_evalscale := 1000;
    a_ehist_extra := pextra_e;
    a_best := pw_best;
    a_decorate := pw_decorate;
    a_step := pw_step;
    a_finalize := pw_finalize;
    a_set_pop := fun c p => {| px := p; pe := pe c; pextra_e := pextra_e c |};
    a_fix_counter := fun _ s1 _ => fcalls N s1;
    a_cons_finalizes := true
  |}.

  Definition pw_init (ndim : nat) : pw := {| px := [repeat (zero N) ndim]; pe := [inf]; pextra_e := [] |}.
End Powell.
