(* C02, result clause: when the strict ranges are not changed during the run, every logged call was made under that box, so a
   reported best that is an evaluated point lies inside it - for every algorithm over the machine. *)
From Coq Require Import List ZArith Bool Lia.
From MV Require Import Common.Num Common.Order Core.Machine Core.Machine_Proofs Core.DE Core.DE_Proofs Core.NM Core.NM_Proofs Core.Powell Core.Powell_Proofs.
Import ListNotations.
Open Scope Z_scope.

Section BoxConst.
  Variable N : Num.
  Variable inf : T N.
  Notation sys := (sys N).
  Variables C I : Type.
  Variable A : algo N C I.
  Variable b : option (vec N * vec N).

  (* the box in force is b and every logged call was made under b *)
  Definition BoxConst (s : sys) : Prop := box N s = b /\ Forall (fun c => c_box N c = b) (calls N s).

  Lemma objective_boxconst nested s x : BoxConst s -> BoxConst (fst (objective N inf nested s x)).
  Proof.
    intros [Hb Hc]. destruct (objective_cfg N inf nested s x) as (Hbox & _). cbv zeta in Hbox.
    split; [congruence|].
    destruct (objective_core N inf nested s x) as [Hcore|(c & y & e & _ & _ & Hcalls & _)].
    - apply (core_eq N) in Hcore as (E & _). rewrite E. exact Hc.
    - rewrite Hcalls. apply Forall_app. split; [exact Hc|]. constructor; [|constructor]. cbn [c_box]. exact Hb.
  Qed.

  Theorem box_constant : forall ops sc,
    Forall (clean_op N I (fun _ => True) false true) ops -> BoxConst (fst sc) ->
    BoxConst (fst (run N inf C I A sc ops)).
  Proof.
    apply (run_joint N inf C I A (fun s _ => BoxConst s) (fun _ => True) false true).
    - intros s s' c Ec _ _ Eb [H1 H2]. split; [rewrite (Eb eq_refl); exact H1|rewrite Ec; exact H2].
    - intros s c i _ H. exact H.
    - intros s c i _ H. cbv zeta.
      pose proof (run_prog_inv N inf BoxConst (a_nested N C I A) (fun s0 x H0 => objective_boxconst _ s0 x H0) _ (a_step N C I A s c i) s H) as K.
      destruct K as [K1 K2]. split; [exact K1|exact K2].
    - intros s c H. exact H.
  Qed.

  (* an evaluated point (honest pair) was evaluated inside the box *)
  Lemma honest_inside s p : Inv_box N s -> BoxConst s -> honest N s p ->
    is_top N (snd p) \/ outside N b (fst p) = false.
  Proof.
    intros Hi [_ Hc] [Hin|Ht]; [right|left; exact Ht].
    unfold epairs in Hin. apply in_map_iff in Hin as (c & Ec & Hc').
    unfold Inv_box in Hi. rewrite Forall_forall in Hi, Hc.
    specialize (Hi c Hc'). rewrite (Hc c Hc') in Hi. destruct p as [x e]. injection Ec as Ex _. cbn [fst]. now rewrite <- Ex.
  Qed.
End BoxConst.

Lemma clean_op_weaken_box (N : Num) (I : Type) (ok : I -> Prop) kc (o : op N I) :
  clean_op N I ok kc true o -> clean_op N I ok kc false o.
Proof. destruct o; cbn [clean_op]; auto; intros H; try discriminate H. destruct H as [_ H]. discriminate H. Qed.

Lemma clean_op_weaken_in (N : Num) (I : Type) (ok : I -> Prop) kc kb (o : op N I) :
  clean_op N I ok kc kb o -> clean_op N I (fun _ => True) kc kb o.
Proof. destruct o; cbn [clean_op]; auto. intros _. split; [apply Forall_forall; auto|exact Logic.I]. Qed.

Lemma clean_op_weaken_cons (N : Num) (I : Type) (ok : I -> Prop) kb (o : op N I) :
  clean_op N I ok true kb o -> clean_op N I ok false kb o.
Proof. destruct o; cbn [clean_op]; auto; intros H; try discriminate H. destruct H as [H _]. discriminate H. Qed.

(* the three solvers: in a clean run during which the strict ranges are not changed, the reported best has a top energy (never
   evaluated / outside the box) or lies inside the box *)
Section BestInside.
  Variable N : Num.
  Variable inf : T N.
  Hypothesis Hord : StrictWeak (T N) (ltb N).
  Hypothesis Htop : forall p, is_top N (add N inf p).
  Hypothesis Hinf : is_top N inf.
  Variable b : option (vec N * vec N).

  Theorem de_best_inside (de2 : bool) (npop : nat) : forall ops sc,
    Forall (clean_op N _ (de_ok_in N npop) false true) ops -> P_de N inf npop (fst sc) (snd sc) ->
    Inv_box N (fst sc) -> BoxConst N b (fst sc) ->
    let r := run N inf _ _ (de_algo N inf de2) sc ops in
    is_top N (snd (de_best N inf (snd r))) \/ outside N b (fst (de_best N inf (snd r))) = false.
  Proof.
    intros ops sc Hc HP Hi Hb. cbv zeta.
    assert (Hc1 : Forall (clean_op N _ (de_ok_in N npop) false false) ops) by (eapply Forall_impl; [|exact Hc]; intros o; apply clean_op_weaken_box).
    assert (Hc2 : Forall (clean_op N _ (fun _ => True) false true) ops) by (eapply Forall_impl; [|exact Hc]; intros o; apply clean_op_weaken_in).
    pose proof (de_run_ok N inf Hord Htop Hinf npop de2 ops sc Hc1 HP) as ((_ & Hbest & _) & _).
    eapply honest_inside; [|apply box_constant; eassumption|exact Hbest].
    apply never_outside_box. exact Hi.
  Qed.

  Theorem nm_best_inside cons0 (Hidem : forall x, cons0 (cons0 x) = cons0 x) : forall ops sc,
    Forall (clean_op N _ (nm_ok_in N) true true) ops -> P_nm N inf cons0 (fst sc) (snd sc) ->
    Inv_box N (fst sc) -> BoxConst N b (fst sc) ->
    let r := run N inf _ _ (nm_algo N inf) sc ops in
    stepmon N (fst r) <> [] -> sim N (snd r) <> [] ->
    is_top N (snd (nm_best N inf (snd r))) \/ outside N b (fst (nm_best N inf (snd r))) = false.
  Proof.
    intros ops sc Hc HP Hi Hb. cbv zeta. intros Hsm Hne.
    assert (Hc1 : Forall (clean_op N _ (nm_ok_in N) true false) ops) by (eapply Forall_impl; [|exact Hc]; intros o; apply clean_op_weaken_box).
    assert (Hc2 : Forall (clean_op N _ (fun _ => True) false true) ops).
    { eapply Forall_impl; [|exact Hc]. intros o Ho. apply clean_op_weaken_in in Ho. apply clean_op_weaken_cons in Ho. exact Ho. }
    destruct (nm_reported_best N inf Htop Hinf cons0 Hidem ops sc Hc1 HP Hsm Hne) as (Hbest & _).
    eapply honest_inside; [|apply box_constant; eassumption|exact Hbest].
    apply never_outside_box. exact Hi.
  Qed.

  Theorem pw_best_inside cons0 (Hidem : forall x, cons0 (cons0 x) = cons0 x) : forall ops sc,
    Forall (clean_op N _ (pw_ok_in N) true true) ops -> P_pw N inf cons0 (fst sc) (snd sc) ->
    Inv_box N (fst sc) -> BoxConst N b (fst sc) ->
    let r := run N inf _ _ (pw_algo N inf) sc ops in
    stepmon N (fst r) <> [] ->
    is_top N (snd (pw_best N inf (snd r))) \/ outside N b (fst (pw_best N inf (snd r))) = false.
  Proof.
    intros ops sc Hc HP Hi Hb. cbv zeta. intros Hsm.
    assert (Hc1 : Forall (clean_op N _ (pw_ok_in N) true false) ops) by (eapply Forall_impl; [|exact Hc]; intros o; apply clean_op_weaken_box).
    assert (Hc2 : Forall (clean_op N _ (fun _ => True) false true) ops).
    { eapply Forall_impl; [|exact Hc]. intros o Ho. apply clean_op_weaken_in in Ho. apply clean_op_weaken_cons in Ho. exact Ho. }
    destruct (pw_reported_best N inf Htop cons0 Hidem ops sc Hc1 HP Hsm) as (Hbest & _).
    eapply honest_inside; [|apply box_constant; eassumption|exact Hbest].
    apply never_outside_box. exact Hi.
  Qed.
End BestInside.
