(* differential_evolution.DifferentialEvolutionSolver / DifferentialEvolutionSolver2 as programs over the machine.
   The trial vectors produced by the mutation strategy are oracle inputs of a step (C08 models the strategies);
   what is modelled here: constraints applied to each trial outside the objective, greedy one-to-one selection,
   all-time-best update, the step-monitor record, DE2's recomputation of the evaluation counter.  No proofs here. *)
From Coq Require Import List ZArith Bool.
From MV Require Import Common.Num Core.Machine.
Import ListNotations.
Open Scope Z_scope.

Section DE.
  Variable N : Num.
  Variable inf : T N.
  Notation E := (T N).
  Notation vec := (vec N).
  Notation prog := (prog N).

  Record de := { pop : list vec; popE : list E; best : option (vec * E); lastE : list E }.
  Record de_in := { trials : list vec; deco : option (list vec) }.

  Definition de_best (c : de) : vec * E :=
    match best c with Some b => b | None => (hd [] (pop c), hd inf (popE c)) end.

  (* one generation: members paired with their trial; returns new members, new best, trial energies *)
  Fixpoint de_loop (l : list (vec * (vec * E))) (b : vec * E) : prog (list (vec * E) * (vec * E) * list E) :=
    match l with
    | [] => Ret ([], b, [])
    | (t, (m, e)) :: r =>
        Cons t (fun tc => Eval tc (fun te =>
          let keep := ltb N te e in
          let m' := if keep then (tc, te) else (m, e) in
          let b' := if (keep && ltb N te (snd b))%bool then (tc, te) else b in
          bind (de_loop r b') (fun res => Ret (m' :: fst (fst res), snd (fst res), te :: snd res))))
    end.

  Definition de_step (s : sys N) (c : de) (i : de_in) : prog (de * list (vec * E)) :=
    let init := match stepmon N s with [] => true | _ => false end in
    let b0 := if init then (hd [] (pop c), hd inf (popE c)) else de_best c in
    let ts := if init then pop c else trials i in
    bind (de_loop (combine ts (combine (pop c) (popE c))) b0) (fun res =>
      let members := fst (fst res) in
      let b := snd (fst res) in
      Ret ({| pop := map fst members; popE := map snd members; best := Some b; lastE := snd res |}, [b])).

  Definition de_decorate (s : sys N) (c : de) (i : de_in) : de :=
    match deco i with
    | Some p => {| pop := p; popE := popE c; best := best c; lastE := lastE c |}
    | None => c
    end.

  Definition is_inf (e : E) : bool := (eqb N e inf || eqb N e (opp N inf))%bool.

  Definition de_algo (de2 : bool) : algo N de de_in := {|
    a_nested := false;
    a_npop := fun c => Z.of_nat (length (pop c));
    a_ndim := fun c => Z.of_nat (length (hd [] (pop c)));
    a_iterscale := 10; a_evalscale := 1000;
    a_ehist_extra := fun _ => [];
    a_best := de_best;
    a_decorate := de_decorate;
    a_step := de_step;
    a_finalize := fun _ c => (c, []);
    a_set_pop := fun c p => {| pop := p; popE := popE c; best := best c; lastE := lastE c |};
    a_fix_counter := fun s0 s1 c =>
      if de2 then
        match evalmon N s1 with
        | [] => fcalls N s0 + Z.of_nat (length (lastE c)) - Z.of_nat (length (filter is_inf (lastE c)))
        | l => Z.of_nat (length l)
        end
      else fcalls N s1;
    a_cons_finalizes := false
  |}.

  Definition de_init (npop ndim : nat) : de :=
    {| pop := repeat (repeat (zero N) ndim) npop; popE := repeat inf npop; best := None; lastE := [] |}.
End DE.
