(* Execution glue for the correspondence runs of the solver machine (binary64 instance).  No proofs. *)
From Coq Require Import List ZArith Bool.
From Coq Require PrimFloat.
From MV Require Import Common.Num Core.Machine Core.DE Core.NM Core.Powell.
Import ListNotations.
Open Scope Z_scope.

Definition finf : PrimFloat.float := PrimFloat.infinity.
Definition fnan : PrimFloat.float := PrimFloat.nan.
Notation fvec := (list PrimFloat.float).

(* table keys are compared with IEEE equality on every component (+0 = -0) *)
Definition key_eq (a b : fvec) : bool :=
  (Nat.eqb (length a) (length b) && forallb (fun p => PrimFloat.eqb (fst p) (snd p)) (combine a b))%bool.

Fixpoint lookup {B} (tab : list (fvec * B)) (dflt : B) (x : fvec) : B :=
  match tab with
  | [] => dflt
  | (k, v) :: r => if key_eq k x then v else lookup r dflt x
  end.
(* a missing entry yields a poison value (NaN): the run then disagrees with the implementation *)
Definition lookup_y (tab : list (fvec * yval NumF)) : fvec -> yval NumF := lookup tab (YS NumF fnan).
Definition lookup_e (tab : list (fvec * PrimFloat.float)) : fvec -> PrimFloat.float := lookup tab fnan.
Definition lookup_v (tab : list (fvec * fvec)) (x : fvec) : fvec := lookup tab (map (fun _ => fnan) x) x.

(* functools.reduce(f, l) without initial value *)
Definition red_sum (l : fvec) : PrimFloat.float :=
  match l with [] => fnan | a :: r => fold_left PrimFloat.add r a end.
Definition red_max (l : fvec) : PrimFloat.float :=
  match l with [] => fnan | a :: r => fold_left (fun a b => if PrimFloat.leb b a then a else b) r a end.
(* a binary reducer for which 0 is not neutral on non-negative components *)
Definition red_min (l : fvec) : PrimFloat.float :=
  match l with [] => fnan | a :: r => fold_left (fun a b => if PrimFloat.ltb b a then b else a) r a end.
(* an array-like reducer: sum of squares, accumulated left to right from 0 *)
Definition red_sumsq (l : fvec) : PrimFloat.float := fold_left (fun acc v => PrimFloat.add acc (PrimFloat.mul v v)) l PrimFloat.zero.

Definition mk_de_in (t : list fvec) (d : option (list fvec)) : de_in NumF := Build_de_in NumF t d.
Definition mk_nm_in (t : list fvec) (d : option (list fvec)) (ip : bool) (p : list nat) : nm_in NumF := Build_nm_in NumF t d ip p.

Definition mk_pw_in (ls : list (list fvec * nat)) (x2 : option fvec) (took : bool) (d : option (list fvec)) : pw_in NumF :=
  Build_pw_in NumF ls x2 took d.

Definition vtr_default : term NumF := TVTR NumF (PrimFloat.opp PrimFloat.one) PrimFloat.zero.

Record obs := mk_obs {
  o_pop : list fvec; o_popE : fvec; o_bestX : fvec; o_bestE : PrimFloat.float;
  o_evals : Z; o_gens : Z; o_ehist : fvec; o_shist : list fvec;
  o_emon : option (list (fvec * yval NumF)); o_msg : stopmsg; o_ncalls : Z }.

Definition fll_eq (a b : list fvec) : bool :=
  (Nat.eqb (length a) (length b) && forallb (fun p => flist_eq (fst p) (snd p)) (combine a b))%bool.
Definition y_eq (a b : yval NumF) : bool :=
  match a, b with
  | YS _ x, YS _ y => feq x y
  | YV _ x, YV _ y => flist_eq x y
  | _, _ => false
  end.
Definition xy_eq (a b : list (fvec * yval NumF)) : bool :=
  (Nat.eqb (length a) (length b) &&
   forallb (fun p => flist_eq (fst (fst p)) (fst (snd p)) && y_eq (snd (fst p)) (snd (snd p))) (combine a b))%bool.
Definition msg_eq (a b : stopmsg) : bool :=
  match a, b with MNone, MNone | MLimits, MLimits | MInterrupt, MInterrupt | MTerm, MTerm => true | _, _ => false end.

Section Obs.
  Context {C I : Type} (A : algo NumF C I) (popf : C -> list fvec) (popEf : C -> fvec).
  Definition observe (x : sys NumF * C * stopmsg) : obs :=
    let s := fst (fst x) in let c := snd (fst x) in
    {| o_pop := popf c; o_popE := popEf c; o_bestX := fst (a_best NumF C I A c); o_bestE := snd (a_best NumF C I A c);
       o_evals := fcalls NumF s; o_gens := generations NumF C I A s c;
       o_ehist := energy_history NumF C I A s c; o_shist := map fst (stepmon NumF s);
       o_emon := if emon_on NumF s then Some (evalmon NumF s) else None; o_msg := snd x;
       o_ncalls := Z.of_nat (length (calls NumF s)) |}.
End Obs.

(* which observables a property compares *)
Record mask := mk_mask {
  m_pop : bool; m_best : bool; m_counters : bool; m_hist : bool; m_emon : bool; m_msg : bool; m_calls : bool; m_cb : bool }.
Definition mask_all := mk_mask true true true true true true true true.

Definition obs_eq (m : mask) (a e : obs) : bool :=
  ((negb (m_pop m) || (fll_eq (o_pop a) (o_pop e) && flist_eq (o_popE a) (o_popE e))) &&
   (negb (m_best m) || (flist_eq (o_bestX a) (o_bestX e) && feq (o_bestE a) (o_bestE e))) &&
   (negb (m_counters m) || (Z.eqb (o_evals a) (o_evals e) && Z.eqb (o_gens a) (o_gens e) && Z.eqb (o_ncalls a) (o_ncalls e))) &&
   (negb (m_hist m) || (flist_eq (o_ehist a) (o_ehist e) && fll_eq (o_shist a) (o_shist e))) &&
   (negb (m_emon m) || match o_emon a, o_emon e with Some x, Some y => xy_eq x y | _, _ => true end) &&
   (negb (m_msg m) || msg_eq (o_msg a) (o_msg e)))%bool.

Record result := mk_result { r_obs : list obs; r_calls : list (fvec * yval NumF); r_cb : list fvec; r_stuck : bool }.

Definition mk_run {C I} (A : algo NumF C I) (popf : C -> list fvec) (popEf : C -> fvec)
           (c0 : C) (ops : list (op NumF I)) : result :=
  let tr := trace NumF finf C I A (init_sys NumF finf vtr_default, c0) ops in
  let final := last tr (init_sys NumF finf vtr_default, c0, MNone) in
  let s := fst (fst final) in
  {| r_obs := map (observe A popf popEf) tr;
     r_calls := map (fun c => (c_x NumF c, c_y NumF c)) (calls NumF s);
     r_cb := cblog NumF s; r_stuck := stuck NumF s |}.

Definition run_de (de2 : bool) (npop ndim : nat) (ops : list (op NumF (de_in NumF))) : result :=
  mk_run (de_algo NumF finf de2) (pop NumF) (popE NumF) (de_init NumF finf (Nat.max (Nat.max npop ndim) 4) ndim) ops.
Definition run_nm (npop ndim : nat) (ops : list (op NumF (nm_in NumF))) : result :=
  mk_run (nm_algo NumF finf) (sim NumF) (fsim NumF) (nm_init NumF finf ndim) ops.

Definition run_pw (npop ndim : nat) (ops : list (op NumF (pw_in NumF))) : result :=
  mk_run (pw_algo NumF finf) (px NumF) (pe NumF) (pw_init NumF finf ndim) ops.

Definition check_trace (m : mask) (r : result) (exp : list obs) (calls : list (fvec * yval NumF)) (cbs : list fvec) : bool :=
  (negb (r_stuck r) && Nat.eqb (length (r_obs r)) (length exp) &&
   forallb (fun p => obs_eq m (fst p) (snd p)) (combine (r_obs r) exp) &&
   (negb (m_calls m) || xy_eq (r_calls r) calls) &&
   (negb (m_cb m) || fll_eq (r_cb r) cbs))%bool.

Definition show_trace (r : result) := r.

(* diagnostics for replays: per operation, which groups of observables agree *)
Definition obs_diag (a e : obs) : list bool :=
  [ (fll_eq (o_pop a) (o_pop e) && flist_eq (o_popE a) (o_popE e))%bool;
    (flist_eq (o_bestX a) (o_bestX e) && feq (o_bestE a) (o_bestE e))%bool;
    (Z.eqb (o_evals a) (o_evals e)); (Z.eqb (o_gens a) (o_gens e)); (Z.eqb (o_ncalls a) (o_ncalls e));
    (flist_eq (o_ehist a) (o_ehist e) && fll_eq (o_shist a) (o_shist e))%bool;
    match o_emon a, o_emon e with Some x, Some y => xy_eq x y | _, _ => true end;
    msg_eq (o_msg a) (o_msg e) ].
Definition diag_trace (r : result) (exp : list obs) (calls : list (fvec * yval NumF)) (cbs : list fvec) :=
  (r_stuck r, length (r_obs r), length exp, map (fun p => obs_diag (fst p) (snd p)) (combine (r_obs r) exp),
   xy_eq (r_calls r) calls, fll_eq (r_cb r) cbs,
   map (fun o => (o_evals o, o_gens o, o_ncalls o, o_msg o, o_bestE o)) (r_obs r)).
