(* C01 / C03 for Powell's direction-set solver: for every cost, penalty, idempotent constraints function, every sequence of
   line searches (whatever points Brent's method probes and whichever probe it returns), every extrapolation decision and
   every number of iterations: once the initial evaluation is logged, the reported best is a point at which a real call was
   made, with the energy that call returned (or a top value: outside the box), and it satisfies the constraints. *)
From Coq Require Import List ZArith Bool Lia.
From MV Require Import Common.Num Common.Order Core.Machine Core.Machine_Proofs Core.Stop_Proofs Core.DE_Proofs Core.NM_Proofs Core.Powell.
Import ListNotations.
Open Scope Z_scope.

Section PowellProofs.
  Variable N : Num.
  Variable inf : T N.
  Notation E := (T N).
  Notation vec := (vec N).
  Notation sys := (sys N).
  Notation pw := (pw N).

  Hypothesis Htop : forall p, is_top N (add N inf p).
  Hypothesis Hinf : is_top N inf.
  Variable cons0 : vec -> vec.
  Hypothesis Hidem : forall x, cons0 (cons0 x) = cons0 x.

  Notation evald := (evald N cons0).
  Notation ext := (ext N).

  (* an evaluated point that satisfies the constraints, with the energy obtained there *)
  Definition honestfix (s : sys) (p : vec * E) : Prop := honest N s p /\ cons0 (fst p) = fst p.

  Lemma honestfix_ext s s' p : ext s s' -> honestfix s p -> honestfix s' p.
  Proof.
    intros (Hi & _) [[Hin|Ht] Hf]; split; auto; [left; apply Hi; exact Hin|right; exact Ht].
  Qed.

  Lemma probe_all_ok : forall ps s, u_cons N s = cons0 ->
    let r := run_prog inf true s (probe_all N ps) in ext s (fst r) /\ Forall (evald (fst r)) (snd r).
  Proof.
    induction ps as [|x xs IH]; intros s Hc; cbv zeta.
    - simpl. split; [apply ext_refl|constructor].
    - cbn [probe_all run_prog].
      destruct (objective_true_evald N inf Htop cons0 s x Hc) as [He Hx]. cbv zeta in He, Hx.
      set (s1 := fst (objective N inf true s x)) in *. set (e := snd (objective N inf true s x)) in *.
      rewrite (bind_run_t N inf). cbn [run_prog fst snd].
      assert (Hc1 : u_cons N s1 = cons0) by (destruct He as (_ & Hu & _); congruence).
      destruct (IH s1 Hc1) as [He2 Hl]. cbv zeta in He2, Hl.
      split; [eapply ext_trans; eauto|].
      constructor; [eapply evald_ext; eauto|exact Hl].
  Qed.

  Lemma ls_cons_ok cur l s : u_cons N s = cons0 -> honestfix s cur ->
    let r := run_prog inf true s (ls_cons N cur l) in ext s (fst r) /\ honestfix (fst r) (snd r).
  Proof.
    intros Hc Hcur. cbv zeta. unfold ls_cons, line_search.
    rewrite !(bind_run_t N inf).
    destruct (probe_all_ok (fst l) s Hc) as [He Hl]. cbv zeta in He, Hl.
    set (r1 := run_prog inf true s (probe_all N (fst l))) in *.
    cbn [run_prog fst snd].
    assert (Hc1 : u_cons N (fst r1) = cons0) by (destruct He as (_ & Hu & _); congruence).
    rewrite Hc1. split; [exact He|].
    destruct (Nat.lt_ge_cases (snd l) (length (snd r1))) as [Hlt|Hge].
    - (* one of the probes *)
      pose proof (nth_In (snd r1) cur Hlt) as Hin. rewrite Forall_forall in Hl. specialize (Hl _ Hin).
      destruct (nth (snd l) (snd r1) cur) as [p e]. split; cbn [fst snd]; [|apply Hidem].
      destruct Hl as [Ht|Hc']; [right; exact Ht|left; exact Hc'].
    - (* index out of range: the current point is kept *)
      rewrite nth_overflow by exact Hge. destruct (honestfix_ext s (fst r1) cur He Hcur) as [Hh Hf].
      destruct cur as [x e]. cbn [fst snd] in *. rewrite Hf. split; [exact Hh|exact Hf].
  Qed.

  Lemma sweep_ok : forall ls cur s, u_cons N s = cons0 -> honestfix s cur ->
    let r := run_prog inf true s (sweep N cur ls) in ext s (fst r) /\ honestfix (fst r) (snd r).
  Proof.
    induction ls as [|l ls IH]; intros cur s Hc Hcur; cbv zeta.
    - simpl. split; [apply ext_refl|exact Hcur].
    - cbn [sweep]. rewrite (bind_run_t N inf).
      destruct (ls_cons_ok cur l s Hc Hcur) as [He Hh]. cbv zeta in He, Hh.
      set (r1 := run_prog inf true s (ls_cons N cur l)) in *.
      assert (Hc1 : u_cons N (fst r1) = cons0) by (destruct He as (_ & Hu & _); congruence).
      destruct (IH (snd r1) (fst r1) Hc1 Hh) as [He2 Hh2]. cbv zeta in He2, Hh2.
      split; [eapply ext_trans; eauto|exact Hh2].
  Qed.

  (* the invariant *)
  Definition P_pw (s : sys) (c : pw) : Prop :=
    u_cons N s = cons0 /\ (stepmon N s <> [] -> honestfix s (pw_best N inf c)) /\ (pextra_e N c <> [] -> stepmon N s <> []).

  Definition pw_ok_in (i : pw_in N) : Prop := pdeco N i = None.

  Lemma honestfix_frame s s' p : calls N s' = calls N s -> honestfix s p -> honestfix s' p.
  Proof. intros Ec [Hh Hf]. split; [|exact Hf]. unfold honest, epairs in *. rewrite Ec. exact Hh. Qed.

  Lemma pw_step_ok s c i : P_pw s c ->
    let r := run_prog inf true s (pw_step N inf s c i) in
    P_pw (set_stepmon N (fst r) (stepmon N (fst r) ++ snd (snd r))) (fst (snd r)).
  Proof.
    intros (Hc & Hh & Hx). cbv zeta. unfold pw_step. cbv zeta.
    destruct (stepmon N s) as [|sm0 smr] eqn:Hsm.
    - (* generation 0 *)
      cbn [run_prog]. rewrite Hc.
      set (x := cons0 (fst (pw_best N inf c))).
      destruct (objective_true_evald N inf Htop cons0 s x Hc) as [He Hev]. cbv zeta in He, Hev.
      set (s1 := fst (objective N inf true s x)) in *. set (f := snd (objective N inf true s x)) in *.
      cbn [fst snd]. destruct He as (Hinc & Hu & Hs).
      split; [cbn [u_cons set_stepmon]; congruence|split].
      + intros _. unfold pw_best. cbn [px pe hd]. split; cbn [fst snd]; [|subst x; apply Hidem].
        destruct Hev as [Ht|Hin]; [right; exact Ht|left]. cbn [fst snd] in Hin. subst x. rewrite Hidem in Hin.
        unfold epairs in *. exact Hin.
      + cbn [pextra_e]. intros Hne. exfalso. apply Hx in Hne. congruence.
    - assert (Hne : sm0 :: smr <> []) by discriminate.
      specialize (Hh Hne).
      destruct (Nat.eqb (length (sm0 :: smr) + length (pextra_e N c)) 1).
      + rewrite (bind_run_t N inf).
        destruct (sweep_ok (pls N i) (pw_best N inf c) s Hc Hh) as [(Hinc & Hu & Hs) Hh2]. cbv zeta in Hinc, Hu, Hs, Hh2.
        set (r1 := run_prog inf true s (sweep N (pw_best N inf c) (pls N i))) in *.
        cbn [run_prog fst snd].
        split; [cbn [u_cons set_stepmon]; congruence|split].
        * intros _. unfold pw_best. cbn [px pe hd]. destruct (snd r1) as [x e]. cbn [fst snd] in *.
          eapply honestfix_frame; [|exact Hh2]. reflexivity.
        * intros _. cbn [stepmon set_stepmon]. rewrite Hs, Hsm, app_nil_r. discriminate.
      + destruct (px2 N i) as [x2|].
        * cbn [run_prog].
          destruct (objective_true_evald N inf Htop cons0 s x2 Hc) as [He0 _]. cbv zeta in He0.
          set (s0 := fst (objective N inf true s x2)) in *.
          assert (Hc0 : u_cons N s0 = cons0) by (destruct He0 as (_ & Hu & _); congruence).
          rewrite (bind_run_t N inf).
          set (first := if ptook N i then firstn 1 (pls N i) else []).
          set (rest := if ptook N i then skipn 1 (pls N i) else pls N i).
          destruct (sweep_ok first (pw_best N inf c) s0 Hc0 (honestfix_ext s s0 _ He0 Hh)) as [He1 Hh1]. cbv zeta in He1, Hh1.
          set (r1 := run_prog inf true s0 (sweep N (pw_best N inf c) first)) in *.
          rewrite (bind_run_t N inf).
          assert (Hc1 : u_cons N (fst r1) = cons0) by (destruct He1 as (_ & Hu & _); congruence).
          destruct (sweep_ok rest (snd r1) (fst r1) Hc1 Hh1) as [He2 Hh2]. cbv zeta in He2, Hh2.
          set (r2 := run_prog inf true (fst r1) (sweep N (snd r1) rest)) in *.
          cbn [run_prog fst snd].
          assert (He02 : ext s (fst r2)) by (eapply ext_trans; [exact He0|eapply ext_trans; eauto]).
          destruct He02 as (Hinc & Hu & Hs).
          split; [cbn [u_cons set_stepmon]; congruence|split].
          -- intros _. unfold pw_best. cbn [px pe hd]. destruct (snd r2) as [x e]. cbn [fst snd] in *.
             eapply honestfix_frame; [|exact Hh2]. reflexivity.
          -- intros _. cbn [stepmon set_stepmon]. rewrite Hs, Hsm. destruct (pextra_e N c); simpl; discriminate.
        * cbn [run_prog fst snd].
          split; [exact Hc|split].
          -- intros _. eapply honestfix_frame; [|exact Hh]. reflexivity.
          -- intros _. cbn [stepmon set_stepmon]. rewrite Hsm. discriminate.
  Qed.

  Theorem pw_run_ok : forall ops sc,
    Forall (clean_op N _ pw_ok_in true false) ops -> P_pw (fst sc) (snd sc) ->
    P_pw (fst (run N inf _ _ (pw_algo N inf) sc ops)) (snd (run N inf _ _ (pw_algo N inf) sc ops)).
  Proof.
    apply (run_joint N inf _ _ (pw_algo N inf) P_pw pw_ok_in true false).
    - intros s s' c Ec Es Eu _ (Hc & Hh & Hx). split; [|split].
      + rewrite (Eu eq_refl). exact Hc.
      + rewrite Es. intros Hne. eapply honestfix_frame; [exact Ec|]. apply Hh. exact Hne.
      + rewrite Es. exact Hx.
    - intros s c i Hi H. cbn [a_decorate pw_algo]. unfold pw_decorate. unfold pw_ok_in in Hi. rewrite Hi. exact H.
    - intros s c i _ H. cbn [a_nested a_step pw_algo]. apply pw_step_ok. exact H.
    - intros s c (Hc & Hh & Hx). cbn [a_finalize pw_algo]. unfold pw_finalize.
      destruct (pextra_e N c) as [|e0 er] eqn:Ee.
      + cbn [fst snd]. split; [exact Hc|split].
        * cbn [stepmon set_stepmon]. rewrite app_nil_r. intros Hne. eapply honestfix_frame; [|apply Hh; exact Hne]. reflexivity.
        * rewrite Ee. intros K. congruence.
      + assert (Hne : stepmon N s <> []) by (apply Hx; discriminate).
        destruct (live N s); cbn [fst snd].
        * split; [exact Hc|split].
          -- intros _. unfold pw_best. cbn [px pe]. eapply honestfix_frame; [|apply Hh; exact Hne]. reflexivity.
          -- cbn [pextra_e]. intros K. congruence.
        * split; [exact Hc|split].
          -- cbn [stepmon set_stepmon]. rewrite app_nil_r. intros _. eapply honestfix_frame; [|apply Hh; exact Hne]. reflexivity.
          -- cbn [stepmon set_stepmon]. rewrite app_nil_r. intros _. exact Hne.
  Qed.

  Lemma pw_init_ok s ndim : u_cons N s = cons0 -> stepmon N s = [] -> P_pw s (pw_init N inf ndim).
  Proof.
    intros Hc Hs. split; [exact Hc|split].
    - intros K. congruence.
    - cbn [pw_init pextra_e]. intros K. congruence.
  Qed.

  Theorem pw_reported_best : forall ops sc,
    Forall (clean_op N _ pw_ok_in true false) ops -> P_pw (fst sc) (snd sc) ->
    let r := run N inf _ _ (pw_algo N inf) sc ops in
    stepmon N (fst r) <> [] ->
    honest N (fst r) (pw_best N inf (snd r)) /\ cons0 (fst (pw_best N inf (snd r))) = fst (pw_best N inf (snd r)).
  Proof.
    intros ops sc Hclean HP. cbv zeta. intros Hsm.
    destruct (pw_run_ok ops sc Hclean HP) as (_ & Hh & _). exact (Hh Hsm).
  Qed.
End PowellProofs.

(* C04 for Powell: although a generation's record reaches the step monitor one phase late (and is completed by Finalize), the
   LAST entry of the solver's energy history is the reported best energy after every operation of a clean run *)
Section PowellHistory.
  Variable N : Num.
  Variable inf : T N.
  Notation E := (T N).
  Notation vec := (vec N).
  Notation sys := (sys N).
  Notation pw := (pw N).
  Notation A := (pw_algo N inf).

  Definition H_pw (s : sys) (c : pw) : Prop :=
    (pextra_e N c <> [] -> stepmon N s <> []) /\
    (length (pextra_e N c) <= 1)%nat /\
    (energy_history N _ _ A s c <> [] -> last (energy_history N _ _ A s c) inf = snd (pw_best N inf c)).

  Lemma last_app_one {X} (l : list X) x d : last (l ++ [x]) d = x.
  Proof. induction l as [|a l IH]; simpl; auto. destruct (l ++ [x]) eqn:Eq; [destruct l; discriminate|exact IH]. Qed.

  Lemma pw_step_hist s c i : H_pw s c ->
    let r := run_prog inf true s (pw_step N inf s c i) in
    H_pw (set_stepmon N (fst r) (stepmon N (fst r) ++ snd (snd r))) (fst (snd r)).
  Proof.
    intros (Hx & Hl & Hh). cbv zeta.
    destruct (run_prog_cfg N inf true _ (pw_step N inf s c i) s) as (_ & _ & Hs). cbv zeta in Hs.
    unfold H_pw, energy_history. cbn [stepmon set_stepmon a_ehist_extra pw_algo]. rewrite Hs.
    revert Hs. unfold pw_step. cbv zeta.
    destruct (stepmon N s) as [|sm0 smr] eqn:Hsm.
    - (* generation 0 *)
      cbn [run_prog]. intros _. cbn [fst snd pextra_e pw_best px pe hd].
      assert (He : pextra_e N c = []).
      { destruct (pextra_e N c) as [|e0 er] eqn:E0; auto. exfalso. assert (K : e0 :: er <> []) by discriminate. apply Hx in K. congruence. }
      rewrite He. split; [intros K; congruence|]. split; [simpl; lia|].
      destruct (is_zero_limit (maxiter N s)); cbn [app map snd]; [intros K; congruence|reflexivity].
    - destruct (Nat.eqb (length (sm0 :: smr) + length (pextra_e N c)) 1) eqn:E1.
      + rewrite (bind_run_t N inf). cbn [run_prog fst snd]. intros _.
        cbn [pextra_e pw_best px pe hd snd]. rewrite app_nil_r.
        split; [intros _; discriminate|]. split; [simpl; lia|].
        intros _. apply last_app_one.
      + destruct (px2 N i) as [x2|].
        * cbn [run_prog]. rewrite !(bind_run_t N inf). cbn [run_prog fst snd]. intros _.
          cbn [pextra_e pw_best px pe hd snd].
          split; [intros _; destruct (pextra_e N c); simpl; discriminate|]. split; [simpl; lia|].
          intros _. apply last_app_one.
        * cbn [run_prog fst snd]. intros _. rewrite app_nil_r.
          split; [intros K; discriminate|]. split; [exact Hl|].
          unfold energy_history in Hh. cbn [a_ehist_extra pw_algo] in Hh. rewrite Hsm in Hh. exact Hh.
  Qed.

  Theorem pw_history_ok : forall ops sc,
    Forall (clean_op N _ (pw_ok_in N) false false) ops -> H_pw (fst sc) (snd sc) ->
    H_pw (fst (run N inf _ _ A sc ops)) (snd (run N inf _ _ A sc ops)).
  Proof.
    apply (run_joint N inf _ _ A H_pw (pw_ok_in N) false false).
    - intros s s' c Ec Es _ _ (Hx & Hl & Hh). unfold H_pw, energy_history in *. rewrite Es. auto.
    - intros s c i Hi H. cbn [a_decorate pw_algo]. unfold pw_decorate. unfold pw_ok_in in Hi. rewrite Hi. exact H.
    - intros s c i _ H. cbn [a_nested a_step pw_algo]. apply pw_step_hist. exact H.
    - intros s c (Hx & Hl & Hh). cbn [a_finalize pw_algo]. unfold pw_finalize.
      unfold H_pw, energy_history in *. cbn [a_ehist_extra pw_algo] in *.
      destruct (pextra_e N c) as [|e0 er] eqn:Ee.
      + cbn [fst snd stepmon set_stepmon]. rewrite Ee, !app_nil_r in *. auto.
      + destruct (live N s); cbn [fst snd stepmon set_stepmon pextra_e pw_best px pe].
        * split; [intros K; congruence|]. split; [simpl; lia|].
          intros _. rewrite app_nil_r, map_app. cbn [map snd]. apply last_app_one.
        * rewrite Ee, !app_nil_r in *. auto.
  Qed.

  Lemma pw_init_hist s ndim : stepmon N s = [] -> H_pw s (pw_init N inf ndim).
  Proof.
    intros Hs. unfold H_pw, energy_history. cbn [pw_init pextra_e a_ehist_extra pw_algo]. rewrite Hs. simpl.
    split; [intros K; congruence|]. split; [lia|intros K; congruence].
  Qed.
End PowellHistory.


(* C05 for Powell: Solve always returns.  Every _Step for which the extrapolated point is given (the real code always computes it)
   makes the energy history one entry longer - by a step-monitor record or by the decoupled last energy - unless the generation limit
   is 0, in which case the first Step already reports the stop. *)
Section PowellSolve.
  Variable N : Num.
  Variable inf : T N.
  Notation sys := (sys N).
  Notation pw := (pw N).
  Notation A := (pw_algo N inf).

  Definition G_pw (c : pw) : Prop := (length (pextra_e N c) <= 1)%nat.
  Definition V_pw (i : pw_in N) : Prop := pdeco N i = None /\ px2 N i <> None.

  Lemma pw_progress s c i : G_pw c -> V_pw i -> maxiter N s <> LAbs 0 ->
    let r := run_prog inf true s (pw_step N inf s c i) in
    (S (ehlen N _ _ A s c) <= ehlen N _ _ A (set_stepmon N (fst r) (stepmon N (fst r) ++ snd (snd r))) (fst (snd r)))%nat /\ G_pw (fst (snd r)).
  Proof.
    intros HG [_ Hx2] Hnz. cbv zeta.
    destruct (run_prog_cfg N inf true _ (pw_step N inf s c i) s) as (_ & _ & Hs). cbv zeta in Hs.
    unfold ehlen, energy_history, G_pw in *. cbn [stepmon set_stepmon a_ehist_extra pw_algo]. rewrite Hs.
    revert Hs. unfold pw_step. cbv zeta.
    destruct (stepmon N s) as [|sm0 smr] eqn:Hsm.
    - cbn [run_prog]. intros _. cbn [fst snd pextra_e].
      assert (Ez : is_zero_limit (maxiter N s) = false).
      { destruct (maxiter N s) as [| |n]; try reflexivity. destruct n; try reflexivity. congruence. }
      rewrite Ez. split; [|exact HG]. cbn [app map length]. lia.
    - destruct (Nat.eqb (length (sm0 :: smr) + length (pextra_e N c)) 1) eqn:E1.
      + rewrite (bind_run_t N inf). cbn [run_prog fst snd]. intros _. cbn [pextra_e]. rewrite app_nil_r.
        apply Nat.eqb_eq in E1. split; [|simpl; lia]. rewrite !app_length, !map_length. cbn [length] in *. lia.
      + destruct (px2 N i) as [x2|]; [|congruence].
        cbn [run_prog]. rewrite !(bind_run_t N inf). cbn [run_prog fst snd]. intros _. cbn [pextra_e].
        split; [|simpl; lia].
        destruct (pextra_e N c) as [|e0 [|e1 er]]; cbn [length] in *; rewrite ?app_nil_r, !app_length, ?map_length; cbn [length]; try lia.
        rewrite app_length. cbn [length]. lia.
  Qed.

  Theorem pw_solve_terminates : forall f s c is dflt mi mf,
    G_pw c -> Forall V_pw is -> V_pw dflt ->
    abs_limits N mi mf s -> (0 <= mi)%Z ->
    (Z.to_nat (mi + 3) <= S f + ehlen N _ _ A s c)%nat ->
    snd (solve N inf _ _ A (S f) s c is dflt) = true.
  Proof.
    intros f s c is dflt mi mf HG His Hd Hl Hmi Hfuel.
    destruct (Z.eq_dec mi 0) as [E0|Hnz]; [subst mi; apply (solve_terminates_zero N inf _ _ A f s c is dflt mf Hl)|].
    assert (Hpos : (0 < mi)%Z) by lia.
    refine (solve_terminates N inf _ _ A G_pw V_pw _ _ _ _ _ _ f s c is dflt mi mf HG His Hd Hl Hpos Hfuel).
    - intros s0 c0 i HG0 HV Hz. apply pw_progress; assumption.
    - (* Finalize moves the pending energy into the step monitor: the history keeps its length *)
      intros s0 c0 HG0. cbn [a_finalize pw_algo]. unfold pw_finalize, ehlen, energy_history, G_pw in *. cbn [a_ehist_extra pw_algo].
      destruct (pextra_e N c0) as [|e0 [|e1 er]] eqn:Ee; cbn [length] in HG0; try lia.
      + cbn [fst snd stepmon set_stepmon]. rewrite Ee, !app_nil_r. apply Nat.le_refl.
      + destruct (live N s0); cbn [fst snd stepmon set_stepmon pextra_e].
        * rewrite app_nil_r, map_app, !app_length, !map_length. cbn [length]. lia.
        * rewrite Ee, !app_nil_r. apply Nat.le_refl.
    - intros s0 c0 i. cbn [a_decorate pw_algo a_ehist_extra]. unfold pw_decorate. destruct (pdeco N i); reflexivity.
    - intros s0 c0 i HG0 [Hi _]. cbn [a_decorate pw_algo]. unfold pw_decorate. rewrite Hi. exact HG0.
    - intros s0 c0 HG0. cbn [a_finalize pw_algo]. unfold pw_finalize, G_pw in *.
      destruct (pextra_e N c0) eqn:Ee; [cbn [fst]; rewrite Ee; exact HG0|].
      destruct (live N s0); cbn [fst pextra_e]; [simpl; lia|rewrite Ee; exact HG0].
    - intros c0 HG0. exact HG0.
  Qed.
End PowellSolve.
