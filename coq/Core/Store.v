(* C06 - several solvers side by side: checkpoint / restore / deep copy as operations on a store of machine states.
   SaveSolver+LoadSolver, dill dump/load and copy.deepcopy are all "the new solver starts from a snapshot of the
   state"; the content of C06 is that the REAL solver state is captured completely and shares nothing mutable with the
   original - that is what the correspondence checks; here are the consequences for the model. *)
From Coq Require Import List ZArith Bool Lia.
From MV Require Import Common.Num Core.Machine Core.Machine_Proofs.
Import ListNotations.

Section Store.
  Variable N : Num.
  Variable inf : T N.
  Variables C I : Type.
  Variable A : algo N C I.
  Notation st := (sys N * C)%type.

  Definition store := list st.

  Inductive sop :=
  | SDo (k : nat) (o : op N I)       (* apply an API operation to solver k *)
  | SSnap (k : nat).                 (* save+load / dill copy / deepcopy of solver k: a new solver in a new slot *)

  Fixpoint set_nth {X} (k : nat) (x : X) (l : list X) {struct l} : list X :=
    match l with
    | [] => []
    | a :: r => match k with O => x :: r | S k' => a :: set_nth k' x r end
    end.

  Definition sapply (s : store) (o : sop) : store :=
    match o with
    | SDo k op => match nth_error s k with Some sc => set_nth k (fst (apply N inf C I A sc op)) s | None => s end
    | SSnap k => match nth_error s k with Some sc => s ++ [sc] | None => s end
    end.

  Definition srun (s : store) (ops : list sop) : store := fold_left sapply ops s.

  (* ---- proofs ---- *)
  Lemma nth_error_set_nth_other {X} (l : list X) k j x : j <> k -> nth_error (set_nth k x l) j = nth_error l j.
  Proof.
    revert k j; induction l as [|a l IH]; intros k j H; [reflexivity|].
    destruct k as [|k], j as [|j]; cbn [set_nth nth_error]; auto; try congruence.
  Qed.
  Lemma nth_error_set_nth_same {X} (l : list X) k x : (k < length l)%nat -> nth_error (set_nth k x l) k = Some x.
  Proof.
    revert k; induction l as [|a l IH]; intros k H; simpl in *; [lia|].
    destruct k; simpl; auto. apply IH. lia.
  Qed.
  Lemma set_nth_length {X} (l : list X) k x : length (set_nth k x l) = length l.
  Proof. revert k; induction l as [|a l IH]; intros k; simpl; auto. destruct k; simpl; auto. Qed.

  (* advancing one solver never changes another one *)
  Theorem do_frame s k o j : j <> k -> nth_error (sapply s (SDo k o)) j = nth_error s j.
  Proof.
    intros H. simpl. destruct (nth_error s k); auto. apply nth_error_set_nth_other; auto.
  Qed.

  (* a snapshot leaves every existing solver unchanged and the new solver equals the original at that moment *)
  Theorem snap_new s k sc : nth_error s k = Some sc ->
    nth_error (sapply s (SSnap k)) (length s) = Some sc /\
    forall j, (j < length s)%nat -> nth_error (sapply s (SSnap k)) j = nth_error s j.
  Proof.
    intros H. simpl. rewrite H. split.
    - rewrite nth_error_app2, Nat.sub_diag by lia. reflexivity.
    - intros j Hj. apply nth_error_app1. exact Hj.
  Qed.

  Lemma srun_do_other : forall ops s j,
    Forall (fun o => match o with SDo k _ => k <> j | SSnap _ => True end) ops -> (j < length s)%nat ->
    nth_error (srun s ops) j = nth_error s j.
  Proof.
    unfold srun. induction ops as [|o ops IH]; intros s j Hf Hj; simpl; auto.
    inversion Hf as [|? ? Ho Hops]; subst.
    rewrite IH; auto.
    - destruct o as [k op|k].
      + apply do_frame. congruence.
      + simpl. destruct (nth_error s k); auto. apply nth_error_app1. exact Hj.
    - destruct o as [k op|k]; simpl.
      + destruct (nth_error s k); auto. now rewrite set_nth_length.
      + destruct (nth_error s k); auto. rewrite app_length. simpl. lia.
  Qed.

  (* resume equivalence: running the same operations on the restored solver gives exactly the state the original reaches,
     whatever is done to the original (or to any other solver) in between *)
  Lemma srun_do_same : forall (ops : list (op N I)) s k sc,
    nth_error s k = Some sc ->
    nth_error (srun s (map (SDo k) ops)) k = Some (run N inf C I A sc ops).
  Proof.
    unfold srun, run. induction ops as [|o ops IH]; intros s k sc H; simpl; auto.
    rewrite H. apply IH. apply nth_error_set_nth_same. apply nth_error_Some. congruence.
  Qed.

  Theorem resume_equiv (s : store) (k : nat) (sc : st) (junk : list sop) (ops : list (op N I)) :
    nth_error s k = Some sc ->
    Forall (fun o => match o with SDo j _ => j <> length s | SSnap _ => True end) junk ->
    let s1 := srun (sapply s (SSnap k)) junk in
    nth_error (srun s1 (map (SDo (length s)) ops)) (length s) = Some (run N inf C I A sc ops).
  Proof.
    intros H Hj. cbv zeta.
    destruct (snap_new s k sc H) as [Hnew _].
    apply srun_do_same.
    rewrite srun_do_other; auto.
    simpl. rewrite H, app_length. simpl. lia.
  Qed.

  (* ... and the original is unaffected by whatever the restored solver does *)
  Theorem original_unaffected (s : store) (k j : nat) (ops : list (op N I)) :
    (j < length s)%nat -> nth_error s k <> None ->
    nth_error (srun (sapply s (SSnap k)) (map (SDo (length s)) ops)) j = nth_error s j.
  Proof.
    intros Hj Hk. destruct (nth_error s k) as [sc|] eqn:E; [|congruence].
    rewrite srun_do_other.
    - apply (proj2 (snap_new s k sc E)). exact Hj.
    - apply Forall_forall. intros o Ho. apply in_map_iff in Ho as (x & <- & _). lia.
    - simpl. rewrite E, app_length. simpl. lia.
  Qed.

  (* each solver keeps counting its own evaluations: the counter invariant holds slot by slot *)
  Theorem each_counts_its_own (Hf : counter_faithful N C I A) : forall ops s,
    Forall (fun sc => Inv_cnt N (fst sc)) s -> Forall (fun sc => Inv_cnt N (fst sc)) (srun s ops).
  Proof.
    unfold srun. induction ops as [|o ops IH]; intros s H; simpl; auto.
    apply IH. destruct o as [k op|k]; simpl.
    - destruct (nth_error s k) as [sc|] eqn:E; auto.
      assert (Hsc : Inv_cnt N (fst sc)).
      { rewrite Forall_forall in H. apply H. eapply nth_error_In; eauto. }
      assert (Hnew : Inv_cnt N (fst (fst (apply N inf C I A sc op)))).
      { pose proof (counter_is_calls N inf C I A Hf [op] sc Hsc) as K. exact K. }
      clear E. revert k. induction s as [|a s IHs]; intros k; simpl; auto.
      inversion H; subst. destruct k; constructor; auto.
    - destruct (nth_error s k) as [sc|] eqn:E; auto.
      apply Forall_app. split; auto. constructor; auto.
      rewrite Forall_forall in H. apply H. eapply nth_error_In; eauto.
  Qed.
End Store.
