(* C01 / C04 for the differential-evolution solvers: for every cost, penalty, constraints function, every stream of
   trial vectors (i.e. every strategy and every random draw) and every number of generations. *)
From Coq Require Import List ZArith Bool Lia.
From MV Require Import Common.Num Common.Order Core.Machine Core.Machine_Proofs Core.Stop_Proofs Core.DE.
Import ListNotations.
Open Scope Z_scope.

Section DEProofs.
  Variable N : Num.
  Variable inf : T N.
  Notation E := (T N).
  Notation vec := (vec N).
  Notation sys := (sys N).

  Hypothesis Hord : StrictWeak E (ltb N).
  (* an out-of-box or otherwise unevaluated energy (inf + penalty) is never below anything *)
  Definition is_top (e : E) : Prop := forall e', ltb N e e' = false.
  Hypothesis Htop : forall p, is_top (add N inf p).
  Hypothesis Hinf : is_top inf.

  (* (x, e) pairs the solver obtained from real calls *)
  Definition epairs (s : sys) : list (vec * E) := map (fun c => (c_x N c, c_e N c)) (calls N s).
  (* a stored (vector, energy) pair is honest: it came from a real call at that vector, or the energy is the top value *)
  Definition honest (s : sys) (p : vec * E) : Prop := In p (epairs s) \/ is_top (snd p).

  Lemma objective_false_honest s x :
    let r := objective N inf false s x in
    incl (epairs s) (epairs (fst r)) /\ honest (fst r) (x, snd r).
  Proof.
    cbv zeta. destruct (objective_core N inf false s x) as [Hc|(c & y & e & Ho & Hce & Hcalls & _ & _ & _ & He)].
    - apply core_eq in Hc as (E1 & _). unfold epairs, honest. rewrite E1. split; [apply incl_refl|].
      right. simpl.
      (* not logged: the point was outside the box, the energy is inf + penalty *)
      unfold objective in *. cbv zeta in *. simpl in *.
      destruct (outside N (box N s) x) eqn:Ho.
      + simpl. apply Htop.
      + exfalso. revert E1.
        destruct (energy_of N s (yadd N (u_raw N s x) (u_pen N s x))); simpl;
          intros E1; apply (f_equal (@length _)) in E1; rewrite app_length in E1; simpl in E1; lia.
    - assert (Ep : epairs (fst (objective N inf false s x)) = epairs s ++ [(x, e)]).
      { unfold epairs. rewrite Hcalls, map_app. simpl. now subst c. }
      rewrite He. unfold honest. rewrite Ep. split; [apply incl_appl, incl_refl|].
      left. apply in_or_app. right. simpl. left. reflexivity.
  Qed.

  Lemma honest_mono s s' p : incl (epairs s) (epairs s') -> honest s p -> honest s' p.
  Proof. intros Hi [H|H]; [left; auto|right; auto]. Qed.

  (* one generation of greedy selection *)
  Lemma de_loop_honest : forall l b s,
    Forall (honest s) (map snd l) -> honest s b ->
    let r := run_prog inf false s (de_loop N l b) in
    incl (epairs s) (epairs (fst r)) /\
    Forall (honest (fst r)) (fst (fst (snd r))) /\ honest (fst r) (snd (fst (snd r))) /\
    (snd (fst (snd r)) = b \/ ltb N (snd (snd (fst (snd r)))) (snd b) = true) /\
    length (fst (fst (snd r))) = length l.
  Proof.
    induction l as [|[t [m e]] l IH]; intros b s Hm Hb; cbv zeta.
    - simpl. repeat split; auto. apply incl_refl.
    - cbn [de_loop run_prog].
      set (tc := u_cons N s t).
      destruct (objective_false_honest s tc) as [Hinc Hte].
      set (s1 := fst (objective N inf false s tc)) in *.
      set (te := snd (objective N inf false s tc)) in *.
      set (keep := ltb N te e).
      set (m' := if keep then (tc, te) else (m, e)).
      set (b' := if (keep && ltb N te (snd b))%bool then (tc, te) else b).
      inversion Hm as [|? ? Hme Hml]; subst.
      assert (Hm' : honest s1 m').
      { subst m'. destruct keep; [exact Hte|]. apply (honest_mono s); auto. }
      assert (Hb' : honest s1 b').
      { subst b'. destruct (keep && ltb N te (snd b))%bool; [exact Hte|]. apply (honest_mono s); auto. }
      assert (Hml' : Forall (honest s1) (map snd l)).
      { eapply Forall_impl; [|exact Hml]. intros p. apply honest_mono; auto. }
      specialize (IH b' s1 Hml' Hb'). cbv zeta in IH.
      (* the continuation is a bind: run it *)
      assert (Hbind : forall R R' (p : prog N R) (f : R -> prog N R') s0,
                 run_prog inf false s0 (bind p f) =
                 run_prog inf false (fst (run_prog inf false s0 p)) (f (snd (run_prog inf false s0 p)))).
      { clear. intros R R' p. induction p as [r|x k IHp|x k IHp]; intros f s0; simpl; auto. }
      rewrite Hbind. cbn [run_prog fst snd].
      destruct IH as (Hinc2 & Hmem & Hbest & Hmono & Hlen).
      set (r := run_prog inf false s1 (de_loop N l b')) in *.
      repeat split.
      + eapply incl_tran; eauto.
      + constructor; [apply (honest_mono s1); auto|exact Hmem].
      + exact Hbest.
      + destruct Hmono as [Hbe|Hlt].
        * rewrite Hbe. subst b'. destruct (keep && ltb N te (snd b))%bool eqn:Ek; [|left; reflexivity].
          right. apply andb_true_iff in Ek as [_ Ek]. exact Ek.
        * subst b'. destruct (keep && ltb N te (snd b))%bool eqn:Ek; [|right; exact Hlt].
          right. apply andb_true_iff in Ek as [_ Ek]. simpl in Hlt. eapply (sw_trans E (ltb N) Hord); eauto.
      + simpl. now rewrite Hlen.
  Qed.

  (* ---- the solver-level invariant ---- *)
  Definition members (c : de N) : list (vec * E) := combine (pop N c) (popE N c).

  Definition Inv_de (s : sys) (c : de N) : Prop :=
    Forall (honest s) (members c) /\ honest s (de_best N inf c) /\ length (pop N c) = length (popE N c).

  Lemma bind_run R R' (p : prog N R) (f : R -> prog N R') : forall s0,
    run_prog inf false s0 (bind p f) =
    run_prog inf false (fst (run_prog inf false s0 p)) (f (snd (run_prog inf false s0 p))).
  Proof. induction p as [r|x k IHp|x k IHp]; intros s0; simpl; auto. Qed.

  Lemma map_snd_combine {X Y} (a : list X) (b : list Y) : length a = length b -> map snd (combine a b) = b.
  Proof. revert b; induction a as [|x a IH]; intros [|y b] H; simpl in *; try discriminate; auto. f_equal. apply IH. lia. Qed.
  Lemma map_fst_combine {X Y} (a : list X) (b : list Y) : length a = length b -> map fst (combine a b) = a.
  Proof. revert b; induction a as [|x a IH]; intros [|y b] H; simpl in *; try discriminate; auto. f_equal. apply IH. lia. Qed.
  Lemma combine_map_fst_snd {X Y} (l : list (X * Y)) : combine (map fst l) (map snd l) = l.
  Proof. induction l as [|[x y] l IH]; simpl; auto. now rewrite IH. Qed.

  (* the body of _Step for a given starting best b0 and trial list ts *)
  Definition de_body (c : de N) (b0 : vec * E) (ts : list vec) : prog N (de N * list (vec * E)) :=
    bind (de_loop N (combine ts (combine (pop N c) (popE N c))) b0) (fun res =>
      let mem := fst (fst res) in let b := snd (fst res) in
      Ret ({| pop := map fst mem; popE := map snd mem; best := Some b; lastE := snd res |}, [b])).

  Lemma de_step_body s c i :
    de_step N inf s c i =
    match stepmon N s with
    | [] => de_body c (hd [] (pop N c), hd inf (popE N c)) (pop N c)
    | _ => de_body c (de_best N inf c) (trials N i)
    end.
  Proof. unfold de_step, de_body. destruct (stepmon N s); reflexivity. Qed.

  Lemma de_body_honest s c b0 ts :
    Inv_de s c -> honest s b0 -> length ts = length (pop N c) ->
    let r := run_prog inf false s (de_body c b0 ts) in
    incl (epairs s) (epairs (fst r)) /\ Inv_de (fst r) (fst (snd r)) /\
    snd (snd r) = [de_best N inf (fst (snd r))] /\
    (de_best N inf (fst (snd r)) = b0 \/ ltb N (snd (de_best N inf (fst (snd r)))) (snd b0) = true) /\
    length (pop N (fst (snd r))) = length (pop N c).
  Proof.
    intros (Hm & Hb & Hlen) Hb0 Htr. cbv zeta. unfold de_body.
    assert (Hts : length ts = length (members c)).
    { unfold members. rewrite combine_length, <- Hlen, Nat.min_id. exact Htr. }
    assert (Hl : Forall (honest s) (map snd (combine ts (members c)))).
    { rewrite map_snd_combine by exact Hts. exact Hm. }
    rewrite bind_run.
    pose proof (de_loop_honest (combine ts (members c)) b0 s Hl Hb0) as K. cbv zeta in K.
    destruct K as (Hinc & Hmem & Hbest & Hmono & Hlen').
    unfold members in *.
    set (r := run_prog inf false s (de_loop N (combine ts (combine (pop N c) (popE N c))) b0)) in *.
    cbn [run_prog fst snd].
    repeat split.
    - exact Hinc.
    - unfold members. cbn [pop popE]. rewrite combine_map_fst_snd. exact Hmem.
    - unfold de_best. cbn [best]. exact Hbest.
    - cbn [pop popE]. now rewrite !map_length.
    - unfold de_best. cbn [best]. exact Hmono.
    - cbn [pop]. rewrite map_length, Hlen', combine_length, combine_length, <- Hlen, Nat.min_id, Htr. apply Nat.min_id.
  Qed.

  (* C01 for one _Step: members and best stay honest; C04: the best energy does not increase *)
  Theorem de_step_honest s c i :
    Inv_de s c -> length (trials N i) = length (pop N c) ->
    let r := run_prog inf false s (de_step N inf s c i) in
    incl (epairs s) (epairs (fst r)) /\ Inv_de (fst r) (fst (snd r)) /\
    snd (snd r) = [de_best N inf (fst (snd r))] /\
    (stepmon N s <> [] -> de_best N inf (fst (snd r)) = de_best N inf c \/
                          ltb N (snd (de_best N inf (fst (snd r)))) (snd (de_best N inf c)) = true) /\
    length (pop N (fst (snd r))) = length (pop N c).
  Proof.
    intros Hinv Htr. cbv zeta. rewrite de_step_body.
    destruct (stepmon N s) eqn:Hsm.
    - assert (Hb0 : honest s (hd [] (pop N c), hd inf (popE N c))).
      { destruct Hinv as (Hm & _ & Hlen). unfold members in Hm.
        destruct (pop N c) as [|x xs], (popE N c) as [|e es]; simpl in *; try discriminate.
        - right. exact Hinf.
        - inversion Hm; auto. }
      destruct (de_body_honest s c _ (pop N c) Hinv Hb0 eq_refl) as (H1 & H2 & H3 & _ & H5).
      split; [exact H1|]. split; [exact H2|]. split; [exact H3|]. split; [|exact H5]. intros Hne. exfalso. apply Hne. reflexivity.
    - destruct Hinv as (Hm & Hb & Hlen).
      destruct (de_body_honest s c _ (trials N i) (conj Hm (conj Hb Hlen)) Hb Htr) as (H1 & H2 & H3 & H4 & H5).
      split; [exact H1|]. split; [exact H2|]. split; [exact H3|]. split; [|exact H5]. intros _. exact H4.
  Qed.

  (* ---------- lifted to every sequence of API operations ---------- *)
  Variable npop : nat.
  Variable de2 : bool.
  Notation A := (de_algo N inf de2).

  Fixpoint desc (l : list E) : Prop :=       (* non-increasing: no later entry is above an earlier one *)
    match l with [] => True | a :: r => Forall (fun b => ltb N a b = false) r /\ desc r end.

  Lemma desc_app_last l x : desc l -> Forall (fun a => ltb N a x = false) l -> desc (l ++ [x]).
  Proof.
    induction l as [|a l IH]; simpl; intros Hd Hf; auto.
    destruct Hd as [Ha Hd]. inversion Hf as [|? ? Hax Hfl]; subst. split.
    - apply Forall_app. split; auto.
    - apply IH; auto.
  Qed.

  Lemma desc_last_le l d : desc l -> Forall (fun a => ltb N a (last l d) = false) l.
  Proof.
    induction l as [|a l IH]; simpl; intros Hd; auto. destruct Hd as [Ha Hd].
    destruct l as [|b l].
    - constructor; auto. apply (sw_irrefl E (ltb N) Hord).
    - constructor.
      + specialize (IH Hd). rewrite Forall_forall in Ha. apply Ha.
        clear. generalize b. induction l as [|c l IHl]; intros b0; simpl; auto. right. apply IHl.
      + apply IH; auto.
  Qed.

  Definition hist_ok (s : sys) (c : de N) : Prop :=
    desc (map snd (stepmon N s)) /\
    (stepmon N s <> [] -> snd (last (stepmon N s) ([], inf)) = snd (de_best N inf c)).

  Definition de_ok_in (i : de_in N) : Prop := deco N i = None /\ length (trials N i) = npop.

  Definition P_de (s : sys) (c : de N) : Prop := Inv_de s c /\ hist_ok s c /\ length (pop N c) = npop.

  Lemma honest_calls s s' p : calls N s' = calls N s -> honest s p -> honest s' p.
  Proof. unfold honest, epairs. intros ->. auto. Qed.

  Lemma P_de_frame s s' c : calls N s' = calls N s -> stepmon N s' = stepmon N s -> P_de s c -> P_de s' c.
  Proof.
    intros Ec Es ((Hm & Hb & Hl) & (Hd & Hlast) & Hn). repeat split; auto.
    - eapply Forall_impl; [|exact Hm]. intros p. apply honest_calls; auto.
    - eapply honest_calls; eauto.
    - now rewrite Es.
    - rewrite Es. exact Hlast.
  Qed.

  Lemma last_app_single {X} (l : list X) x d : last (l ++ [x]) d = x.
  Proof. induction l as [|a l IH]; simpl; auto. destruct (l ++ [x]) eqn:E; auto. destruct l; discriminate. Qed.

  Lemma P_de_step s c i : de_ok_in i -> P_de s c ->
    let r := run_prog inf (a_nested N _ _ A) s (a_step N _ _ A s c i) in
    P_de (set_stepmon N (fst r) (stepmon N (fst r) ++ snd (snd r))) (fst (snd r)).
  Proof.
    intros [Hdn Htl] (Hinv & (Hd & Hlast) & Hn). cbv zeta. cbn [a_nested a_step de_algo].
    assert (Htr : length (trials N i) = length (pop N c)) by congruence.
    destruct (de_step_honest s c i Hinv Htr) as (Hinc & Hinv' & Hrec & Hmono & Hlenp).
    set (r := run_prog inf false s (de_step N inf s c i)) in *.
    destruct (run_prog_cfg N inf false _ (de_step N inf s c i) s) as (_ & _ & Hsm). fold r in Hsm. cbv zeta in Hsm.
    split; [|split].
    - destruct Hinv' as (Hm' & Hb' & Hl'). repeat split; auto.
    - unfold hist_ok. cbn [stepmon set_stepmon]. rewrite Hsm, Hrec, map_app. cbn [map]. split.
      + apply desc_app_last; auto.
        destruct (stepmon N s) as [|q qs] eqn:Eq; [constructor|].
        assert (Hne : q :: qs <> []) by discriminate.
        specialize (Hlast Hne). specialize (Hmono Hne).
        pose proof (desc_last_le (map snd (q :: qs)) inf Hd) as Hle.
        assert (Elast : last (map snd (q :: qs)) inf = snd (last (q :: qs) ([], inf))).
        { clear. generalize q. induction qs as [|a l IH]; intros q0; auto. simpl in *. apply IH. }
        rewrite Elast, Hlast in Hle.
        eapply Forall_impl; [|exact Hle]. intros a Ha. cbv beta in Ha.
        destruct Hmono as [Heq|Hlt]; [now rewrite Heq|].
        destruct (ltb N a (snd (de_best N inf (fst (snd r))))) eqn:El; auto.
        pose proof (sw_trans E (ltb N) Hord _ _ _ El Hlt). congruence.
      + intros _. now rewrite last_app_single.
    - rewrite Hlenp. exact Hn.
  Qed.

  (* C01 + C04 for both DE solvers, for every clean sequence of API operations *)
  Theorem de_run_ok : forall ops sc,
    Forall (clean_op N _ de_ok_in false false) ops -> P_de (fst sc) (snd sc) ->
    P_de (fst (run N inf _ _ A sc ops)) (snd (run N inf _ _ A sc ops)).
  Proof.
    apply (run_joint N inf _ _ A P_de de_ok_in false false).
    - intros s s' c H1 H2 _ _. apply P_de_frame; assumption.
    - intros s c i [Hd _] H. cbn [a_decorate de_algo]. unfold de_decorate. rewrite Hd. exact H.
    - intros s c i. apply P_de_step.
    - intros s c H. cbn [a_finalize de_algo fst snd]. eapply P_de_frame; [| |exact H]; cbn; auto using app_nil_r.
  Qed.

  Lemma de_init_ok ndim t : npop = Nat.max (Nat.max npop ndim) 4 ->
    P_de (init_sys N inf t) (de_init N inf npop ndim).
  Proof.
    intros _. unfold P_de, Inv_de, hist_ok, de_init, members, de_best. cbn.
    repeat split; auto.
    - generalize (repeat (zero N) ndim). intros z. induction npop as [|n IH]; simpl; constructor; auto.
      right. exact Hinf.
    - right. destruct npop; simpl; exact Hinf.
    - now rewrite !repeat_length.
    - intros H. congruence.
    - apply repeat_length.
  Qed.
End DEProofs.

(* C03 for differential evolution: every evaluated trial is an output of the constraints in force (no order laws needed) *)
Section DECons.
  Variable N : Num.
  Variable inf : T N.
  Notation sys := (sys N).

  Lemma bind_run' R R' (p : prog N R) (f : R -> prog N R') : forall s0,
    run_prog inf false s0 (bind p f) =
    run_prog inf false (fst (run_prog inf false s0 p)) (f (snd (run_prog inf false s0 p))).
  Proof. induction p as [r|x k IHp|x k IHp]; intros s0; simpl; auto. Qed.

  Lemma de_loop_cons : forall l b s, Inv_cons N s ->
    Inv_cons N (fst (run_prog inf false s (de_loop N l b))).
  Proof.
    induction l as [|[t [m e]] l IH]; intros b s H; [exact H|].
    cbn [de_loop run_prog]. rewrite bind_run'. cbn [run_prog fst snd].
    apply IH.
    destruct (objective_core N inf false s (u_cons N s t)) as [Hc|(c & y & e0 & _ & Hce & Hcalls & _)].
    - apply (core_eq N) in Hc as (E & _). unfold Inv_cons. rewrite E. exact H.
    - unfold Inv_cons. rewrite Hcalls. apply Forall_app. split; [exact H|].
      constructor; [|constructor]. simpl. exists t. exact Hce.
  Qed.

  Theorem de_evaluated_points_constrained (de2 : bool) :
    forall (ops : list (op N (de_in N))) (sc : sys * de N),
    Inv_cons N (fst sc) -> Inv_cons N (fst (run N inf _ _ (de_algo N inf de2) sc ops)).
  Proof.
    apply (run_calls_prog N inf _ _ (de_algo N inf de2) (fun l => Forall (fun c => exists x, c_x N c = c_cons N c x) l)).
    intros s c i H. cbn [a_nested a_step de_algo]. unfold de_step. rewrite bind_run'. cbn [run_prog fst].
    apply de_loop_cons. exact H.
  Qed.
End DECons.

(* C03, result clause, for differential evolution: the reported best (and every member) was evaluated at a point that is an
   output of the constraints in force at that evaluation - or has never been evaluated at all (top energy) *)
Section DEResult.
  Variable N : Num.
  Variable inf : T N.
  Variable de2 : bool.
  Variable npop : nat.
  Hypothesis Hord : StrictWeak (T N) (ltb N).
  Hypothesis Htop : forall p, is_top N (add N inf p).
  Hypothesis Hinf : is_top N inf.

  Definition constrained_call (s : sys N) (p : vec N * T N) : Prop :=
    is_top N (snd p) \/
    exists c, In c (calls N s) /\ c_x N c = fst p /\ c_e N c = snd p /\ exists x, fst p = c_cons N c x.

  Lemma honest_constrained s p : Inv_cons N s -> honest N s p -> constrained_call s p.
  Proof.
    intros Hc [Hin|Ht]; [|left; exact Ht]. right.
    unfold epairs in Hin. apply in_map_iff in Hin as (c & Ec & Hin).
    exists c. destruct p as [x e]. injection Ec as Ex Ee. cbn [fst snd]. repeat split; auto.
    unfold Inv_cons in Hc. rewrite Forall_forall in Hc. destruct (Hc c Hin) as [x0 Hx0]. exists x0. now rewrite <- Ex.
  Qed.

  Theorem de_result_constrained : forall ops sc,
    Forall (clean_op N _ (de_ok_in N npop) false false) ops -> P_de N inf npop (fst sc) (snd sc) -> Inv_cons N (fst sc) ->
    let r := run N inf _ _ (de_algo N inf de2) sc ops in
    constrained_call (fst r) (de_best N inf (snd r)) /\ Forall (constrained_call (fst r)) (members N (snd r)).
  Proof.
    intros ops sc Hclean HP Hc. cbv zeta.
    pose proof (de_run_ok N inf Hord Htop Hinf npop de2 ops sc Hclean HP) as ((Hm & Hb & _) & _).
    pose proof (de_evaluated_points_constrained N inf de2 ops sc Hc) as Hc'.
    split; [apply honest_constrained; assumption|].
    eapply Forall_impl; [|exact Hm]. intros p. apply honest_constrained. exact Hc'.
  Qed.
End DEResult.

(* C05 for differential evolution: Solve always returns (every generation logs exactly one record) *)
Section DESolve.
  Variable N : Num.
  Variable inf : T N.
  Variable de2 : bool.
  Notation A := (de_algo N inf de2).

  Lemma de_step_one_record s c i :
    exists b, snd (snd (run_prog inf false s (de_step N inf s c i))) = [b].
  Proof.
    unfold de_step. rewrite (bind_run' N inf). cbn [run_prog fst snd]. eexists. reflexivity.
  Qed.

  Theorem de_solve_terminates : forall f s c is dflt mi mf,
    abs_limits N mi mf s -> (0 <= mi)%Z ->
    (Z.to_nat (mi + 3) <= S f + ehlen N _ _ A s c)%nat ->
    snd (solve N inf _ _ A (S f) s c is dflt) = true.
  Proof.
    intros f s c is dflt mi mf Hl Hmi Hfuel.
    destruct (Z.eq_dec mi 0) as [E0|Hnz]; [subst mi; apply (solve_terminates_zero N inf _ _ A f s c is dflt mf Hl)|].
    assert (Hpos : (0 < mi)%Z) by lia.
    refine (solve_terminates N inf _ _ A (fun _ => True) (fun _ => True) _ _ _ _ _ _ f s c is dflt mi mf Logic.I _ Logic.I Hl Hpos Hfuel).
    - (* progress *)
      intros s0 c0 i _ _ _. cbv zeta. split; [|exact Logic.I]. cbn [a_nested a_step de_algo].
      destruct (de_step_one_record s0 c0 i) as [b Hb]. rewrite Hb.
      destruct (run_prog_cfg N inf false _ (de_step N inf s0 c0 i) s0) as (_ & _ & Hs). cbv zeta in Hs.
      unfold ehlen, energy_history. cbn [stepmon set_stepmon a_ehist_extra de_algo]. rewrite Hs.
      rewrite !app_nil_r, map_app, app_length. simpl. lia.
    - (* finalize *)
      intros s0 c0 _. cbn [a_finalize de_algo fst snd]. unfold ehlen, energy_history. cbn [stepmon set_stepmon].
      rewrite (app_nil_r (stepmon N s0)). apply Nat.le_refl.
    - intros s0 c0 i. reflexivity.
    - intros; exact Logic.I.
    - intros; exact Logic.I.
    - intros c0 _. simpl. lia.
    - apply Forall_forall. intros; exact Logic.I.
  Qed.
End DESolve.
