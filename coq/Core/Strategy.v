(* C08 - the ten differential-evolution mutation strategies of mystic/strategy.py as "base + F * difference" with a
   crossover rule, candidate selection as a recorded random.sample answer, and the greedy selection step of both DE solvers
   (differential_evolution.py: DifferentialEvolutionSolver._Step = asynchronous, DifferentialEvolutionSolver2._Step = synchronous).
   Definitions only (executable over any Num; run bit-exactly in NumF); proofs are in Strategy_Proofs.v. *)
From Coq Require Import List Arith Bool.
From MV Require Import Common.Num.
Import ListNotations.

Inductive rule := Bin | Exp.
Inductive family := Best1 | Rand1 | RandToBest1 | Best2 | Rand2.
Inductive sname := Best1Exp | Best1Bin | Rand1Exp | RandToBest1Exp | Best2Exp | Rand2Exp
                 | Rand1Bin | RandToBest1Bin | Best2Bin | Rand2Bin.

Definition family_of (s : sname) : family :=
  match s with
  | Best1Exp | Best1Bin => Best1
  | Rand1Exp | Rand1Bin => Rand1
  | RandToBest1Exp | RandToBest1Bin => RandToBest1
  | Best2Exp | Best2Bin => Best2
  | Rand2Exp | Rand2Bin => Rand2
  end.

(* the crossover rule the NAME of the strategy promises ... *)
Definition named_rule (s : sname) : rule :=
  match s with
  | Best1Bin | Rand1Bin | RandToBest1Bin | Best2Bin | Rand2Bin => Bin
  | _ => Exp
  end.
(* ... and the one strategy.py implements: only Best1Bin has the binomial loop (finding F8) *)
Definition coded_rule (s : sname) : rule :=
  match s with Best1Bin => Bin | _ => Exp end.

(* number of members drawn by get_random_candidates *)
Definition nsample (f : family) : nat :=
  match f with Best1 => 2 | Rand1 => 3 | RandToBest1 => 2 | Best2 => 4 | Rand2 => 5 end.

Section Strategy.
  Variable N : Num.
  Notation T := (T N).
  Definition vec := list T.
  Definition vnth (v : vec) (i : nat) : T := nth i v (zero N).
  Definition pnth (pop : list vec) (r : nat) : vec := nth r pop [].

  (* get_random_candidates(NP, exclude, k): the recorded answer of random.sample must be k distinct indices < NP, none = exclude *)
  Fixpoint nodupb (l : list nat) : bool :=
    match l with [] => true | a :: r => negb (existsb (Nat.eqb a) r) && nodupb r end.
  Definition sample_ok (NP exclude k : nat) (rs : list nat) : bool :=
    Nat.eqb (length rs) k && nodupb rs && forallb (fun r => Nat.ltb r NP && negb (Nat.eqb r exclude)) rs.

  (* the mutant component i : base_i + F * (difference)_i, in strategy.py's floating-point operation order *)
  Definition mutant (f : family) (pop : list vec) (best parent : vec) (F : T) (rs : list nat) (i : nat) : T :=
    let p k := vnth (pnth pop (nth k rs 0)) i in
    match f with
    | Best1 => add N (vnth best i) (mul N F (sub N (p 0) (p 1)))
    | Rand1 => add N (p 0) (mul N F (sub N (p 1) (p 2)))
    | RandToBest1 =>   (* trial[n] += F*(best[n]-trial[n]) + F*(r1[n]-r2[n]) ; trial[n] is still the parent's value *)
        add N (vnth parent i) (add N (mul N F (sub N (vnth best i) (vnth parent i))) (mul N F (sub N (p 0) (p 1))))
    | Best2 => add N (vnth best i) (mul N F (sub N (sub N (add N (p 0) (p 1)) (p 2)) (p 3)))
    | Rand2 => add N (p 0) (mul N F (sub N (sub N (add N (p 1) (p 2)) (p 3)) (p 4)))
    end.

  (* exponential loop:  i = 0; while 1: if random() >= CR or i == D: break; mutate n; n = (n+1) % D; i += 1
     -> length of the run; None = the recorded draws ran out (the code always draws before it tests) *)
  Fixpoint exp_len (CR : T) (d : nat) (us : list T) : option nat :=
    match us with
    | [] => None
    | u :: r => match d with
                | O => Some O
                | S k => if ltb N u CR then option_map S (exp_len CR k r) else Some O
                end
    end.
  (* position i lies in the cyclic run n, n+1, ... of length L *)
  Definition in_run (D n L i : nat) : bool := Nat.ltb ((i + D - n) mod D) L.
  (* binomial loop (Best1Bin): for i in range(D): u = random(); mutate i iff i == n or u < CR *)
  Definition in_bin (CR : T) (n : nat) (us : list T) (i : nat) : bool :=
    Nat.eqb i n || ltb N (nth i us (zero N)) CR.

  Definition build (D : nat) (mask : nat -> bool) (parent : vec) (mut : nat -> T) : vec :=
    map (fun i => if mask i then mut i else vnth parent i) (seq 0 D).

  (* one call strategy(inst, candidate) with the recorded answers of random.sample (rs), randrange (n), random() (us) *)
  Definition trial_rule (r : rule) (f : family) (pop : list vec) (best : vec) (cand : nat) (F CR : T)
             (rs : list nat) (n : nat) (us : list T) : option vec :=
    let parent := pnth pop cand in
    let D := length parent in
    if negb (sample_ok (length pop) cand (nsample f) rs) || negb (Nat.ltb n D) then None else
    match r with
    | Exp => match exp_len CR D us with
             | None => None
             | Some L => Some (build D (in_run D n L) parent (mutant f pop best parent F rs))
             end
    | Bin => if Nat.ltb (length us) D then None
             else Some (build D (in_bin CR n us) parent (mutant f pop best parent F rs))
    end.
  Definition trial (s : sname) := trial_rule (coded_rule s) (family_of s).

  (* ------------------------------------------------------------------ selection and one generation *)
  Definition member := (vec * T)%type.
  Record destate := mkDE { de_pop : list member; de_best : member }.
  Definition draw := (list nat * nat * list T)%type.

  Fixpoint set_nth {A} (c : nat) (v : A) (l : list A) : list A :=
    match l, c with
    | [], _ => []
    | _ :: r, O => v :: r
    | a :: r, S k => a :: set_nth k v r
    end.

  (* if trialEnergy < popEnergy[c]: replace; if trialEnergy < bestEnergy: new best *)
  Definition sel_step (c : nat) (tr : vec) (e : T) (st : destate) : destate :=
    let old := nth c (de_pop st) ([], zero N) in
    if ltb N e (snd old)
    then mkDE (set_nth c (tr, e) (de_pop st)) (if ltb N e (snd (de_best st)) then (tr, e) else de_best st)
    else st.

  Variable cost : vec -> option T.

  Definition trial_of (s : sname) (F CR : T) (st : destate) (c : nat) (d : draw) : option vec :=
    trial s (map fst (de_pop st)) (fst (de_best st)) c F CR (fst (fst d)) (snd (fst d)) (snd d).

  (* DifferentialEvolutionSolver._Step: trial, evaluation and selection interleaved (later candidates see earlier replacements) *)
  Fixpoint de1_loop (s : sname) (F CR : T) (c : nat) (ds : list draw) (st : destate) : option destate :=
    match ds with
    | [] => Some st
    | d :: r =>
        match trial_of s F CR st c d with
        | None => None
        | Some tr => match cost tr with
                     | None => None
                     | Some e => de1_loop s F CR (S c) r (sel_step c tr e st)
                     end
        end
    end.
  Definition de1_gen s F CR ds st : option destate :=
    if Nat.eqb (length ds) (length (de_pop st)) then de1_loop s F CR 0 ds st else None.

  (* DifferentialEvolutionSolver2._Step: all trials are built from the unchanged generation, then evaluated, then selected *)
  Fixpoint de2_trials (s : sname) (F CR : T) (st : destate) (c : nat) (ds : list draw) : option (list member) :=
    match ds with
    | [] => Some []
    | d :: r =>
        match trial_of s F CR st c d with
        | None => None
        | Some tr => match cost tr, de2_trials s F CR st (S c) r with
                     | Some e, Some l => Some ((tr, e) :: l)
                     | _, _ => None
                     end
        end
    end.
  Fixpoint sel_all (c : nat) (trs : list member) (st : destate) : destate :=
    match trs with
    | [] => st
    | (tr, e) :: r => sel_all (S c) r (sel_step c tr e st)
    end.
  Definition de2_gen s F CR ds st : option destate :=
    if Nat.eqb (length ds) (length (de_pop st))
    then option_map (fun trs => sel_all 0 trs st) (de2_trials s F CR st 0 ds) else None.
End Strategy.
