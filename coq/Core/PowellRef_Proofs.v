(* C08 - proofs about Core/PowellRef.v: for ANY objective, ANY line-search answers, ANY numeric type whose [ltb] is a strict weak
   order (no NaN). *)
From Coq Require Import List Arith Bool Lia.
From MV Require Import Common.Num Common.Order Core.PowellRef.
Import ListNotations.

Section Proofs.
  Variable N : Num.
  Notation T := (T N).
  Variable f : pvec N -> option T.
  Variables ftol eta : T.
  Variable first_test : bool.
  Hypothesis SW : StrictWeak T (ltb N).

  Notation fret r := (snd (fst r)).
  (* a <= b in the energy order *)
  Notation le a b := (ltb N b a = false).

  (* ---------------------------------------------------------------- the direction set *)
  Lemma set_dir_length k v l : length (set_dir N k v l) = length l.
  Proof. revert k; induction l; destruct k; simpl; auto. Qed.
  Lemma set_dir_same k v l d : k < length l -> nth k (set_dir N k v l) d = v.
  Proof. revert k; induction l; destruct k; simpl; intros; try lia; auto. apply IHl; lia. Qed.
  Lemma set_dir_other k j v l d : k <> j -> nth j (set_dir N k v l) d = nth j l d.
  Proof. revert k j; induction l; destruct k, j; simpl; intros; try lia; auto. Qed.

  Lemma replace_dir_length direc k d1 : length (replace_dir N direc k d1) = length direc.
  Proof. unfold replace_dir. now rewrite !set_dir_length. Qed.

  (* direc[bigind] = direc[-1]; direc[-1] = new: the direction at bigind is dropped, all others are kept *)
  Lemma replace_dir_spec direc k d1 : k < length direc ->
    nth (length direc - 1) (replace_dir N direc k d1) [] = d1
    /\ (k < length direc - 1 -> nth k (replace_dir N direc k d1) [] = last direc [])
    /\ forall j, j <> k -> j <> length direc - 1 -> nth j (replace_dir N direc k d1) [] = nth j direc [].
  Proof.
    intros Hk. unfold replace_dir. rewrite set_dir_length. split; [|split].
    - apply set_dir_same. rewrite set_dir_length. lia.
    - intros Hk'. rewrite set_dir_other by lia. now apply set_dir_same.
    - intros j H1 H2. rewrite set_dir_other by lia. apply set_dir_other. lia.
  Qed.

  (* ---------------------------------------------------------------- the sweep: largest decrease *)
  Fixpoint decreases (f0 : T) (recs : list (lsrec N)) : list T :=
    match recs with
    | [] => []
    | r :: rest => sub N f0 (fret r) :: decreases (fret r) rest
    end.

  Theorem sweep_big_spec : forall dirs i s s', sweep N i dirs s = Some s' ->
    exists recs, length recs = length dirs /\ sw_ls N s = recs ++ sw_ls N s' /\
      let ds := decreases (sw_f N s) recs in
      (forall d, In d ds -> ltb N (sw_delta N s') d = false)          (* no decrease exceeds delta *)
      /\ ltb N (sw_delta N s') (sw_delta N s) = false
      /\ ((sw_delta N s' = sw_delta N s /\ sw_big N s' = sw_big N s)
          \/ exists j, j < length dirs /\ sw_big N s' = i + j /\ sw_delta N s' = nth j ds (zero N)
                       /\ ltb N (sw_delta N s) (nth j ds (zero N)) = true).
  Proof.
    induction dirs as [|d r IH]; intros i s s' H; simpl in H.
    - injection H as <-. exists []. simpl. split; [reflexivity|]. split; [reflexivity|].
      split; [intros ? []|]. split; [apply (sw_irrefl T (ltb N) SW)|]. now left.
    - destruct (sw_ls N s) as [|[[alpha fr] c] ls'] eqn:El; [discriminate|].
      set (dec := sub N (sw_f N s) fr) in *.
      apply IH in H. destruct H as (recs & HL & Hls & Hall & Hge & Hcase). simpl in *.
      exists ((alpha, fr, c) :: recs). simpl. split; [congruence|]. split; [congruence|].
      fold dec.
      assert (ltb N (sw_delta N s') dec = false /\ ltb N (sw_delta N s') (sw_delta N s) = false) as [G1 G2].
      { destruct (ltb N (sw_delta N s) dec) eqn:E.
        - split; [exact Hge|]. destruct (ltb N (sw_delta N s') (sw_delta N s)) eqn:E2; [|reflexivity].
          pose proof (sw_trans T (ltb N) SW _ _ _ E2 E). congruence.
        - split; [|exact Hge]. exact (sw_negtrans T (ltb N) SW _ _ _ Hge E). }
      split; [intros x [<-|Hin]; [exact G1|now apply Hall]|]. split; [exact G2|].
      destruct Hcase as [[A B]|(j & Hj & B1 & B2 & B3)].
      + destruct (ltb N (sw_delta N s) dec) eqn:E.
        * right. exists 0. split; [lia|]. split; [lia|]. simpl. auto.
        * now left.
      + right. exists (S j). split; [lia|]. split; [lia|]. simpl. split; [exact B2|].
        destruct (ltb N (sw_delta N s) dec) eqn:E.
        * exact (sw_trans T (ltb N) SW _ _ _ E B3).
        * exact B3.
  Qed.

  (* ---------------------------------------------------------------- energies never increase, given fret <= f(current) *)
  Fixpoint noninc (cur : T) (l : list T) : Prop :=
    match l with [] => True | v :: r => le v cur /\ noninc v r end.
  (* newest-first list of recorded values, each at least the next newer one *)
  Fixpoint up (cur : T) (l : list (pvec N * T)) : Prop :=
    match l with [] => True | xv :: r => le cur (snd xv) /\ up (snd xv) r end.

  Lemma le_refl a : le a a.
  Proof. apply (sw_irrefl T (ltb N) SW). Qed.
  Lemma le_trans a b c : le a b -> le b c -> le a c.
  Proof. intros H1 H2. exact (sw_negtrans T (ltb N) SW _ _ _ H2 H1). Qed.
  Lemma up_weaken c c' l : le c' c -> up c l -> up c' l.
  Proof. destruct l as [|xv r]; simpl; [auto|]. intros H [A B]. split; [eapply le_trans; eauto|exact B]. Qed.

  Lemma sweep_noninc : forall dirs i s s', sweep N i dirs s = Some s' ->
    noninc (sw_f N s) (map (fun r => fret r) (sw_ls N s)) ->
    noninc (sw_f N s') (map (fun r => fret r) (sw_ls N s')) /\ le (sw_f N s') (sw_f N s).
  Proof.
    induction dirs as [|d r IH]; intros i s s' H Hn; simpl in H.
    - injection H as <-. split; [exact Hn|apply le_refl].
    - destruct (sw_ls N s) as [|[[alpha fr] c] ls'] eqn:El; [discriminate|].
      simpl in Hn. destruct Hn as [A B].
      apply IH in H; [|simpl; exact B]. simpl in H. destruct H as [C D].
      split; [exact C|]. eapply le_trans; eauto.
  Qed.

  Definition inv (n : nat) (f0 : T) (st : pwstate N) : Prop :=
    length (pw_direc N st) = n
    /\ noninc (pw_f N st) (map (fun r => fret r) (pw_ls N st))
    /\ up (pw_f N st) (pw_sweeps N st)
    /\ le (pw_f N st) f0
    /\ Forall (fun xv => le (snd xv) f0) (pw_sweeps N st).

  Lemma finish_inv n f0 st sw :
    inv n f0 st -> noninc (sw_f N sw) (map (fun r => fret r) (sw_ls N sw)) -> le (sw_f N sw) (pw_f N st) ->
    inv n f0 (finish N st sw).
  Proof.
    intros (A & B & C & D & E) Hn Hle. unfold finish, inv; simpl.
    assert (le (sw_f N sw) f0) as G by (eapply le_trans; eauto).
    split; [exact A|]. split; [exact Hn|]. split; [split; [apply le_refl|apply (up_weaken (pw_f N st)); [exact Hle|exact C]]|].
    split; [exact G|]. constructor; [exact G|exact E].
  Qed.

  Lemma extrapolate_inv n f0 st fx sw st' :
    inv n f0 st -> noninc (sw_f N sw) (map (fun r => fret r) (sw_ls N sw)) -> le (sw_f N sw) (pw_f N st) ->
    extrapolate N f st fx sw = Some st' -> inv n f0 st'.
  Proof.
    intros (A & B & C & D & E) Hn Hle. unfold extrapolate.
    destruct (f _) as [fx2|]; [|discriminate].
    assert (le (sw_f N sw) f0) as G by (eapply le_trans; eauto).
    assert (inv n f0 (mkPw N (sw_x N sw) (sw_f N sw) (sw_x N sw) (pw_direc N st) (S (pw_iter N st)) (S (sw_calls N sw))
                            (sw_ls N sw) ((sw_x N sw, sw_f N sw) :: pw_sweeps N st) (sw_x N sw :: pw_vecs N st))) as K.
    { unfold inv; simpl. split; [exact A|]. split; [exact Hn|].
      split; [split; [apply le_refl|apply (up_weaken (pw_f N st)); [exact Hle|exact C]]|]. split; [exact G|]. constructor; [exact G|exact E]. }
    destruct (ltb N fx2 fx); [|intros H; injection H as <-; exact K].
    destruct (ltb N (t_value N _ _ _ _) (zero N)); [|intros H; injection H as <-; exact K].
    destruct (sw_ls N sw) as [|[[alpha fr] c] ls'] eqn:El; [discriminate|].
    intros H; injection H as <-. simpl in Hn. destruct Hn as [H1 H2].
    unfold inv; simpl. split; [now rewrite replace_dir_length|]. split; [exact H2|].
    split; [split; [exact H1|apply (up_weaken (pw_f N st)); [exact Hle|exact C]]|]. split; [eapply le_trans; eauto|].
    constructor; [exact G|exact E].
  Qed.

  Lemma powell_loop_eq rem maxfun st :
    powell_loop N f ftol eta first_test rem maxfun st =
    match sweep N 0 (pw_direc N st) (mkSw N (pw_x N st) (pw_f N st) (zero N) 0 (pw_calls N st) (pw_ls N st)) with
    | None => None
    | Some sw =>
        if ((first_test || Nat.ltb 0 (pw_iter N st)) && tol_stop N ftol eta (pw_f N st) (sw_f N sw)) || Nat.leb maxfun (sw_calls N sw)
        then Some (finish N st sw)
        else match rem with
             | S (S r as rem') =>
                 match extrapolate N f st (pw_f N st) sw with
                 | None => None
                 | Some st' => powell_loop N f ftol eta first_test rem' maxfun st'
                 end
             | _ => Some (finish N st sw)
             end
    end.
  Proof. destruct rem; reflexivity. Qed.

  Lemma powell_loop_inv n f0 maxfun : forall rem st st',
    powell_loop N f ftol eta first_test rem maxfun st = Some st' -> inv n f0 st -> inv n f0 st'.
  Proof.
    induction rem as [|rem IH]; intros st st' H I; rewrite powell_loop_eq in H;
      destruct (sweep N 0 _ _) as [sw|] eqn:Es; try discriminate;
      (assert (noninc (sw_f N sw) (map (fun r => fret r) (sw_ls N sw)) /\ le (sw_f N sw) (pw_f N st)) as [Hn Hle]
        by (apply sweep_noninc in Es; [exact Es|simpl; apply I])).
    - destruct (_ || _); injection H as <-; now apply finish_inv.
    - destruct (_ || _); [injection H as <-; now apply finish_inv|].
      destruct rem as [|r]; [injection H as <-; now apply finish_inv|].
      destruct (extrapolate N f st (pw_f N st) sw) as [st1|] eqn:Ee; [|discriminate].
      eapply IH; [exact H|]. eapply extrapolate_inv; eauto.
  Qed.

  Theorem powell_run_invariants x0 direc maxiter maxfun ls r f0 :
    powell_run N f ftol eta first_test x0 direc maxiter maxfun ls = Some r -> f x0 = Some f0 ->
    noninc f0 (map (fun r => fret r) ls) ->                  (* the oracle never returns a value above the current one *)
    length (pr_direc N r) = length direc                     (* the direction set keeps its N vectors *)
    /\ up (pr_f N r) (rev (pr_sweeps N r))                   (* fval after each sweep, newest first: non-increasing in time *)
    /\ le (pr_f N r) f0
    /\ Forall (fun xv => le (snd xv) f0) (pr_sweeps N r).
  Proof.
    unfold powell_run. intros H Hf Hn. rewrite Hf in H.
    destruct (powell_loop N f ftol eta first_test maxiter maxfun _) as [st|] eqn:El; [|discriminate].
    injection H as <-. simpl.
    apply (powell_loop_inv (length direc) f0) in El.
    - destruct El as (A & B & C & D & E). split; [exact A|]. split; [now rewrite rev_involutive|].
      split; [exact D|]. now apply Forall_rev.
    - unfold inv; simpl. split; [reflexivity|]. split; [exact Hn|]. split; [exact I|]. split; [apply le_refl|constructor].
  Qed.

  (* the only way the direction set changes: the direction of largest decrease (sw_big of the sweep) is dropped *)
  Theorem extrapolate_spec st fx sw st' : extrapolate N f st fx sw = Some st' ->
    pw_direc N st' = pw_direc N st
    \/ exists fx2 alpha, f (pmap2 N (sub N) (pscale N (two N) (sw_x N sw)) (pw_x1 N st)) = Some fx2
         /\ ltb N fx2 fx = true /\ ltb N (t_value N fx fx2 (sw_f N sw) (sw_delta N sw)) (zero N) = true
         /\ pw_direc N st' = replace_dir N (pw_direc N st) (sw_big N sw)
                                         (pscale N alpha (pmap2 N (sub N) (sw_x N sw) (pw_x1 N st))).
  Proof.
    unfold extrapolate. destruct (f _) as [fx2|] eqn:Ef; [|discriminate].
    destruct (ltb N fx2 fx) eqn:E1; [|intros H; injection H as <-; now left].
    destruct (ltb N (t_value N _ _ _ _) (zero N)) eqn:E2; [|intros H; injection H as <-; now left].
    destruct (sw_ls N sw) as [|[[alpha fr] c] ls']; [discriminate|].
    intros H; injection H as <-. right. exists fx2, alpha. simpl. auto.
  Qed.
End Proofs.

From Coq Require Import QArith.
Close Scope Q_scope.

(* mystic's default stop rule cannot fire after the first sweep: a run where the reference stops after one iteration and the
   first_test = false variant (what mystic does) goes on.  Objective constant 0 on a line, line search answers alpha = 0. *)
Definition powell_variants_agree : Prop :=
  forall (f : list Q -> option Q) ftol eta x0 direc maxiter maxfun ls,
    option_map (pr_iter NumQ) (powell_run NumQ f ftol eta true x0 direc maxiter maxfun ls)
    = option_map (pr_iter NumQ) (powell_run NumQ f ftol eta false x0 direc maxiter maxfun ls).

Lemma powell_variants_agree_refuted : ~ powell_variants_agree.
Proof.
  intros H.
  specialize (H (fun _ => Some 0%Q) (1 # 10000)%Q (1 # 100000000)%Q [0%Q] [[1%Q]] 10 1000
                [(0%Q, 0%Q, 3); (0%Q, 0%Q, 3); (0%Q, 0%Q, 3)]).
  vm_compute in H. discriminate H.
Qed.
