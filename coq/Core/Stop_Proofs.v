(* C05 - stopping discipline of abstract_solver.Step / Terminated / SetEvaluationLimits, for every algorithm. *)
From Coq Require Import List ZArith Bool Lia.
From MV Require Import Common.Num Core.Machine.
Import ListNotations.
Open Scope Z_scope.

Section Stop.
  Variable N : Num.
  Variable inf : T N.
  Notation sys := (sys N).
  Variables C I : Type.
  Variable A : algo N C I.

  Notation terminated := (terminated N C I A).
  Notation generations := (generations N C I A).
  Notation step := (step N inf C I A).

  (* after Terminated, both limits are absolute numbers *)
  Lemma resolved_abs s c :
    exists mi mf, maxiter N (resolve_limits N C I A s c) = LAbs mi /\ maxfun N (resolve_limits N C I A s c) = LAbs mf.
  Proof.
    unfold resolve_limits. simpl. destruct (maxiter N s), (maxfun N s); eauto.
  Qed.

  Lemma terminated_state s c : fst (terminated s c) = resolve_limits N C I A s c.
  Proof. reflexivity. Qed.

  (* what each stop message means, in terms of the state Terminated returns *)
  Definition msg_true (s : sys) (c : C) (m : stopmsg) : Prop :=
    match m with
    | MLimits => exists mi mf, maxiter N s = LAbs mi /\ maxfun N s = LAbs mf /\ (mf <= fcalls N s \/ mi <= generations s c)
    | MInterrupt => exitreq N s = true
    | MTerm => eval_term N (u_term N s) (energy_history N C I A s c) = true
    | MNone => exists mi mf, maxiter N s = LAbs mi /\ maxfun N s = LAbs mf /\ fcalls N s < mf /\ generations s c < mi /\
               exitreq N s = false /\ eval_term N (u_term N s) (energy_history N C I A s c) = false
    end.

  Theorem terminated_sound s c : msg_true (fst (terminated s c)) c (snd (terminated s c)).
  Proof.
    unfold Machine.terminated. cbv zeta. cbn [fst snd].
    destruct (resolved_abs s c) as (mi & mf & Hi & Hf).
    set (s1 := resolve_limits N C I A s c) in *.
    rewrite Hf, Hi.
    destruct (Z.leb mf (fcalls N s1)) eqn:E1.
    - simpl. exists mi, mf. repeat split; auto. left. now apply Z.leb_le.
    - destruct (Z.leb mi (generations s1 c)) eqn:E2.
      + simpl. exists mi, mf. repeat split; auto. right. now apply Z.leb_le.
      + apply Z.leb_gt in E1, E2.
        destruct (exitreq N s1) eqn:E3; [exact E3|].
        destruct (eval_term N (u_term N s1) (energy_history N C I A s1 c)) eqn:E4; [exact E4|].
        simpl. exists mi, mf. repeat split; auto.
  Qed.

  (* Step: the returned message is Terminated's verdict on the returned state *)
  Theorem step_message_is_true s c i :
    let r := step s c i in msg_true (fst (fst r)) (snd (fst r)) (snd r) \/
    (snd r = MNone /\ stepmon N (fst (bootstrap N C I A s c i)) = []).
  Proof.
    left. unfold Machine.step. cbv zeta.
    set (sc := bootstrap N C I A s c i).
    set (pre := match stepmon N (fst sc) with [] => (fst sc, MNone) | _ => terminated (fst sc) (snd sc) end).
    assert (Hpre : snd pre <> MNone -> msg_true (fst pre) (snd sc) (snd pre)).
    { subst pre. destruct (stepmon N (fst sc)); [intros H; now elim H|]. intros _. apply terminated_sound. }
    destruct (snd pre) eqn:Hm.
    - (* an iteration is performed: the message is Terminated's verdict on the final state *)
      match goal with |- context [Machine.terminated N C I A ?s0 ?c0] =>
        match goal with |- msg_true (fst (fst (fst (Machine.terminated N C I A ?s1 ?c1), _, _))) _ _ =>
          generalize s1; generalize c1 end end.
      intros c1 s1. cbn [fst snd]. apply terminated_sound.
    - cbn [fst snd]. apply Hpre. congruence.
    - cbn [fst snd]. apply Hpre. congruence.
    - cbn [fst snd]. apply Hpre. congruence.
  Qed.

  (* Step: when, after the initial evaluation, a limit is reached / the termination holds / an exit was requested,
     no iteration is begun: no evaluation, no step-monitor record, the algorithm state is only (re)decorated *)
  Theorem no_step_when_stopped s c i :
    let sc := bootstrap N C I A s c i in
    stepmon N (fst sc) <> [] ->
    snd (terminated (fst sc) (snd sc)) <> MNone ->
    step s c i = (fst (terminated (fst sc) (snd sc)), snd sc, snd (terminated (fst sc) (snd sc))).
  Proof.
    cbv zeta. intros Hsm Hm. unfold Machine.step. cbv zeta.
    destruct (stepmon N (fst (bootstrap N C I A s c i))) eqn:E; [congruence|].
    destruct (snd (terminated (fst (bootstrap N C I A s c i)) (snd (bootstrap N C I A s c i)))) eqn:E2; try congruence; reflexivity.
  Qed.

  Corollary no_evaluation_when_stopped s c i :
    let sc := bootstrap N C I A s c i in
    stepmon N (fst sc) <> [] -> snd (terminated (fst sc) (snd sc)) <> MNone ->
    calls N (fst (fst (step s c i))) = calls N s /\ stepmon N (fst (fst (step s c i))) = stepmon N s /\
    fcalls N (fst (fst (step s c i))) = fcalls N s.
  Proof.
    cbv zeta. intros Hsm Hm. rewrite (no_step_when_stopped s c i Hsm Hm). cbn [fst snd].
    unfold bootstrap. destruct (live N s); auto.
  Qed.

  (* an iteration is begun (after the initial evaluation) only below both limits, with no exit request and a false termination *)
  Theorem iteration_only_when_not_stopped s c i :
    let sc := bootstrap N C I A s c i in
    stepmon N (fst sc) <> [] ->
    calls N (fst (fst (step s c i))) <> calls N s \/ stepmon N (fst (fst (step s c i))) <> stepmon N s ->
    msg_true (fst (terminated (fst sc) (snd sc))) (snd sc) MNone.
  Proof.
    cbv zeta. intros Hsm Hchg.
    destruct (snd (terminated (fst (bootstrap N C I A s c i)) (snd (bootstrap N C I A s c i)))) eqn:Hm.
    - rewrite <- Hm. apply terminated_sound.
    - exfalso. assert (Hne : snd (terminated (fst (bootstrap N C I A s c i)) (snd (bootstrap N C I A s c i))) <> MNone) by congruence.
      destruct (no_evaluation_when_stopped s c i Hsm Hne) as (E1 & E2 & _). destruct Hchg; congruence.
    - exfalso. assert (Hne : snd (terminated (fst (bootstrap N C I A s c i)) (snd (bootstrap N C I A s c i))) <> MNone) by congruence.
      destruct (no_evaluation_when_stopped s c i Hsm Hne) as (E1 & E2 & _). destruct Hchg; congruence.
    - exfalso. assert (Hne : snd (terminated (fst (bootstrap N C I A s c i)) (snd (bootstrap N C I A s c i))) <> MNone) by congruence.
      destruct (no_evaluation_when_stopped s c i Hsm Hne) as (E1 & E2 & _). destruct Hchg; congruence.
  Qed.

  (* SetEvaluationLimits: limits given with new=True are added to the current counts, otherwise they bound the totals *)
  Theorem limits_total_vs_new s c g e new :
    let s' := set_evaluation_limits N C I A s c g e new in
    (forall n, g = Some n -> maxiter N s' = LAbs (if new then n + generations s c else n)) /\
    (forall n, e = Some n -> maxfun N s' = LAbs (if new then n + fcalls N s else n)) /\
    (g = None -> maxiter N s' = if new then LStar else LNone) /\
    (e = None -> maxfun N s' = if new then LStar else LNone).
  Proof.
    cbv zeta. unfold set_evaluation_limits. simpl.
    repeat split; intros; subst; reflexivity.
  Qed.

  (* "*" limits are resolved, at the next Terminated, to the default budget counted from the current counts *)
  Theorem star_limits_count_from_now s c :
    maxiter N s = LStar ->
    maxiter N (fst (terminated s c)) = LAbs (a_ndim N C I A c * a_npop N C I A c * a_iterscale N C I A + generations s c).
  Proof. intros H. unfold Machine.terminated, resolve_limits. cbn. rewrite H. reflexivity. Qed.

  (* Solve: the loop stops exactly when a Step reports a stop; with enough fuel the result is flagged as stopped *)
  Theorem solve_stops_on_message fuel s c is dflt :
    let r := solve N inf C I A fuel s c is dflt in
    snd r = true -> snd (fst r) <> MNone.
  Proof.
    cbv zeta. revert s c is. induction fuel as [|f IH]; intros s c is; simpl; [discriminate|].
    destruct (snd (step s c (hd dflt is))) eqn:Hm; simpl; try congruence.
    apply IH.
  Qed.
End Stop.

(* ---------- Solve always returns ---------- *)
Section SolveTerminates.
  Variable N : Num.
  Variable inf : T N.
  Notation sys := (sys N).
  Variables C I : Type.
  Variable A : algo N C I.

  Definition ehlen (s : sys) (c : C) : nat := length (energy_history N C I A s c).

  (* G: an invariant of the algorithm state (e.g. "the simplex is not empty"); V: well-formed oracle inputs *)
  Variable G : C -> Prop.
  Variable V : I -> Prop.
  (* every executed _Step makes the energy history at least one entry longer (true of both DE solvers: one record per generation)
     and keeps the invariant *)
  Hypothesis Hprogress : forall s c i, G c -> V i -> maxiter N s <> LAbs 0 ->
    let r := run_prog inf (a_nested N C I A) s (a_step N C I A s c i) in
    (S (ehlen s c) <= ehlen (set_stepmon N (fst r) (stepmon N (fst r) ++ snd (snd r))) (fst (snd r)))%nat /\ G (fst (snd r)).
  (* Finalize never shortens it, (re)decoration does not touch it *)
  Hypothesis Hfinal : forall s c, G c ->
    (ehlen s c <= ehlen (set_stepmon N s (stepmon N s ++ snd (a_finalize N C I A s c))) (fst (a_finalize N C I A s c)))%nat.
  Hypothesis Hdeco : forall s c i, a_ehist_extra N C I A (a_decorate N C I A s c i) = a_ehist_extra N C I A c.
  Hypothesis HdecoG : forall s c i, G c -> V i -> G (a_decorate N C I A s c i).
  Hypothesis HfinalG : forall s c, G c -> G (fst (a_finalize N C I A s c)).

  Lemma ehlen_frame s s' c : stepmon N s' = stepmon N s -> ehlen s' c = ehlen s c.
  Proof. unfold ehlen, energy_history. now intros ->. Qed.

  (* the limits, once absolute, are not changed by Step *)
  Definition abs_limits (mi mf : Z) (s : sys) : Prop := maxiter N s = LAbs mi /\ maxfun N s = LAbs mf.

  Lemma abs_terminated mi mf s c : abs_limits mi mf s -> abs_limits mi mf (fst (terminated N C I A s c)).
  Proof. intros [H1 H2]. unfold abs_limits, terminated, resolve_limits. cbn. rewrite H1, H2. auto. Qed.

  Lemma abs_objective mi mf nested s x : abs_limits mi mf s -> abs_limits mi mf (fst (objective N inf nested s x)).
  Proof.
    intros H. unfold objective. cbv zeta.
    destruct (outside N (box N s) _); destruct (energy_of N s _); exact H.
  Qed.

  Lemma abs_run_prog mi mf nested R (p : prog N R) : forall s,
    abs_limits mi mf s -> abs_limits mi mf (fst (run_prog inf nested s p)).
  Proof.
    induction p as [x|x k IH|x k IH]; intros s H; simpl; auto.
    apply IH. apply abs_objective. exact H.
  Qed.

  Lemma step_keeps_abs_limits s c i mi mf :
    abs_limits mi mf s -> abs_limits mi mf (fst (fst (step N inf C I A s c i))).
  Proof.
    intros H. unfold step. cbv zeta.
    set (sc := bootstrap N C I A s c i).
    assert (H1 : abs_limits mi mf (fst sc)).
    { subst sc. unfold bootstrap. destruct (live N s); [exact H|]. exact H. }
    set (pre := match stepmon N (fst sc) with [] => (fst sc, MNone) | _ => terminated N C I A (fst sc) (snd sc) end).
    assert (H2 : abs_limits mi mf (fst pre)).
    { subst pre. destruct (stepmon N (fst sc)); auto. apply abs_terminated; auto. }
    destruct (snd pre) eqn:Hm; try exact H2.
    set (r := run_prog inf (a_nested N C I A) (fst pre) (a_step N C I A (fst pre) (snd sc) i)).
    assert (H3 : abs_limits mi mf (fst r)) by (apply abs_run_prog; exact H2).
    set (s2' := set_fcalls N (fst r) (a_fix_counter N C I A (fst pre) (fst r) (fst (snd r)))).
    set (s3 := set_stepmon N s2' (stepmon N s2' ++ snd (snd r))).
    assert (H5 : abs_limits mi mf s3) by exact H3.
    set (s4 := if has_cb N s3 then set_cblog N s3 (cblog N s3 ++ [fst (a_best N C I A (fst (snd r)))]) else s3).
    assert (H6 : abs_limits mi mf s4) by (subst s4; destruct (has_cb N s3); exact H5).
    set (t1 := terminated N C I A s4 (fst (snd r))).
    assert (H7 : abs_limits mi mf (fst t1)) by (apply abs_terminated; exact H6).
    set (fc := match snd t1 with MNone => (fst t1, fst (snd r)) | _ => finalize N C I A (fst t1) (fst (snd r)) end).
    assert (H8 : abs_limits mi mf (fst fc)) by (subst fc; destruct (snd t1); exact H7).
    cbn [fst snd]. apply abs_terminated. exact H8.
  Qed.

  Lemma ehlen_finalize s c : G c -> (ehlen s c <= ehlen (fst (finalize N C I A s c)) (snd (finalize N C I A s c)))%nat.
  Proof.
    intros HGc. pose proof (Hfinal s c HGc) as H. unfold finalize. cbn [fst snd].
    unfold ehlen, energy_history in *. cbn [stepmon set_live set_stepmon] in *. exact H.
  Qed.

  (* a Step that reports no stop has made the energy history strictly longer (when it was non-empty before) or non-empty *)
  Lemma step_progress s c i mi mf : G c -> V i -> abs_limits mi mf s -> (0 < mi)%Z ->
    snd (step N inf C I A s c i) = MNone ->
    (S (ehlen s c) <= ehlen (fst (fst (step N inf C I A s c i))) (snd (fst (step N inf C I A s c i))))%nat /\
    G (snd (fst (step N inf C I A s c i))).
  Proof.
    intros HG HV Hl Hpos. unfold step. cbv zeta.
    set (sc := bootstrap N C I A s c i).
    set (pre := match stepmon N (fst sc) with [] => (fst sc, MNone) | _ => terminated N C I A (fst sc) (snd sc) end).
    assert (Hlpre : abs_limits mi mf (fst pre)).
    { assert (H1 : abs_limits mi mf (fst sc)) by (subst sc; unfold bootstrap; destruct (live N s); exact Hl).
      subst pre. destruct (stepmon N (fst sc)); auto. apply abs_terminated; auto. }
    assert (Hnz : maxiter N (fst pre) <> LAbs 0) by (destruct Hlpre as [E _]; rewrite E; intros K; injection K; lia).
    destruct (snd pre) eqn:Hm; [|intros H; discriminate H..].
    set (r := run_prog inf (a_nested N C I A) (fst pre) (a_step N C I A (fst pre) (snd sc) i)).
    set (s2' := set_fcalls N (fst r) (a_fix_counter N C I A (fst pre) (fst r) (fst (snd r)))).
    set (s3 := set_stepmon N s2' (stepmon N s2' ++ snd (snd r))).
    set (s4 := if has_cb N s3 then set_cblog N s3 (cblog N s3 ++ [fst (a_best N C I A (fst (snd r)))]) else s3).
    set (t1 := terminated N C I A s4 (fst (snd r))).
    set (fc := match snd t1 with MNone => (fst t1, fst (snd r)) | _ => finalize N C I A (fst t1) (fst (snd r)) end).
    intros Hfc. cbn [fst snd].
    assert (E1 : ehlen (fst sc) (snd sc) = ehlen s c).
    { subst sc. unfold bootstrap. destruct (live N s); [reflexivity|]. cbn [fst snd].
      destruct (box N s); [|reflexivity]. unfold ehlen, energy_history. cbn [stepmon set_live]. now rewrite Hdeco. }
    assert (G1 : G (snd sc)).
    { subst sc. unfold bootstrap. destruct (live N s); [exact HG|]. cbn [snd]. destruct (box N s); [apply HdecoG; assumption|exact HG]. }
    assert (E2 : ehlen (fst pre) (snd sc) = ehlen s c).
    { subst pre. destruct (stepmon N (fst sc)); [exact E1|]. rewrite <- E1. apply ehlen_frame. reflexivity. }
    destruct (Hprogress (fst pre) (snd sc) i G1 HV Hnz) as [P PG]. cbv zeta in P, PG. fold r in P, PG. rewrite E2 in P.
    assert (P3 : (S (ehlen s c) <= ehlen s3 (fst (snd r)))%nat).
    { replace (ehlen s3 (fst (snd r))) with (ehlen (set_stepmon N (fst r) (stepmon N (fst r) ++ snd (snd r))) (fst (snd r))); [exact P|].
      apply ehlen_frame. reflexivity. }
    assert (P4 : (S (ehlen s c) <= ehlen s4 (fst (snd r)))%nat).
    { replace (ehlen s4 (fst (snd r))) with (ehlen s3 (fst (snd r))); [exact P3|].
      symmetry. apply ehlen_frame. subst s4. destruct (has_cb N s3); reflexivity. }
    assert (P5 : (S (ehlen s c) <= ehlen (fst t1) (fst (snd r)))%nat).
    { replace (ehlen (fst t1) (fst (snd r))) with (ehlen s4 (fst (snd r))); [exact P4|].
      symmetry. apply ehlen_frame. reflexivity. }
    assert (P6 : (S (ehlen s c) <= ehlen (fst fc) (snd fc))%nat).
    { subst fc. destruct (snd t1); try exact P5;
        (eapply Nat.le_trans; [exact P5|apply ehlen_finalize; exact PG]). }
    split.
    - replace (ehlen (fst (terminated N C I A (fst fc) (snd fc))) (snd fc)) with (ehlen (fst fc) (snd fc)); [exact P6|].
      symmetry. apply ehlen_frame. reflexivity.
    - subst fc. destruct (snd t1); try exact PG; unfold finalize; cbn [fst snd]; apply HfinalG; exact PG.
  Qed.

  (* Terminated reports a stop as soon as the generation limit is reached *)
  Lemma terminated_at_generation_limit s c mi mf :
    abs_limits mi mf s -> (mi <= generations N C I A s c)%Z -> snd (terminated N C I A s c) <> MNone.
  Proof.
    intros [Hi Hf] Hg. unfold terminated. cbv zeta. cbn [snd].
    assert (Er : resolve_limits N C I A s c = set_limits N s (LAbs mi) (LAbs mf)).
    { unfold resolve_limits. rewrite Hi, Hf. reflexivity. }
    rewrite Er. cbn [maxfun maxiter set_limits].
    destruct (Z.leb mf (fcalls N (set_limits N s (LAbs mi) (LAbs mf)))); [discriminate|].
    replace (generations N C I A (set_limits N s (LAbs mi) (LAbs mf)) c) with (generations N C I A s c) by reflexivity.
    apply Z.leb_le in Hg. rewrite Hg. discriminate.
  Qed.

  (* a Step on a state with absolute limits reports a stop as soon as the history is longer than the generation limit *)
  Lemma step_stops_beyond_limit s c i mi mf :
    abs_limits mi mf s -> (mi < Z.of_nat (ehlen s c))%Z -> stepmon N s <> [] ->
    snd (step N inf C I A s c i) <> MNone.
  Proof.
    intros Hl Hlen Hsm.
    set (sc := bootstrap N C I A s c i).
    assert (Es : stepmon N (fst sc) = stepmon N s) by (subst sc; unfold bootstrap; destruct (live N s); reflexivity).
    assert (Ee : a_ehist_extra N C I A (snd sc) = a_ehist_extra N C I A c).
    { subst sc. unfold bootstrap. destruct (live N s); [reflexivity|]. cbn [snd]. destruct (box N s); [apply Hdeco|reflexivity]. }
    assert (Hl' : abs_limits mi mf (fst sc)) by (subst sc; unfold bootstrap; destruct (live N s); exact Hl).
    assert (Hg : (mi <= generations N C I A (fst sc) (snd sc))%Z).
    { unfold generations, energy_history. rewrite Es, Ee. unfold ehlen, energy_history in Hlen. lia. }
    pose proof (terminated_at_generation_limit (fst sc) (snd sc) mi mf Hl' Hg) as Hstop.
    assert (Hsm' : stepmon N (fst sc) <> []) by (rewrite Es; exact Hsm).
    rewrite (no_step_when_stopped N inf C I A s c i Hsm' Hstop). cbn [snd]. exact Hstop.
  Qed.

  Hypothesis Hextra : forall c, G c -> (length (a_ehist_extra N C I A c) <= 1)%nat.

  (* with a generation limit of 0 the very first Step reports the stop *)
  Lemma step_stops_at_zero_limit s c i mf : abs_limits 0 mf s -> snd (step N inf C I A s c i) <> MNone.
  Proof.
    intros Hl. unfold step. cbv zeta.
    set (sc := bootstrap N C I A s c i).
    assert (H1 : abs_limits 0 mf (fst sc)) by (subst sc; unfold bootstrap; destruct (live N s); exact Hl).
    assert (Hany : forall s0 c0, abs_limits 0 mf s0 -> snd (terminated N C I A s0 c0) <> MNone).
    { intros s0 c0 H0. apply (terminated_at_generation_limit s0 c0 0 mf H0). unfold generations. lia. }
    set (pre := match stepmon N (fst sc) with [] => (fst sc, MNone) | _ => terminated N C I A (fst sc) (snd sc) end).
    assert (H2 : abs_limits 0 mf (fst pre)).
    { subst pre. destruct (stepmon N (fst sc)); auto. apply abs_terminated; auto. }
    destruct (snd pre) eqn:Hm; cbn [snd]; try discriminate.
    set (r := run_prog inf (a_nested N C I A) (fst pre) (a_step N C I A (fst pre) (snd sc) i)).
    assert (H3 : abs_limits 0 mf (fst r)) by (apply abs_run_prog; exact H2).
    set (s2' := set_fcalls N (fst r) (a_fix_counter N C I A (fst pre) (fst r) (fst (snd r)))).
    set (s3 := set_stepmon N s2' (stepmon N s2' ++ snd (snd r))).
    assert (H5 : abs_limits 0 mf s3) by exact H3.
    set (s4 := if has_cb N s3 then set_cblog N s3 (cblog N s3 ++ [fst (a_best N C I A (fst (snd r)))]) else s3).
    assert (H6 : abs_limits 0 mf s4) by (subst s4; destruct (has_cb N s3); exact H5).
    set (t1 := terminated N C I A s4 (fst (snd r))).
    assert (H7 : abs_limits 0 mf (fst t1)) by (apply abs_terminated; exact H6).
    set (fc := match snd t1 with MNone => (fst t1, fst (snd r)) | _ => finalize N C I A (fst t1) (fst (snd r)) end).
    assert (H8 : abs_limits 0 mf (fst fc)) by (subst fc; destruct (snd t1); exact H7).
    apply Hany. exact H8.
  Qed.

  Local Opaque step.
  (* Solve always returns: with absolute limits (they are absolute after the first Terminated) a fuel of
     (generation limit + 3 - length of the energy history) Steps is enough for the loop to stop by itself *)
  Theorem solve_terminates_zero : forall f s c is dflt mf,
    abs_limits 0 mf s -> snd (solve N inf C I A (S f) s c is dflt) = true.
  Proof.
    intros f s c is dflt mf Hl.
    change (solve N inf C I A (S f) s c is dflt) with
      (let r := step N inf C I A s c (hd dflt is) in
       match snd r with
       | MNone => solve N inf C I A f (fst (fst r)) (snd (fst r)) (tl is) dflt
       | m => (fst (fst r), snd (fst r), m, true)
       end).
    cbv zeta. pose proof (step_stops_at_zero_limit s c (hd dflt is) mf Hl) as Hs.
    destruct (snd (step N inf C I A s c (hd dflt is))); cbn [snd]; try reflexivity. congruence.
  Qed.

  Theorem solve_terminates : forall f s c is dflt mi mf,
    G c -> Forall V is -> V dflt ->
    abs_limits mi mf s -> (0 < mi)%Z ->
    (Z.to_nat (mi + 3) <= S f + ehlen s c)%nat ->
    snd (solve N inf C I A (S f) s c is dflt) = true.
  Proof.
    induction f as [|f IH]; intros s c is dflt mi mf HG His Hd Hl Hmi Hfuel.
    - cbn [solve]. destruct (snd (step N inf C I A s c (hd dflt is))) eqn:Hm; cbn [snd]; try reflexivity.
      exfalso.
      assert (Hlen : (mi < Z.of_nat (ehlen s c))%Z).
      { assert (Hz : (mi + 3 <= Z.of_nat (1 + ehlen s c))%Z).
        { rewrite <- (Z2Nat.id (mi + 3)) by lia. apply Nat2Z.inj_le. exact Hfuel. }
        rewrite Nat2Z.inj_add in Hz. change (Z.of_nat 1) with 1%Z in Hz. lia. }
      assert (Hsm : stepmon N s <> []).
      { intros E.
        assert (H3 : (3 <= Z.to_nat (mi + 3))%nat) by (apply (Z2Nat.inj_le 3 (mi + 3)); lia).
        assert (He : ehlen s c = length (a_ehist_extra N C I A c)).
        { unfold ehlen, energy_history. rewrite E. reflexivity. }
        pose proof (Hextra c HG) as H1. rewrite He in Hfuel.
        generalize dependent (Z.to_nat (mi + 3)). intros n Hn H3. lia. }
      exact (step_stops_beyond_limit s c (hd dflt is) mi mf Hl Hlen Hsm Hm).
    - change (solve N inf C I A (S (S f)) s c is dflt) with
        (let r := step N inf C I A s c (hd dflt is) in
         match snd r with
         | MNone => solve N inf C I A (S f) (fst (fst r)) (snd (fst r)) (tl is) dflt
         | m => (fst (fst r), snd (fst r), m, true)
         end).
      cbv zeta.
      destruct (snd (step N inf C I A s c (hd dflt is))) eqn:Hm; cbn [snd]; try reflexivity.
      assert (Hi : V (hd dflt is)) by (destruct is; simpl; auto; inversion His; auto).
      destruct (step_progress s c (hd dflt is) mi mf HG Hi Hl Hmi Hm) as [Hp HG'].
      apply (IH _ _ _ _ mi mf).
      + exact HG'.
      + destruct is; simpl; auto. inversion His; auto.
      + exact Hd.
      + apply step_keeps_abs_limits. exact Hl.
      + exact Hmi.
      +
        set (n' := ehlen (fst (fst (step N inf C I A s c (hd dflt is)))) (snd (fst (step N inf C I A s c (hd dflt is))))) in *.
        set (n0 := ehlen s c) in *. set (n := Z.to_nat (mi + 3)) in *.
        clearbody n' n0 n. clear -Hp Hfuel. lia.
  Qed.
  Local Transparent step.
End SolveTerminates.
