(* C05 - stopping discipline of abstract_solver.Step / Terminated / SetEvaluationLimits, for every algorithm. *)
From Coq Require Import List ZArith Bool Lia.
From MV Require Import Common.Num Core.Machine.
Import ListNotations.
Open Scope Z_scope.

Section Stop.
  Variable N : Num.
  Variable inf : T N.
  Notation sys := (sys N).
  Variables C I : Type.
  Variable A : algo N C I.

  Notation terminated := (terminated N C I A).
  Notation generations := (generations N C I A).
  Notation step := (step N inf C I A).

  (* after Terminated, both limits are absolute numbers *)
  Lemma resolved_abs s c :
    exists mi mf, maxiter N (resolve_limits N C I A s c) = LAbs mi /\ maxfun N (resolve_limits N C I A s c) = LAbs mf.
  Proof.
    unfold resolve_limits. simpl. destruct (maxiter N s), (maxfun N s); eauto.
  Qed.

  Lemma terminated_state s c : fst (terminated s c) = resolve_limits N C I A s c.
  Proof. reflexivity. Qed.

  (* what each stop message means, in terms of the state Terminated returns *)
  Definition msg_true (s : sys) (c : C) (m : stopmsg) : Prop :=
    match m with
    | MLimits => exists mi mf, maxiter N s = LAbs mi /\ maxfun N s = LAbs mf /\ (mf <= fcalls N s \/ mi <= generations s c)
    | MInterrupt => exitreq N s = true
    | MTerm => eval_term N (u_term N s) (energy_history N C I A s c) = true
    | MNone => exists mi mf, maxiter N s = LAbs mi /\ maxfun N s = LAbs mf /\ fcalls N s < mf /\ generations s c < mi /\
               exitreq N s = false /\ eval_term N (u_term N s) (energy_history N C I A s c) = false
    end.

  Theorem terminated_sound s c : msg_true (fst (terminated s c)) c (snd (terminated s c)).
  Proof.
    unfold Machine.terminated. cbv zeta. cbn [fst snd].
    destruct (resolved_abs s c) as (mi & mf & Hi & Hf).
    set (s1 := resolve_limits N C I A s c) in *.
    rewrite Hf, Hi.
    destruct (Z.leb mf (fcalls N s1)) eqn:E1.
    - simpl. exists mi, mf. repeat split; auto. left. now apply Z.leb_le.
    - destruct (Z.leb mi (generations s1 c)) eqn:E2.
      + simpl. exists mi, mf. repeat split; auto. right. now apply Z.leb_le.
      + apply Z.leb_gt in E1, E2.
        destruct (exitreq N s1) eqn:E3; [exact E3|].
        destruct (eval_term N (u_term N s1) (energy_history N C I A s1 c)) eqn:E4; [exact E4|].
        simpl. exists mi, mf. repeat split; auto.
  Qed.

  (* Step: the returned message is Terminated's verdict on the returned state *)
  Theorem step_message_is_true s c i :
    let r := step s c i in msg_true (fst (fst r)) (snd (fst r)) (snd r) \/
    (snd r = MNone /\ stepmon N (fst (bootstrap N C I A s c i)) = []).
  Proof.
    unfold Machine.step. cbv zeta.
    set (sc := bootstrap N C I A s c i).
    destruct (stepmon N (fst sc)) eqn:Hsm.
    - (* generation 0 is always performed *)
      cbn [fst snd]. left. apply terminated_sound.
    - set (pre := terminated (fst sc) (snd sc)).
      destruct (snd pre) eqn:Hm; cbn [fst snd].
      + left. apply terminated_sound.
      + left. rewrite <- Hm. apply terminated_sound.
      + left. rewrite <- Hm. apply terminated_sound.
      + left. rewrite <- Hm. apply terminated_sound.
  Qed.

  (* Step: when, after the initial evaluation, a limit is reached / the termination holds / an exit was requested,
     no iteration is begun: no evaluation, no step-monitor record, the algorithm state is only (re)decorated *)
  Theorem no_step_when_stopped s c i :
    let sc := bootstrap N C I A s c i in
    stepmon N (fst sc) <> [] ->
    snd (terminated (fst sc) (snd sc)) <> MNone ->
    step s c i = (fst (terminated (fst sc) (snd sc)), snd sc, snd (terminated (fst sc) (snd sc))).
  Proof.
    cbv zeta. intros Hsm Hm. unfold Machine.step. cbv zeta.
    destruct (stepmon N (fst (bootstrap N C I A s c i))) eqn:E; [congruence|].
    destruct (snd (terminated (fst (bootstrap N C I A s c i)) (snd (bootstrap N C I A s c i)))) eqn:E2; try congruence; reflexivity.
  Qed.

  Corollary no_evaluation_when_stopped s c i :
    let sc := bootstrap N C I A s c i in
    stepmon N (fst sc) <> [] -> snd (terminated (fst sc) (snd sc)) <> MNone ->
    calls N (fst (fst (step s c i))) = calls N s /\ stepmon N (fst (fst (step s c i))) = stepmon N s /\
    fcalls N (fst (fst (step s c i))) = fcalls N s.
  Proof.
    cbv zeta. intros Hsm Hm. rewrite (no_step_when_stopped s c i Hsm Hm). cbn [fst snd].
    unfold bootstrap. destruct (live N s); auto.
  Qed.

  (* an iteration is begun (after the initial evaluation) only below both limits, with no exit request and a false termination *)
  Theorem iteration_only_when_not_stopped s c i :
    let sc := bootstrap N C I A s c i in
    stepmon N (fst sc) <> [] ->
    calls N (fst (fst (step s c i))) <> calls N s \/ stepmon N (fst (fst (step s c i))) <> stepmon N s ->
    msg_true (fst (terminated (fst sc) (snd sc))) (snd sc) MNone.
  Proof.
    cbv zeta. intros Hsm Hchg.
    destruct (snd (terminated (fst (bootstrap N C I A s c i)) (snd (bootstrap N C I A s c i)))) eqn:Hm.
    - rewrite <- Hm. apply terminated_sound.
    - exfalso. assert (Hne : snd (terminated (fst (bootstrap N C I A s c i)) (snd (bootstrap N C I A s c i))) <> MNone) by congruence.
      destruct (no_evaluation_when_stopped s c i Hsm Hne) as (E1 & E2 & _). destruct Hchg; congruence.
    - exfalso. assert (Hne : snd (terminated (fst (bootstrap N C I A s c i)) (snd (bootstrap N C I A s c i))) <> MNone) by congruence.
      destruct (no_evaluation_when_stopped s c i Hsm Hne) as (E1 & E2 & _). destruct Hchg; congruence.
    - exfalso. assert (Hne : snd (terminated (fst (bootstrap N C I A s c i)) (snd (bootstrap N C I A s c i))) <> MNone) by congruence.
      destruct (no_evaluation_when_stopped s c i Hsm Hne) as (E1 & E2 & _). destruct Hchg; congruence.
  Qed.

  (* SetEvaluationLimits: limits given with new=True are added to the current counts, otherwise they bound the totals *)
  Theorem limits_total_vs_new s c g e new :
    let s' := set_evaluation_limits N C I A s c g e new in
    (forall n, g = Some n -> maxiter N s' = LAbs (if new then n + generations s c else n)) /\
    (forall n, e = Some n -> maxfun N s' = LAbs (if new then n + fcalls N s else n)) /\
    (g = None -> maxiter N s' = if new then LStar else LNone) /\
    (e = None -> maxfun N s' = if new then LStar else LNone).
  Proof.
    cbv zeta. unfold set_evaluation_limits. simpl.
    repeat split; intros; subst; reflexivity.
  Qed.

  (* "*" limits are resolved, at the next Terminated, to the default budget counted from the current counts *)
  Theorem star_limits_count_from_now s c :
    maxiter N s = LStar ->
    maxiter N (fst (terminated s c)) = LAbs (a_ndim N C I A c * a_npop N C I A c * a_iterscale N C I A + generations s c).
  Proof. intros H. unfold Machine.terminated, resolve_limits. cbn. rewrite H. reflexivity. Qed.

  (* Solve: the loop stops exactly when a Step reports a stop; with enough fuel the result is flagged as stopped *)
  Theorem solve_stops_on_message fuel s c is dflt :
    let r := solve N inf C I A fuel s c is dflt in
    snd r = true -> snd (fst r) <> MNone.
  Proof.
    cbv zeta. revert s c is. induction fuel as [|f IH]; intros s c is; simpl; [discriminate|].
    destruct (snd (step s c (hd dflt is))) eqn:Hm; simpl; try congruence.
    apply IH.
  Qed.
End Stop.
