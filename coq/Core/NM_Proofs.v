(* C01 / C03 / C04 for the Nelder-Mead solver: for every cost, penalty, idempotent constraints function, every stream of
   candidate points (i.e. whatever the reflection / expansion / contraction / shrink arithmetic produces), every argsort
   answer and every number of iterations:
   - every vertex energy is the energy a real call returned at the constrained vertex (or a top value: never evaluated,
     outside the box), so is the reported best;
   - the reported best satisfies the constraints (it is a fixed point of the constraints function);
   - the last step-monitor record is the reported best. *)
From Coq Require Import List ZArith Bool Lia.
From MV Require Import Common.Num Common.Order Core.Machine Core.Machine_Proofs Core.Stop_Proofs Core.DE_Proofs Core.NM.
Import ListNotations.
Open Scope Z_scope.

Section NMProofs.
  Variable N : Num.
  Variable inf : T N.
  Notation E := (T N).
  Notation vec := (vec N).
  Notation sys := (sys N).
  Notation nm := (nm N).

  Hypothesis Htop : forall p, is_top N (add N inf p).
  Hypothesis Hinf : is_top N inf.
  (* the constraints function in force during the run, idempotent *)
  Variable cons0 : vec -> vec.
  Hypothesis Hidem : forall x, cons0 (cons0 x) = cons0 x.

  (* the energy stored with x is what a real call returned at constraints(x) - or a top value *)
  Definition evald (s : sys) (p : vec * E) : Prop :=
    is_top N (snd p) \/ In (cons0 (fst p), snd p) (epairs N s).

  (* running a program: the call log only grows, constraints and step monitor are untouched *)
  Definition ext (s s' : sys) : Prop :=
    incl (epairs N s) (epairs N s') /\ u_cons N s' = u_cons N s /\ stepmon N s' = stepmon N s.

  Lemma ext_refl s : ext s s.
  Proof. repeat split. apply incl_refl. Qed.
  Lemma ext_trans s1 s2 s3 : ext s1 s2 -> ext s2 s3 -> ext s1 s3.
  Proof. intros (A1 & B1 & C1) (A2 & B2 & C2). repeat split; [eapply incl_tran; eauto|congruence|congruence]. Qed.

  Lemma evald_ext s s' p : ext s s' -> evald s p -> evald s' p.
  Proof. intros (Hi & _) [H|H]; [left; exact H|right; apply Hi; exact H]. Qed.
  Lemma evald_all_ext s s' l : ext s s' -> Forall (evald s) l -> Forall (evald s') l.
  Proof. intros He H. eapply Forall_impl; [|exact H]. intros p. apply evald_ext. exact He. Qed.

  Lemma objective_true_evald s x : u_cons N s = cons0 ->
    let r := objective N inf true s x in ext s (fst r) /\ evald (fst r) (x, snd r).
  Proof.
    intros Hc. cbv zeta.
    destruct (objective_cfg N inf true s x) as (_ & Hcons & _ & _ & _ & Hsm). cbv zeta in Hcons, Hsm.
    destruct (objective_core N inf true s x) as [Hcore|(c & y & e & Ho & Hce & Hcalls & _ & _ & _ & He)].
    - apply core_eq in Hcore as (E1 & _). split.
      + unfold ext, epairs. rewrite E1. repeat split; auto. apply incl_refl.
      + left. cbn [snd].
        unfold objective in *. cbv zeta in *.
        destruct (outside N (box N s) (u_cons N s x)) eqn:Ho.
        * simpl. apply Htop.
        * exfalso. revert E1.
          destruct (energy_of N s (yadd N (u_raw N s (u_cons N s x)) (u_pen N s (u_cons N s x)))); simpl;
            intros E1; apply (f_equal (@length _)) in E1; rewrite app_length in E1; simpl in E1; lia.
    - assert (Ep : epairs N (fst (objective N inf true s x)) = epairs N s ++ [(cons0 x, e)]).
      { unfold epairs. rewrite Hcalls, map_app. simpl. subst c. now rewrite Hc. }
      split.
      + unfold ext. rewrite Ep. repeat split; auto. apply incl_appl, incl_refl.
      + right. cbn [fst snd]. rewrite He, Ep. apply in_or_app. right. left. reflexivity.
  Qed.

  Lemma bind_run_t R R' (p : prog N R) (f : R -> prog N R') : forall s0,
    run_prog inf true s0 (bind p f) =
    run_prog inf true (fst (run_prog inf true s0 p)) (f (snd (run_prog inf true s0 p))).
  Proof. induction p as [r|x k IHp|x k IHp]; intros s0; simpl; auto. Qed.

  Lemma eval_all_ok : forall xs s, u_cons N s = cons0 ->
    let r := run_prog inf true s (eval_all N xs) in ext s (fst r) /\ Forall (evald (fst r)) (snd r).
  Proof.
    induction xs as [|x xs IH]; intros s Hc; cbv zeta.
    - simpl. split; [apply ext_refl|constructor].
    - cbn [eval_all run_prog].
      destruct (objective_true_evald s x Hc) as [He Hx]. cbv zeta in He, Hx.
      set (s1 := fst (objective N inf true s x)) in *. set (e := snd (objective N inf true s x)) in *.
      rewrite bind_run_t. cbn [run_prog fst snd].
      assert (Hc1 : u_cons N s1 = cons0) by (destruct He as (_ & Hu & _); congruence).
      destruct (IH s1 Hc1) as [He2 Hl]. cbv zeta in He2, Hl.
      split; [eapply ext_trans; eauto|].
      constructor; [eapply evald_ext; eauto|exact Hl].
  Qed.

  Lemma evalc_all_ok ip : forall xs s, u_cons N s = cons0 ->
    let r := run_prog inf true s (evalc_all N ip xs) in ext s (fst r) /\ Forall (evald (fst r)) (snd r).
  Proof.
    induction xs as [|x xs IH]; intros s Hc; cbv zeta.
    - simpl. split; [apply ext_refl|constructor].
    - cbn [evalc_all run_prog].
      destruct (objective_true_evald s x Hc) as [He Hx]. cbv zeta in He, Hx.
      set (s1 := fst (objective N inf true s x)) in *. set (e := snd (objective N inf true s x)) in *.
      assert (Hc1 : u_cons N s1 = cons0) by (destruct He as (_ & Hu & _); congruence).
      destruct (IH s1 Hc1) as [He2 Hl]. cbv zeta in He2, Hl.
      destruct ip; cbn [run_prog]; rewrite bind_run_t; cbn [run_prog fst snd].
      + split; [eapply ext_trans; eauto|].
        constructor; [|exact Hl]. eapply evald_ext; [exact He2|].
        rewrite Hc1. destruct Hx as [Ht|Hin]; [left; exact Ht|right]. cbn [fst snd] in *. rewrite Hidem. exact Hin.
      + split; [eapply ext_trans; eauto|].
        constructor; [eapply evald_ext; eauto|exact Hl].
  Qed.

  (* ---- the solver-level invariant ---- *)
  Definition good0 (s : sys) (c : nm) : Prop :=
    Forall (evald s) (combine (sim N c) (fsim N c)) /\ length (sim N c) = length (fsim N c).
  (* vertex 0 (the reported best) satisfies the constraints *)
  Definition fixed0 (c : nm) : Prop := match sim N c with [] => True | x0 :: _ => cons0 x0 = x0 end.
  Definition good (s : sys) (c : nm) : Prop :=
    Forall (evald s) (combine (sim N c) (fsim N c)) /\ length (sim N c) = length (fsim N c) /\ fixed0 c.

  Definition recs_ok (c : nm) (recs : list (vec * E)) : Prop :=
    (sim N c = [] /\ recs = []) \/ recs = [nm_best N inf c].

  Definition Post (s0 : sys) (r : sys * (nm * list (vec * E))) : Prop :=
    ext s0 (fst r) /\ good (fst r) (fst (snd r)) /\ recs_ok (fst (snd r)) (snd (snd r)).

  Lemma apply_perm_evald s p l : Forall (evald s) l -> Forall (evald s) (apply_perm N inf p l).
  Proof.
    intros H. unfold apply_perm. apply Forall_forall. intros q Hq. apply in_map_iff in Hq as (i & <- & _).
    destruct (Nat.lt_ge_cases i (length l)) as [Hlt|Hge].
    - rewrite Forall_forall in H. apply H. apply nth_In. exact Hlt.
    - rewrite nth_overflow by exact Hge. left. exact Hinf.
  Qed.

  Lemma insert_in (a q : vec * E) : forall l, In q (insert_e N a l) <-> q = a \/ In q l.
  Proof.
    induction l as [|b r IH]; simpl; [intuition congruence|].
    destruct (ltb N (snd b) (snd a)); simpl; [rewrite IH|]; intuition congruence.
  Qed.
  Lemma isort_in (q : vec * E) : forall l, In q (isort N l) <-> In q l.
  Proof.
    induction l as [|a l IH]; simpl; [tauto|]. rewrite insert_in, IH. intuition congruence.
  Qed.
  Lemma insert_length (a : vec * E) : forall l, length (insert_e N a l) = S (length l).
  Proof. induction l as [|b r IH]; simpl; auto. destruct (ltb N (snd b) (snd a)); simpl; auto. Qed.
  Lemma isort_length : forall l, length (isort N l) = length l.
  Proof. induction l as [|a l IH]; simpl; auto. now rewrite insert_length, IH. Qed.

  Lemma finish_post s0 s p l : ext s0 s -> u_cons N s = cons0 -> Forall (evald s) l ->
    Post s0 (run_prog inf true s (finish N inf p l)).
  Proof.
    intros He Hc Hl. unfold finish.
    set (sl := if valid_perm N inf p l then apply_perm N inf p l else isort N l).
    assert (Hsl : Forall (evald s) sl).
    { subst sl. destruct (valid_perm N inf p l); [apply apply_perm_evald; exact Hl|].
      apply Forall_forall. intros q Hq. apply (proj1 (isort_in q l)) in Hq. exact (proj1 (Forall_forall _ _) Hl q Hq). }
    destruct sl as [|[x0 f0] r].
    - cbn [run_prog]. split; [exact He|split; [split; [|split]|]]; cbn [fst snd sim fsim combine].
      + constructor.
      + reflexivity.
      + exact Logic.I.
      + left. split; reflexivity.
    - cbn [run_prog fst snd]. rewrite Hc.
      inversion Hsl as [|? ? H0 Hr]; subst.
      split; [exact He|split; [split; [|split]|]]; cbn [fst snd sim fsim map].
      + cbn [combine]. rewrite combine_map_fst_snd. constructor; [|exact Hr].
        destruct H0 as [Ht|Hin]; [left; exact Ht|right]. cbn [fst snd] in *. rewrite Hidem. exact Hin.
      + cbn [length]. now rewrite !map_length.
      + unfold fixed0. cbn [sim map fst]. apply Hidem.
      + right. reflexivity.
  Qed.

  (* continuation-passing rule for one candidate evaluation *)
  Lemma evalc_spec s0 s ip x k : ext s0 s -> u_cons N s = cons0 ->
    (forall s1 x' e, ext s s1 -> u_cons N s1 = cons0 -> evald s1 (x', e) -> Post s0 (run_prog inf true s1 (k x' e))) ->
    Post s0 (run_prog inf true s (evalc N ip x k)).
  Proof.
    intros He Hc Hk. unfold evalc. cbn [run_prog].
    destruct (objective_true_evald s x Hc) as [He1 Hx]. cbv zeta in He1, Hx.
    set (s1 := fst (objective N inf true s x)) in *. set (e := snd (objective N inf true s x)) in *.
    assert (Hc1 : u_cons N s1 = cons0) by (destruct He1 as (_ & Hu & _); congruence).
    destruct ip; cbn [run_prog].
    - apply Hk; auto. rewrite Hc1.
      destruct Hx as [Ht|Hin]; [left; exact Ht|right]. cbn [fst snd] in *. rewrite Hidem. exact Hin.
    - apply Hk; auto.
  Qed.

  Lemma Forall_removelast {X} (Q : X -> Prop) (l : list X) : Forall Q l -> Forall Q (removelast l).
  Proof.
    induction l as [|a l IH]; intros H; simpl; auto.
    inversion H; subst. destruct l; [constructor|]. constructor; auto.
  Qed.
  Lemma Forall_replace_last (Q : vec * E -> Prop) l p : Forall Q l -> Q p -> Forall Q (replace_last N l p).
  Proof. intros Hl Hp. unfold replace_last. apply Forall_app. split; [apply Forall_removelast; exact Hl|constructor; auto]. Qed.

  Lemma combine_nil_length {X Y} (a : list X) (b : list Y) : length a = length b -> combine a b = [] -> a = [].
  Proof. destruct a, b; simpl; intros; try discriminate; auto. Qed.

  (* one _Step *)
  Lemma nm_step_post s c i : u_cons N s = cons0 -> good0 s c ->
    Post s (run_prog inf true s (nm_step N inf s c i)).
  Proof.
    intros Hc (Hall & Hlen). unfold nm_step. cbv zeta.
    destruct (stepmon N s) as [|sm0 smr] eqn:Hsm.
    - (* generation 0 *)
      cbn [run_prog]. rewrite Hc.
      set (x0c := cons0 (hd [] (sim N c))).
      destruct (objective_true_evald s x0c Hc) as [He Hx]. cbv zeta in He, Hx.
      set (s1 := fst (objective N inf true s x0c)) in *. set (e := snd (objective N inf true s x0c)) in *.
      split; [exact He|split; [split; [|split]|]]; cbn [fst snd sim fsim].
      + cbn [combine]. constructor; [exact Hx|].
        apply Forall_forall. intros [qx qe] Hq. apply in_combine_r in Hq. apply repeat_spec in Hq. left. cbn [snd]. rewrite Hq. exact Hinf.
      + cbn [length]. now rewrite !repeat_length.
      + unfold fixed0. cbn [sim]. subst x0c. apply Hidem.
      + right. reflexivity.
    - destruct (Nat.pred (length (sm0 :: smr))) eqn:Hg.
      + (* generation 1: populate the simplex *)
        rewrite bind_run_t.
        destruct (eval_all_ok (firstn (length (hd [] (sim N c))) (cands N i)) s Hc) as [He Hl]. cbv zeta in He, Hl.
        set (r1 := run_prog inf true s (eval_all N (firstn (length (hd [] (sim N c))) (cands N i)))) in *.
        assert (Hc1 : u_cons N (fst r1) = cons0) by (destruct He as (_ & Hu & _); congruence).
        apply finish_post; auto.
        constructor; [|exact Hl].
        (* vertex 0 with its stored energy *)
        destruct (sim N c) as [|x0 sr] eqn:Es; destruct (fsim N c) as [|f0 fr] eqn:Ef; cbn [hd]; try (left; exact Hinf).
        * simpl in Hlen. discriminate.
        * cbn [combine] in Hall. inversion Hall; subst. eapply evald_ext; eauto.
      + (* later generations *)
        destruct (combine (sim N c) (fsim N c)) as [|[x0 f0] rest] eqn:El.
        * cbn [run_prog]. assert (Enil : sim N c = []) by (eapply combine_nil_length; eauto).
          split; [apply ext_refl|split; [split; [|split]|]]; cbn [fst snd].
          -- rewrite El. constructor.
          -- exact Hlen.
          -- unfold fixed0. rewrite Enil. exact Logic.I.
          -- left. split; [exact Enil|reflexivity].
        * cbn [run_prog]. rewrite Hc.
          inversion Hall as [|? ? H0 Hrest]; subst.
          set (x0c := cons0 x0).
          assert (Hl0 : Forall (evald s) ((x0c, f0) :: rest)).
          { constructor; [|exact Hrest]. destruct H0 as [Ht|Hin]; [left; exact Ht|right]. subst x0c. cbn [fst snd] in *. rewrite Hidem. exact Hin. }
          set (l0 := (x0c, f0) :: rest) in *.
          assert (Hshrink : forall s1, ext s s1 -> u_cons N s1 = cons0 ->
                    Post s (run_prog inf true s1
                      (bind (evalc_all N (inpl N i) (firstn (length rest) (skipn 2 (cands N i))))
                            (fun vs => finish N inf (perm N i) ((x0c, f0) :: vs))))).
          { intros s1 He1 Hc1. rewrite bind_run_t.
            destruct (evalc_all_ok (inpl N i) (firstn (length rest) (skipn 2 (cands N i))) s1 Hc1) as [He2 Hl2]. cbv zeta in He2, Hl2.
            set (r2 := run_prog inf true s1 (evalc_all N (inpl N i) (firstn (length rest) (skipn 2 (cands N i))))) in *.
            apply finish_post; [eapply ext_trans; eauto|destruct He2 as (_ & Hu & _); congruence|].
            constructor; [|exact Hl2].
            inversion Hl0; subst. eapply evald_ext; [|eassumption]. eapply ext_trans; eauto. }
          apply evalc_spec; [apply ext_refl|exact Hc|].
          intros s1 xr' fxr He1 Hc1 Hxr.
          destruct (ltb N fxr f0).
          { apply evalc_spec; [exact He1|exact Hc1|].
            intros s2 x1' fxe He2 Hc2 Hx1.
            assert (He12 : ext s s2) by (eapply ext_trans; eauto).
            destruct (ltb N fxe fxr).
            - apply finish_post; auto. apply Forall_replace_last; [eapply evald_all_ext; eauto|exact Hx1].
            - apply finish_post; auto. apply Forall_replace_last; [eapply evald_all_ext; eauto|eapply evald_ext; [exact He2|exact Hxr]]. }
          destruct (ltb N fxr (snd (last (removelast l0) (x0c, f0)))).
          { apply finish_post; auto. apply Forall_replace_last; [eapply evald_all_ext; eauto|exact Hxr]. }
          destruct (ltb N fxr (snd (last l0 (x0c, f0)))).
          { apply evalc_spec; [exact He1|exact Hc1|].
            intros s2 x1' fxc He2 Hc2 Hx1.
            assert (He12 : ext s s2) by (eapply ext_trans; eauto).
            destruct (Num.leb N fxc fxr).
            - apply finish_post; auto. apply Forall_replace_last; [eapply evald_all_ext; eauto|exact Hx1].
            - apply Hshrink; auto. }
          { apply evalc_spec; [exact He1|exact Hc1|].
            intros s2 x1' fxcc He2 Hc2 Hx1.
            assert (He12 : ext s s2) by (eapply ext_trans; eauto).
            destruct (ltb N fxcc (snd (last l0 (x0c, f0)))).
            - apply finish_post; auto. apply Forall_replace_last; [eapply evald_all_ext; eauto|exact Hx1].
            - apply Hshrink; auto. }
  Qed.

  (* the invariant carried through every clean operation sequence *)
  Definition P_nm (s : sys) (c : nm) : Prop :=
    u_cons N s = cons0 /\ good0 s c /\
    (stepmon N s <> [] -> fixed0 c /\ (sim N c <> [] -> last (stepmon N s) ([], inf) = nm_best N inf c)).

  Definition nm_ok_in (i : nm_in N) : Prop := ndeco N i = None.

  Lemma good0_frame s s' c : calls N s' = calls N s -> good0 s c -> good0 s' c.
  Proof.
    intros Ec (H1 & H2). split; auto.
    eapply Forall_impl; [|exact H1]. intros p [Ht|Hin]; [left; exact Ht|right]. unfold epairs in *. rewrite Ec. exact Hin.
  Qed.

  Lemma last_app_single' {X} (l : list X) x d : last (l ++ [x]) d = x.
  Proof. induction l as [|a l IH]; simpl; auto. destruct (l ++ [x]) eqn:E; [destruct l; discriminate|exact IH]. Qed.

  Theorem nm_run_ok : forall ops sc,
    Forall (clean_op N _ nm_ok_in true false) ops -> P_nm (fst sc) (snd sc) ->
    P_nm (fst (run N inf _ _ (nm_algo N inf) sc ops)) (snd (run N inf _ _ (nm_algo N inf) sc ops)).
  Proof.
    apply (run_joint N inf _ _ (nm_algo N inf) P_nm nm_ok_in true false).
    - intros s s' c Ec Es Eu _ (Hc & Hg & Hh). split; [|split].
      + rewrite (Eu eq_refl). exact Hc.
      + eapply good0_frame; eauto.
      + rewrite Es. exact Hh.
    - intros s c i Hi H. cbn [a_decorate nm_algo]. unfold nm_decorate. unfold nm_ok_in in Hi. rewrite Hi. exact H.
    - intros s c i _ (Hc & Hg & Hh). cbv zeta. cbn [a_nested a_step nm_algo].
      destruct (nm_step_post s c i Hc Hg) as ((Hinc & Hu & Hs) & (Hall' & Hlen' & Hfix') & Hr).
      set (r := run_prog inf true s (nm_step N inf s c i)) in *.
      split; [|split].
      + cbn [u_cons set_stepmon]. congruence.
      + eapply good0_frame; [|split; eassumption]. reflexivity.
      + cbn [stepmon set_stepmon]. intros _. split; [exact Hfix'|]. intros Hne.
        destruct Hr as [[Hnil _]|Hrec]; [contradiction|]. rewrite Hrec. apply last_app_single'.
    - intros s c (Hc & Hg & Hh). cbn [a_finalize nm_algo fst snd]. split; [exact Hc|split; [exact Hg|]].
      cbn [stepmon set_stepmon]. rewrite app_nil_r. exact Hh.
  Qed.

  (* the initial state: nothing evaluated, all energies top *)
  Lemma nm_init_ok s ndim : u_cons N s = cons0 -> stepmon N s = [] -> P_nm s (nm_init N inf ndim).
  Proof.
    intros Hc Hs. unfold P_nm, good0, nm_init. cbn [sim fsim]. split; [exact Hc|split; [split|]].
    - apply Forall_forall. intros [qx qe] Hq. apply in_combine_r in Hq. apply repeat_spec in Hq. left. cbn [snd]. rewrite Hq. exact Hinf.
    - now rewrite !repeat_length.
    - intros H. congruence.
  Qed.

  (* consequences, in the terms of the properties: once the initial evaluation is logged, the reported best is a point
     at which a real call was made, with the energy that call returned (or a top value), it satisfies the constraints,
     and it is the last step-monitor record *)
  Theorem nm_best_evaluated s c : P_nm s c -> stepmon N s <> [] -> sim N c <> [] ->
    honest N s (nm_best N inf c) /\ cons0 (fst (nm_best N inf c)) = fst (nm_best N inf c) /\
    last (stepmon N s) ([], inf) = nm_best N inf c.
  Proof.
    intros (Hc & (Hall & Hlen) & Hh) Hsm Hne. destruct (Hh Hsm) as [Hfix Hlast]. specialize (Hlast Hne).
    split; [|split; [|exact Hlast]]; unfold nm_best, fixed0 in *;
      destruct (sim N c) as [|x0 sr]; try congruence; (destruct (fsim N c) as [|f0 fr]; [simpl in Hlen; discriminate|]);
      cbn [hd fst snd]; [|exact Hfix].
    cbn [combine] in Hall. inversion Hall as [|? ? H0 _]; subst.
    destruct H0 as [Ht|Hin]; [right; exact Ht|left]. cbn [fst snd] in Hin. rewrite Hfix in Hin. exact Hin.
  Qed.

  (* end to end: from any state satisfying the invariant (e.g. a freshly built solver, nm_init_ok), through any clean
     operation sequence *)
  Theorem nm_reported_best : forall ops sc,
    Forall (clean_op N _ nm_ok_in true false) ops -> P_nm (fst sc) (snd sc) ->
    let r := run N inf _ _ (nm_algo N inf) sc ops in
    stepmon N (fst r) <> [] -> sim N (snd r) <> [] ->
    honest N (fst r) (nm_best N inf (snd r)) /\ cons0 (fst (nm_best N inf (snd r))) = fst (nm_best N inf (snd r)) /\
    last (stepmon N (fst r)) ([], inf) = nm_best N inf (snd r).
  Proof.
    intros ops sc Hclean HP. cbv zeta. intros Hsm Hne.
    apply nm_best_evaluated; auto. apply nm_run_ok; auto.
  Qed.
End NMProofs.

(* the best never gets worse: a Step on a simplex with at least two vertices reports a best energy that is not above the previous
   one - for every candidate stream, argsort answer (the model accepts only sorting permutations), cost and constraints *)
Section NMOrder.
  Variable N : Num.
  Variable inf : T N.
  Notation E := (T N).
  Notation vec := (vec N).
  Notation sys := (sys N).
  Notation nm := (nm N).
  Hypothesis Hord : StrictWeak E (ltb N).

  Lemma count_in i : forall p, count_nat i p <> O -> In i p.
  Proof.
    induction p as [|j p IH]; simpl; [congruence|].
    destruct (Nat.eqb i j) eqn:Ei; [apply Nat.eqb_eq in Ei; auto|auto].
  Qed.

  Lemma is_perm_in p n i : is_perm p n = true -> (i < n)%nat -> In i p.
  Proof.
    unfold is_perm. intros H Hi. apply andb_true_iff in H as [_ H].
    rewrite forallb_forall in H. specialize (H i). rewrite in_seq in H.
    assert (Hc : Nat.eqb (count_nat i p) 1 = true) by (apply H; lia).
    apply Nat.eqb_eq in Hc. apply count_in. lia.
  Qed.

  Lemma sorted_head_min : forall (r : list (vec * E)) a, sorted_e N (a :: r) = true ->
    Forall (fun b => ltb N (snd b) (snd a) = false) r.
  Proof.
    induction r as [|b r IH]; intros a H; [constructor|].
    cbn [sorted_e] in H. apply andb_true_iff in H as [Hab Hr]. apply negb_true_iff in Hab.
    constructor; [exact Hab|].
    specialize (IH b Hr). eapply Forall_impl; [|exact IH]. intros c Hcb. cbv beta in Hcb.
    eapply (sw_negtrans E (ltb N) Hord); eauto.
  Qed.

  (* the energy of the best vertex after `finish` is not above any energy of the list that was sorted *)
  Definition not_worse (f0 : E) (r : sys * (nm * list (vec * E))) : Prop :=
    sim N (fst (snd r)) = [] \/ ltb N f0 (snd (nm_best N inf (fst (snd r)))) = false.

  Lemma asym x y : ltb N x y = true -> ltb N y x = false.
  Proof.
    intros H. destruct (ltb N y x) eqn:Eyx; auto.
    pose proof (sw_trans E (ltb N) Hord _ _ _ H Eyx) as K. rewrite (sw_irrefl E (ltb N) Hord) in K. discriminate.
  Qed.

  Lemma insert_sorted (a : vec * E) : forall l, sorted_e N l = true -> sorted_e N (insert_e N a l) = true.
  Proof.
    induction l as [|b r IH]; intros Hs; [reflexivity|].
    cbn [insert_e]. destruct (ltb N (snd b) (snd a)) eqn:Eba.
    - (* b stays in front *)
      assert (Hr : sorted_e N r = true) by (destruct r; [reflexivity|cbn [sorted_e] in Hs; apply andb_true_iff in Hs; tauto]).
      specialize (IH Hr).
      destruct r as [|c r']; cbn [insert_e] in *.
      + cbn [sorted_e]. rewrite (asym _ _ Eba). reflexivity.
      + destruct (ltb N (snd c) (snd a)) eqn:Eca.
        * cbn [sorted_e] in Hs |- *. apply andb_true_iff in Hs as [Hbc _]. rewrite Hbc. exact IH.
        * cbn [sorted_e] in IH |- *. rewrite (asym _ _ Eba). exact IH.
    - cbn [sorted_e]. rewrite Eba. exact Hs.
  Qed.
  Lemma isort_sorted : forall l, sorted_e N (isort N l) = true.
  Proof. induction l as [|a l IH]; [reflexivity|]. cbn [isort fold_right]. apply insert_sorted. exact IH. Qed.

  Lemma insert_in' (a q : vec * E) : forall l, In q (insert_e N a l) <-> q = a \/ In q l.
  Proof.
    induction l as [|b r IH]; simpl; [intuition congruence|].
    destruct (ltb N (snd b) (snd a)); simpl; [rewrite IH|]; intuition congruence.
  Qed.
  Lemma isort_in' (q : vec * E) : forall l, In q (isort N l) <-> In q l.
  Proof. induction l as [|a l IH]; simpl; [tauto|]. rewrite insert_in', IH. intuition congruence. Qed.

  Lemma finish_min s p l x f0 : In (x, f0) l -> not_worse f0 (run_prog inf true s (finish N inf p l)).
  Proof.
    intros Hin. unfold finish, not_worse.
    set (sl := if valid_perm N inf p l then apply_perm N inf p l else isort N l).
    assert (Hq : In (x, f0) sl /\ sorted_e N sl = true).
    { subst sl. destruct (valid_perm N inf p l) eqn:Hv.
      - unfold valid_perm in Hv. apply andb_true_iff in Hv as [Hp Hs]. split; [|exact Hs].
        destruct (In_nth l (x, f0) ([], inf) Hin) as (i & Hi & Hn).
        unfold apply_perm. apply in_map_iff. exists i. split; [exact Hn|]. eapply is_perm_in; eauto.
      - split; [apply isort_in'; exact Hin|apply isort_sorted]. }
    destruct Hq as [Hq Hs].
    destruct sl as [|[y0 g0] r]; [left; reflexivity|].
    cbn [run_prog fst snd sim fsim map nm_best hd]. right.
    destruct Hq as [Hq|Hq].
    - injection Hq as _ Hq. subst g0. apply (sw_irrefl E (ltb N) Hord).
    - pose proof (sorted_head_min r (y0, g0) Hs) as Hm. rewrite Forall_forall in Hm. exact (Hm _ Hq).
  Qed.

  Lemma bind_run_t' R R' (p : prog N R) (f : R -> prog N R') : forall s0,
    run_prog inf true s0 (bind p f) =
    run_prog inf true (fst (run_prog inf true s0 p)) (f (snd (run_prog inf true s0 p))).
  Proof. induction p as [r|x k IHp|x k IHp]; intros s0; simpl; auto. Qed.

  Lemma evalc_nw f0 s ip x k :
    (forall s1 x' e, not_worse f0 (run_prog inf true s1 (k x' e))) ->
    not_worse f0 (run_prog inf true s (evalc N ip x k)).
  Proof. intros Hk. unfold evalc. cbn [run_prog]. destruct ip; cbn [run_prog]; apply Hk. Qed.

  Lemma in_replace_last (l : list (vec * E)) a b p : In a (replace_last N (a :: b :: l) p).
  Proof. unfold replace_last. cbn [removelast]. left. reflexivity. Qed.

  Theorem nm_best_never_worse s c i :
    stepmon N s <> [] -> (2 <= length (combine (sim N c) (fsim N c)))%nat ->
    not_worse (snd (nm_best N inf c)) (run_prog inf true s (nm_step N inf s c i)).
  Proof.
    intros Hsm Hlen. unfold nm_step. cbv zeta.
    destruct (stepmon N s) as [|sm0 smr]; [congruence|].
    destruct (combine (sim N c) (fsim N c)) as [|[x0 f0] [|v1 rest]] eqn:El; try (simpl in Hlen; lia).
    assert (Ef : snd (nm_best N inf c) = f0 /\ hd [] (sim N c) = x0).
    { unfold nm_best. destruct (sim N c) as [|a sr]; [discriminate|]. destruct (fsim N c) as [|b fr]; [discriminate|].
      cbn [combine] in El. injection El as -> -> _. split; reflexivity. }
    destruct Ef as [Ef Ex]. rewrite Ef.
    destruct (Nat.pred (length (sm0 :: smr))).
    - (* generation 1 *)
      rewrite bind_run_t'. rewrite Ex.
      assert (Eh : hd inf (fsim N c) = f0).
      { destruct (sim N c) as [|a sr]; [discriminate|]. destruct (fsim N c) as [|b fr]; [discriminate|]. cbn [combine] in El. now injection El as _ -> _. }
      rewrite Eh. eapply finish_min. left. reflexivity.
    - cbn [run_prog].
      set (x0c := u_cons N s x0).
      assert (Hshrink : forall s1, not_worse f0 (run_prog inf true s1
                (bind (evalc_all N (inpl N i) (firstn (length (v1 :: rest)) (skipn 2 (cands N i))))
                      (fun vs => finish N inf (perm N i) ((x0c, f0) :: vs))))).
      { intros s1. rewrite bind_run_t'. eapply finish_min. left. reflexivity. }
      apply evalc_nw. intros s1 xr' fxr.
      destruct (ltb N fxr f0).
      { apply evalc_nw. intros s2 x1' fxe. destruct (ltb N fxe fxr); eapply finish_min; apply in_replace_last. }
      destruct (ltb N fxr _).
      { eapply finish_min; apply in_replace_last. }
      destruct (ltb N fxr _).
      { apply evalc_nw. intros s2 x1' fxc. destruct (Num.leb N fxc fxr); [eapply finish_min; apply in_replace_last|apply Hshrink]. }
      { apply evalc_nw. intros s2 x1' fxcc. destruct (ltb N fxcc _); [eapply finish_min; apply in_replace_last|apply Hshrink]. }
  Qed.
End NMOrder.

(* C05 for Nelder-Mead: Solve always returns.  Every _Step on a non-empty simplex logs exactly one record and leaves a non-empty
   simplex, for every candidate stream and every argsort answer. *)
Section NMSolve.
  Variable N : Num.
  Variable inf : T N.
  Notation E := (T N).
  Notation vec := (vec N).
  Notation sys := (sys N).
  Notation nm := (nm N).
  Notation A := (nm_algo N inf).

  Definition G_nm (c : nm) : Prop := sim N c <> [] /\ length (sim N c) = length (fsim N c).
  Definition Q_nm (r : sys * (nm * list (vec * E))) : Prop := length (snd (snd r)) = 1%nat /\ G_nm (fst (snd r)).

  Lemma insert_length' (a : vec * E) : forall l, length (insert_e N a l) = S (length l).
  Proof. induction l as [|b r IH]; simpl; auto. destruct (ltb N (snd b) (snd a)); simpl; auto. Qed.
  Lemma isort_length' : forall l, length (isort N l) = length l.
  Proof. induction l as [|a l IH]; simpl; auto. now rewrite insert_length', IH. Qed.

  Lemma finish_Q s p l : l <> [] -> Q_nm (run_prog inf true s (finish N inf p l)).
  Proof.
    intros Hl. unfold finish.
    set (sl := if valid_perm N inf p l then apply_perm N inf p l else isort N l).
    assert (Hlen : length sl = length l).
    { subst sl. destruct (valid_perm N inf p l) eqn:Hv; [|apply isort_length'].
      unfold valid_perm, is_perm in Hv. apply andb_true_iff in Hv as [Hv _]. apply andb_true_iff in Hv as [Hv _].
      apply Nat.eqb_eq in Hv. unfold apply_perm. now rewrite map_length. }
    destruct sl as [|[x0 f0] r]; [destruct l; [congruence|discriminate]|].
    cbn [run_prog fst snd]. split; [reflexivity|]. split; cbn [sim fsim fst snd map]; [discriminate|].
    cbn [length]. now rewrite !map_length.
  Qed.

  Lemma evalc_Q s ip x k : (forall s1 x' e, Q_nm (run_prog inf true s1 (k x' e))) -> Q_nm (run_prog inf true s (evalc N ip x k)).
  Proof. intros Hk. unfold evalc. cbn [run_prog]. destruct ip; cbn [run_prog]; apply Hk. Qed.

  Lemma replace_last_nonempty (l : list (vec * E)) p : replace_last N l p <> [].
  Proof. unfold replace_last. destruct (removelast l); discriminate. Qed.

  Lemma nm_step_Q s c i : G_nm c -> Q_nm (run_prog inf true s (nm_step N inf s c i)).
  Proof.
    intros [Hne Hlen]. unfold nm_step. cbv zeta.
    destruct (stepmon N s) as [|sm0 smr].
    - cbn [run_prog fst snd]. split; [reflexivity|]. split; cbn [sim fsim]; [discriminate|]. simpl. now rewrite !repeat_length.
    - destruct (Nat.pred (length (sm0 :: smr))).
      + rewrite (bind_run_t' N inf). apply finish_Q. discriminate.
      + destruct (combine (sim N c) (fsim N c)) as [|[x0 f0] rest] eqn:El.
        * exfalso. destruct (sim N c) as [|a sr]; [congruence|]. destruct (fsim N c); [discriminate|discriminate].
        * cbn [run_prog].
          assert (Hshrink : forall s1 x0c, Q_nm (run_prog inf true s1
                    (bind (evalc_all N (inpl N i) (firstn (length rest) (skipn 2 (cands N i))))
                          (fun vs => finish N inf (perm N i) ((x0c, f0) :: vs))))).
          { intros s1 x0c. rewrite (bind_run_t' N inf). apply finish_Q. discriminate. }
          apply evalc_Q. intros s1 xr' fxr.
          destruct (ltb N fxr f0).
          { apply evalc_Q. intros s2 x1' fxe. destruct (ltb N fxe fxr); apply finish_Q; apply replace_last_nonempty. }
          destruct (ltb N fxr _).
          { apply finish_Q; apply replace_last_nonempty. }
          destruct (ltb N fxr _).
          { apply evalc_Q. intros s2 x1' fxc. destruct (Num.leb N fxc fxr); [apply finish_Q; apply replace_last_nonempty|apply Hshrink]. }
          { apply evalc_Q. intros s2 x1' fxcc. destruct (ltb N fxcc _); [apply finish_Q; apply replace_last_nonempty|apply Hshrink]. }
  Qed.

  Theorem nm_solve_terminates : forall f s c is dflt mi mf,
    G_nm c -> Forall (fun i => ndeco N i = None) is -> ndeco N dflt = None ->
    abs_limits N mi mf s -> (0 <= mi)%Z ->
    (Z.to_nat (mi + 3) <= S f + ehlen N _ _ A s c)%nat ->
    snd (solve N inf _ _ A (S f) s c is dflt) = true.
  Proof.
    intros f s c is dflt mi mf HG His Hd Hl Hmi Hfuel.
    destruct (Z.eq_dec mi 0) as [E0|Hnz]; [subst mi; apply (solve_terminates_zero N inf _ _ A f s c is dflt mf Hl)|].
    assert (Hpos : (0 < mi)%Z) by lia.
    refine (solve_terminates N inf _ _ A G_nm (fun i => ndeco N i = None) _ _ _ _ _ _ f s c is dflt mi mf HG His Hd Hl Hpos Hfuel).
    - (* progress *)
      intros s0 c0 i HG0 _ _. cbv zeta. cbn [a_nested a_step nm_algo].
      destruct (nm_step_Q s0 c0 i HG0) as [Hrec HG'].
      destruct (run_prog_cfg N inf true _ (nm_step N inf s0 c0 i) s0) as (_ & _ & Hs). cbv zeta in Hs.
      split; [|exact HG'].
      unfold ehlen, energy_history. cbn [stepmon set_stepmon a_ehist_extra nm_algo]. rewrite Hs.
      rewrite !app_nil_r, map_app, app_length, !map_length, Hrec. lia.
    - intros s0 c0 _. cbn [a_finalize nm_algo fst snd]. unfold ehlen, energy_history. cbn [stepmon set_stepmon].
      rewrite (app_nil_r (stepmon N s0)). apply Nat.le_refl.
    - intros s0 c0 i. reflexivity.
    - intros s0 c0 i HG0 Hi. cbn [a_decorate nm_algo]. unfold nm_decorate. rewrite Hi. exact HG0.
    - intros s0 c0 HG0. exact HG0.
    - intros c0 _. simpl. lia.
  Qed.
End NMSolve.
