(* Numeric signature shared by all models: one definition of each model function, several instances.
   NumF (binary64, execution only, bit-exact against Python), NumQ (exact rationals, execution),
   NumR (Common/NumR.v, proofs of the algebraic theorems).  No proofs in this file. *)
From Coq Require Import ZArith QArith Qabs List Bool.
From Coq Require PrimFloat Uint63.
Import ListNotations.

Record Num := mkNum {
  T : Type;
  zero : T; one : T;
  add : T -> T -> T; sub : T -> T -> T; mul : T -> T -> T; div : T -> T -> T;
  opp : T -> T; abs : T -> T;
  ltb : T -> T -> bool; leb : T -> T -> bool; eqb : T -> T -> bool;
  of_Z : Z -> T
}.

Declare Scope num_scope.
Delimit Scope num_scope with num.

Definition f_of_Z (z : Z) : PrimFloat.float :=
  match z with
  | Z0 => PrimFloat.zero
  | Zpos _ => PrimFloat.of_uint63 (Uint63.of_Z z)
  | Zneg p => PrimFloat.opp (PrimFloat.of_uint63 (Uint63.of_Z (Zpos p)))
  end.

Definition NumF : Num := {|
  T := PrimFloat.float;
  zero := PrimFloat.zero; one := PrimFloat.one;
  add := PrimFloat.add; sub := PrimFloat.sub; mul := PrimFloat.mul; div := PrimFloat.div;
  opp := PrimFloat.opp; abs := PrimFloat.abs;
  ltb := PrimFloat.ltb; leb := PrimFloat.leb; eqb := PrimFloat.eqb;
  of_Z := f_of_Z |}.

Definition Qltb (x y : Q) : bool := negb (Qle_bool y x).
Definition NumQ : Num := {|
  T := Q;
  zero := 0%Q; one := 1%Q;
  add := Qplus; sub := Qminus; mul := Qmult; div := Qdiv;
  opp := Qopp; abs := Qabs;
  ltb := Qltb; leb := Qle_bool; eqb := Qeq_bool;
  of_Z := inject_Z |}.

(* generic helpers over a Num *)
Section Generic.
  Variable N : Num.
  Definition nmax (x y : T N) : T N := if ltb N x y then y else x.
  Definition nmin (x y : T N) : T N := if ltb N y x then y else x.
  Definition nsum (l : list (T N)) : T N := fold_left (add N) l (zero N).
  Definition nsumr (l : list (T N)) : T N := fold_right (add N) (zero N) l.
  Definition nprod (l : list (T N)) : T N := fold_left (mul N) l (one N).
  Fixpoint npow (x : T N) (n : nat) : T N :=
    match n with O => one N | S k => mul N x (npow x k) end.
  Definition list_eqb (a b : list (T N)) : bool :=
    Nat.eqb (length a) (length b) && forallb (fun p => eqb N (fst p) (snd p)) (combine a b).
End Generic.

(* bit-level agreement of floats as printed by Python: equal, or both nan; +0 = -0 *)
Definition feq (x y : PrimFloat.float) : bool :=
  (PrimFloat.eqb x y || (negb (PrimFloat.eqb x x) && negb (PrimFloat.eqb y y)))%bool.
Definition flist_eq (a b : list PrimFloat.float) : bool :=
  (Nat.eqb (length a) (length b) && forallb (fun p => feq (fst p) (snd p)) (combine a b))%bool.
Definition qlist_eq (a b : list Q) : bool :=
  (Nat.eqb (length a) (length b) && forallb (fun p => Qeq_bool (fst p) (snd p)) (combine a b))%bool.
