(* The real-number instance of Num, used only in proofs (not executable).
   Brings in the standard library's real-number axioms; they are named in the trusted base. *)
From Coq Require Import Reals ZArith Bool Lra.
From MV Require Import Common.Num.

Definition Rltb (x y : R) : bool := if Rlt_dec x y then true else false.
Definition Rleb (x y : R) : bool := if Rle_dec x y then true else false.
Definition Reqb (x y : R) : bool := if Req_EM_T x y then true else false.

Definition NumR : Num := {|
  T := R;
  zero := 0%R; one := 1%R;
  add := Rplus; sub := Rminus; mul := Rmult; div := Rdiv;
  opp := Ropp; abs := Rabs;
  ltb := Rltb; leb := Rleb; eqb := Reqb;
  of_Z := IZR |}.

Lemma Rltb_true x y : Rltb x y = true <-> (x < y)%R.
Proof. unfold Rltb; destruct (Rlt_dec x y); split; intros; try lra; try discriminate; auto. Qed.
Lemma Rltb_false x y : Rltb x y = false <-> (y <= x)%R.
Proof. unfold Rltb; destruct (Rlt_dec x y); split; intros; try lra; try discriminate; auto. Qed.
Lemma Rleb_true x y : Rleb x y = true <-> (x <= y)%R.
Proof. unfold Rleb; destruct (Rle_dec x y); split; intros; try lra; try discriminate; auto. Qed.
Lemma Rleb_false x y : Rleb x y = false <-> (y < x)%R.
Proof. unfold Rleb; destruct (Rle_dec x y); split; intros; try lra; try discriminate; auto. Qed.
Lemma Reqb_true x y : Reqb x y = true <-> x = y.
Proof. unfold Reqb; destruct (Req_EM_T x y); split; intros; try discriminate; auto; contradiction. Qed.
Lemma Reqb_false x y : Reqb x y = false <-> x <> y.
Proof. unfold Reqb; destruct (Req_EM_T x y); split; intros; try discriminate; auto; contradiction. Qed.
