(* Rationals extended with +infinity: an executable instance of the numeric signature in which the order hypotheses of
   the control-flow theorems (strict weak order, "inf + penalty is a top value") HOLD - the witness that those
   hypotheses are satisfiable - and on which the solver machine can be run inside Coq. *)
From Coq Require Import ZArith QArith Qabs List Bool Lia Lqa.
From MV Require Import Common.Num Common.Order.
Import ListNotations.

Definition qi := option Q.                      (* None = +infinity *)
Definition qi_lift2 (f : Q -> Q -> Q) (a b : qi) : qi :=
  match a, b with Some x, Some y => Some (f x y) | _, _ => None end.
Definition qi_ltb (a b : qi) : bool :=
  match a, b with
  | Some x, Some y => Qltb x y
  | Some _, None => true
  | None, _ => false
  end.
Definition qi_leb (a b : qi) : bool := negb (qi_ltb b a).
Definition qi_eqb (a b : qi) : bool :=
  match a, b with Some x, Some y => Qeq_bool x y | None, None => true | _, _ => false end.

Definition NumQI : Num := {|
  T := qi;
  zero := Some 0%Q; one := Some 1%Q;
  add := qi_lift2 Qplus; sub := qi_lift2 Qminus; mul := qi_lift2 Qmult; div := qi_lift2 Qdiv;
  opp := option_map Qopp; abs := option_map Qabs;
  Num.ltb := qi_ltb; Num.leb := qi_leb; Num.eqb := qi_eqb;
  of_Z := fun z => Some (inject_Z z) |}.

Lemma Qltb_true x y : Qltb x y = true <-> (x < y)%Q.
Proof.
  unfold Qltb. rewrite negb_true_iff. split.
  - intros H. apply Qnot_le_lt. intros Hle. apply Qle_bool_iff in Hle. congruence.
  - intros H. destruct (Qle_bool y x) eqn:E; auto. apply Qle_bool_iff in E. lra.
Qed.
Lemma Qltb_false x y : Qltb x y = false <-> (y <= x)%Q.
Proof.
  unfold Qltb. rewrite negb_false_iff. apply Qle_bool_iff.
Qed.

Lemma qi_strict_weak : StrictWeak qi qi_ltb.
Proof.
  constructor.
  - intros [x|]; simpl; auto. apply Qltb_false. lra.
  - intros [x|] [y|] [z|]; simpl; auto; try discriminate.
    rewrite !Qltb_true. lra.
  - intros [x|] [y|] [z|]; simpl; auto; try discriminate.
    rewrite !Qltb_false. lra.
Qed.

Lemma qi_inf_top : forall e', qi_ltb None e' = false.
Proof. reflexivity. Qed.
Lemma qi_inf_plus_top : forall p e', qi_ltb (qi_lift2 Qplus None p) e' = false.
Proof. reflexivity. Qed.
