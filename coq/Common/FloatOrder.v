(* IEEE binary64 "strictly lower" (PrimFloat.ltb) is transitive on ALL floats, NaN included: a NaN is never below anything nor anything
   below it.  Relies on the standard library's specification axiom FloatAxioms.ltb_spec (PrimFloat.ltb computes SpecFloat.SFltb). *)
From Coq Require Import ZArith PArith Bool Lia.
From Coq Require Import Floats.SpecFloat Floats.PrimFloat Floats.FloatOps Floats.FloatAxioms.

Definition lexc (e1 : Z) (m1 : positive) (e2 : Z) (m2 : positive) : comparison :=
  match Z.compare e1 e2 with Lt => Lt | Gt => Gt | Eq => Pos.compare_cont Eq m1 m2 end.

Lemma lexc_lt_trans e1 m1 e2 m2 e3 m3 : lexc e1 m1 e2 m2 = Lt -> lexc e2 m2 e3 m3 = Lt -> lexc e1 m1 e3 m3 = Lt.
Proof.
  unfold lexc.
  destruct (Z.compare_spec e1 e2), (Z.compare_spec e2 e3), (Z.compare_spec e1 e3); subst; try lia; try discriminate; auto.
  change (Pos.compare_cont Eq m1 m2) with (Pos.compare m1 m2). change (Pos.compare_cont Eq m2 m3) with (Pos.compare m2 m3).
  change (Pos.compare_cont Eq m1 m3) with (Pos.compare m1 m3).
  rewrite !Pos.compare_lt_iff. apply Pos.lt_trans.
Qed.

Lemma lexc_gt_lt e1 m1 e2 m2 : lexc e1 m1 e2 m2 = Gt <-> lexc e2 m2 e1 m1 = Lt.
Proof.
  unfold lexc.
  destruct (Z.compare_spec e1 e2), (Z.compare_spec e2 e1); subst; try lia; try (split; discriminate); try tauto.
  change (Pos.compare_cont Eq m1 m2) with (Pos.compare m1 m2). change (Pos.compare_cont Eq m2 m1) with (Pos.compare m2 m1).
  rewrite Pos.compare_gt_iff, Pos.compare_lt_iff. tauto.
Qed.

Lemma compopp_lt c : CompOpp c = Lt <-> c = Gt.
Proof. destruct c; simpl; split; congruence. Qed.

Lemma neg_form e1 m1 e2 m2 :
  match Z.compare e1 e2 with Eq => CompOpp (Pos.compare_cont Eq m1 m2) | Lt => Gt | Gt => Lt end = CompOpp (lexc e1 m1 e2 m2).
Proof. unfold lexc. destruct (Z.compare e1 e2); reflexivity. Qed.

Lemma SFltb_trans x y z : SFltb x y = true -> SFltb y z = true -> SFltb x z = true.
Proof.
  unfold SFltb.
  destruct x as [sx|sx| |sx mx ex], y as [sy|sy| |sy my ey], z as [sz|sz| |sz mz ez];
    try destruct sx; try destruct sy; try destruct sz; cbn [SFcompare]; try discriminate; auto.
  - (* all negative *)
    rewrite !neg_form.
    intros H1 H2.
    assert (A : lexc ex mx ey my = Gt).
    { destruct (lexc ex mx ey my); simpl in H1; try discriminate; reflexivity. }
    assert (B : lexc ey my ez mz = Gt).
    { destruct (lexc ey my ez mz); simpl in H2; try discriminate; reflexivity. }
    apply lexc_gt_lt in A. apply lexc_gt_lt in B.
    pose proof (lexc_lt_trans _ _ _ _ _ _ B A) as C. apply lexc_gt_lt in C. rewrite C. reflexivity.
  - (* all positive *)
    fold (lexc ex mx ey my). fold (lexc ey my ez mz). fold (lexc ex mx ez mz).
    intros H1 H2.
    assert (A : lexc ex mx ey my = Lt) by (destruct (lexc ex mx ey my); try discriminate; reflexivity).
    assert (B : lexc ey my ez mz = Lt) by (destruct (lexc ey my ez mz); try discriminate; reflexivity).
    rewrite (lexc_lt_trans _ _ _ _ _ _ A B). reflexivity.
Qed.

Theorem float_ltb_trans (x y z : float) : ltb x y = true -> ltb y z = true -> ltb x z = true.
Proof. rewrite !ltb_spec. apply SFltb_trans. Qed.

(* ... and NaN is incomparable: never strictly lower, never strictly above *)
Theorem float_nan_never_lower (x : float) : ltb nan x = false /\ ltb x nan = false.
Proof. rewrite !ltb_spec. split; [reflexivity|]. unfold SFltb. destruct (Prim2SF x) as [s|s| |s m e]; reflexivity. Qed.
Print Assumptions float_ltb_trans.
