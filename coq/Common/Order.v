(* Abstract order laws used by the control-flow theorems: they hold of any total preorder on energies,
   in particular of IEEE comparison restricted to non-NaN values. *)
From Coq Require Import Bool List.
Import ListNotations.

Section Order.
  Variable E : Type.
  Variable ltb : E -> E -> bool.

  Record StrictWeak : Prop := {
    sw_irrefl : forall x, ltb x x = false;
    sw_trans : forall x y z, ltb x y = true -> ltb y z = true -> ltb x z = true;
    sw_negtrans : forall x y z, ltb x y = false -> ltb y z = false -> ltb x z = false
  }.

  Definition leb (x y : E) : bool := negb (ltb y x).

  Lemma leb_refl (H : StrictWeak) x : leb x x = true.
  Proof. unfold leb; now rewrite (sw_irrefl H). Qed.

  Lemma leb_trans (H : StrictWeak) x y z : leb x y = true -> leb y z = true -> leb x z = true.
  Proof.
    unfold leb; rewrite !negb_true_iff; intros A B. exact (sw_negtrans H z y x B A).
  Qed.

  Lemma ltb_leb (H : StrictWeak) x y : ltb x y = true -> leb x y = true.
  Proof.
    unfold leb; intros A. rewrite negb_true_iff.
    destruct (ltb y x) eqn:B; auto.
    pose proof (sw_trans H _ _ _ A B) as C. now rewrite (sw_irrefl H) in C.
  Qed.

  Lemma ltb_leb_trans (H : StrictWeak) x y z : ltb x y = true -> leb y z = true -> ltb x z = true.
  Proof.
    unfold leb; rewrite negb_true_iff; intros A B.
    destruct (ltb x z) eqn:C; auto.
    pose proof (sw_negtrans H x z y C B) as F. congruence.
  Qed.

  Lemma leb_ltb_trans (H : StrictWeak) x y z : leb x y = true -> ltb y z = true -> ltb x z = true.
  Proof.
    unfold leb; rewrite negb_true_iff; intros A B.
    destruct (ltb x z) eqn:C; auto.
    pose proof (sw_negtrans H y x z A C) as F. congruence.
  Qed.

  Lemma leb_total (H : StrictWeak) x y : leb x y = true \/ leb y x = true.
  Proof.
    unfold leb. destruct (ltb y x) eqn:A; auto. right.
    rewrite negb_true_iff. destruct (ltb x y) eqn:B; auto.
    pose proof (sw_trans H _ _ _ A B) as C. now rewrite (sw_irrefl H) in C.
  Qed.
End Order.
