(* C18 - reusable lemmas about real sums over lists: weighted sums of affine images, sums under filters,
   positional updates, maxima/minima of lists.  Used by Pure/Measures_Proofs.v. *)
From Coq Require Import List Arith Bool Lia Reals Lra.
From MV Require Import Common.Num Common.NumR.
Import ListNotations.
Open Scope R_scope.

Definition Rsum (l : list R) : R := fold_right Rplus 0 l.

Lemma fold_left_Rplus_acc (l : list R) (a : R) : fold_left Rplus l a = a + Rsum l.
Proof. revert a; induction l as [|b l IH]; intros a; simpl; [lra|]. rewrite IH. lra. Qed.

Lemma nsum_Rsum (l : list R) : nsum NumR l = Rsum l.
Proof. unfold nsum; simpl. rewrite fold_left_Rplus_acc. lra. Qed.

Lemma Rsum_cons a l : Rsum (a :: l) = a + Rsum l.
Proof. reflexivity. Qed.

Lemma Rsum_app a b : Rsum (a ++ b) = Rsum a + Rsum b.
Proof. induction a; simpl; lra. Qed.

Lemma Rsum_map_ext {A} (f g : A -> R) (l : list A) :
  (forall a, In a l -> f a = g a) -> Rsum (map f l) = Rsum (map g l).
Proof.
  induction l as [|a l IH]; intros H; simpl; auto.
  rewrite (H a (or_introl eq_refl)), IH; auto. intros b Hb; apply H; now right.
Qed.

Lemma Rsum_map_scale {A} (f : A -> R) (c : R) (l : list A) :
  Rsum (map (fun a => c * f a) l) = c * Rsum (map f l).
Proof. induction l; simpl; [lra|]. rewrite IHl. lra. Qed.

Lemma Rsum_map_plus {A} (f g : A -> R) (l : list A) :
  Rsum (map (fun a => f a + g a) l) = Rsum (map f l) + Rsum (map g l).
Proof. induction l; simpl; [lra|]. rewrite IHl. lra. Qed.

Lemma Rsum_map_const {A} (c : R) (l : list A) : Rsum (map (fun _ => c) l) = INR (length l) * c.
Proof.
  induction l as [|a l IH]; [simpl; lra|].
  change (length (a :: l)) with (S (length l)). rewrite S_INR. simpl. rewrite IH. lra.
Qed.

Lemma Rsum_map_id (l : list R) : Rsum (map (fun a => a) l) = Rsum l.
Proof. now rewrite map_id. Qed.

Lemma Rsum_abs_le (l : list R) : Rabs (Rsum l) <= Rsum (map Rabs l).
Proof.
  induction l as [|a l IH]; simpl.
  - rewrite Rabs_R0; lra.
  - pose proof (Rabs_triang a (Rsum l)). lra.
Qed.

Lemma Rsum_abs_nonneg (l : list R) : 0 <= Rsum (map Rabs l).
Proof. induction l as [|a l IH]; simpl; [lra|]. pose proof (Rabs_pos a). lra. Qed.

Lemma Rsum_abs_zero (l : list R) : Rsum (map Rabs l) = 0 -> Rsum l = 0.
Proof.
  intros H. pose proof (Rsum_abs_le l) as L. rewrite H in L.
  pose proof (Rabs_pos (Rsum l)) as P.
  destruct (Req_dec (Rsum l) 0) as [E|E]; auto.
  pose proof (Rabs_pos_lt _ E). lra.
Qed.

(* ---- weighted sums over zip(samples, weights) *)
Definition wsum {A} (g : A -> R) (x : list A) (w : list R) : R :=
  Rsum (map (fun p => g (fst p) * snd p) (combine x w)).
Definition dotR (x w : list R) : R := wsum (fun s => s) x w.

Lemma wsum_map {A B} (g : B -> R) (h : A -> B) (x : list A) (w : list R) :
  wsum g (map h x) w = wsum (fun a => g (h a)) x w.
Proof.
  unfold wsum. revert w; induction x as [|a x IH]; intros [|b w]; simpl; auto.
  f_equal. apply IH.
Qed.

Lemma wsum_ext {A} (g h : A -> R) (x : list A) (w : list R) :
  (forall a, In a x -> g a = h a) -> wsum g x w = wsum h x w.
Proof.
  unfold wsum. intros H. apply Rsum_map_ext. intros [a b] Hin; simpl.
  rewrite (H a); auto. eapply in_combine_l; eauto.
Qed.

Lemma wsum_scale {A} (g : A -> R) (c : R) (x : list A) (w : list R) :
  wsum (fun a => c * g a) x w = c * wsum g x w.
Proof.
  unfold wsum. rewrite <- Rsum_map_scale. apply Rsum_map_ext. intros; lra.
Qed.

Lemma wsum_plus {A} (g h : A -> R) (x : list A) (w : list R) :
  wsum (fun a => g a + h a) x w = wsum g x w + wsum h x w.
Proof.
  unfold wsum. rewrite <- Rsum_map_plus. apply Rsum_map_ext. intros; lra.
Qed.

Lemma wsum_const {A} (c : R) (x : list A) (w : list R) :
  length x = length w -> wsum (fun _ => c) x w = c * Rsum w.
Proof.
  unfold wsum. revert w; induction x as [|a x IH]; intros [|b w] H; simpl in *; try discriminate; [lra|].
  rewrite IH by lia. lra.
Qed.

(* scaling every weight *)
Lemma wsum_scale_w {A} (g : A -> R) (c : R) (x : list A) (w : list R) :
  wsum g x (map (fun t => t * c) w) = c * wsum g x w.
Proof.
  unfold wsum. revert w; induction x as [|a x IH]; intros [|b w]; simpl; try lra.
  rewrite IH. lra.
Qed.

Lemma Rsum_scale_w (c : R) (w : list R) : Rsum (map (fun t => t * c) w) = c * Rsum w.
Proof. induction w; simpl; [lra|]. rewrite IHw; lra. Qed.

(* unit weights *)
Lemma wsum_ones {A} (g : A -> R) (x : list A) :
  wsum g x (map (fun _ => 1) x) = Rsum (map g x).
Proof. unfold wsum. induction x as [|a x IH]; simpl; auto. rewrite IH. lra. Qed.

(* dropping the points a Boolean test rejects does not change a sum in which they contribute 0 *)
Lemma Rsum_filter {A} (t : A -> bool) (g : A -> R) (l : list A) :
  (forall a, In a l -> t a = false -> g a = 0) -> Rsum (map g (filter t l)) = Rsum (map g l).
Proof.
  induction l as [|a l IH]; intros H; simpl; auto.
  destruct (t a) eqn:E; simpl.
  - rewrite IH; auto. intros b Hb; apply H; now right.
  - rewrite IH, (H a); auto; try lra; try now left. intros b Hb; apply H; now right.
Qed.

Lemma combine_fst_snd {A B} (l : list (A * B)) : combine (map fst l) (map snd l) = l.
Proof. induction l as [|[a b] l IH]; simpl; auto. now rewrite IH. Qed.

