(* C03 - hard constraints hold at every evaluation.  Statements only. *)
From Coq Require Import List ZArith Bool.
From MV Require Import Common.Num Common.Order Core.Machine Core.Machine_Proofs Core.DE Core.DE_Proofs Core.NM Core.NM_Proofs Core.Powell Core.Powell_Proofs.
Import ListNotations.

(* solvers that nest the constraints inside the objective (Nelder-Mead, Powell, the abstract solver): every evaluated
   point is an output of the constraints function in force at that moment - also for constraints installed mid-run *)
Theorem C03_evaluated_points_constrained :
  forall (N : Num) (inf : T N) (C I : Type) (A : algo N C I), a_nested N C I A = true ->
  forall (ops : list (op N I)) (sc : sys N * C), Inv_cons N (fst sc) -> Inv_cons N (fst (run N inf C I A sc ops)).
Proof. exact evaluated_points_constrained. Qed.
Print Assumptions C03_evaluated_points_constrained.

(* hence with an idempotent constraints function every evaluated point satisfies the constraints *)
Theorem C03_evaluated_points_fixed :
  forall (N : Num) (inf : T N) (C I : Type) (A : algo N C I), a_nested N C I A = true ->
  forall (ops : list (op N I)) (sc : sys N * C), Inv_cons N (fst sc) ->
  Forall (fun c => (forall x, c_cons N c (c_cons N c x) = c_cons N c x) -> c_cons N c (c_x N c) = c_x N c)
         (calls N (fst (run N inf C I A sc ops))).
Proof. exact evaluated_points_fixed_by_constraints. Qed.
Print Assumptions C03_evaluated_points_fixed.

(* differential evolution applies the constraints to each trial outside the objective: same conclusion *)
Theorem C03_de_evaluated_points_constrained :
  forall (N : Num) (inf : T N) (de2 : bool) (ops : list (op N (de_in N))) (sc : sys N * de N),
  Inv_cons N (fst sc) -> Inv_cons N (fst (run N inf _ _ (de_algo N inf de2) sc ops)).
Proof. exact de_evaluated_points_constrained. Qed.
Print Assumptions C03_de_evaluated_points_constrained.

(* "... and for the result": in every clean run of either differential-evolution solver (no population re-installation, no
   re-decoration that moves members: the situations of finding F9) the reported best and every member were evaluated at a
   point that is an output of the constraints in force at that evaluation, or have not been evaluated at all (top energy) *)
Theorem C03_de_result_constrained :
  forall (N : Num) (inf : T N) (de2 : bool) (npop : nat),
  StrictWeak (T N) (ltb N) -> (forall p, is_top N (add N inf p)) -> is_top N inf ->
  forall (ops : list (op N (de_in N))) (sc : sys N * de N),
  Forall (clean_op N _ (de_ok_in N npop) false false) ops -> P_de N inf npop (fst sc) (snd sc) -> Inv_cons N (fst sc) ->
  let r := run N inf _ _ (de_algo N inf de2) sc ops in
  constrained_call N (fst r) (de_best N inf (snd r)) /\ Forall (constrained_call N (fst r)) (members N (snd r)).
Proof. exact de_result_constrained. Qed.
Print Assumptions C03_de_result_constrained.

(* Nelder-Mead, result clause: in every clean run (idempotent constraints, not replaced in the middle of the run) the reported
   best is a fixed point of the constraints function - it satisfies the constraints - as soon as the initial evaluation is logged *)
Theorem C03_nm_result_constrained :
  forall (N : Num) (inf : T N), (forall p, is_top N (add N inf p)) -> is_top N inf ->
  forall cons0 : vec N -> vec N, (forall x, cons0 (cons0 x) = cons0 x) ->
  forall (ops : list (op N (nm_in N))) (sc : sys N * nm N),
  Forall (clean_op N _ (nm_ok_in N) true false) ops -> P_nm N inf cons0 (fst sc) (snd sc) ->
  let r := run N inf _ _ (nm_algo N inf) sc ops in
  stepmon N (fst r) <> [] -> sim N (snd r) <> [] ->
  cons0 (fst (nm_best N inf (snd r))) = fst (nm_best N inf (snd r)).
Proof.
  intros N inf Ht Hi cons0 Hid ops sc Hc HP r Hs Hn.
  exact (proj1 (proj2 (nm_reported_best N inf Ht Hi cons0 Hid ops sc Hc HP Hs Hn))).
Qed.
Print Assumptions C03_nm_result_constrained.

(* Powell, result clause: in every clean run the reported best is a fixed point of the (idempotent) constraints function *)
Theorem C03_powell_result_constrained :
  forall (N : Num) (inf : T N), (forall p, is_top N (add N inf p)) ->
  forall cons0 : vec N -> vec N, (forall x, cons0 (cons0 x) = cons0 x) ->
  forall (ops : list (op N (pw_in N))) (sc : sys N * pw N),
  Forall (clean_op N _ (pw_ok_in N) true false) ops -> P_pw N inf cons0 (fst sc) (snd sc) ->
  let r := run N inf _ _ (pw_algo N inf) sc ops in
  stepmon N (fst r) <> [] ->
  cons0 (fst (pw_best N inf (snd r))) = fst (pw_best N inf (snd r)).
Proof.
  intros N inf Ht cons0 Hid ops sc Hc HP r Hs.
  exact (proj2 (pw_reported_best N inf Ht cons0 Hid ops sc Hc HP Hs)).
Qed.
Print Assumptions C03_powell_result_constrained.

Example C03_instances : forall (N : Num) (inf : T N) t ndim npop ops1 ops2,
  Inv_cons N (fst (run N inf _ _ (nm_algo N inf) (init_sys N inf t, nm_init N inf ndim) ops1)) /\
  Inv_cons N (fst (run N inf _ _ (de_algo N inf false) (init_sys N inf t, de_init N inf npop ndim) ops2)).
Proof.
  intros. split.
  - apply evaluated_points_constrained; [reflexivity|apply init_invs].
  - apply de_evaluated_points_constrained. apply init_invs.
Qed.
