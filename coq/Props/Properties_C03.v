(* C03 - hard constraints hold at every evaluation.  Statements only. *)
From Coq Require Import List ZArith Bool.
From MV Require Import Common.Num Core.Machine Core.Machine_Proofs Core.DE Core.DE_Proofs Core.NM.
Import ListNotations.

(* solvers that nest the constraints inside the objective (Nelder-Mead, Powell, the abstract solver): every evaluated
   point is an output of the constraints function in force at that moment - also for constraints installed mid-run *)
Theorem C03_evaluated_points_constrained :
  forall (N : Num) (inf : T N) (C I : Type) (A : algo N C I), a_nested N C I A = true ->
  forall (ops : list (op N I)) (sc : sys N * C), Inv_cons N (fst sc) -> Inv_cons N (fst (run N inf C I A sc ops)).
Proof. exact evaluated_points_constrained. Qed.
Print Assumptions C03_evaluated_points_constrained.

(* hence with an idempotent constraints function every evaluated point satisfies the constraints *)
Theorem C03_evaluated_points_fixed :
  forall (N : Num) (inf : T N) (C I : Type) (A : algo N C I), a_nested N C I A = true ->
  forall (ops : list (op N I)) (sc : sys N * C), Inv_cons N (fst sc) ->
  Forall (fun c => (forall x, c_cons N c (c_cons N c x) = c_cons N c x) -> c_cons N c (c_x N c) = c_x N c)
         (calls N (fst (run N inf C I A sc ops))).
Proof. exact evaluated_points_fixed_by_constraints. Qed.
Print Assumptions C03_evaluated_points_fixed.

(* differential evolution applies the constraints to each trial outside the objective: same conclusion *)
Theorem C03_de_evaluated_points_constrained :
  forall (N : Num) (inf : T N) (de2 : bool) (ops : list (op N (de_in N))) (sc : sys N * de N),
  Inv_cons N (fst sc) -> Inv_cons N (fst (run N inf _ _ (de_algo N inf de2) sc ops)).
Proof. exact de_evaluated_points_constrained. Qed.
Print Assumptions C03_de_evaluated_points_constrained.

Example C03_instances : forall (N : Num) (inf : T N) t ndim npop ops1 ops2,
  Inv_cons N (fst (run N inf _ _ (nm_algo N inf) (init_sys N inf t, nm_init N inf ndim) ops1)) /\
  Inv_cons N (fst (run N inf _ _ (de_algo N inf false) (init_sys N inf t, de_init N inf npop ndim) ops2)).
Proof.
  intros. split.
  - apply evaluated_points_constrained; [reflexivity|apply init_invs].
  - apply de_evaluated_points_constrained. apply init_invs.
Qed.
