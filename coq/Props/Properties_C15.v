(* C15 - Penalty methods are zero on the feasible set and follow their formulas.
   Only statements, each closed by [exact] of a lemma proved in Pure/Penalty_Proofs.v.

   Reading guide.  A nested penalty is the list of its decorated levels (outermost first) over a plain base
   function; [p_func lg base (l :: r) x] is the value of the outermost level, [p_func lg base r x] the value of the
   function it decorates.  A level l has kind [lk l], condition [lcond l], multiplier [lmul l] (None = inf),
   growth factor [lh l], iteration counter [ln l] and stored multiplier history [ly l].
   Values: [Fin v] finite, [PInf] the documented infinite penalty, [Raises] a ZeroDivisionError of the code
   itself.  log and x**0.5 are universally quantified functions (with the two facts used about sqrt as premises).

   Full statement of the property's first clause and where it stands on the faithful model (= on /repo):
     "every penalty type returns exactly the decorated function's value wherever its condition is satisfied and
      adds a strictly positive amount wherever it is violated"
   * proved for quadratic/linear/uniform x equality/inequality (C15_zero_on_feasible, C15_positive_on_violation,
     C15_uniform_inf_on_violation) and for the Lagrange kinds with a zero multiplier history;
   * REFUTED for barrier_inequality (C15_barrier_zero_on_feasible_refuted, C15_barrier_boundary_refuted),
     for lagrange_inequality with a stored multiplier (C15_lagrange_ineq_zero_on_feasible_refuted) and for
     lagrange_equality with a stored multiplier (C15_lagrange_eq_positive_on_violation_refuted); the _partial
     theorems state what does hold.  These are documented design decisions of mystic (DESIGN F6), listed in
     known_findings.d/C15.txt. *)
From Coq Require Import List Reals.
From MV Require Import Common.Num Common.NumR Pure.Penalty Pure.Penalty_Proofs.
Import ListNotations.
Open Scope R_scope.

Notation lvl X := (level NumR X).
Notation pfun lg X := (p_func NumR lg X).
Notation "a +x b" := (xadd NumR a b) (at level 50, left associativity).
Notation FinR := (Fin NumR).
Notation InfR := (PInf NumR).
Notation cv := (CV NumR).

(* ------------------------------------------------------------------ value = documented expression, per kind *)
Theorem C15_quadratic_equality_value : forall (lg : R -> R) (X : Type) base (l : lvl X) r (x : X) k c,
  lk _ _ l = QuadEq -> lmul _ _ l = Some k -> lcond _ _ l x = cv c ->
  pfun lg X base (l :: r) x = FinR (k * lh _ _ l ^ ln _ _ l * (c * c)) +x pfun lg X base r x.
Proof. exact quadratic_equality_value. Qed.
Print Assumptions C15_quadratic_equality_value.

Theorem C15_linear_equality_value : forall (lg : R -> R) (X : Type) base (l : lvl X) r (x : X) k c,
  lk _ _ l = LinEq -> lmul _ _ l = Some k -> lcond _ _ l x = cv c ->
  pfun lg X base (l :: r) x = FinR (k * lh _ _ l ^ ln _ _ l * Rabs c) +x pfun lg X base r x.
Proof. exact linear_equality_value. Qed.
Print Assumptions C15_linear_equality_value.

Theorem C15_uniform_equality_value : forall (lg : R -> R) (X : Type) base (l : lvl X) r (x : X) k c,
  lk _ _ l = UniEq -> lmul _ _ l = Some k -> lcond _ _ l x = cv c ->
  pfun lg X base (l :: r) x = FinR (if Reqb c 0 then 0 else k * lh _ _ l ^ ln _ _ l) +x pfun lg X base r x.
Proof. exact uniform_equality_value. Qed.
Print Assumptions C15_uniform_equality_value.

Theorem C15_uniform_inequality_value : forall (lg : R -> R) (X : Type) base (l : lvl X) r (x : X) k c,
  lk _ _ l = UniIneq -> lmul _ _ l = Some k -> lcond _ _ l x = cv c ->
  pfun lg X base (l :: r) x = FinR (if Rltb 0 c then k * lh _ _ l ^ ln _ _ l else 0) +x pfun lg X base r x.
Proof. exact uniform_inequality_value. Qed.
Print Assumptions C15_uniform_inequality_value.

(* the inequality types' factor 2 *)
Theorem C15_quadratic_inequality_value : forall (lg : R -> R) (X : Type) base (l : lvl X) r (x : X) k c,
  lk _ _ l = QuadIneq -> lmul _ _ l = Some k -> lcond _ _ l x = cv c ->
  pfun lg X base (l :: r) x = FinR (2 * (k * lh _ _ l ^ ln _ _ l) * (Rmax 0 c * Rmax 0 c)) +x pfun lg X base r x.
Proof. exact quadratic_inequality_value. Qed.
Print Assumptions C15_quadratic_inequality_value.

Theorem C15_linear_inequality_value : forall (lg : R -> R) (X : Type) base (l : lvl X) r (x : X) k c,
  lk _ _ l = LinIneq -> lmul _ _ l = Some k -> lcond _ _ l x = cv c ->
  pfun lg X base (l :: r) x = FinR (2 * (k * lh _ _ l ^ ln _ _ l) * Rmax 0 c) +x pfun lg X base r x.
Proof. exact linear_inequality_value. Qed.
Print Assumptions C15_linear_inequality_value.

(* barrier: -(1/(2 k h^n)) log(-f(x)) inside, +inf where violated and on the boundary; k h^n = 0 is rejected *)
Theorem C15_barrier_value : forall (lg : R -> R) (X : Type) base (l : lvl X) r (x : X) k c,
  lk _ _ l = BarIneq -> lmul _ _ l = Some k -> lcond _ _ l x = cv c -> c < 0 -> k * lh _ _ l ^ ln _ _ l <> 0 ->
  pfun lg X base (l :: r) x = FinR (- (1 / (2 * (k * lh _ _ l ^ ln _ _ l))) * lg (- c)) +x pfun lg X base r x.
Proof. exact barrier_value_is_formula. Qed.
Print Assumptions C15_barrier_value.

Theorem C15_barrier_violation_is_inf : forall (lg : R -> R) (X : Type) base (l : lvl X) r (x : X) c,
  lk _ _ l = BarIneq -> lcond _ _ l x = cv c -> 0 < c -> pfun lg X base (l :: r) x = InfR.
Proof. exact barrier_violation_is_inf. Qed.
Print Assumptions C15_barrier_violation_is_inf.

Theorem C15_barrier_rejects_zero_multiplier : forall (lg : R -> R) (X : Type) base (l : lvl X) r (x : X) k c,
  lk _ _ l = BarIneq -> lmul _ _ l = Some k -> lcond _ _ l x = cv c -> c <= 0 -> k * lh _ _ l ^ ln _ _ l = 0 ->
  pfun lg X base (l :: r) x = Raises NumR.
Proof. exact barrier_rejects_zero_multiplier. Qed.
Print Assumptions C15_barrier_rejects_zero_multiplier.

(* Lagrange kinds: k h^n f^2 + lam f with the multiplier recurrence lam_{m+1} = lam_m + 2 k h^m f(x_m) *)
Theorem C15_lagrange_equality_value : forall (lg : R -> R) (X : Type) base (l : lvl X) r (x : X) k c,
  lk _ _ l = LagEq -> lmul _ _ l = Some k -> lcond _ _ l x = cv c -> finite_upto (ly _ _ l) (ln _ _ l) ->
  pfun lg X base (l :: r) x =
    FinR (k * lh _ _ l ^ ln _ _ l * (c * c) + lamF k (lh _ _ l) (ly _ _ l) (ln _ _ l) * c) +x pfun lg X base r x.
Proof. exact lagrange_eq_value_is_formula. Qed.
Print Assumptions C15_lagrange_equality_value.

(* k h^n m^2 + beta m, m = max(-beta/(2 k h^n), f), beta_{m+1} = beta_m + 2 k_m max(-beta_m/(2 k_m), f(x_m)) *)
Theorem C15_lagrange_inequality_value : forall (lg : R -> R) (X : Type) base (l : lvl X) r (x : X) k c,
  lk _ _ l = LagIneq -> lmul _ _ l = Some k -> lcond _ _ l x = cv c -> finite_upto (ly _ _ l) (ln _ _ l) ->
  0 < k -> 0 < lh _ _ l ->
  pfun lg X base (l :: r) x =
    FinR (lag_ineq_amount (k * lh _ _ l ^ ln _ _ l) (betaF k (lh _ _ l) (ly _ _ l) (ln _ _ l)) c) +x pfun lg X base r x.
Proof. exact lagrange_ineq_value_is_formula. Qed.
Print Assumptions C15_lagrange_inequality_value.

Theorem C15_multiplier_stays_nonnegative : forall k h ys n, 0 < k -> 0 < h -> 0 <= betaF k h ys n.
Proof. exact betaF_nonneg. Qed.
Print Assumptions C15_multiplier_stays_nonnegative.

(* ------------------------------------------------------------------ zero on the feasible set, positive off it *)
Theorem C15_zero_on_feasible : forall (lg : R -> R) (X : Type) base (l : lvl X) r (x : X) c,
  simple (lk _ _ l) -> lcond _ _ l x = cv c -> satisfied (lk _ _ l) c ->
  (lmul _ _ l <> None \/ lk _ _ l = UniEq \/ lk _ _ l = UniIneq) ->
  pfun lg X base (l :: r) x = pfun lg X base r x.
Proof. exact zero_on_feasible. Qed.
Print Assumptions C15_zero_on_feasible.

Theorem C15_positive_on_violation : forall (lg : R -> R) (X : Type) base (l : lvl X) r (x : X) k c,
  simple (lk _ _ l) -> lmul _ _ l = Some k -> lcond _ _ l x = cv c -> 0 < k -> 0 < lh _ _ l ->
  ~ satisfied (lk _ _ l) c ->
  exists a, 0 < a /\ a = simple_amount (lk _ _ l) (k * lh _ _ l ^ ln _ _ l) c /\
            pfun lg X base (l :: r) x = FinR a +x pfun lg X base r x.
Proof. exact positive_on_violation. Qed.
Print Assumptions C15_positive_on_violation.

Theorem C15_uniform_inf_on_violation : forall (lg : R -> R) (X : Type) base (l : lvl X) r (x : X) c,
  (lk _ _ l = UniEq \/ lk _ _ l = UniIneq) -> lmul _ _ l = None -> lcond _ _ l x = cv c -> 0 < lh _ _ l ->
  ~ satisfied (lk _ _ l) c -> pfun lg X base (l :: r) x = InfR +x pfun lg X base r x.
Proof. exact uniform_inf_on_violation. Qed.
Print Assumptions C15_uniform_inf_on_violation.

(* Lagrange kinds with a zero multiplier history (iteration 0, nothing stored, or zeros stored) *)
Theorem C15_lagrange_eq_zero_history : forall (lg : R -> R) (X : Type) base (l : lvl X) r (x : X) k c,
  lk _ _ l = LagEq -> lmul _ _ l = Some k -> lcond _ _ l x = cv c ->
  (forall i, (i < ln _ _ l)%nat -> stored NumR (ly _ _ l) i = Some 0) ->
  pfun lg X base (l :: r) x = FinR (k * lh _ _ l ^ ln _ _ l * (c * c)) +x pfun lg X base r x.
Proof. exact lagrange_eq_zero_history. Qed.
Print Assumptions C15_lagrange_eq_zero_history.

Theorem C15_lagrange_ineq_zero_history : forall (lg : R -> R) (X : Type) base (l : lvl X) r (x : X) k c,
  lk _ _ l = LagIneq -> lmul _ _ l = Some k -> lcond _ _ l x = cv c -> 0 < k -> 0 < lh _ _ l ->
  (forall i, (i < ln _ _ l)%nat -> stored NumR (ly _ _ l) i = Some 0) ->
  pfun lg X base (l :: r) x = FinR (k * lh _ _ l ^ ln _ _ l * (Rmax 0 c * Rmax 0 c)) +x pfun lg X base r x.
Proof. exact lagrange_ineq_zero_history. Qed.
Print Assumptions C15_lagrange_ineq_zero_history.

(* what holds for the Lagrange kinds with arbitrary finite multipliers *)
Theorem C15_lagrange_eq_zero_on_feasible : forall (lg : R -> R) (X : Type) base (l : lvl X) r (x : X) k,
  lk _ _ l = LagEq -> lmul _ _ l = Some k -> lcond _ _ l x = cv 0 -> finite_upto (ly _ _ l) (ln _ _ l) ->
  pfun lg X base (l :: r) x = pfun lg X base r x.
Proof. exact lagrange_eq_zero_on_feasible. Qed.
Print Assumptions C15_lagrange_eq_zero_on_feasible.

(* partial: missing = the case where the multiplier points against the violation (lam * f(x) < 0) *)
Theorem C15_lagrange_eq_positive_on_violation_partial : forall (lg : R -> R) (X : Type) base (l : lvl X) r (x : X) k c,
  lk _ _ l = LagEq -> lmul _ _ l = Some k -> lcond _ _ l x = cv c -> finite_upto (ly _ _ l) (ln _ _ l) ->
  0 < k -> 0 < lh _ _ l -> c <> 0 -> 0 <= lamF k (lh _ _ l) (ly _ _ l) (ln _ _ l) * c ->
  exists a, 0 < a /\ pfun lg X base (l :: r) x = FinR a +x pfun lg X base r x.
Proof. exact lagrange_eq_positive_on_violation_partial. Qed.
Print Assumptions C15_lagrange_eq_positive_on_violation_partial.

Theorem C15_lagrange_eq_positive_on_violation_refuted : forall (lg : R -> R) (X : Type) (x : X),
  exists (l : lvl X) c, lk _ _ l = LagEq /\ lcond _ _ l x = cv c /\ ~ satisfied LagEq c /\
    pfun lg X (zero_base NumR X) [l] x = FinR (- (1 / 2)).
Proof. exact lagrange_eq_positive_on_violation_refuted. Qed.
Print Assumptions C15_lagrange_eq_positive_on_violation_refuted.

Theorem C15_lagrange_ineq_positive_on_violation : forall (lg : R -> R) (X : Type) base (l : lvl X) r (x : X) k c,
  lk _ _ l = LagIneq -> lmul _ _ l = Some k -> lcond _ _ l x = cv c -> finite_upto (ly _ _ l) (ln _ _ l) ->
  0 < k -> 0 < lh _ _ l -> 0 < c ->
  exists a, 0 < a /\ pfun lg X base (l :: r) x = FinR a +x pfun lg X base r x.
Proof. exact lagrange_ineq_positive_on_violation. Qed.
Print Assumptions C15_lagrange_ineq_positive_on_violation.

(* partial: on the feasible set the added amount is never positive (missing: it is zero) *)
Theorem C15_lagrange_ineq_zero_on_feasible_partial : forall (lg : R -> R) (X : Type) base (l : lvl X) r (x : X) k c,
  lk _ _ l = LagIneq -> lmul _ _ l = Some k -> lcond _ _ l x = cv c -> finite_upto (ly _ _ l) (ln _ _ l) ->
  0 < k -> 0 < lh _ _ l -> c <= 0 ->
  exists a, a <= 0 /\ pfun lg X base (l :: r) x = FinR a +x pfun lg X base r x.
Proof. exact lagrange_ineq_zero_on_feasible_partial. Qed.
Print Assumptions C15_lagrange_ineq_zero_on_feasible_partial.

Theorem C15_lagrange_ineq_zero_on_feasible_refuted : forall (lg : R -> R) (X : Type) (x : X),
  exists (l : lvl X) c, lk _ _ l = LagIneq /\ lcond _ _ l x = cv c /\ satisfied LagIneq c /\
    pfun lg X (zero_base NumR X) [l] x = FinR (- (1 / 2)).
Proof. exact lagrange_ineq_zero_on_feasible_refuted. Qed.
Print Assumptions C15_lagrange_ineq_zero_on_feasible_refuted.

(* barrier: refuted on the interior (wherever log(-f(x)) <> 0) and on the boundary; partial: zero where log(-f(x)) = 0 *)
Theorem C15_barrier_zero_on_feasible_refuted : forall (lg : R -> R) (X : Type) (x : X) (a : R),
  0 < a -> lg a <> 0 ->
  exists (l : lvl X) c, lk _ _ l = BarIneq /\ lcond _ _ l x = cv c /\ satisfied BarIneq c /\
    pfun lg X (zero_base NumR X) [l] x <> zero_base NumR X x.
Proof. exact barrier_zero_on_feasible_refuted. Qed.
Print Assumptions C15_barrier_zero_on_feasible_refuted.

Theorem C15_barrier_boundary_refuted : forall (lg : R -> R) (X : Type) (x : X),
  exists (l : lvl X), lk _ _ l = BarIneq /\ lcond _ _ l x = cv 0 /\ satisfied BarIneq 0 /\
    pfun lg X (zero_base NumR X) [l] x = InfR.
Proof. exact barrier_boundary_refuted. Qed.
Print Assumptions C15_barrier_boundary_refuted.

Theorem C15_barrier_zero_on_feasible_partial : forall (lg : R -> R) (X : Type) base (l : lvl X) r (x : X) k c,
  lk _ _ l = BarIneq -> lmul _ _ l = Some k -> lcond _ _ l x = cv c -> c < 0 -> k * lh _ _ l ^ ln _ _ l <> 0 ->
  lg (- c) = 0 -> pfun lg X base (l :: r) x = pfun lg X base r x.
Proof. exact barrier_zero_on_feasible_partial. Qed.
Print Assumptions C15_barrier_zero_on_feasible_partial.

(* ------------------------------------------------------------------ error(x) is the violation magnitude *)
Theorem C15_error_is_violation : forall (sqrt : R -> R) (X : Type),
  (forall a, 0 <= a -> sqrt a * sqrt a = a) -> (forall a, 0 <= a -> 0 <= sqrt a) ->
  forall (l : lvl X) (x : X) c, lcond _ _ l x = cv c ->
  p_error NumR sqrt X [l] x = Some (Rabs (if is_ineq (lk _ _ l) then Rmax 0 c else c)).
Proof. exact error_is_violation. Qed.
Print Assumptions C15_error_is_violation.

Theorem C15_error_sq_is_sum_of_squared_violations : forall (sqrt : R -> R) (X : Type),
  (forall a, 0 <= a -> sqrt a * sqrt a = a) -> (forall a, 0 <= a -> 0 <= sqrt a) ->
  forall (p : list (lvl X)) (x : X), p <> [] -> Forall (fun l => exists c, lcond _ _ l x = cv c) p ->
  exists e, p_error NumR sqrt X p x = Some e /\ 0 <= e /\ e * e = viol_sumsq X p x.
Proof. exact error_sq_is_sum_of_squared_violations. Qed.
Print Assumptions C15_error_sq_is_sum_of_squared_violations.

Theorem C15_error_inf : forall (sqrt : R -> R) (X : Type) (p : list (lvl X)) (x : X),
  Exists (fun l => forall c, lcond _ _ l x <> cv c) p -> p_error NumR sqrt X p x = None.
Proof. exact error_inf. Qed.
Print Assumptions C15_error_inf.

(* ------------------------------------------------------------------ iter / clear / store through nested penalties *)
Theorem C15_iter_advances_all_levels : forall (X : Type) (p : pen NumR X),
  map (ln _ _) (p_iter NumR X None p) = map (fun l => S (ln _ _ l)) p.
Proof. exact iter_advances_all_levels. Qed.
Print Assumptions C15_iter_advances_all_levels.

Theorem C15_iter_sets_all_levels : forall (X : Type) (p : pen NumR X) (i : nat),
  map (ln _ _) (p_iter NumR X (Some i) p) = map (fun _ => i) p.
Proof. exact iter_sets_all_levels. Qed.
Print Assumptions C15_iter_sets_all_levels.

Theorem C15_iter_touches_nothing_else : forall (X : Type) (p : pen NumR X) (i : option nat),
  Forall2 (fun a b => same_params X a b /\ ly _ _ a = ly _ _ b) (p_iter NumR X i p) p.
Proof. exact iter_touches_nothing_else. Qed.
Print Assumptions C15_iter_touches_nothing_else.

Theorem C15_clear_resets_all_levels : forall (X : Type) (p : pen NumR X),
  Forall (fun l => ln _ _ l = 0%nat /\ ly _ _ l = []) (p_clear NumR X p) /\
  Forall2 (same_params X) (p_clear NumR X p) p.
Proof. exact clear_resets_all_levels. Qed.
Print Assumptions C15_clear_resets_all_levels.

Theorem C15_store_touches_only_lagrange_history : forall (X : Type) (p : pen NumR X) (x : X) i,
  Forall2 (fun a b => same_params X a b /\ ln _ _ a = ln _ _ b /\
                      (is_lagrange (lk _ _ b) = false -> ly _ _ a = ly _ _ b)) (p_store NumR X x i p) p.
Proof. exact store_touches_only_lagrange_history. Qed.
Print Assumptions C15_store_touches_only_lagrange_history.

Theorem C15_store_records : forall (X : Type) (l : lvl X) r (x : X) (i : option nat),
  is_lagrange (lk _ _ l) = true ->
  let j := match i with None => ln _ _ l | Some j => j end in
  exists l' r', p_store NumR X x i (l :: r) = l' :: r' /\ r' = p_store NumR X x (Some j) r /\
    stored NumR (ly _ _ l') j = yval NumR (lcond _ _ l x) /\
    forall j', j' <> j -> stored NumR (ly _ _ l') j' = stored NumR (ly _ _ l) j'.
Proof. exact store_records. Qed.
Print Assumptions C15_store_records.

Theorem C15_handle_leaves_outer_levels_untouched : forall (X : Type) (f : pen NumR X -> pen NumR X) (p : pen NumR X) lvl,
  (lvl <= length p)%nat ->
  firstn lvl (at_level NumR X lvl f p) = firstn lvl p /\ skipn lvl (at_level NumR X lvl f p) = f (skipn lvl p).
Proof. exact at_level_outer_untouched. Qed.
Print Assumptions C15_handle_leaves_outer_levels_untouched.

Theorem C15_scripts_preserve_params : forall (X : Type) (ops : list (op X)) (p : pen NumR X),
  Forall2 (same_params X) (run NumR X ops p) p.
Proof. exact run_preserves_params. Qed.
Print Assumptions C15_scripts_preserve_params.

Theorem C15_iter_m_times : forall (X : Type) (m : nat) (p : pen NumR X),
  map (ln _ _) (run NumR X (repeat (OpIter X 0 None) m) p) = map (fun l => (ln _ _ l + m)%nat) p.
Proof. exact iter_m_times. Qed.
Print Assumptions C15_iter_m_times.

(* "h raised to the current iteration": after iter() / iter(i) the formula holds with the new counter *)
Theorem C15_iter_then_value : forall (lg : R -> R) (X : Type) base (l : lvl X) r (x : X) k c (i : option nat),
  simple (lk _ _ l) -> lmul _ _ l = Some k -> lcond _ _ l x = cv c ->
  pfun lg X base (p_iter NumR X i (l :: r)) x =
    FinR (simple_amount (lk _ _ l) (k * lh _ _ l ^ (match i with None => S (ln _ _ l) | Some j => j end)) c)
    +x pfun lg X base (p_iter NumR X i r) x.
Proof. exact iter_then_value. Qed.
Print Assumptions C15_iter_then_value.

Theorem C15_clear_after_any_script : forall (X : Type) (ops : list (op X)) (p : pen NumR X),
  Forall (fun l => ln _ _ l = 0%nat /\ ly _ _ l = []) (run NumR X (ops ++ [OpClear X 0]) p).
Proof. exact clear_after_any_script. Qed.
Print Assumptions C15_clear_after_any_script.

(* ------------------------------------------------------------------ stacked penalties add *)
Theorem C15_stacked_add : forall (lg : R -> R) (X : Type) base (p : pen NumR X) (x : X) b amts,
  base x = FinR b -> Forall2 (contributes lg X x) p amts ->
  pfun lg X base p x = FinR (fold_right Rplus b amts).
Proof. exact stacked_add. Qed.
Print Assumptions C15_stacked_add.

Theorem C15_total_is_base_plus_added : forall (lg : R -> R) (X : Type) base (p : pen NumR X) (x : X) b amts,
  base x = FinR b -> Forall2 (contributes lg X x) p amts ->
  exists a, p_added NumR lg X p x = FinR a /\ pfun lg X base p x = FinR (a + b).
Proof. exact total_is_base_plus_added. Qed.
Print Assumptions C15_total_is_base_plus_added.

Theorem C15_additive_adds : forall (X : Type) (penalty f : X -> xval NumR) (x : X) u v,
  f x = FinR u -> penalty x = FinR v -> additive NumR X penalty f x = FinR (u + v).
Proof. exact additive_adds. Qed.
Print Assumptions C15_additive_adds.

Theorem C15_and_value : forall (lg : R -> R) (X : Type) (members : list (X -> xval NumR)) (vals : list R) (x : X) n ys,
  Forall2 (fun m v => m x = FinR v) members vals ->
  forall l, pen_and NumR X members None None None = [l] ->
  pfun lg X (zero_base NumR X) [mkLevel NumR X (lk _ _ l) (lcond _ _ l) (lmul _ _ l) (lh _ _ l) n ys] x
    = FinR (1 * 5 ^ n * Rabs (sumR vals) + 0).
Proof. exact and_value_is_formula. Qed.
Print Assumptions C15_and_value.

(* ------------------------------------------------------------------ a condition that divides by zero *)
Theorem C15_div_by_zero_gives_inf : forall (lg : R -> R) (X : Type) base (l : lvl X) r (x : X),
  lcond _ _ l x = CZeroDiv NumR -> pfun lg X base (l :: r) x = InfR.
Proof. exact div_by_zero_gives_inf. Qed.
Print Assumptions C15_div_by_zero_gives_inf.

Theorem C15_div_by_zero_any_depth : forall (lg : R -> R) (X : Type) base (outer : pen NumR X) (l : lvl X) r (x : X),
  Forall (in_scope X x) outer -> lcond _ _ l x = CZeroDiv NumR ->
  pfun lg X base (outer ++ l :: r) x = InfR.
Proof. exact div_by_zero_any_depth. Qed.
Print Assumptions C15_div_by_zero_any_depth.

(* ------------------------------------------------------------------ constraints.as_penalty *)
Theorem C15_as_penalty_value : forall (lg sqrt : R -> R), (forall a, 0 <= a -> sqrt a * sqrt a = a) ->
  forall (constraint : list R -> list R) (x : list R) (n : nat) ys,
  length (constraint x) = length x ->
  forall l, as_penalty NumR sqrt constraint None None None = [l] ->
  pfun lg (list R) (zero_base NumR (list R)) [mkLevel NumR (list R) (lk _ _ l) (lcond _ _ l) (lmul _ _ l) (lh _ _ l) n ys] x
    = FinR (100 * 5 ^ n * sqdistR (constraint x) x + 0).
Proof. exact as_penalty_value_is_formula. Qed.
Print Assumptions C15_as_penalty_value.

Theorem C15_as_penalty_zero_iff_fixed_point : forall (constraint : list R -> list R) (x : list R) (n : nat),
  length (constraint x) = length x ->
  (100 * 5 ^ n * sqdistR (constraint x) x + 0 = 0 <-> constraint x = x) /\
  (constraint x <> x -> 0 < 100 * 5 ^ n * sqdistR (constraint x) x + 0).
Proof. exact as_penalty_zero_iff_fixed_point. Qed.
Print Assumptions C15_as_penalty_zero_iff_fixed_point.

(* ------------------------------------------------------------------ non-vacuity *)
(* the hypotheses of the theorems above are met by concrete, non-trivial instances:
   - a 3-level nest (quadratic_equality over lagrange_inequality over barrier_inequality), every level in scope,
     with finite multiplier histories, contributing finite amounts;
   - sqrt hypotheses: satisfied by the standard library's R_sqrt.sqrt;
   - a violated and a satisfied condition for the simple kinds. *)
Example C15_nonvacuous_sqrt :
  (forall a, 0 <= a -> R_sqrt.sqrt a * R_sqrt.sqrt a = a) /\ (forall a, 0 <= a -> 0 <= R_sqrt.sqrt a).
Proof. split; intros a Ha; [apply R_sqrt.sqrt_sqrt; exact Ha | apply R_sqrt.sqrt_pos]. Qed.

Example C15_nonvacuous_scope :
  let l1 : lvl nat := mkLevel NumR nat QuadEq (fun _ => cv 3) (Some 2) 5 1 [] in
  let l2 : lvl nat := mkLevel NumR nat LagIneq (fun _ => cv (-1)) (Some 20) 5 2 [Some 1; Some 0] in
  let l3 : lvl nat := mkLevel NumR nat BarIneq (fun _ => cv (-2)) (Some 100) 5 0 [] in
  Forall (in_scope nat 0%nat) [l1; l2; l3] /\ simple (lk _ _ l1) /\ ~ satisfied (lk _ _ l1) 3 /\
  satisfied (lk _ _ l2) (-1) /\ finite_upto (ly _ _ l2) (ln _ _ l2).
Proof. exact nonvacuous_scope. Qed.
