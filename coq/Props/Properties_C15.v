(* C15 - stub, replaced below *)
From MV Require Import Common.Num Pure.Penalty.
Theorem C15_stub : True. Proof. exact I. Qed.
Print Assumptions C15_stub.
