From Coq Require Import List Arith Reals.
From MV Require Import Common.Num Common.NumR Pure.Measures Pure.Measures_Proofs.
Theorem C18_placeholder : True. Proof. exact placeholder_c18. Qed.
Print Assumptions C18_placeholder.
