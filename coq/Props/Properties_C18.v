(* C18 - Moment-imposing transforms hit their target and keep what they promise to keep; the statistics, norms and
   metrics equal their textbook definitions.
   Only statements, each closed by [exact] of a lemma proved in Pure/Measures_Proofs.v (reals, NumR instance of the
   model in Pure/Measures.v) or Pure/Measures_Refuted.v (exact-rational runs of the model).

   Reading guide.  [W : option (list R)] is the Python [weights] argument ([None] = unweighted);
   [wl x W] are the weights actually used (unit weights for [None]); [wf x W] says that the statistic is defined:
   as many weights as samples and a non-zero total weight (for [None]: at least one sample).  [None] as a RESULT
   stands for "no finite answer" (the code raises, or returns nan/inf): those branches are stated explicitly.
   [Mu x w] = sum x_i w_i / sum w_i, [CM k x w] = sum w_i (x_i - Mu)^k / sum w_i, [Rsum] = sum of a list.
   sqrt is not axiomatised: it is a parameter [sqrtf] of the model, and the theorems that need it carry the
   facts used about it as premises.

   NOT covered by theorems (oracle-only, see harness/props/c18.py): general p-norms, minkowski, impose_moment,
   weighted median, mad and the trimmed statistics with their impose_* forms (the unweighted median and impose_median
   are modelled in Pure/Median.v: [median_u], [impose_median_u]). *)
From Coq Require Import List Arith ZArith Reals.
From MV Require Import Common.Num Common.NumR Common.C18_Sums Pure.Measures Pure.Measures_Proofs Pure.Measures_Refuted Pure.Median Pure.Median_Proofs.
Import ListNotations.
Open Scope R_scope.

(* ------------------------------------------------------------------ definitions are textbook *)
Theorem C18_mean_textbook : forall x W, wf x W -> mean NumR x W = Some (Mu x (wl x W)).
Proof. exact mean_textbook. Qed.
Print Assumptions C18_mean_textbook.

Theorem C18_mean_weighted_sum : forall x w,
  length x = length w -> Rsum w <> 0 -> mean NumR x (Some w) = Some (dotR x w / Rsum w).
Proof. exact mean_weighted_sum. Qed.
Print Assumptions C18_mean_weighted_sum.

Theorem C18_mean_unweighted : forall x, x <> [] -> mean NumR x None = Some (Rsum x / INR (length x)).
Proof. exact mean_unweighted. Qed.
Print Assumptions C18_mean_unweighted.

Theorem C18_mean_undefined_zero_weight : forall x w, Rsum w = 0 -> mean NumR x (Some w) = None.
Proof. exact mean_undefined_zero_weight. Qed.
Print Assumptions C18_mean_undefined_zero_weight.

Theorem C18_moment_textbook : forall x W k, wf x W -> (2 <= k)%nat -> moment NumR x W k = Some (CM k x (wl x W)).
Proof. exact moment_textbook. Qed.
Print Assumptions C18_moment_textbook.

Theorem C18_variance_textbook : forall x W, wf x W -> variance NumR x W = Some (CM 2 x (wl x W)).
Proof. exact variance_textbook. Qed.
Print Assumptions C18_variance_textbook.

Theorem C18_spread_textbook : forall l r, spread NumR l = Some r ->
  exists hi lo, In hi l /\ In lo l /\ (forall y, In y l -> lo <= y <= hi) /\ r = hi - lo.
Proof. exact spread_textbook. Qed.
Print Assumptions C18_spread_textbook.

Theorem C18_expectation_textbook : forall (A : Type) (f : A -> R) (x : list A) (w : list R),
  length x = length w -> Rsum w <> 0 ->
  expectation NumR f x (Some w) 0 = Some (wsum f x w / Rsum w).
Proof. exact @expectation_textbook. Qed.
Print Assumptions C18_expectation_textbook.

Theorem C18_expectation_unweighted : forall (A : Type) (f : A -> R) (x : list A) tol,
  x <> [] -> expectation NumR f x None tol = Some (Rsum (map f x) / INR (length x)).
Proof. exact @expectation_unweighted. Qed.
Print Assumptions C18_expectation_unweighted.

Theorem C18_expectation_undefined : forall (A : Type) (f : A -> R) (x : list A) (w : list R),
  Forall (fun t => t = 0) w -> expectation NumR f x (Some w) 0 = None.
Proof. exact @expectation_undefined. Qed.
Print Assumptions C18_expectation_undefined.

(* ------------------------------------------------------------------ ess_* ignore zero-weight points *)
Theorem C18_ess_minimum_spec : forall (A : Type) (f : A -> R) (x : list A) (w : list R) r,
  ess_minimum NumR f x (Some w) 0 = Some r ->
  (exists p, In p (combine x w) /\ 0 < snd p /\ r = f (fst p)) /\
  (forall p, In p (combine x w) -> 0 < snd p -> r <= f (fst p)).
Proof. exact @ess_minimum_spec. Qed.
Print Assumptions C18_ess_minimum_spec.

Theorem C18_ess_maximum_spec : forall (A : Type) (f : A -> R) (x : list A) (w : list R) r,
  ess_maximum NumR f x (Some w) 0 = Some r ->
  (exists p, In p (combine x w) /\ 0 < snd p /\ r = f (fst p)) /\
  (forall p, In p (combine x w) -> 0 < snd p -> f (fst p) <= r).
Proof. exact @ess_maximum_spec. Qed.
Print Assumptions C18_ess_maximum_spec.

Theorem C18_ess_ptp_spec : forall (A : Type) (f : A -> R) (x : list A) (w : list R) r,
  ess_ptp NumR f x (Some w) 0 = Some r ->
  exists hi lo, ess_maximum NumR f x (Some w) 0 = Some hi /\ ess_minimum NumR f x (Some w) 0 = Some lo /\ r = hi - lo.
Proof. exact @ess_ptp_spec. Qed.
Print Assumptions C18_ess_ptp_spec.

Theorem C18_ess_minimum_defined : forall (A : Type) (f : A -> R) (x : list A) (w : list R),
  ess_minimum NumR f x (Some w) 0 = None <-> (forall p, In p (combine x w) -> ~ 0 < snd p).
Proof. exact @ess_minimum_defined. Qed.
Print Assumptions C18_ess_minimum_defined.

Theorem C18_ess_ignores_zero_weight : forall (A : Type) (f : A -> R) (x1 x2 : list A) (w1 w2 : list R) (a : A),
  length x1 = length w1 ->
  values NumR f (x1 ++ a :: x2) (Some (w1 ++ 0 :: w2)) 0 = values NumR f (x1 ++ x2) (Some (w1 ++ w2)) 0.
Proof. exact @ess_ignores_zero_weight. Qed.
Print Assumptions C18_ess_ignores_zero_weight.

(* ------------------------------------------------------------------ impose_mean *)
Theorem C18_impose_mean_hits : forall m x W, wf x W ->
  exists y, impose_mean NumR m x W = Some y /\ length y = length x /\ mean NumR y W = Some m.
Proof. exact impose_mean_hits. Qed.
Print Assumptions C18_impose_mean_hits.

Theorem C18_impose_mean_keeps_spread : forall m x W, wf x W ->
  exists y, impose_mean NumR m x W = Some y /\ spread NumR y = spread NumR x.
Proof. exact impose_mean_keeps_spread. Qed.
Print Assumptions C18_impose_mean_keeps_spread.

Theorem C18_impose_mean_keeps_variance : forall m x W, wf x W ->
  exists y, impose_mean NumR m x W = Some y /\ variance NumR y W = variance NumR x W.
Proof. exact impose_mean_keeps_variance. Qed.
Print Assumptions C18_impose_mean_keeps_variance.

Theorem C18_impose_mean_keeps_moments : forall m x W k, wf x W ->
  exists y, impose_mean NumR m x W = Some y /\ moment NumR y W k = moment NumR x W k.
Proof. exact impose_mean_keeps_moments. Qed.
Print Assumptions C18_impose_mean_keeps_moments.

Theorem C18_impose_mean_undefined : forall m x W, mean NumR x W = None -> impose_mean NumR m x W = None.
Proof. exact impose_mean_undefined. Qed.
Print Assumptions C18_impose_mean_undefined.

(* ------------------------------------------------------------------ impose_variance / impose_std / impose_spread *)
Theorem C18_impose_variance_hits : forall sqrtf : R -> R,
  (forall a, 0 <= a -> sqrtf a * sqrtf a = a) ->
  forall v x W sv, wf x W -> variance NumR x W = Some sv -> 0 < sv -> 0 <= v ->
  exists y, impose_variance NumR sqrtf v x W = Some y /\ length y = length x /\
            variance NumR y W = Some v /\ mean NumR y W = mean NumR x W.
Proof. exact impose_variance_hits. Qed.
Print Assumptions C18_impose_variance_hits.

Theorem C18_impose_std_hits : forall sqrtf : R -> R,
  (forall a, 0 <= a -> sqrtf a * sqrtf a = a) -> (forall a, 0 <= a -> 0 <= sqrtf a) ->
  forall s x W sv, wf x W -> variance NumR x W = Some sv -> 0 < sv -> 0 <= s ->
  exists y, impose_std NumR sqrtf s x W = Some y /\ length y = length x /\
            std NumR sqrtf y W = Some s /\ variance NumR y W = Some (s * s) /\
            mean NumR y W = mean NumR x W.
Proof. exact impose_std_hits. Qed.
Print Assumptions C18_impose_std_hits.

Theorem C18_impose_variance_degenerate : forall (sqrtf : R -> R) v x W, wf x W -> variance NumR x W = Some 0 ->
  impose_variance NumR sqrtf v x W = (if Req_EM_T v 0 then Some x else None).
Proof. exact impose_variance_degenerate. Qed.
Print Assumptions C18_impose_variance_degenerate.

Theorem C18_impose_variance_negative : forall (sqrtf : R -> R) v x W sv,
  wf x W -> variance NumR x W = Some sv -> 0 < sv -> v < 0 -> impose_variance NumR sqrtf v x W = None.
Proof. exact impose_variance_negative. Qed.
Print Assumptions C18_impose_variance_negative.

Theorem C18_impose_spread_hits : forall r x W sr, wf x W -> spread NumR x = Some sr -> sr <> 0 -> 0 <= r ->
  exists y, impose_spread NumR r x W = Some y /\ length y = length x /\
            spread NumR y = Some r /\ mean NumR y W = mean NumR x W.
Proof. exact impose_spread_hits. Qed.
Print Assumptions C18_impose_spread_hits.

Theorem C18_impose_spread_degenerate : forall r x W, wf x W -> spread NumR x = Some 0 -> impose_spread NumR r x W = None.
Proof. exact impose_spread_degenerate. Qed.
Print Assumptions C18_impose_spread_degenerate.

(* ------------------------------------------------------------------ normalize / impose_sum / impose_weight_norm *)
Theorem C18_normalize_hits : forall w mass zs zm, Rsum w <> 0 -> (mass <> 0 \/ zs = false) ->
  exists r, normalize NumR w mass zs zm = Some r /\ length r = length w /\ Rsum r = mass.
Proof. exact normalize_hits. Qed.
Print Assumptions C18_normalize_hits.

Theorem C18_impose_sum_hits : forall w mass zs zm, Rsum w <> 0 -> (mass <> 0 \/ zs = false) ->
  exists r, impose_sum NumR mass w zs zm = Some r /\ length r = length w /\ Rsum r = mass.
Proof. exact impose_sum_hits. Qed.
Print Assumptions C18_impose_sum_hits.

Theorem C18_normalize_zsum_hits : forall w zm, Rsum (map Rabs w) <> 0 ->
  exists r, normalize NumR w 0 true zm = Some r /\ length r = length w /\ Rsum r = 0.
Proof. exact normalize_zsum_hits. Qed.
Print Assumptions C18_normalize_zsum_hits.

Theorem C18_normalize_degenerate : forall w mass zm, Rsum (map Rabs w) = 0 \/ Rsum w = 0 ->
  normalize NumR w mass false zm = Some (zeros NumR w).
Proof. exact normalize_degenerate. Qed.
Print Assumptions C18_normalize_degenerate.

Theorem C18_impose_weight_norm_hits : forall x w mass, length x = length w -> Rsum w <> 0 -> mass <> 0 ->
  exists y wts, impose_weight_norm NumR x w mass = Some (y, wts) /\
                Rsum wts = mass /\ mean NumR y (Some wts) = mean NumR x (Some w).
Proof. exact impose_weight_norm_hits. Qed.
Print Assumptions C18_impose_weight_norm_hits.

(* ------------------------------------------------------------------ impose_support / impose_unweighted *)
Theorem C18_impose_support_spec : forall index x w,
  length x = length w -> Rsum w <> 0 -> Rsum (keep_weights NumR index w) <> 0 ->
  exists y wts c,
    impose_support NumR index x w = Some (y, wts) /\ c <> 0 /\ length wts = length w /\ length y = length x /\
    (forall i, (i < length w)%nat ->
       nth i wts 0 = if designated index (length w) i then nth i w 0 * c else 0) /\
    Rsum wts = Rsum w /\ mean NumR y (Some wts) = mean NumR x (Some w).
Proof. exact impose_support_spec. Qed.
Print Assumptions C18_impose_support_spec.

Theorem C18_impose_support_zeroes_exactly : forall index x w,
  length x = length w -> Rsum w <> 0 -> Rsum (keep_weights NumR index w) <> 0 ->
  exists y wts, impose_support NumR index x w = Some (y, wts) /\
    forall i, (i < length w)%nat ->
      (nth i wts 0 = 0 <-> (designated index (length w) i = false \/ nth i w 0 = 0)).
Proof. exact impose_support_zeroes_exactly. Qed.
Print Assumptions C18_impose_support_zeroes_exactly.

Theorem C18_impose_support_undefined : forall index x w,
  Rsum w <> 0 -> Rsum (keep_weights NumR index w) = 0 -> impose_support NumR index x w = None.
Proof. exact impose_support_undefined. Qed.
Print Assumptions C18_impose_support_undefined.

Theorem C18_impose_unweighted_spec : forall ix x w nullable,
  length x = length w -> Rsum w <> 0 -> Rsum (drop_weights NumR (Some ix) w) <> 0 ->
  exists y wts c,
    impose_unweighted NumR (Some ix) x w nullable = Some (y, wts) /\ c <> 0 /\ length wts = length w /\
    length y = length x /\
    (forall i, (i < length w)%nat ->
       nth i wts 0 = if in_index (length w) ix i then 0 else nth i w 0 * c) /\
    Rsum wts = Rsum w /\ mean NumR y (Some wts) = mean NumR x (Some w).
Proof. exact impose_unweighted_spec. Qed.
Print Assumptions C18_impose_unweighted_spec.

Theorem C18_impose_unweighted_zeroes_exactly : forall ix x w nullable,
  length x = length w -> Rsum w <> 0 -> Rsum (drop_weights NumR (Some ix) w) <> 0 ->
  exists y wts, impose_unweighted NumR (Some ix) x w nullable = Some (y, wts) /\
    forall i, (i < length w)%nat ->
      (nth i wts 0 = 0 <-> (in_index (length w) ix i = true \/ nth i w 0 = 0)).
Proof. exact impose_unweighted_zeroes_exactly. Qed.
Print Assumptions C18_impose_unweighted_zeroes_exactly.

(* ------------------------------------------------------------------ impose_collapse *)
Theorem C18_impose_collapse_keeps_mean : forall pairs x w y wts,
  length x = length w -> impose_collapse NumR pairs x w = Some (y, wts) ->
  length wts = length w /\ length y = length x /\ mean NumR y (Some wts) = mean NumR x (Some w).
Proof. exact impose_collapse_keeps_mean. Qed.
Print Assumptions C18_impose_collapse_keeps_mean.

(* the dict returned by tools.connected (as repaired in /repo): keys are unique, no key is a member of any group
   (in particular not of its own), and groups with different keys share no member *)
Theorem C18_connected_groups_disjoint : forall ps,
  NoDup (map fst (connected ps)) /\
  (forall e e', In e (connected ps) -> In e' (connected ps) -> ~ In (fst e) (snd e')) /\
  (forall e e', In e (connected ps) -> In e' (connected ps) -> fst e <> fst e' ->
     forall a, In a (snd e) -> ~ In a (snd e')).
Proof. exact connected_groups_disjoint. Qed.
Print Assumptions C18_connected_groups_disjoint.

(* FULL: for every pair selection (self pairs, symmetric/repeated pairs, cycles, chains) the total weight is kept *)
Theorem C18_impose_collapse_keeps_total : forall pairs x w y wts,
  length x = length w -> impose_collapse NumR pairs x w = Some (y, wts) -> Rsum wts = Rsum w.
Proof. exact impose_collapse_keeps_total. Qed.
Print Assumptions C18_impose_collapse_keeps_total.

(* FULL: for every pair selection, every member of every group ends with weight exactly 0 *)
Theorem C18_impose_collapse_zeroes_members : forall pairs ps x w y wts,
  all_some (map (pair_index (length w)) pairs) = Some ps ->
  impose_collapse NumR pairs x w = Some (y, wts) ->
  forall e k, In e (connected ps) -> In k (snd e) -> nth k wts 0 = 0.
Proof. exact impose_collapse_zeroes_members. Qed.
Print Assumptions C18_impose_collapse_zeroes_members.

Theorem C18_impose_collapse_out_of_range : forall pairs ps x w,
  all_some (map (pair_index (length w)) pairs) = Some ps ->
  in_range (length w) (connected ps) = false -> impose_collapse NumR pairs x w = None.
Proof. exact impose_collapse_out_of_range. Qed.
Print Assumptions C18_impose_collapse_out_of_range.

(* ------------------------------------------------------------------ norms and point-to-point metrics *)
Theorem C18_Lnorm1_textbook : forall w, Lnorm1 NumR w = Rsum (map Rabs w).
Proof. exact Lnorm1_textbook. Qed.
Print Assumptions C18_Lnorm1_textbook.

Theorem C18_Lnorm0_textbook : forall w, Lnorm0 NumR w = INR (length (filter (fun a => negb (Reqb a 0)) w)).
Proof. exact Lnorm0_textbook. Qed.
Print Assumptions C18_Lnorm0_textbook.

Theorem C18_LnormInf_textbook : forall w M, LnormInf NumR w = Some M ->
  (exists a, In a w /\ M = Rabs a) /\ (forall a, In a w -> Rabs a <= M).
Proof. exact LnormInf_textbook. Qed.
Print Assumptions C18_LnormInf_textbook.

Theorem C18_LnormInf_defined : forall w, LnormInf NumR w = None <-> w = [].
Proof. exact LnormInf_defined. Qed.
Print Assumptions C18_LnormInf_defined.

Theorem C18_Lnorm2_squared : forall sqrtf : R -> R, (forall a, 0 <= a -> sqrtf a * sqrtf a = a) ->
  forall w, Lnorm2 NumR sqrtf w * Lnorm2 NumR sqrtf w = Rsum (map (fun a => a * a) w).
Proof. exact Lnorm2_squared. Qed.
Print Assumptions C18_Lnorm2_squared.

Theorem C18_manhattan_textbook : forall x y,
  manhattan_d NumR (absdiff_pair NumR x y) = Rsum (map (fun p => Rabs (fst p - snd p)) (combine x y)).
Proof. exact manhattan_textbook. Qed.
Print Assumptions C18_manhattan_textbook.

Theorem C18_hamming_textbook : forall x y,
  hamming_d NumR (absdiff_pair NumR x y)
  = INR (length (filter (fun p => negb (Reqb (fst p) (snd p))) (combine x y))).
Proof. exact hamming_textbook. Qed.
Print Assumptions C18_hamming_textbook.

Theorem C18_chebyshev_textbook : forall x y M, chebyshev_d NumR (absdiff_pair NumR x y) = Some M ->
  (exists p, In p (combine x y) /\ M = Rabs (fst p - snd p)) /\
  (forall p, In p (combine x y) -> Rabs (fst p - snd p) <= M).
Proof. exact chebyshev_textbook. Qed.
Print Assumptions C18_chebyshev_textbook.

Theorem C18_euclidean_squared : forall sqrtf : R -> R, (forall a, 0 <= a -> sqrtf a * sqrtf a = a) ->
  forall x y,
  euclidean_d NumR sqrtf (absdiff_pair NumR x y) * euclidean_d NumR sqrtf (absdiff_pair NumR x y)
  = Rsum (map (fun p => (fst p - snd p) * (fst p - snd p)) (combine x y)).
Proof. exact euclidean_squared. Qed.
Print Assumptions C18_euclidean_squared.

(* ------------------------------------------------------------------ further clauses *)
(* Python index semantics used by impose_support / impose_unweighted *)
Theorem C18_in_index_spec : forall n ix i,
  in_index n ix i = true <->
  exists z, In z ix /\ ((0 <= z)%Z /\ Z.to_nat z = i \/ (z < 0)%Z /\ (0 <= Z.of_nat n + z)%Z /\ Z.to_nat (Z.of_nat n + z) = i).
Proof. exact in_index_spec. Qed.
Print Assumptions C18_in_index_spec.

Theorem C18_impose_unweighted_none : forall x w nullable, Rsum w <> 0 ->
  impose_unweighted NumR None x w nullable = impose_support NumR None x w.
Proof. exact impose_unweighted_none. Qed.
Print Assumptions C18_impose_unweighted_none.

(* nullable=False and no weight left outside [index]: the other positions share the old total equally *)
Theorem C18_impose_unweighted_refilled_spec : forall ix x w,
  length x = length w -> Rsum w <> 0 -> Rsum (drop_weights NumR (Some ix) w) = 0 ->
  Rsum (ones_outside NumR (Some ix) w) <> 0 ->
  exists y wts c,
    impose_unweighted NumR (Some ix) x w false = Some (y, wts) /\ c <> 0 /\ length wts = length w /\
    length y = length x /\
    (forall i, (i < length w)%nat -> nth i wts 0 = if in_index (length w) ix i then 0 else c) /\
    Rsum wts = Rsum w /\ mean NumR y (Some wts) = mean NumR x (Some w).
Proof. exact impose_unweighted_refilled_spec. Qed.
Print Assumptions C18_impose_unweighted_refilled_spec.

Theorem C18_normalize_l1_hits : forall w, Rsum (map Rabs w) <> 0 -> Rsum (map Rabs (normalize_l1 NumR w)) = 1.
Proof. exact normalize_l1_hits. Qed.
Print Assumptions C18_normalize_l1_hits.

Theorem C18_normalize_l2_hits : forall sqrtf : R -> R, (forall a, 0 <= a -> sqrtf a * sqrtf a = a) ->
  forall w, Lnorm2 NumR sqrtf w <> 0 -> Rsum (map (fun t => t * t) (normalize_l2 NumR sqrtf w)) = 1.
Proof. exact normalize_l2_hits. Qed.
Print Assumptions C18_normalize_l2_hits.

(* pair=False: the metric ranges over all |x_i - x'_j| *)
Theorem C18_chebyshev_all_textbook : forall x y M, chebyshev_d NumR (absdiff_all NumR x y) = Some M ->
  (exists a b, In a x /\ In b y /\ M = Rabs (a - b)) /\
  (forall a b, In a x -> In b y -> Rabs (a - b) <= M).
Proof. exact chebyshev_all_textbook. Qed.
Print Assumptions C18_chebyshev_all_textbook.

(* the basic promise of impose_collapse for one proper pair (i,j): the weight of j moves onto i, nothing else changes *)
Theorem C18_impose_collapse_single_pair : forall i j x w y wts,
  i <> j -> (i < length w)%nat -> (j < length w)%nat -> length x = length w ->
  impose_collapse NumR [(Z.of_nat i, Z.of_nat j)] x w = Some (y, wts) ->
  nth j wts 0 = 0 /\ nth i wts 0 = nth i w 0 + nth j w 0 /\
  (forall k, k <> i -> k <> j -> nth k wts 0 = nth k w 0) /\ Rsum wts = Rsum w.
Proof. exact impose_collapse_single_pair. Qed.
Print Assumptions C18_impose_collapse_single_pair.

(* ------------------------------------------------------------------ unweighted median / impose_median *)
(* every non-empty sample list has a median, and impose_median reaches its target for every one of them *)
Theorem C18_impose_median_hits : forall m x, x <> [] ->
  exists y, impose_median_u NumR m x = Some y /\ length y = length x /\ median_u NumR y = Some m.
Proof. exact impose_median_hits_nonempty. Qed.
Print Assumptions C18_impose_median_hits.

(* the median moves with a common shift of the samples (what impose_median relies on) *)
Theorem C18_median_shift : forall c x md, median_u NumR x = Some md -> median_u NumR (map (fun a => a + c) x) = Some (md + c).
Proof. exact median_shift'. Qed.
Print Assumptions C18_median_shift.

Theorem C18_median_defined : forall x, x <> [] -> median_u NumR x <> None.
Proof. exact median_defined. Qed.
Print Assumptions C18_median_defined.

(* no samples: numpy.mean of nothing is nan, and impose_median passes that on *)
Theorem C18_impose_median_undefined : forall m x, median_u NumR x = None -> impose_median_u NumR m x = None.
Proof. exact impose_median_undefined. Qed.
Print Assumptions C18_impose_median_undefined.

(* the executable model computes the textbook median of odd and even sample counts (exact rationals) *)
Example C18_median_model_runs :
  option_map Qreduction.Qred (median_u NumQ [QArith_base.Qmake 3 1; QArith_base.Qmake 1 1; QArith_base.Qmake 2 1]) = Some (QArith_base.Qmake 2 1) /\
  option_map Qreduction.Qred (median_u NumQ [QArith_base.Qmake 4 1; QArith_base.Qmake 1 1; QArith_base.Qmake 3 1; QArith_base.Qmake 2 1])
    = Some (QArith_base.Qmake 5 2).
Proof. exact (conj (proj1 median_runs) (proj1 (proj2 median_runs))). Qed.

(* ------------------------------------------------------------------ non-vacuity *)
(* the premises about sqrt are met by the real square root *)
Example C18_sqrt_premises_satisfiable :
  (forall a, 0 <= a -> sqrt a * sqrt a = a) /\ (forall a, 0 <= a -> 0 <= sqrt a).
Proof. split; intros a H; [now apply sqrt_sqrt | apply sqrt_pos]. Qed.

(* the premises about the data are met by a small weighted sample with a zero weight and a negative position *)
Example C18_data_premises_satisfiable :
  let x := [-1; 2; 5] in let w := [1; 0; 3] in
  wf x (Some w) /\ wf x None /\ Rsum (keep_weights NumR (Some [0; -1]%Z) w) <> 0 /\
  Rsum (drop_weights NumR (Some [1]%Z) w) <> 0 /\ CM 2 x w <> 0.
Proof. exact data_premises. Qed.

(* the two pair selections that used to break impose_collapse now satisfy the property in the model *)
Example C18_collapse_former_witnesses :
  connected [(0, 1); (1, 0)]%nat = [(0, [1])]%nat /\ connected [(0, 1); (2, 3); (0, 2)]%nat = [(0, [1; 3; 2])]%nat.
Proof. exact (conj (proj1 (proj2 (proj2 collapse_former_witnesses))) (proj1 (proj2 (proj2 (proj2 collapse_former_witnesses))))). Qed.

(* the executable model does compute the expected transforms (exact rationals) *)
Example C18_model_runs :
  option_map (map Qreduction.Qred) (impose_variance NumQ Qsqrt_approx (QArith_base.Qmake 4 1)
     [QArith_base.Qmake 1 1; QArith_base.Qmake 2 1; QArith_base.Qmake 3 1]
     (Some [QArith_base.Qmake 1 1; QArith_base.Qmake 0 1; QArith_base.Qmake 1 1]))
  = Some [QArith_base.Qmake 0 1; QArith_base.Qmake 2 1; QArith_base.Qmake 4 1].
Proof. exact (proj1 (proj2 model_runs)). Qed.
