(* C07 - results depend only on configuration and seed, not on call order or schedule.  Statements only. *)
From Coq Require Import List ZArith Bool Permutation.
From MV Require Import Common.Num Core.Machine Core.Config_Proofs Core.DE Core.NM Core.Powell.
Import ListNotations.

(* the order of the Set* configuration calls (at most one per setting) is irrelevant: same state afterwards, hence the same
   trajectory for any subsequent operations (with the same oracle inputs, i.e. the same seed) - from any state, for every
   algorithm whose Finalize only clears the live flag *)
Theorem C07_config_order_irrelevant :
  forall (N : Num) (inf : T N) (C I : Type) (A : algo N C I),
  (forall s c, a_finalize N C I A s c = (c, [])) ->
  (forall c p, a_ehist_extra N C I A (a_set_pop N C I A c p) = a_ehist_extra N C I A c) ->
  forall (cfg1 cfg2 rest : list (op N I)) (sc : sys N * C),
  Permutation cfg1 cfg2 -> Forall (is_cfg N I) cfg1 -> NoDup (map (kind_of N I) cfg1) ->
  run N inf C I A sc (cfg1 ++ rest) = run N inf C I A sc (cfg2 ++ rest) /\
  trace N inf C I A (run N inf C I A sc cfg1) rest = trace N inf C I A (run N inf C I A sc cfg2) rest.
Proof. exact config_order_irrelevant. Qed.
Print Assumptions C07_config_order_irrelevant.

(* both DE solvers and Nelder-Mead satisfy the two side conditions *)
Theorem C07_instances : forall (N : Num) (inf : T N) (de2 : bool),
  (forall s c, a_finalize N _ _ (de_algo N inf de2) s c = (c, [])) /\
  (forall c p, a_ehist_extra N _ _ (de_algo N inf de2) (a_set_pop N _ _ (de_algo N inf de2) c p) = a_ehist_extra N _ _ (de_algo N inf de2) c) /\
  (forall s c, a_finalize N _ _ (nm_algo N inf) s c = (c, [])) /\
  (forall c p, a_ehist_extra N _ _ (nm_algo N inf) (a_set_pop N _ _ (nm_algo N inf) c p) = a_ehist_extra N _ _ (nm_algo N inf) c).
Proof. intros. repeat split; reflexivity. Qed.
Print Assumptions C07_instances.

(* Powell's Finalize logs a pending record; it is trivial on every state with nothing pending (every solver that has not been stepped
   since its last Finalize, in particular a freshly built one), and the configuration calls keep it so: from such states the order of the
   configuration calls is irrelevant for Powell as well *)
Theorem C07_config_order_irrelevant_powell :
  forall (N : Num) (inf : T N) (cfg1 cfg2 rest : list (op N (pw_in N))) (sc : sys N * pw N),
  pextra_e N (snd sc) = [] ->
  Permutation cfg1 cfg2 -> Forall (is_cfg N _) cfg1 -> NoDup (map (kind_of N _) cfg1) ->
  run N inf _ _ (pw_algo N inf) sc (cfg1 ++ rest) = run N inf _ _ (pw_algo N inf) sc (cfg2 ++ rest) /\
  trace N inf _ _ (pw_algo N inf) (run N inf _ _ (pw_algo N inf) sc cfg1) rest =
  trace N inf _ _ (pw_algo N inf) (run N inf _ _ (pw_algo N inf) sc cfg2) rest.
Proof.
  intros N inf cfg1 cfg2 rest sc HG.
  apply (config_order_irrelevant_G N inf _ _ (pw_algo N inf) (fun c => pextra_e N c = [])); auto.
  - intros s c Hc. cbn [a_finalize pw_algo]. unfold pw_finalize. rewrite Hc. reflexivity.
Qed.
Print Assumptions C07_config_order_irrelevant_powell.

Example C07_powell_nonvacuous : forall (N : Num) (inf : T N) ndim, pextra_e N (pw_init N inf ndim) = [].
Proof. reflexivity. Qed.

(* a map that evaluates its work items in any order (serial, reversed, shuffled, any interleaving of in-process workers that
   each evaluate whole items) returns the same energy for every item and makes the same number of real calls: DE2's
   selection, population, best and counters do not depend on the schedule *)
Theorem C07_schedule_irrelevant :
  forall (N : Num) (inf : T N) (s : sys N) (xs pxs : list (vec N)),
  Permutation xs pxs ->
  (forall x, In x xs -> In (x, snd (objective N inf false s x)) (snd (eval_list N inf s pxs))) /\
  snd (eval_list N inf s xs) = map (fun x => (x, snd (objective N inf false s x))) xs /\
  length (calls N (fst (eval_list N inf s pxs))) = length (calls N (fst (eval_list N inf s xs))).
Proof. exact schedule_irrelevant. Qed.
Print Assumptions C07_schedule_irrelevant.

Example C07_nonvacuous : forall (N : Num) (f : vec N -> yval N) (p : vec N -> T N),
  let cfg := [@OSetObjective N nat f; @OSetPenalty N nat p; @OSetLimits N nat (Some 3%Z) None false] in
  Forall (is_cfg N nat) cfg /\ NoDup (map (kind_of N nat) cfg).
Proof.
  intros. split.
  - repeat constructor; discriminate.
  - repeat constructor; simpl; intuition discriminate.
Qed.
