(* C19 - Discrete measures: parameter-vector round trips and product structure.
   Only statements, each closed by [exact] of a lemma proved in Pure/Discrete_Proofs.v. *)
From Coq Require Import List Arith Reals.
From MV Require Import Common.Num Common.NumR Pure.Discrete Pure.Discrete_Proofs.
Import ListNotations.

(* flatten then unflatten/load with the same shape gives back the measure (any element type) *)
Theorem C19_unflatten_flatten : forall (A : Type) (c : pmeasure A),
  unflatten (flatten c) (pts c) = Some c.
Proof. exact unflatten_flatten. Qed.
Print Assumptions C19_unflatten_flatten.

Theorem C19_flatten_unflatten : forall (A : Type) (params : list A) (npts : list nat),
  length params = 2 * sum_nat npts ->
  exists c, unflatten params npts = Some c /\ flatten c = params /\ pts c = npts.
Proof. exact flatten_unflatten. Qed.
Print Assumptions C19_flatten_unflatten.

Theorem C19_load_appends : forall (A : Type) (c : pmeasure A) (params : list A) (npts : list nat),
  2 * sum_nat npts <= length params ->
  exists c', load c params npts = Some (c ++ c') /\
             flatten c' = firstn (2 * sum_nat npts) params /\ pts c' = npts.
Proof. exact load_appends. Qed.
Print Assumptions C19_load_appends.

(* compose/decompose are mutual inverses *)
Theorem C19_compose_decompose : forall (A : Type) (c : pmeasure A),
  compose (fst (decompose c)) (snd (decompose c)) = Some c.
Proof. exact compose_decompose. Qed.
Print Assumptions C19_compose_decompose.

Theorem C19_decompose_compose : forall (A : Type) (xs ws : list (list A)),
  map (@length A) xs = map (@length A) ws ->
  exists c, compose xs ws = Some c /\ decompose c = (xs, ws).
Proof. exact decompose_compose. Qed.
Print Assumptions C19_decompose_compose.

(* pack/unpack are mutual inverses on non-empty factors *)
Theorem C19_unpack_pack : forall (A : Type) (s : list (list A)),
  s <> [] -> Forall (fun x => 0 < length x) s ->
  unpack (pack s) (map (@length A) s) = Some s.
Proof. exact unpack_pack. Qed.
Print Assumptions C19_unpack_pack.

(* update() changes exactly the addressed weights and positions *)
Theorem C19_update_exact : forall (A : Type) (c : pmeasure A) (params : list A),
  Forall (fun n => 0 < n) (pts c) -> 2 * sum_nat (pts c) <= length params ->
  exists c', update c params = Some c' /\ pts c' = pts c /\
             flatten c' = firstn (2 * sum_nat (pts c)) params.
Proof. exact update_exact. Qed.
Print Assumptions C19_update_exact.

(* positions are the Cartesian product (membership and size; the order is the recursion equation of [pack]) *)
Theorem C19_positions_cartesian : forall (A : Type) (s : list (list A)) (p : list A),
  In p (pack s) <-> Forall2 (@In A) p s.
Proof. exact pack_In. Qed.
Print Assumptions C19_positions_cartesian.

Theorem C19_positions_count : forall (A : Type) (s : list (list A)),
  length (pack s) = fold_right Nat.mul 1 (map (@length A) s).
Proof. exact pack_length. Qed.
Print Assumptions C19_positions_count.

(* total mass = product of the factors' masses; point weights are products of factor weights by definition of [weights] *)
Theorem C19_total_mass_is_product : forall c : pmeasure R,
  nsum NumR (weights NumR c) = nprod NumR (mass NumR c).
Proof. exact total_mass_is_product. Qed.
Print Assumptions C19_total_mass_is_product.

Theorem C19_expect_is_explicit_sum : forall (f : list R -> R) (c : pmeasure R),
  Rsum (weights NumR c) <> 0%R ->
  expect NumR f c = Some (wsum NumR f (positions c) (weights NumR c) / Rsum (weights NumR c))%R.
Proof. exact expect_is_explicit_sum. Qed.
Print Assumptions C19_expect_is_explicit_sum.

(* expect_var is the weighted second moment about the weighted mean, over ALL points of the product measure (points of zero
   weight contribute nothing whether or not the implementation skips them; weights stay aligned with their points) *)
Theorem C19_expect_var_is_explicit_sum : forall (f : list R -> R) (c : pmeasure R),
  Rsum (weights NumR c) <> 0%R ->
  let m := (wsum NumR f (positions c) (weights NumR c) / Rsum (weights NumR c))%R in
  expect_var NumR f c =
  Some (wsum NumR (fun x => ((f x - m) * (f x - m))%R) (positions c) (weights NumR c) / Rsum (weights NumR c))%R.
Proof. exact expect_var_is_explicit_sum. Qed.
Print Assumptions C19_expect_var_is_explicit_sum.

Theorem C19_pof_is_indicator_sum : forall (f : list R -> R) (c : pmeasure R),
  pof NumR f c =
  Rsum (map (fun p => if Rleb (f (fst p)) 0 then snd p else 0%R) (combine (positions c) (weights NumR c))).
Proof. exact pof_is_indicator_sum. Qed.
Print Assumptions C19_pof_is_indicator_sum.

(* non-vacuity: a concrete 2x1 product measure meets the hypotheses *)
Example C19_nonvacuous :
  let c : pmeasure nat := [[(1, 10); (2, 20)]; [(3, 30)]] in
  Forall (fun n => 0 < n) (pts c) /\ flatten c = [1; 2; 10; 20; 3; 30] /\
  pack (pos c) = [[10; 30]; [20; 30]].
Proof. cbv. repeat split; repeat constructor. Qed.
