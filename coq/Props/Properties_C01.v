(* C01 - the reported optimum is a genuinely evaluated point with its true energy.  Statements only. *)
From Coq Require Import List ZArith Bool.
From Coq Require Import QArith.
From MV Require Import Common.Num Common.Order Common.NumQI Core.Machine Core.Machine_Proofs Core.DE Core.DE_Proofs Core.NM Core.NM_Proofs Core.Powell Core.Powell_Proofs.
Import ListNotations.
Open Scope Z_scope.

(* each logged call carries the energy the solver obtained from it; that energy is the user's (reduced) cost at the logged
   point plus the active penalty there - by definition of the decorated objective (tools.wrap_function / wrap_bounds /
   wrap_penalty / reduced), for every evaluation *)
Theorem C01_logged_energy_is_cost_plus_penalty :
  forall (N : Num) (inf : T N) (nested : bool) (s : sys N) (x : vec N),
  let c := if nested then u_cons N s x else x in
  outside N (box N s) c = false ->
  forall e, energy_of N s (yadd N (u_raw N s c) (u_pen N s c)) = Some e ->
  snd (objective N inf nested s x) = e /\
  exists y, calls N (fst (objective N inf nested s x)) =
            calls N s ++ [{| c_x := c; c_y := y; c_e := e; c_box := box N s; c_cons := u_cons N s |}] /\ y = u_raw N s c.
Proof.
  intros N inf nested s x c Ho e He. unfold objective. cbv zeta. fold c. rewrite Ho, He. cbn. split; [reflexivity|].
  exists (u_raw N s c). split; reflexivity.
Qed.
Print Assumptions C01_logged_energy_is_cost_plus_penalty.

(* differential evolution (both solvers): for every cost, penalty, constraints, every stream of trial vectors, and every
   clean sequence of API operations, at every operation boundary:
   - every population member's stored (vector, energy) is a logged real call at that vector with the energy obtained there,
     or the energy is the top value (infinite: never evaluated / outside the box);
   - the same holds of the reported best solution and energy *)
Theorem C01_de_best_and_members_evaluated :
  forall (N : Num) (inf : T N), StrictWeak (T N) (ltb N) -> (forall p, is_top N (add N inf p)) -> is_top N inf ->
  forall (npop : nat) (de2 : bool) (ops : list (op N (de_in N))) (sc : sys N * de N),
  Forall (clean_op N _ (de_ok_in N npop) false false) ops -> P_de N inf npop (fst sc) (snd sc) ->
  let r := run N inf _ _ (de_algo N inf de2) sc ops in
  Forall (honest N (fst r)) (members N (snd r)) /\ honest N (fst r) (de_best N inf (snd r)).
Proof.
  intros N inf Ho Ht Hi npop de2 ops sc Hc Hp.
  pose proof (de_run_ok N inf Ho Ht Hi npop de2 ops sc Hc Hp) as ((H1 & H2 & _) & _). split; assumption.
Qed.
Print Assumptions C01_de_best_and_members_evaluated.

(* the best never gets worse: within a run every generation either keeps the best or replaces it by a strictly lower one;
   in particular it is never worse than the energy of the initial guess (the first history entry) *)
Theorem C01_de_best_never_worse :
  forall (N : Num) (inf : T N), StrictWeak (T N) (ltb N) -> (forall p, is_top N (add N inf p)) -> is_top N inf ->
  forall (s : sys N) (c : de N) (i : de_in N),
  Inv_de N inf s c -> length (trials N i) = length (pop N c) -> stepmon N s <> [] ->
  let c' := fst (snd (run_prog inf false s (de_step N inf s c i))) in
  de_best N inf c' = de_best N inf c \/ ltb N (snd (de_best N inf c')) (snd (de_best N inf c)) = true.
Proof.
  intros N inf Ho Ht Hi s c i Hinv Hl Hs. pose proof (de_step_honest N inf Ho Ht Hi s c i Hinv Hl) as (_ & _ & _ & H & _). auto.
Qed.
Print Assumptions C01_de_best_never_worse.

(* non-vacuity: the initial state of a DE solver satisfies the invariant *)
Example C01_nonvacuous : forall (N : Num) (inf : T N) t, is_top N inf -> P_de N inf 4 (init_sys N inf t) (de_init N inf 4 2).
Proof. intros N inf t Hi. apply de_init_ok; auto. Qed.

(* Nelder-Mead: for every cost, penalty, box, idempotent constraints function, every stream of candidate points (whatever
   the reflection / expansion / contraction / shrink arithmetic produces), every argsort answer and every clean sequence of
   API operations (no population re-installation, no re-decoration, no SetConstraints in the middle: the situations of
   finding F9), once the initial evaluation is logged the reported best is a point at which a real call was made, with
   the energy that call returned (or a top value), it satisfies the constraints, and it is the last step-monitor record.
   `sim <> []` excludes the model's sentinel state for an argsort answer that is not a sorting permutation. *)
Theorem C01_nm_reported_best :
  forall (N : Num) (inf : T N), (forall p, is_top N (add N inf p)) -> is_top N inf ->
  forall cons0 : vec N -> vec N, (forall x, cons0 (cons0 x) = cons0 x) ->
  forall (ops : list (op N (nm_in N))) (sc : sys N * nm N),
  Forall (clean_op N _ (nm_ok_in N) true false) ops -> P_nm N inf cons0 (fst sc) (snd sc) ->
  let r := run N inf _ _ (nm_algo N inf) sc ops in
  stepmon N (fst r) <> [] -> sim N (snd r) <> [] ->
  honest N (fst r) (nm_best N inf (snd r)) /\ cons0 (fst (nm_best N inf (snd r))) = fst (nm_best N inf (snd r)) /\
  last (stepmon N (fst r)) ([], inf) = nm_best N inf (snd r).
Proof. exact nm_reported_best. Qed.
Print Assumptions C01_nm_reported_best.

(* Nelder-Mead: the best never gets worse - a Step on a simplex with at least two vertices reports a best energy that is not above
   the previous one (or ends in the model's sentinel for an argsort answer that does not sort), for every candidate stream,
   cost, constraints and state *)
Theorem C01_nm_best_never_worse :
  forall (N : Num) (inf : T N), StrictWeak (T N) (ltb N) ->
  forall (s : sys N) (c : nm N) (i : nm_in N),
  stepmon N s <> [] -> (2 <= length (combine (sim N c) (fsim N c)))%nat ->
  let c' := fst (snd (run_prog inf true s (nm_step N inf s c i))) in
  sim N c' = [] \/ ltb N (snd (nm_best N inf c)) (snd (nm_best N inf c')) = false.
Proof. exact nm_best_never_worse. Qed.
Print Assumptions C01_nm_best_never_worse.

(* Powell's direction-set solver: for every cost, penalty, box, idempotent constraints function, every sequence of line searches
   (whatever points Brent's method probes and whichever probe it returns), every extrapolation decision and every clean
   operation sequence: once the initial evaluation is logged the reported best is a point at which a real call was made, with
   the energy that call returned (or a top value), and it satisfies the constraints *)
Theorem C01_powell_reported_best :
  forall (N : Num) (inf : T N), (forall p, is_top N (add N inf p)) ->
  forall cons0 : vec N -> vec N, (forall x, cons0 (cons0 x) = cons0 x) ->
  forall (ops : list (op N (pw_in N))) (sc : sys N * pw N),
  Forall (clean_op N _ (pw_ok_in N) true false) ops -> P_pw N inf cons0 (fst sc) (snd sc) ->
  let r := run N inf _ _ (pw_algo N inf) sc ops in
  stepmon N (fst r) <> [] ->
  honest N (fst r) (pw_best N inf (snd r)) /\ cons0 (fst (pw_best N inf (snd r))) = fst (pw_best N inf (snd r)).
Proof. exact pw_reported_best. Qed.
Print Assumptions C01_powell_reported_best.

Example C01_powell_nonvacuous_init : forall (N : Num) (inf : T N) t ndim,
  P_pw N inf (fun x => x) (init_sys N inf t) (pw_init N inf ndim).
Proof. intros. apply pw_init_ok; reflexivity. Qed.

(* non-vacuity.  (1) the order hypotheses of the theorems above hold in an executable instance: rationals with +infinity *)
Example C01_hypotheses_satisfiable :
  StrictWeak (T NumQI) (ltb NumQI) /\ (forall p, is_top NumQI (add NumQI None p)) /\ is_top NumQI None.
Proof. split; [exact qi_strict_weak|split; [exact qi_inf_plus_top|exact qi_inf_top]]. Qed.

(* (2) a freshly built Nelder-Mead solver satisfies the invariant, and a concrete three-generation run (expansion accepted)
   meets the premises of C01_nm_reported_best *)
Example C01_nm_nonvacuous_init : forall (N : Num) (inf : T N) t ndim, is_top N inf ->
  P_nm N inf (fun x => x) (init_sys N inf t) (nm_init N inf ndim).
Proof. intros. apply nm_init_ok; auto. Qed.

Definition C01_ex_cost (x : vec NumQI) : yval NumQI := YS NumQI (match x with [Some a] => Some (a * a)%Q | _ => None end).
Definition C01_ex_v (q : Q) : vec NumQI := [Some q].
Definition C01_ex_ops : list (op NumQI (nm_in NumQI)) :=
  [OSetObjective C01_ex_cost; OStep false (Build_nm_in NumQI [] None false []);
   OStep false (Build_nm_in NumQI [C01_ex_v (1#2)] None false [0%nat; 1%nat]);
   OStep false (Build_nm_in NumQI [C01_ex_v (1#4); C01_ex_v (1#8)] None false [0%nat; 1%nat])].
Example C01_nm_nonvacuous_run :
  let r := run NumQI None _ _ (nm_algo NumQI None) (init_sys NumQI None (TNever NumQI), nm_init NumQI None 1) C01_ex_ops in
  Forall (clean_op NumQI _ (nm_ok_in NumQI) true false) C01_ex_ops /\
  length (stepmon NumQI (fst r)) = 3%nat /\ length (sim NumQI (snd r)) = 2%nat /\ length (calls NumQI (fst r)) = 4%nat.
Proof.
  cbv zeta. split; [|vm_compute; auto].
  repeat constructor.
Qed.
