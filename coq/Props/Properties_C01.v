(* C01 - the reported optimum is a genuinely evaluated point with its true energy.  Statements only. *)
From Coq Require Import List ZArith Bool.
From MV Require Import Common.Num Common.Order Core.Machine Core.Machine_Proofs Core.DE Core.DE_Proofs.
Import ListNotations.
Open Scope Z_scope.

(* each logged call carries the energy the solver obtained from it; that energy is the user's (reduced) cost at the logged
   point plus the active penalty there - by definition of the decorated objective (tools.wrap_function / wrap_bounds /
   wrap_penalty / reduced), for every evaluation *)
Theorem C01_logged_energy_is_cost_plus_penalty :
  forall (N : Num) (inf : T N) (nested : bool) (s : sys N) (x : vec N),
  let c := if nested then u_cons N s x else x in
  outside N (box N s) c = false ->
  forall e, energy_of N s (yadd N (u_raw N s c) (u_pen N s c)) = Some e ->
  snd (objective N inf nested s x) = e /\
  exists y, calls N (fst (objective N inf nested s x)) =
            calls N s ++ [{| c_x := c; c_y := y; c_e := e; c_box := box N s; c_cons := u_cons N s |}] /\ y = u_raw N s c.
Proof.
  intros N inf nested s x c Ho e He. unfold objective. cbv zeta. fold c. rewrite Ho, He. cbn. split; [reflexivity|].
  exists (u_raw N s c). split; reflexivity.
Qed.
Print Assumptions C01_logged_energy_is_cost_plus_penalty.

(* differential evolution (both solvers): for every cost, penalty, constraints, every stream of trial vectors, and every
   clean sequence of API operations, at every operation boundary:
   - every population member's stored (vector, energy) is a logged real call at that vector with the energy obtained there,
     or the energy is the top value (infinite: never evaluated / outside the box);
   - the same holds of the reported best solution and energy *)
Theorem C01_de_best_and_members_evaluated :
  forall (N : Num) (inf : T N), StrictWeak (T N) (ltb N) -> (forall p, is_top N (add N inf p)) -> is_top N inf ->
  forall (npop : nat) (de2 : bool) (ops : list (op N (de_in N))) (sc : sys N * de N),
  Forall (clean_op N _ (de_ok_in N npop)) ops -> P_de N inf npop (fst sc) (snd sc) ->
  let r := run N inf _ _ (de_algo N inf de2) sc ops in
  Forall (honest N (fst r)) (members N (snd r)) /\ honest N (fst r) (de_best N inf (snd r)).
Proof.
  intros N inf Ho Ht Hi npop de2 ops sc Hc Hp.
  pose proof (de_run_ok N inf Ho Ht Hi npop de2 ops sc Hc Hp) as ((H1 & H2 & _) & _). split; assumption.
Qed.
Print Assumptions C01_de_best_and_members_evaluated.

(* the best never gets worse: within a run every generation either keeps the best or replaces it by a strictly lower one;
   in particular it is never worse than the energy of the initial guess (the first history entry) *)
Theorem C01_de_best_never_worse :
  forall (N : Num) (inf : T N), StrictWeak (T N) (ltb N) -> (forall p, is_top N (add N inf p)) -> is_top N inf ->
  forall (s : sys N) (c : de N) (i : de_in N),
  Inv_de N inf s c -> length (trials N i) = length (pop N c) -> stepmon N s <> [] ->
  let c' := fst (snd (run_prog inf false s (de_step N inf s c i))) in
  de_best N inf c' = de_best N inf c \/ ltb N (snd (de_best N inf c')) (snd (de_best N inf c)) = true.
Proof.
  intros N inf Ho Ht Hi s c i Hinv Hl Hs. pose proof (de_step_honest N inf Ho Ht Hi s c i Hinv Hl) as (_ & _ & _ & H & _). auto.
Qed.
Print Assumptions C01_de_best_never_worse.

(* non-vacuity: the initial state of a DE solver satisfies the invariant *)
Example C01_nonvacuous : forall (N : Num) (inf : T N) t, is_top N inf -> P_de N inf 4 (init_sys N inf t) (de_init N inf 4 2).
Proof. intros N inf t Hi. apply de_init_ok; auto. Qed.
