(* C08 - The optimizers implement their published algorithms.
   Only statements, each closed by [exact] of a lemma proved in Core/{NMref,PowellRef,Strategy}_Proofs.v.
   The models are the REFERENCE algorithms (scipy.optimize.fmin / fmin_powell as published, the ten DE strategies as
   "base + F*difference" with a crossover rule); mystic is tied to them by the bit-exact correspondence run (harness/props/c08.py).
   Energies are compared by an arbitrary strict weak order [ltb] (IEEE < without NaN is one); objectives are arbitrary. *)
From Coq Require Import List Arith Bool Permutation Sorting.Sorted QArith.
From MV Require Import Common.Num Common.Order Common.FloatOrder.
From MV Require Import Core.NMref Core.NMref_Proofs Core.PowellRef Core.PowellRef_Proofs Core.Strategy Core.Strategy_Proofs.
Import ListNotations.
Close Scope Q_scope.
Open Scope nat_scope.

(* ================================================================== Nelder-Mead *)

(* every iteration is exactly one of {reflect, expand, contract-outside, contract-inside, shrink}, chosen by the published
   inequalities ([step_spec] lists them, with the vertex that replaces the worst one and the number of evaluations) *)
Theorem C08_nm_step_is_published_move : forall (N : Num) (P : nmparams N) (f : nvec N -> option (T N)) sim u k c,
  nm_step N P f sim = Some (u, k, c) <-> step_spec N P f sim k u c.
Proof. intros; split; [apply nm_step_sound|apply nm_step_complete]. Qed.
Print Assumptions C08_nm_step_is_published_move.

Theorem C08_nm_step_exactly_one : forall (N : Num) (P : nmparams N) (f : nvec N -> option (T N)) sim k1 u1 c1 k2 u2 c2,
  step_spec N P f sim k1 u1 c1 -> step_spec N P f sim k2 u2 c2 -> k1 = k2 /\ u1 = u2 /\ c1 = c2.
Proof. exact step_exactly_one. Qed.
Print Assumptions C08_nm_step_exactly_one.

(* for any lawful sorter (numpy.argsort's order among ties is unspecified): every simplex of the run is sorted, carries with each
   vertex the objective's value at that vertex, has N+1 vertices; the best value never increases; iterations are counted as
   simplices produced; the reported optimum is the first vertex of the last simplex, with its stored (= true) energy *)
Theorem C08_nm_run_invariants :
  forall (N : Num) (P : nmparams N) (f : nvec N -> option (T N)), StrictWeak (T N) (ltb N) ->
  forall sorter : nat -> list (vertex N) -> list (vertex N),
  (forall k u, Permutation (sorter k u) u /\ Sorted (fle N) (sorter k u)) ->
  forall x0 maxiter maxfun r, x0 <> [] ->
  nm_run N P f sorter x0 maxiter maxfun = Some r ->
  Forall (good N f (length x0)) (r_trace N r)
  /\ mono N (rev (r_trace N r))
  /\ r_iter N r = length (r_trace N r)
  /\ f (r_x N r) = Some (r_f N r)
  /\ (exists s, last (r_trace N r) [] = s /\ r_x N r = fst (v_best N s) /\ r_f N r = snd (v_best N s)).
Proof. exact nm_run_invariants. Qed.
Print Assumptions C08_nm_run_invariants.

(* the sorter hypothesis is satisfiable: stable insertion sort *)
Theorem C08_nm_isort_lawful : forall (N : Num), StrictWeak (T N) (ltb N) ->
  forall l : list (vertex N), Permutation (isort N l) l /\ Sorted (fle N) (isort N l).
Proof. exact isort_ok. Qed.
Print Assumptions C08_nm_isort_lawful.

(* what the correspondence accepts as "the observed order" ([guided]) is at least sorted *)
Theorem C08_nm_guided_accepts_only_sorted : forall (N : Num) (l : list (vertex N)), sortedb N l = true -> Sorted (fle N) l.
Proof. exact sortedb_Sorted. Qed.
Print Assumptions C08_nm_guided_accepts_only_sorted.

(* ================================================================== Powell *)

(* direction set keeps its N vectors; fval after each sweep never increases and never exceeds f(x0), given that the line-search
   oracle never answers a value above the current one (hypothesis; checked by the harness on every recorded Brent call) *)
Theorem C08_powell_run_invariants :
  forall (N : Num) (f : pvec N -> option (T N)) (ftol eta : T N) (first_test : bool), StrictWeak (T N) (ltb N) ->
  forall x0 direc maxiter maxfun ls r f0,
  powell_run N f ftol eta first_test x0 direc maxiter maxfun ls = Some r -> f x0 = Some f0 ->
  PowellRef_Proofs.noninc N f0 (map (fun r => snd (fst r)) ls) ->
  length (pr_direc N r) = length direc
  /\ up N (pr_f N r) (rev (pr_sweeps N r))
  /\ ltb N f0 (pr_f N r) = false
  /\ Forall (fun xv => ltb N f0 (snd xv) = false) (pr_sweeps N r).
Proof. exact powell_run_invariants. Qed.
Print Assumptions C08_powell_run_invariants.

(* after a sweep: delta is not exceeded by any decrease of the sweep, and bigind is the index where delta was attained
   (or nothing decreased by more than the initial delta = 0 and bigind is unchanged) *)
Theorem C08_powell_bigind_is_largest_decrease : forall (N : Num), StrictWeak (T N) (ltb N) ->
  forall dirs i s s', sweep N i dirs s = Some s' ->
  exists recs, length recs = length dirs /\ sw_ls N s = recs ++ sw_ls N s' /\
    let ds := decreases N (sw_f N s) recs in
    (forall d, In d ds -> ltb N (sw_delta N s') d = false)
    /\ ltb N (sw_delta N s') (sw_delta N s) = false
    /\ ((sw_delta N s' = sw_delta N s /\ sw_big N s' = sw_big N s)
        \/ exists j, j < length dirs /\ sw_big N s' = i + j /\ sw_delta N s' = nth j ds (zero N)
                     /\ ltb N (sw_delta N s) (nth j ds (zero N)) = true).
Proof. exact sweep_big_spec. Qed.
Print Assumptions C08_powell_bigind_is_largest_decrease.

(* the direction set changes only by dropping the direction of largest decrease: direc[bigind] = direc[-1]; direc[-1] = new,
   and only when fx > fx2 and t < 0 *)
Theorem C08_powell_replaces_largest_decrease : forall (N : Num) (f : pvec N -> option (T N)) st fx sw st',
  extrapolate N f st fx sw = Some st' ->
  pw_direc N st' = pw_direc N st
  \/ exists fx2 alpha, f (pmap2 N (sub N) (pscale N (two N) (sw_x N sw)) (pw_x1 N st)) = Some fx2
       /\ ltb N fx2 fx = true /\ ltb N (t_value N fx fx2 (sw_f N sw) (sw_delta N sw)) (zero N) = true
       /\ pw_direc N st' = replace_dir N (pw_direc N st) (sw_big N sw)
                                       (pscale N alpha (pmap2 N (sub N) (sw_x N sw) (pw_x1 N st))).
Proof. exact extrapolate_spec. Qed.
Print Assumptions C08_powell_replaces_largest_decrease.

Theorem C08_powell_replace_dir : forall (N : Num) direc k d1, k < length direc ->
  length (replace_dir N direc k d1) = length direc
  /\ nth (length direc - 1) (replace_dir N direc k d1) [] = d1
  /\ (k < length direc - 1 -> nth k (replace_dir N direc k d1) [] = last direc [])
  /\ forall j, j <> k -> j <> length direc - 1 -> nth j (replace_dir N direc k d1) [] = nth j direc [].
Proof. intros; split; [apply replace_dir_length|now apply replace_dir_spec]. Qed.
Print Assumptions C08_powell_replace_dir.

(* FULL statement "fmin_powell stops exactly when the reference does" fails at the first sweep: mystic's default stop rule
   NormalizedChangeOverGeneration(ftol, 2) needs three history entries.  [first_test = false] is mystic, [true] the reference. *)
Theorem C08_powell_first_sweep_stop_refuted : ~ powell_variants_agree.
Proof. exact powell_variants_agree_refuted. Qed.
Print Assumptions C08_powell_first_sweep_stop_refuted.

(* ================================================================== differential evolution *)

(* every component of the trial is the parent's or base_i + F*(difference)_i of the strategy ([mutant]); the mutated positions
   are, for the exponential rule, the cyclic run n, n+1, ... of length L = min(D, number of leading draws < CR), for the binomial
   rule {i | i = n \/ u_i < CR}; the members used are pairwise distinct and differ from the candidate *)
Theorem C08_de_trial_shape : forall (N : Num) r f pop best cand F CR rs n us t,
  trial_rule N r f pop best cand F CR rs n us = Some t ->
  let parent := pnth N pop cand in let D := length parent in
  length t = D /\ n < D
  /\ (length rs = nsample f /\ NoDup rs /\ forall m, In m rs -> m < length pop /\ m <> cand)
  /\ forall i, i < D ->
       (mutated N r CR D n us i /\ nth i t (zero N) = mutant N f pop best parent F rs i)
       \/ (~ mutated N r CR D n us i /\ nth i t (zero N) = vnth N parent i).
Proof. exact trial_shape. Qed.
Print Assumptions C08_de_trial_shape.

Theorem C08_de_exp_run_length : forall (N : Num) CR d us L, exp_len N CR d us = Some L ->
  L <= d /\ (forall k, k < L -> ltb N (nth k us (zero N)) CR = true) /\ (L < d -> ltb N (nth L us (zero N)) CR = false).
Proof. exact exp_len_spec. Qed.
Print Assumptions C08_de_exp_run_length.

(* greedy selection, both solvers, any number of candidates: after a generation every member (and the best) is the old one or an
   evaluated trial of STRICTLY lower energy *)
Theorem C08_de1_replace_only_if_strictly_lower : forall (N : Num) (cost : vec N -> option (T N)), StrictWeak (T N) (ltb N) ->
  forall s F CR ds st st', de1_gen N cost s F CR ds st = Some st' -> gen_ok N cost st st'.
Proof. intros N cost SW. exact (de1_gen_ok N cost (sw_trans _ _ SW)). Qed.
Print Assumptions C08_de1_replace_only_if_strictly_lower.

Theorem C08_de2_replace_only_if_strictly_lower : forall (N : Num) (cost : vec N -> option (T N)), StrictWeak (T N) (ltb N) ->
  forall s F CR ds st st', de2_gen N cost s F CR ds st = Some st' -> gen_ok N cost st st'.
Proof. intros N cost SW. exact (de2_gen_ok N cost (sw_trans _ _ SW)). Qed.
Print Assumptions C08_de2_replace_only_if_strictly_lower.

(* the same for energies that are only partially ordered - in particular IEEE comparison with NaN energies, where a trial whose energy
   is not a number is never "strictly lower": transitivity of "strictly lower" is all the selection rule needs *)
Theorem C08_de_replace_only_if_strictly_lower_any_transitive_order : forall (N : Num) (cost : vec N -> option (T N)),
  (forall x y z : T N, ltb N x y = true -> ltb N y z = true -> ltb N x z = true) ->
  forall s F CR ds st st',
  (de1_gen N cost s F CR ds st = Some st' -> gen_ok N cost st st') /\ (de2_gen N cost s F CR ds st = Some st' -> gen_ok N cost st st').
Proof. intros N cost Ht s F CR ds st st'. split; [apply de1_gen_ok|apply de2_gen_ok]; exact Ht. Qed.
Print Assumptions C08_de_replace_only_if_strictly_lower_any_transitive_order.

(* ... hence for the binary64 instance that is executed against /repo, with NO hypothesis: whatever the cost returns - NaN included -
   a member is replaced only by an evaluated trial of strictly lower energy.  Uses the standard library's FloatAxioms.ltb_spec. *)
Theorem C08_de_replace_only_if_strictly_lower_binary64 : forall (cost : vec NumF -> option (T NumF)) s F CR ds st st',
  (de1_gen NumF cost s F CR ds st = Some st' -> gen_ok NumF cost st st') /\ (de2_gen NumF cost s F CR ds st = Some st' -> gen_ok NumF cost st st').
Proof. intros cost. apply C08_de_replace_only_if_strictly_lower_any_transitive_order. exact float_ltb_trans. Qed.
Print Assumptions C08_de_replace_only_if_strictly_lower_binary64.

(* DE2: every trial of a generation is the strategy's trial built from the UNCHANGED generation, evaluated once *)
Theorem C08_de2_trials_are_strategy_trials : forall (N : Num) (cost : vec N -> option (T N)) s F CR st ds c trs,
  de2_trials N cost s F CR st c ds = Some trs ->
  length trs = length ds /\ Forall (fun m => cost (fst m) = Some (snd m)) trs
  /\ forall k, k < length ds -> trial_of N s F CR st (c + k) (nth k ds ([], 0, [])) = Some (fst (nth k trs ([], zero N))).
Proof. exact de2_trials_spec. Qed.
Print Assumptions C08_de2_trials_are_strategy_trials.

(* FULL statement "a strategy named ...Bin forms its trial by the binomial rule" is refuted (finding F8): Rand1Bin, RandToBest1Bin,
   Best2Bin, Rand2Bin run the exponential loop.  What holds: the six others follow the rule their name says. *)
Theorem C08_bin_named_strategies_are_binomial_refuted : ~ bin_named_strategies_are_binomial.
Proof. exact bin_named_strategies_are_binomial_refuted. Qed.
Print Assumptions C08_bin_named_strategies_are_binomial_refuted.

Theorem C08_crossover_rule_matches_name_partial : forall s,
  In s [Best1Exp; Best1Bin; Rand1Exp; RandToBest1Exp; Best2Exp; Rand2Exp] -> coded_rule s = named_rule s.
Proof. exact coded_rule_matches_name_partial. Qed.
Print Assumptions C08_crossover_rule_matches_name_partial.

(* ================================================================== non-vacuity *)
Lemma Qltb_strict_weak : StrictWeak Q Qltb.
Proof.
  unfold Qltb. constructor.
  - intros x. apply negb_false_iff. apply Qle_bool_iff. apply Qle_refl.
  - intros x y z A B. apply negb_true_iff in A, B. apply negb_true_iff.
    destruct (Qle_bool z x) eqn:E; [|reflexivity]. apply Qle_bool_iff in E.
    assert (~ (y <= x)%Q) as A' by (intros C; apply Qle_bool_iff in C; congruence).
    assert (~ (z <= y)%Q) as B' by (intros C; apply Qle_bool_iff in C; congruence).
    apply Qnot_le_lt in A', B'. exfalso. apply (Qlt_irrefl x).
    eapply Qlt_le_trans; [eapply Qlt_trans; eauto|exact E].
  - intros x y z A B. apply negb_false_iff in A, B. apply negb_false_iff.
    apply Qle_bool_iff in A, B. apply Qle_bool_iff. eapply Qle_trans; eauto.
Qed.

Open Scope Q_scope.
Definition qquad (x : list Q) : option Q := Some (fold_right (fun a s => a * a + s) 0 x)%Q.
Definition qP : nmparams NumQ := mkP NumQ (1 # 20) (1 # 4000) 1 2 (1 # 2) (1 # 2) (1 # 10) (1 # 10).

Example C08_nm_run_nonvacuous :
  option_map (fun r => (r_iter NumQ r, r_calls NumQ r, r_warn NumQ r, length (r_trace NumQ r)))
             (nm_run NumQ qP qquad (fun _ => isort NumQ) [1; 2] 4%nat 100%nat) = Some (4%nat, 9%nat, 2%nat, 4%nat).
Proof. vm_compute. reflexivity. Qed.

Example C08_powell_run_nonvacuous :
  option_map (fun r => (pr_iter NumQ r, pr_calls NumQ r, pr_warn NumQ r))
    (powell_run NumQ qquad (1 # 10000) (1 # 100000000) true [1; 1] [[1; 0]; [0; 1]] 5%nat 100%nat
                [(-1, 1, 4%nat); (-1, 0, 4%nat); (0, 0, 3%nat); (0, 0, 3%nat)]) = Some (2%nat, 16%nat, 0%nat).
Proof. vm_compute. reflexivity. Qed.

Example C08_de_trial_nonvacuous :
  trial NumQ Rand1Exp [[0;0;0]; [1;1;1]; [2;4;8]; [3;3;3]]%Q [0;0;0]%Q 0%nat (1#2)%Q (1#2)%Q [1;2;3]%nat 2%nat [(1#4); (1#4); (3#4)]%Q
  = Some [(1 + (1#2) * (2 - 3)); 0; (1 + (1#2) * (8 - 3))]%Q.
Proof. vm_compute. reflexivity. Qed.
