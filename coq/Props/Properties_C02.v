(* C02 - strict ranges: the objective is never evaluated outside the box.
   Statements only; proofs in Core/Machine_Proofs.v.  They hold for EVERY algorithm program over the machine (both DE solvers
   and Nelder-Mead are instances, see the Examples), every cost / constraints / penalty, every oracle input and every
   sequence of API operations, including SetStrictRanges interleaved with Step. *)
From Coq Require Import List ZArith Bool.
From MV Require Import Common.Num Common.Order Core.Machine Core.Machine_Proofs Core.DE Core.DE_Proofs Core.NM Core.NM_Proofs Core.Powell Core.Powell_Proofs Core.Box_Proofs.
Import ListNotations.

(* every real call of the user's cost lies inside the box that was in force when it was made *)
Theorem C02_never_outside_box :
  forall (N : Num) (inf : T N) (C I : Type) (A : algo N C I) (ops : list (op N I)) (sc : sys N * C),
  Inv_box N (fst sc) -> Inv_box N (fst (run N inf C I A sc ops)).
Proof. exact never_outside_box. Qed.
Print Assumptions C02_never_outside_box.

(* one evaluation: a point outside the box is given an energy without the cost being called *)
Theorem C02_no_call_outside :
  forall (N : Num) (inf : T N) (nested : bool) (s : sys N) (x : vec N),
  core N (fst (objective N inf nested s x)) = core N s \/
  exists c y e, outside N (box N s) c = false /\ c = (if nested then u_cons N s x else x) /\
    calls N (fst (objective N inf nested s x)) =
      calls N s ++ [{| c_x := c; c_y := y; c_e := e; c_box := box N s; c_cons := u_cons N s |}] /\
    fcalls N (fst (objective N inf nested s x)) = (fcalls N s + 1)%Z /\
    evalmon N (fst (objective N inf nested s x)) = (if emon_on N s then evalmon N s ++ [(c, y)] else evalmon N s) /\
    emon_on N (fst (objective N inf nested s x)) = emon_on N s /\ snd (objective N inf nested s x) = e.
Proof. exact objective_core. Qed.
Print Assumptions C02_no_call_outside.

(* "when the ranges were in force from the first iteration and the reported best energy is finite, the reported best solution lies
   inside the box": in every clean run during which the ranges are not changed (they were set before the first Step) every logged call
   was made under that box (box_constant, for every algorithm), and the reported best of each solver is an evaluated point or has a top
   (infinite) energy *)
Theorem C02_box_constant :
  forall (N : Num) (inf : T N) (C I : Type) (A : algo N C I) (b : option (vec N * vec N)) (ops : list (op N I)) (sc : sys N * C),
  Forall (clean_op N I (fun _ => True) false true) ops -> BoxConst N b (fst sc) -> BoxConst N b (fst (run N inf C I A sc ops)).
Proof. exact box_constant. Qed.
Print Assumptions C02_box_constant.

Theorem C02_de_best_inside :
  forall (N : Num) (inf : T N), StrictWeak (T N) (ltb N) -> (forall p, is_top N (add N inf p)) -> is_top N inf ->
  forall (b : option (vec N * vec N)) (de2 : bool) (npop : nat) (ops : list (op N (de_in N))) (sc : sys N * de N),
  Forall (clean_op N _ (de_ok_in N npop) false true) ops -> P_de N inf npop (fst sc) (snd sc) ->
  Inv_box N (fst sc) -> BoxConst N b (fst sc) ->
  let r := run N inf _ _ (de_algo N inf de2) sc ops in
  is_top N (snd (de_best N inf (snd r))) \/ outside N b (fst (de_best N inf (snd r))) = false.
Proof. exact de_best_inside. Qed.
Print Assumptions C02_de_best_inside.

Theorem C02_nm_best_inside :
  forall (N : Num) (inf : T N), (forall p, is_top N (add N inf p)) -> is_top N inf ->
  forall (b : option (vec N * vec N)) (cons0 : vec N -> vec N), (forall x, cons0 (cons0 x) = cons0 x) ->
  forall (ops : list (op N (nm_in N))) (sc : sys N * nm N),
  Forall (clean_op N _ (nm_ok_in N) true true) ops -> P_nm N inf cons0 (fst sc) (snd sc) ->
  Inv_box N (fst sc) -> BoxConst N b (fst sc) ->
  let r := run N inf _ _ (nm_algo N inf) sc ops in
  stepmon N (fst r) <> [] -> sim N (snd r) <> [] ->
  is_top N (snd (nm_best N inf (snd r))) \/ outside N b (fst (nm_best N inf (snd r))) = false.
Proof. intros N inf Ht Hi b. exact (nm_best_inside N inf Ht Hi b). Qed.
Print Assumptions C02_nm_best_inside.

Theorem C02_powell_best_inside :
  forall (N : Num) (inf : T N), (forall p, is_top N (add N inf p)) ->
  forall (b : option (vec N * vec N)) (cons0 : vec N -> vec N), (forall x, cons0 (cons0 x) = cons0 x) ->
  forall (ops : list (op N (pw_in N))) (sc : sys N * pw N),
  Forall (clean_op N _ (pw_ok_in N) true true) ops -> P_pw N inf cons0 (fst sc) (snd sc) ->
  Inv_box N (fst sc) -> BoxConst N b (fst sc) ->
  let r := run N inf _ _ (pw_algo N inf) sc ops in
  stepmon N (fst r) <> [] ->
  is_top N (snd (pw_best N inf (snd r))) \/ outside N b (fst (pw_best N inf (snd r))) = false.
Proof. intros N inf Ht b. exact (pw_best_inside N inf Ht b). Qed.
Print Assumptions C02_powell_best_inside.

Example C02_boxconst_nonvacuous : forall (N : Num) (inf : T N) t bx,
  BoxConst N (Some bx) (set_box N (init_sys N inf t) (Some bx)) /\ Inv_box N (set_box N (init_sys N inf t) (Some bx)).
Proof. intros. split; [split; [reflexivity|constructor]|constructor]. Qed.

(* the theorem applies to the three modelled solvers from their initial state *)
Example C02_instances : forall (N : Num) (inf : T N) t npop ndim ops1 ops2 ops3,
  Inv_box N (fst (run N inf _ _ (de_algo N inf false) (init_sys N inf t, de_init N inf npop ndim) ops1)) /\
  Inv_box N (fst (run N inf _ _ (de_algo N inf true) (init_sys N inf t, de_init N inf npop ndim) ops2)) /\
  Inv_box N (fst (run N inf _ _ (nm_algo N inf) (init_sys N inf t, nm_init N inf ndim) ops3)).
Proof.
  intros. repeat split; apply never_outside_box; apply init_invs.
Qed.
