(* C02 - strict ranges: the objective is never evaluated outside the box.
   Statements only; proofs in Core/Machine_Proofs.v.  They hold for EVERY algorithm program over the machine (both DE solvers
   and Nelder-Mead are instances, see the Examples), every cost / constraints / penalty, every oracle input and every
   sequence of API operations, including SetStrictRanges interleaved with Step. *)
From Coq Require Import List ZArith Bool.
From MV Require Import Common.Num Core.Machine Core.Machine_Proofs Core.DE Core.NM.
Import ListNotations.

(* every real call of the user's cost lies inside the box that was in force when it was made *)
Theorem C02_never_outside_box :
  forall (N : Num) (inf : T N) (C I : Type) (A : algo N C I) (ops : list (op N I)) (sc : sys N * C),
  Inv_box N (fst sc) -> Inv_box N (fst (run N inf C I A sc ops)).
Proof. exact never_outside_box. Qed.
Print Assumptions C02_never_outside_box.

(* one evaluation: a point outside the box is given an energy without the cost being called *)
Theorem C02_no_call_outside :
  forall (N : Num) (inf : T N) (nested : bool) (s : sys N) (x : vec N),
  core N (fst (objective N inf nested s x)) = core N s \/
  exists c y e, outside N (box N s) c = false /\ c = (if nested then u_cons N s x else x) /\
    calls N (fst (objective N inf nested s x)) =
      calls N s ++ [{| c_x := c; c_y := y; c_e := e; c_box := box N s; c_cons := u_cons N s |}] /\
    fcalls N (fst (objective N inf nested s x)) = (fcalls N s + 1)%Z /\
    evalmon N (fst (objective N inf nested s x)) = (if emon_on N s then evalmon N s ++ [(c, y)] else evalmon N s) /\
    emon_on N (fst (objective N inf nested s x)) = emon_on N s /\ snd (objective N inf nested s x) = e.
Proof. exact objective_core. Qed.
Print Assumptions C02_no_call_outside.

(* the theorem applies to the three modelled solvers from their initial state *)
Example C02_instances : forall (N : Num) (inf : T N) t npop ndim ops1 ops2 ops3,
  Inv_box N (fst (run N inf _ _ (de_algo N inf false) (init_sys N inf t, de_init N inf npop ndim) ops1)) /\
  Inv_box N (fst (run N inf _ _ (de_algo N inf true) (init_sys N inf t, de_init N inf npop ndim) ops2)) /\
  Inv_box N (fst (run N inf _ _ (nm_algo N inf) (init_sys N inf t, nm_init N inf ndim) ops3)).
Proof.
  intros. repeat split; apply never_outside_box; apply init_invs.
Qed.
