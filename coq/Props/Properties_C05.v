(* C05 - stopping discipline: limits, termination and exit requests are honoured.  Statements only (proofs: Core/Stop_Proofs.v).
   They hold for every algorithm over the machine, every termination condition of the machine's language, every state. *)
From Coq Require Import List ZArith QArith Bool.
From MV Require Import Common.Num Core.Machine Core.Stop_Proofs Core.DE Core.DE_Proofs Core.NM Core.NM_Proofs Core.Powell Core.Powell_Proofs.
Import ListNotations.
Open Scope Z_scope.

(* the verdict of Terminated is true of the state it returns: which limit, exit request or condition holds *)
Theorem C05_terminated_sound :
  forall (N : Num) (C I : Type) (A : algo N C I) (s : sys N) (c : C),
  msg_true N C I A (fst (terminated N C I A s c)) c (snd (terminated N C I A s c)).
Proof. exact terminated_sound. Qed.
Print Assumptions C05_terminated_sound.

(* after the initial evaluation, Step begins no iteration when a limit is reached, the termination holds or an exit was
   requested: it returns Terminated's message, makes no evaluation and writes no step-monitor record *)
Theorem C05_no_step_when_stopped :
  forall (N : Num) (inf : T N) (C I : Type) (A : algo N C I) (s : sys N) (c : C) (i : I),
  let sc := bootstrap N C I A s c i in
  stepmon N (fst sc) <> [] ->
  snd (terminated N C I A (fst sc) (snd sc)) <> MNone ->
  step N inf C I A s c i = (fst (terminated N C I A (fst sc) (snd sc)), snd sc, snd (terminated N C I A (fst sc) (snd sc))).
Proof. exact no_step_when_stopped. Qed.
Print Assumptions C05_no_step_when_stopped.

Theorem C05_no_evaluation_when_stopped :
  forall (N : Num) (inf : T N) (C I : Type) (A : algo N C I) (s : sys N) (c : C) (i : I),
  let sc := bootstrap N C I A s c i in
  stepmon N (fst sc) <> [] -> snd (terminated N C I A (fst sc) (snd sc)) <> MNone ->
  calls N (fst (fst (step N inf C I A s c i))) = calls N s /\
  stepmon N (fst (fst (step N inf C I A s c i))) = stepmon N s /\
  fcalls N (fst (fst (step N inf C I A s c i))) = fcalls N s.
Proof. exact no_evaluation_when_stopped. Qed.
Print Assumptions C05_no_evaluation_when_stopped.

(* conversely an iteration is begun only strictly below both limits, with no exit request and a false termination:
   hence generations never exceed the generation limit and evaluations exceed the evaluation limit by less than one
   iteration's worth *)
Theorem C05_iteration_only_when_not_stopped :
  forall (N : Num) (inf : T N) (C I : Type) (A : algo N C I) (s : sys N) (c : C) (i : I),
  let sc := bootstrap N C I A s c i in
  stepmon N (fst sc) <> [] ->
  calls N (fst (fst (step N inf C I A s c i))) <> calls N s \/ stepmon N (fst (fst (step N inf C I A s c i))) <> stepmon N s ->
  msg_true N C I A (fst (terminated N C I A (fst sc) (snd sc))) (snd sc) MNone.
Proof. exact iteration_only_when_not_stopped. Qed.
Print Assumptions C05_iteration_only_when_not_stopped.

(* the message Step returns names a condition that is true of the state it returns *)
Theorem C05_step_message_is_true :
  forall (N : Num) (inf : T N) (C I : Type) (A : algo N C I) (s : sys N) (c : C) (i : I),
  let r := step N inf C I A s c i in
  msg_true N C I A (fst (fst r)) (snd (fst r)) (snd r) \/
  (snd r = MNone /\ stepmon N (fst (bootstrap N C I A s c i)) = []).
Proof. exact step_message_is_true. Qed.
Print Assumptions C05_step_message_is_true.

(* limits given with new=True bound what is done after the call, otherwise the totals *)
Theorem C05_limits_total_vs_new :
  forall (N : Num) (C I : Type) (A : algo N C I) (s : sys N) (c : C) (g e : option Z) (new : bool),
  let s' := set_evaluation_limits N C I A s c g e new in
  (forall n, g = Some n -> maxiter N s' = LAbs (if new then n + generations N C I A s c else n)) /\
  (forall n, e = Some n -> maxfun N s' = LAbs (if new then n + fcalls N s else n)) /\
  (g = None -> maxiter N s' = if new then LStar else LNone) /\
  (e = None -> maxfun N s' = if new then LStar else LNone).
Proof. exact limits_total_vs_new. Qed.
Print Assumptions C05_limits_total_vs_new.

(* Solve returns only when a Step has reported a stop *)
Theorem C05_solve_stops_on_message :
  forall (N : Num) (inf : T N) (C I : Type) (A : algo N C I) fuel (s : sys N) (c : C) is dflt,
  let r := solve N inf C I A fuel s c is dflt in snd r = true -> snd (fst r) <> MNone.
Proof. exact solve_stops_on_message. Qed.
Print Assumptions C05_solve_stops_on_message.

(* "hence Solve always returns": for every algorithm whose iteration adds at least one record to the energy history
   (unless the generation limit is 0) and keeps an invariant G of its own state, for well-formed oracle inputs V (and whose
   finalisation removes no record),
   once the limits are absolute (they are after the first Terminated) the Solve
   loop stops by itself within (generation limit + 3 - current history length) Steps, whatever the termination
   condition, the cost function, the constraints and the oracle inputs are *)
Theorem C05_solve_terminates :
  forall (N : Num) (inf : T N) (C I : Type) (A : algo N C I) (G : C -> Prop) (V : I -> Prop),
  (forall (s : sys N) (c : C) (i : I), G c -> V i -> maxiter N s <> LAbs 0 ->
     let r := run_prog inf (a_nested N C I A) s (a_step N C I A s c i) in
     (S (ehlen N C I A s c) <= ehlen N C I A (set_stepmon N (fst r) (stepmon N (fst r) ++ snd (snd r))) (fst (snd r)))%nat /\
     G (fst (snd r))) ->
  (forall (s : sys N) (c : C), G c ->
     (ehlen N C I A s c <= ehlen N C I A (set_stepmon N s (stepmon N s ++ snd (a_finalize N C I A s c))) (fst (a_finalize N C I A s c)))%nat) ->
  (forall (s : sys N) (c : C) (i : I), a_ehist_extra N C I A (a_decorate N C I A s c i) = a_ehist_extra N C I A c) ->
  (forall (s : sys N) (c : C) (i : I), G c -> V i -> G (a_decorate N C I A s c i)) ->
  (forall (s : sys N) (c : C), G c -> G (fst (a_finalize N C I A s c))) ->
  (forall c : C, G c -> (length (a_ehist_extra N C I A c) <= 1)%nat) ->
  forall (f : nat) (s : sys N) (c : C) (is : list I) (dflt : I) (mi mf : Z),
  G c -> Forall V is -> V dflt ->
  abs_limits N mi mf s -> 0 < mi ->
  (Z.to_nat (mi + 3) <= S f + ehlen N C I A s c)%nat ->
  snd (solve N inf C I A (S f) s c is dflt) = true.
Proof. exact solve_terminates. Qed.
Print Assumptions C05_solve_terminates.

(* with a generation limit of 0 the very first Step reports the stop, for every algorithm *)
Theorem C05_solve_terminates_zero_limit :
  forall (N : Num) (inf : T N) (C I : Type) (A : algo N C I) (f : nat) (s : sys N) (c : C) (is : list I) (dflt : I) (mf : Z),
  abs_limits N 0 mf s -> snd (solve N inf C I A (S f) s c is dflt) = true.
Proof. exact solve_terminates_zero. Qed.
Print Assumptions C05_solve_terminates.

(* ... and differential evolution (both solvers) meets those premises unconditionally *)
Theorem C05_de_solve_terminates :
  forall (N : Num) (inf : T N) (de2 : bool) (f : nat) (s : sys N) (c : de N) (is : list (de_in N)) (dflt : de_in N) (mi mf : Z),
  abs_limits N mi mf s -> 0 <= mi ->
  (Z.to_nat (mi + 3) <= S f + ehlen N (de N) (de_in N) (de_algo N inf de2) s c)%nat ->
  snd (solve N inf (de N) (de_in N) (de_algo N inf de2) (S f) s c is dflt) = true.
Proof. exact de_solve_terminates. Qed.
Print Assumptions C05_de_solve_terminates.

(* ... and so does Nelder-Mead from every non-empty simplex, for every candidate stream and every argsort answer *)
Theorem C05_nm_solve_terminates :
  forall (N : Num) (inf : T N) (f : nat) (s : sys N) (c : nm N) (is : list (nm_in N)) (dflt : nm_in N) (mi mf : Z),
  G_nm N c -> Forall (fun i => ndeco N i = None) is -> ndeco N dflt = None ->
  abs_limits N mi mf s -> 0 <= mi ->
  (Z.to_nat (mi + 3) <= S f + ehlen N _ _ (nm_algo N inf) s c)%nat ->
  snd (solve N inf _ _ (nm_algo N inf) (S f) s c is dflt) = true.
Proof. exact nm_solve_terminates. Qed.
Print Assumptions C05_nm_solve_terminates.

Example C05_nm_nonvacuous : forall (N : Num) (inf : T N) ndim, G_nm N (nm_init N inf ndim).
Proof. intros. split; cbn [nm_init sim fsim]; [discriminate|]. now rewrite !repeat_length. Qed.

(* ... and Powell, whenever the extrapolated point of an iteration is given (the real code always computes it) *)
Theorem C05_powell_solve_terminates :
  forall (N : Num) (inf : T N) (f : nat) (s : sys N) (c : pw N) (is : list (pw_in N)) (dflt : pw_in N) (mi mf : Z),
  G_pw N c -> Forall (V_pw N) is -> V_pw N dflt ->
  abs_limits N mi mf s -> 0 <= mi ->
  (Z.to_nat (mi + 3) <= S f + ehlen N _ _ (pw_algo N inf) s c)%nat ->
  snd (solve N inf _ _ (pw_algo N inf) (S f) s c is dflt) = true.
Proof. exact pw_solve_terminates. Qed.
Print Assumptions C05_powell_solve_terminates.

Example C05_powell_nonvacuous : forall (N : Num) (inf : T N) ndim, G_pw N (pw_init N inf ndim).
Proof. intros. unfold G_pw. simpl. apply le_S, le_n. Qed.

(* non-vacuity: a state with a reached generation limit exists and Terminated reports it *)
Example C05_nonvacuous : forall (C I : Type) (A : algo NumQ C I) (c : C),
  let s := set_limits NumQ (init_sys NumQ 0%Q (TNever NumQ)) (LAbs 5) (LAbs 0) in
  snd (terminated NumQ C I A s c) = MLimits.
Proof. intros. reflexivity. Qed.
