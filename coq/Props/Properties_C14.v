(* C14 - Compiled condition and penalty functions measure exactly the stated violation.
   Only statements, each closed by [exact] of a lemma proved in Pure/SymCompile_Proofs.v.

   Model: Pure/SymCompile.v.  [cond_value tol rel c a b] is the value of the expression symbolic.penalty_parser builds
   for a line `lhs c rhs' at a point where lhs evaluates to a and rhs to b - a and b are universally quantified reals,
   so the theorems cover every pair of expressions; [cond_kind c] says whether generate_conditions files it under
   `equality' or `inequality'.  [generate_penalty tol rel k (conditions_order sys) x] is
   generate_penalty(generate_conditions(text, locals={tol,rel}), k=k)(x) with the default penalty kinds
   (quadratic_equality / quadratic_inequality, iteration 0, so h plays no role); default k = 100.
   [satisfied Equality v := v = 0], [satisfied Inequality v := v <= 0]. *)
From Coq Require Import List Arith Reals.
From MV Require Import Common.Num Common.NumR Pure.SymCompile Pure.SymCompile_Proofs.
Import ListNotations.
Open Scope R_scope.

(* "evaluate to lhs-rhs oriented so that an inequality holds iff the value is <= 0 and an equality iff it is 0":
   =, <=, >= and != (for != the value is the indicator of lhs = rhs) *)
Theorem C14_cond_orientation : forall tol rel (c : cmp) (a b : R), is_strict c = false ->
  (holds c a b <-> satisfied (cond_kind c) (cond_value NumR tol rel c a b)).
Proof. exact cond_orientation. Qed.
Print Assumptions C14_cond_orientation.

Theorem C14_cond_value_is_lhs_minus_rhs : forall tol rel (c : cmp) (a b : R), is_strict c = false -> is_ne c = false ->
  cond_value NumR tol rel c a b = match c with Cge => b - a | _ => a - b end.
Proof. exact cond_value_nonstrict. Qed.
Print Assumptions C14_cond_value_is_lhs_minus_rhs.

(* The same orientation clause for < and > at full strength would read
     forall a b, holds Cgt a b <-> cond_value tol rel Cgt a b <= 0.
   The faithful model REFUTES it for every positive tol (DESIGN section 7, F7; known finding
   site=symbolic.penalty_parser pattern=strict-comparator-tol-sliver-positive): *)
Theorem C14_cond_orientation_strict_refuted : forall tol rel, 0 < tol ->
  (exists a b, holds Cgt a b /\ ~ satisfied (cond_kind Cgt) (cond_value NumR tol rel Cgt a b)) /\
  (exists a b, holds Clt a b /\ ~ satisfied (cond_kind Clt) (cond_value NumR tol rel Clt a b)).
Proof. exact cond_strict_refuted. Qed.
Print Assumptions C14_cond_orientation_strict_refuted.

(* what does hold: value <= 0 iff the relation holds with margin tol(rhs) (missing: the sliver rhs - tol < lhs < rhs) *)
Theorem C14_cond_orientation_strict_partial : forall tol rel (a b : R),
  (cond_value NumR tol rel Clt a b <= 0 <-> a <= b - tolerance NumR tol rel b) /\
  (cond_value NumR tol rel Cgt a b <= 0 <-> b + tolerance NumR tol rel b <= a).
Proof. exact cond_strict_partial. Qed.
Print Assumptions C14_cond_orientation_strict_partial.

(* ... in particular a strict condition that is satisfied implies the strict relation *)
Theorem C14_cond_strict_sound : forall tol rel (c : cmp) (a b : R), is_strict c = true ->
  0 < tolerance NumR tol rel b -> satisfied (cond_kind c) (cond_value NumR tol rel c a b) -> holds c a b.
Proof. exact cond_strict_sound. Qed.
Print Assumptions C14_cond_strict_sound.

(* "equal to the documented sum of per-line penalty terms": k*c^2 per equality line, 2k*max(0,c)^2 per inequality
   line, over the lines of the text (the stacking order - inequalities first - does not matter) *)
Theorem C14_penalty_is_sum_of_terms : forall tol rel k (sys : list (grel NumR)) (x : vec NumR),
  generate_penalty NumR tol rel k (conditions_order NumR sys) x
  = rsum (map (fun g =>
       let c := condition NumR tol rel g x in
       match cond_kind (gcmp g) with
       | Equality => k * (c * c)
       | Inequality => 2 * k * (Rmax 0 c * Rmax 0 c)
       end) sys).
Proof. exact penalty_is_sum_of_terms. Qed.
Print Assumptions C14_penalty_is_sum_of_terms.

(* "the penalty generated from them is zero exactly at points satisfying every line": in terms of the conditions,
   for all comparators *)
Theorem C14_penalty_zero_iff_all_conditions : forall tol rel k (sys : list (grel NumR)) (x : vec NumR), 0 < k ->
  (generate_penalty NumR tol rel k (conditions_order NumR sys) x = 0 <-> Forall (line_satisfied tol rel x) sys).
Proof. exact penalty_zero_iff_conditions. Qed.
Print Assumptions C14_penalty_zero_iff_all_conditions.

(* ... in terms of the relations themselves, for texts without < and > *)
Theorem C14_penalty_zero_iff_all_hold : forall tol rel k (sys : list (grel NumR)) (x : vec NumR), 0 < k ->
  Forall (fun g => is_strict (gcmp g) = false) sys ->
  (generate_penalty NumR tol rel k (conditions_order NumR sys) x = 0 <-> Forall (line_holds x) sys).
Proof. exact penalty_zero_iff_all_hold. Qed.
Print Assumptions C14_penalty_zero_iff_all_hold.

(* With < or > in the text the right-to-left direction is REFUTED (same sliver): a point satisfying the text with a
   positive penalty ... *)
Theorem C14_penalty_zero_iff_all_hold_strict_refuted : forall tol rel k, 0 < tol -> 0 < k ->
  exists (sys : list (grel NumR)) (x : vec NumR),
    Forall (line_holds x) sys /\ 0 < generate_penalty NumR tol rel k (conditions_order NumR sys) x.
Proof. exact penalty_zero_iff_all_hold_strict_refuted. Qed.
Print Assumptions C14_penalty_zero_iff_all_hold_strict_refuted.

(* ... and the left-to-right direction holds for every text (missing for the converse: the tol margin) *)
Theorem C14_penalty_zero_iff_all_hold_partial : forall tol rel k (sys : list (grel NumR)) (x : vec NumR), 0 < k ->
  (forall g, In g sys -> is_strict (gcmp g) = true -> 0 < tolerance NumR tol rel (eval NumR (grhs g) x)) ->
  generate_penalty NumR tol rel k (conditions_order NumR sys) x = 0 -> Forall (line_holds x) sys.
Proof. exact penalty_zero_all_hold_partial. Qed.
Print Assumptions C14_penalty_zero_iff_all_hold_partial.

(* "positive elsewhere" *)
Theorem C14_penalty_positive_elsewhere : forall tol rel k (sys : list (grel NumR)) (x : vec NumR), 0 < k ->
  ~ Forall (line_satisfied tol rel x) sys -> 0 < generate_penalty NumR tol rel k (conditions_order NumR sys) x.
Proof. exact penalty_positive_elsewhere. Qed.
Print Assumptions C14_penalty_positive_elsewhere.

(* the compiled functions are defined (no exception) exactly under the guards of the real code *)
Theorem C14_compiled_defined : forall tol rel k (sys : list (grel NumR)) (x : vec NumR),
  0 <= tol -> 0 <= rel -> (need_gsys NumR sys <= length x)%nat ->
  compiled_penalty NumR tol rel k sys x = Some (generate_penalty NumR tol rel k (conditions_order NumR sys) x) /\
  compiled_conditions NumR tol rel sys x =
    Some (map (fun g => condition NumR tol rel g x) (filter (is_ineq NumR) sys),
          map (fun g => condition NumR tol rel g x) (filter (fun g => negb (is_ineq NumR g)) sys)).
Proof. exact compiled_penalty_defined. Qed.
Print Assumptions C14_compiled_defined.

(* "Applying a generated constraints function to any point drives the penalty generated from the same text to zero"
   (isolated-form text whose left variables are distinct and do not feed one another; `!=' lines need a positive
   tolerance term, which the defaults guarantee) *)
Theorem C14_constraint_then_penalty_zero : forall tol rel, 0 <= tol -> 0 <= rel ->
  forall k (sys : list (irel NumR)) (x : vec NumR),
  NoDup (map lhs sys) -> no_feed sys -> (need_sys NumR sys <= length x)%nat ->
  (forall r, In r sys -> is_ne (rcmp r) = true -> 0 < tolerance NumR tol rel (eval NumR (rhs r) x)) ->
  exists y, compiled_constraint NumR tol rel sys x = Some y /\
            compiled_penalty NumR tol rel k (map (grel_of_rel NumR) sys) y = Some 0.
Proof. exact constraint_then_penalty_zero. Qed.
Print Assumptions C14_constraint_then_penalty_zero.

(* non-vacuity: the text  x0 < x1*2 ; x2 >= abs(x1) ; x3 != x1  at x = [5; 1; 0; 1] meets the hypotheses of
   C14_constraint_then_penalty_zero, and violates a line (so C14_penalty_positive_elsewhere applies there too) *)
Example C14_nonvacuous :
  let tol := / 1000000000000000 in
  let sys : list (irel NumR) :=
    [mkRel 0 Clt (EMul (@EVar NumR 1) (@EConst NumR 2)); mkRel 2 Cge (EAbs (@EVar NumR 1)); mkRel 3 Cne (@EVar NumR 1)] in
  let x : vec NumR := [5; 1; 0; 1] in
  0 <= tol /\ 0 < 100 /\ NoDup (map lhs sys) /\ no_feed sys /\ (need_sys NumR sys <= length x)%nat /\
  (forall r, In r sys -> is_ne (rcmp r) = true -> 0 < tolerance NumR tol tol (eval NumR (rhs r) x)) /\
  ~ Forall (line_satisfied tol tol x) (map (grel_of_rel NumR) sys).
Proof. exact c14_nonvacuous. Qed.
