(* C17 - Combinators claim success only at a fixed point; couplers compose as documented.
   Only statements, each closed by [exact] of a lemma proved in Pure/Combinators_Proofs.v, followed by
   Print Assumptions; then non-vacuity examples.

   Reading guide.  [V] = parameter vectors with Python's `==` as [veq] (any symmetric, transitive relation);
   a member constraint is a function [V -> mres V] (a value, a swallowed exception, or a re-raised one) -- being a
   function is "deterministic"; [proper c] = equal arguments give equal results; [idem c] = c(c(x)) == c(x).
   [randomise] / [pick] are the generator: ARBITRARY functions of an arbitrary state, so every theorem holds for
   all random choices.  [fixes c r] = c returns a vector equal to r ("leaves r unchanged");
   [changes c r] = c returns a vector different from r.  All theorems are for every number n of members, every
   iteration cap, every input. *)
From Coq Require Import List ZArith QArith Qabs Bool Arith.
From MV Require Import Common.Num Pure.Combinators Pure.Combinators_Proofs.
Import ListNotations.

(* ---- and_: success (onexit) only on a vector that EVERY member leaves unchanged *)
Theorem C17_and_success_fixed_by_all :
  forall (V : Type) (veq : V -> V -> bool) (St : Type) (randomise : V -> St -> V * St),
  (forall a b, veq a b = true -> veq b a = true) ->
  (forall a b c, veq a b = true -> veq b c = true -> veq a c = true) ->
  forall (cs : list (member V)) (maxiter : nat) (x0 : V) (s : St) (r : V) (s' : St),
  (forall c, In c cs -> proper V veq c /\ idem V veq c) ->
  and_ V veq St randomise cs maxiter x0 s = (Success r, s') ->
  forall c, In c cs -> fixes V veq c r.
Proof. exact and_success_fixed_by_all. Qed.
Print Assumptions C17_and_success_fixed_by_all.

(* the same for the concrete instance: vectors of rationals with Python's list equality, and the modelled
   randomisation [(x_i + randint(-1,1)) * random() for x_i in x] reading ANY stream of draws *)
Theorem C17_and_num_Q_success_fixed_by_all :
  forall (zu : nat -> Z * Q) (cs : list (member (list Q))) (maxiter : nat) (x0 : list Q) (s : nat) (r : list Q) (s' : nat),
  (forall c, In c cs -> proper (list Q) (list_eqb NumQ) c /\ idem (list Q) (list_eqb NumQ) c) ->
  and_num NumQ zu cs maxiter x0 s = (Success r, s') ->
  forall c, In c cs -> fixes (list Q) (list_eqb NumQ) c r.
Proof. exact and_num_Q_success_fixed_by_all. Qed.
Print Assumptions C17_and_num_Q_success_fixed_by_all.

(* ---- or_: success only on a vector that SOME member leaves unchanged (no idempotence needed) *)
Theorem C17_or_success_fixed_by_some :
  forall (V : Type) (veq : V -> V -> bool) (St : Type) (pick : St -> Z * St),
  forall (cs : list (member V)) (maxiter : nat) (x0 : V) (s : St) (r : V) (s' : St),
  (forall c, In c cs -> proper V veq c) ->
  or_ V veq St pick cs maxiter x0 s = (Success r, s') ->
  exists c, In c cs /\ fixes V veq c r.
Proof. exact or_success_fixed_by_some. Qed.
Print Assumptions C17_or_success_fixed_by_some.

(* ---- not_: success only on a vector the member changes *)
Theorem C17_not_success_changed :
  forall (V : Type) (veq : V -> V -> bool) (St : Type) (randomise : V -> St -> V * St),
  forall (c : member V) (maxiter : nat) (amb : bool) (x0 : V) (s : St) (r : V) (s' : St),
  not_ V veq St randomise c maxiter amb x0 s = (Success r, s') -> changes V veq c r.
Proof. exact not_success_changed. Qed.
Print Assumptions C17_not_success_changed.

(* ---- otherwise the failure path: the outcome is exhaustively success | failure | a member's own re-raised
        exception; in particular the history indexing x[-(n+1)], x[-n], `del x[:n]` never raises IndexError *)
Theorem C17_and_failure_otherwise :
  forall (V : Type) (veq : V -> V -> bool) (St : Type) (randomise : V -> St -> V * St),
  (forall a b, veq a b = true -> veq b a = true) ->
  (forall a b c, veq a b = true -> veq b c = true -> veq a c = true) ->
  forall (cs : list (member V)) (maxiter : nat) (x0 : V) (s : St) (o : outcome V) (s' : St),
  (forall c, In c cs -> proper V veq c /\ idem V veq c) ->
  and_ V veq St randomise cs maxiter x0 s = (o, s') ->
  (exists r, o = Success r) \/ (exists r, o = Failure r) \/ (o = Raised /\ reraises V cs).
Proof. exact and_failure_otherwise. Qed.
Print Assumptions C17_and_failure_otherwise.

Theorem C17_or_failure_otherwise :
  forall (V : Type) (veq : V -> V -> bool) (St : Type) (pick : St -> Z * St),
  forall (cs : list (member V)) (maxiter : nat) (x0 : V) (s : St) (o : outcome V) (s' : St),
  (forall c, In c cs -> proper V veq c) ->
  (forall s, (1 <= fst (pick s) <= Z.of_nat (length cs))%Z) ->      (* randint(1,n) honours its contract *)
  or_ V veq St pick cs maxiter x0 s = (o, s') ->
  (exists r, o = Success r) \/ (exists r, o = Failure r) \/ (o = Raised /\ reraises V cs).
Proof. exact or_failure_otherwise. Qed.
Print Assumptions C17_or_failure_otherwise.

Theorem C17_not_failure_otherwise :
  forall (V : Type) (veq : V -> V -> bool) (St : Type) (randomise : V -> St -> V * St),
  forall (c : member V) (maxiter : nat) (amb : bool) (x0 : V) (s : St) (o : outcome V) (s' : St),
  not_ V veq St randomise c maxiter amb x0 s = (o, s') ->
  (exists r, o = Success r) \/ (exists r, o = Failure r) \/ (o = Raised /\ exists x, c x = Reraise).
Proof. exact not_failure_otherwise. Qed.
Print Assumptions C17_not_failure_otherwise.

(* ---- a vector all members already fix is returned as success at once, with no random draw *)
Theorem C17_and_fixed_input_succeeds :
  forall (V : Type) (veq : V -> V -> bool) (St : Type) (randomise : V -> St -> V * St),
  forall (cs : list (member V)) (maxiter : nat) (x0 : V) (s : St),
  veq x0 x0 = true -> (forall c, In c cs -> c x0 = Val x0) ->
  and_ V veq St randomise cs maxiter x0 s = (Success x0, s).
Proof. exact and_fixed_input_succeeds. Qed.
Print Assumptions C17_and_fixed_input_succeeds.

(* ---- couplers (with the extra positional arguments the decorators route) *)
Theorem C17_inner : forall (X Y Z A B : Type) (c : X -> A -> Y) a (f : Y -> B -> Z) x b,
  inner X Y Z A B c a f x b = f (c x a) b.
Proof. exact inner_eq. Qed.
Print Assumptions C17_inner.

Theorem C17_outer : forall (X Y Z A B : Type) (c : Y -> A -> Z) a (f : X -> B -> Y) x b,
  outer X Y Z A B c a f x b = c (f x b) a.
Proof. exact outer_eq. Qed.
Print Assumptions C17_outer.

Theorem C17_inner_proxy : forall (X Y Z A B : Type) (c : X -> B -> Y) a (f : Y -> A -> Z) x b,
  inner_proxy X Y Z A B c a f x b = f (c x b) a.
Proof. exact inner_proxy_eq. Qed.
Print Assumptions C17_inner_proxy.

Theorem C17_outer_proxy : forall (X Y Z A B : Type) (c : Y -> B -> Z) a (f : X -> A -> Y) x b,
  outer_proxy X Y Z A B c a f x b = c (f x a) b.
Proof. exact outer_proxy_eq. Qed.
Print Assumptions C17_outer_proxy.

Theorem C17_additive : forall (N : Num) (X A B : Type) (p : X -> A -> T N) a (f : X -> B -> T N) x b,
  additive N X A B p a f x b = add N (f x b) (p x a).
Proof. exact additive_eq. Qed.
Print Assumptions C17_additive.

Theorem C17_additive_proxy : forall (N : Num) (X A B : Type) (p : X -> B -> T N) a (f : X -> A -> T N) x b,
  additive_proxy N X A B p a f x b = add N (f x a) (p x b).
Proof. exact additive_proxy_eq. Qed.
Print Assumptions C17_additive_proxy.

(* ---- penalty combinators (exact rationals; any of the six stateless penalty types, any multiplier k > 0) *)
Theorem C17_pen_and_zero_iff_all : forall (X : Type) (pt : ptype) (k : Q) (ps : list (X -> Q)) (x : X),
  (0 < k)%Q -> (forall p, In p ps -> (0 <= p x)%Q) ->
  (pen_and NumQ X pt k ps x == 0 <-> forall p, In p ps -> p x == 0)%Q.
Proof. exact pen_and_zero_iff_all. Qed.
Print Assumptions C17_pen_and_zero_iff_all.

Theorem C17_pen_or_zero_iff_any : forall (X : Type) (pt : ptype) (k : Q) (ps : list (X -> Q)) (x : X),
  (0 < k)%Q -> ps <> nil -> (forall p, In p ps -> (0 <= p x)%Q) ->
  exists m, pen_or NumQ X pt k ps x = Some m /\ (m == 0 <-> exists p, In p ps /\ p x == 0)%Q.
Proof. exact pen_or_zero_iff_any. Qed.
Print Assumptions C17_pen_or_zero_iff_any.

(* or_ of no penalties: min() of an empty sequence raises ValueError *)
Theorem C17_pen_or_empty : forall (X : Type) (pt : ptype) (k : Q) (x : X), pen_or NumQ X pt k nil x = None.
Proof. exact pen_or_empty. Qed.
Print Assumptions C17_pen_or_empty.

(* not_(p): for inequality types (accepted region cond <= 0) the penalty is non-zero exactly on the interior
   cond < 0; for equality types (accepted set cond = 0) exactly on that set *)
Theorem C17_pen_not_penalises_interior : forall (X : Type) (pt : ptype) (k : Q) (cond : X -> Q) (x : X),
  (0 < k)%Q ->
  (is_ineq pt = true -> (~ pen_not NumQ X pt k cond x == 0 <-> cond x < 0)%Q) /\
  (is_ineq pt = false -> (~ pen_not NumQ X pt k cond x == 0 <-> cond x == 0)%Q).
Proof. exact pen_not_penalises_interior. Qed.
Print Assumptions C17_pen_not_penalises_interior.

(* ------------------------------------------------------------------ non-vacuity *)
Section Examples.
  Local Open Scope nat_scope.
  (* vectors = nat, `==` = Nat.eqb; c1 = max(.,1); c2 sends 1 to 0 and fixes everything else: both idempotent,
     jointly satisfiable only off {0,1}; from 0 they cycle 0 -> 1 -> 0 -> 1, and_ randomises (here: to 5),
     skips one test, then reports success on 5 -- a vector both members fix *)
  Let c1 : member nat := fun x => Val (Nat.max x 1).
  Let c2 : member nat := fun x => Val (if Nat.eqb x 1 then 0 else x).
  Let rnd5 : nat -> nat -> nat * nat := fun _ s => (5, S s).

  Example C17_hypotheses_satisfiable :
    (forall a b, Nat.eqb a b = true -> Nat.eqb b a = true) /\
    (forall a b c, Nat.eqb a b = true -> Nat.eqb b c = true -> Nat.eqb a c = true) /\
    (forall c, In c [c1; c2] -> proper nat Nat.eqb c /\ idem nat Nat.eqb c).
  Proof.
    split; [|split].
    - intros a b H. apply Nat.eqb_eq in H. subst. apply Nat.eqb_refl.
    - intros a b c H1 H2. apply Nat.eqb_eq in H1, H2. subst. apply Nat.eqb_refl.
    - intros c [<-|[<-|[]]]; split.
      + intros a b H. apply Nat.eqb_eq in H. subst. simpl. apply Nat.eqb_refl.
      + intros x v H. inversion H; subst. exists (Nat.max (Nat.max x 1) 1). split; [reflexivity|].
        apply Nat.eqb_eq. apply Nat.max_l. apply Nat.le_max_r.
      + intros a b H. apply Nat.eqb_eq in H. subst. simpl. apply Nat.eqb_refl.
      + intros x v H. inversion H; subst. unfold c2.
        destruct (Nat.eqb x 1) eqn:E; simpl.
        * exists 0. split; [reflexivity|reflexivity].
        * rewrite E. exists x. split; [reflexivity|apply Nat.eqb_refl].
  Qed.

  Example C17_success_after_randomisation :
    and_ nat Nat.eqb nat rnd5 [c1; c2] 100 0 0 = (Success 5, 1) /\
    fixes nat Nat.eqb c1 5 /\ fixes nat Nat.eqb c2 5.
  Proof. split; [vm_compute; reflexivity|]. split; exists 5; split; reflexivity. Qed.

  (* conflicting members never give a success: c1 = max(.,1) against c3 = min(.,0) *)
  Let c3 : member nat := fun x => Val (Nat.min x 0).
  Example C17_conflicting_members_fail :
    exists r s', and_ nat Nat.eqb nat rnd5 [c1; c3] 100 0 0 = (Failure r, s').
  Proof. eexists; eexists. vm_compute. reflexivity. Qed.

  (* a member raising ZeroDivisionError at 1, next to the identity: before the second repair of /repo this input
     returned Success 1 (the window held the copy kept after the exception); now 1 is not accepted *)
  Let cid : member nat := fun x => Val x.
  Let czd : member nat := fun x => if Nat.eqb x 1 then RaiseZD else Val x.
  Example C17_raising_member_not_accepted :
    and_ nat Nat.eqb nat rnd5 [cid; czd] 100 1 0 = (Success 5, 1) /\ czd 1 = RaiseZD /\
    fixes nat Nat.eqb cid 5 /\ fixes nat Nat.eqb czd 5.
  Proof. split; [vm_compute; reflexivity|]. split; [reflexivity|]. split; exists 5; split; reflexivity. Qed.

  (* idempotence cannot be dropped: a single shifting member "succeeds" after one application *)
  Example C17_and_needs_idempotence :
    and_ nat Nat.eqb nat rnd5 [fun x => Val (S x)] 100 0 0 = (Success 1, 0) /\
    ~ fixes nat Nat.eqb (fun x => Val (S x)) 1.
  Proof.
    split; [vm_compute; reflexivity|]. intros [v [H1 H2]]. inversion H1; subst. discriminate.
  Qed.

  (* the input on which the unrepaired and_ claimed success (DESIGN.md section 7, F4): max(.,1) against min(.,0)
     from [1/2] with randint = -1; the model of the current code gives up through the failure path *)
  Example C17_F4_input_now_fails :
    exists r s', and_num NumQ (fun _ => ((-1)%Z, (1#2)%Q))
                   [(fun x => Val (map (fun v => nmax NumQ v 1%Q) x)); (fun x => Val (map (fun v => nmin NumQ v 0%Q) x))]
                   100 [(1#2)%Q] 0 = (Failure r, s').
  Proof. eexists; eexists. vm_compute. reflexivity. Qed.

  (* or_ / not_ reach success; penalties: hypotheses of the zero-set theorems are met *)
  Example C17_or_success : or_ nat Nat.eqb nat (fun s => (1%Z, S s)) [c1; c2] 100 0 0 = (Success 0, 0).
  Proof. vm_compute. reflexivity. Qed.
  Example C17_not_success : not_ nat Nat.eqb nat (fun _ s => (1, S s)) c2 100 false 0 0 = (Success 1, 1).
  Proof. vm_compute. reflexivity. Qed.
  Example C17_penalty_hypotheses_satisfiable :
    (0 < 1)%Q /\ (forall p, In p [(fun x : Q => Qabs x); (fun x : Q => x * x)%Q] -> (0 <= p (0#1))%Q) /\
    (pen_and NumQ Q LinEq 1%Q [(fun x : Q => Qabs x); (fun x : Q => x * x)%Q] (0#1) == 0)%Q /\
    (~ pen_and NumQ Q LinEq 1%Q [(fun x : Q => Qabs x); (fun x : Q => x * x)%Q] (1#2) == 0)%Q.
  Proof.
    split; [reflexivity|]. split.
    - intros p [<-|[<-|[]]]; vm_compute; discriminate.
    - split; vm_compute; [reflexivity|discriminate].
  Qed.
End Examples.
