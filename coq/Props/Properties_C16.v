(* C16 -- constraint transforms land in their target set and leave conforming input alone.
   ONLY statements: every theorem is closed by [exact] of a lemma proved in Pure/Transforms_Proofs.v (which re-exports
   Pure/C16_Order.v, C16_Surgery.v, C16_Nearest.v, C16_Bounds.v, C16_Moments.v) and followed by Print Assumptions.
   Conventions: vectors are lists, [None] is a Python exception, [index] is the Python index selection
   (INone | IInt z | ITuple l), [norm_idx n z] resolves a Python index (-n <= z < n) to a position.
   Selection predicates: [msel n idx p] (numpy mask of discrete/integers/rounded/precision: one bad index selects nothing),
   [bsel idx p] (impose_bounds: the position itself must be listed), [sel_pos n idx p] (sorting/monotonic).
   Names ending in _refuted are counterexamples to a clause of the property on the faithful model: integers_int_unselected_refuted,
   impose_as_offset_drift_refuted and impose_as_out_of_range_partner_refuted are reproduced on mystic and listed in
   known_findings.d/C16.txt; mono_py_fixed_refuted / monotonic_conforming_refuted / sorting_repeated_index_not_perm / clip_nearest_*
   only delimit hypotheses.  Names ending in _partial state what does hold.  Repaired in /repo and now proved as full clauses:
   impose_at with a list target and dropped indices (impose_at_list_is_spec, impose_at_list_dropped_ok), synchronized (index, factor)
   sources for every container (synchronized_tied_mul), tools.connected merging bridged groups (connected_wf,
   connected_pair_same_group; impose_as_zero_offset_tied for the offset-free impose_as). *)
From Coq Require Import ZArith QArith Qround Qabs Reals List Bool Arith Permutation Sorting.
From MV Require Import Common.Num Common.NumR Common.Order Pure.Transforms Pure.Transforms_Proofs.
Import ListNotations.
Close Scope R_scope. Close Scope Q_scope. Close Scope Z_scope.
Open Scope nat_scope. Open Scope list_scope.

(* ---------------------------------------------------------------- order (any strict weak order) *)
Theorem C16_sorted_py_sorted :
  forall N : Num, StrictWeak (T N) (ltb N) -> forall (asc : bool) (x : list (T N)), StronglySorted (ordered N asc) (sorted_py N asc x).
Proof. exact sorted_py_sorted. Qed.
Print Assumptions C16_sorted_py_sorted.

Theorem C16_sorted_py_perm :
  forall (N : Num) (asc : bool) (x : list (T N)), Permutation x (sorted_py N asc x).
Proof. exact sorted_py_perm. Qed.
Print Assumptions C16_sorted_py_perm.

Theorem C16_sorted_py_fixed :
  forall (N : Num) (asc : bool) (x : list (T N)), StronglySorted (ordered N asc) x -> sorted_py N asc x = x.
Proof. exact sorted_py_fixed. Qed.
Print Assumptions C16_sorted_py_fixed.

Theorem C16_sorted_py_idem :
  forall N : Num, StrictWeak (T N) (ltb N) -> forall (asc : bool) (x : list (T N)), sorted_py N asc (sorted_py N asc x) = sorted_py N asc x.
Proof. exact sorted_py_idem. Qed.
Print Assumptions C16_sorted_py_idem.

Theorem C16_mono_py_monotone :
  forall N : Num, StrictWeak (T N) (ltb N) -> forall (asc : bool) (x : list (T N)), StronglySorted (ordered N asc) (mono_py N asc x).
Proof. exact mono_py_monotone. Qed.
Print Assumptions C16_mono_py_monotone.

Theorem C16_mono_py_upper :
  forall N : Num, StrictWeak (T N) (ltb N) -> forall (asc : bool) (x : list (T N)) (d : T N) (i j : nat), j <= i -> i < length x -> ordered N asc (nth j x d) (nth i (mono_py N asc x) d).
Proof. exact mono_py_upper. Qed.
Print Assumptions C16_mono_py_upper.

Theorem C16_mono_py_from_input :
  forall (N : Num) (asc : bool) (x : list (T N)) (d : T N) (i : nat), i < length x -> exists j : nat, j <= i /\ nth i (mono_py N asc x) d = nth j x d.
Proof. exact mono_py_from_input. Qed.
Print Assumptions C16_mono_py_from_input.

Theorem C16_mono_py_dominates :
  forall N : Num, StrictWeak (T N) (ltb N) -> forall (asc : bool) (x : list (T N)) (d : T N) (i : nat), i < length x -> ordered N asc (nth i x d) (nth i (mono_py N asc x) d).
Proof. exact mono_py_dominates. Qed.
Print Assumptions C16_mono_py_dominates.

Theorem C16_mono_py_fixed :
  forall (N : Num) (asc : bool) (x : list (T N)), ord_antisym N -> StronglySorted (ordered N asc) x -> mono_py N asc x = x.
Proof. exact mono_py_fixed. Qed.
Print Assumptions C16_mono_py_fixed.

Theorem C16_mono_py_fixed_strict :
  forall N : Num, StrictWeak (T N) (ltb N) -> forall (asc : bool) (x : list (T N)), StronglySorted (strict_or_same N asc) x -> mono_py N asc x = x.
Proof. exact mono_py_fixed_strict. Qed.
Print Assumptions C16_mono_py_fixed_strict.

Theorem C16_mono_py_fixed_equiv :
  forall N : Num, StrictWeak (T N) (ltb N) -> forall (asc : bool) (x : list (T N)), StronglySorted (ordered N asc) x -> Forall2 (ord_equiv N) (mono_py N asc x) x.
Proof. exact mono_py_fixed_equiv. Qed.
Print Assumptions C16_mono_py_fixed_equiv.

Theorem C16_mono_py_idem :
  forall N : Num, StrictWeak (T N) (ltb N) -> forall (asc : bool) (x : list (T N)), mono_py N asc (mono_py N asc x) = mono_py N asc x.
Proof. exact mono_py_idem. Qed.
Print Assumptions C16_mono_py_idem.

Theorem C16_mono_py_fixed_refuted :
  exists x : list (T NumQ), StronglySorted (ordered NumQ true) x /\ mono_py NumQ true x <> x.
Proof. exact mono_py_fixed_refuted. Qed.
Print Assumptions C16_mono_py_fixed_refuted.

Theorem C16_sorting_length :
  forall (N : Num) (asc : bool) (idx : index) (x y : list (T N)), sorting N asc idx x = Some y -> length y = length x.
Proof. exact sorting_length. Qed.
Print Assumptions C16_sorting_length.

Theorem C16_sorting_unselected :
  forall (N : Num) (asc : bool) (idx : index) (x y : list (T N)) (p : nat) (d : T N), sorting N asc idx x = Some y -> p < length x -> ~ sel_pos (length x) idx p -> nth p y d = nth p x d.
Proof. exact sorting_unselected. Qed.
Print Assumptions C16_sorting_unselected.

Theorem C16_sorting_error_iff :
  forall (N : Num) (asc : bool) (idx : index) (x : list (T N)), sorting N asc idx x = None <-> (exists l : list Z, idx = ITuple l /\ length l <> 1 /\ length x <> 1 /\ (l = [] \/ norm_all (length x) l = None)).
Proof. exact sorting_error_iff. Qed.
Print Assumptions C16_sorting_error_iff.

Theorem C16_sorting_in_target :
  forall N : Num, StrictWeak (T N) (ltb N) -> forall (asc : bool) (l : list Z) (x : list (T N)) (ps : list nat) (y : list (T N)), length l <> 1 -> length x <> 1 -> norm_all (length x) l = Some ps -> NoDup ps -> sorting N asc (ITuple l) x = Some y -> StronglySorted (ordered N asc) (gather (zero N) y (sort_nat ps)) /\ Permutation (gather (zero N) x (sort_nat ps)) (gather (zero N) y (sort_nat ps)).
Proof. exact sorting_in_target. Qed.
Print Assumptions C16_sorting_in_target.

Theorem C16_sorting_conforming :
  forall (N : Num) (asc : bool) (l : list Z) (x : list (T N)) (ps : list nat) (y : list (T N)), length l <> 1 -> length x <> 1 -> norm_all (length x) l = Some ps -> sorting N asc (ITuple l) x = Some y -> StronglySorted (ordered N asc) (gather (zero N) x (sort_nat ps)) -> y = x.
Proof. exact sorting_conforming. Qed.
Print Assumptions C16_sorting_conforming.

Theorem C16_sorting_idempotent :
  forall N : Num, StrictWeak (T N) (ltb N) -> forall (asc : bool) (idx : index) (x y : list (T N)), sorting N asc idx x = Some y -> sorting N asc idx y = Some y.
Proof. exact sorting_idempotent. Qed.
Print Assumptions C16_sorting_idempotent.

Theorem C16_sorting_repeated_index_not_perm :
  exists (l : list Z) (x y : list (T NumQ)), sorting NumQ true (ITuple l) x = Some y /\ ~ Permutation x y.
Proof. exact sorting_repeated_index_not_perm. Qed.
Print Assumptions C16_sorting_repeated_index_not_perm.

Theorem C16_monotonic_length :
  forall (N : Num) (asc : bool) (idx : index) (x y : list (T N)), monotonic N asc idx x = Some y -> length y = length x.
Proof. exact monotonic_length. Qed.
Print Assumptions C16_monotonic_length.

Theorem C16_monotonic_unselected :
  forall (N : Num) (asc : bool) (idx : index) (x y : list (T N)) (p : nat) (d : T N), monotonic N asc idx x = Some y -> p < length x -> ~ sel_pos (length x) idx p -> nth p y d = nth p x d.
Proof. exact monotonic_unselected. Qed.
Print Assumptions C16_monotonic_unselected.

Theorem C16_monotonic_error_iff :
  forall (N : Num) (asc : bool) (idx : index) (x : list (T N)), monotonic N asc idx x = None <-> (exists l : list Z, idx = ITuple l /\ length l <> 1 /\ length x <> 1 /\ (l = [] \/ norm_all (length x) l = None)).
Proof. exact monotonic_error_iff. Qed.
Print Assumptions C16_monotonic_error_iff.

Theorem C16_monotonic_in_target :
  forall N : Num, StrictWeak (T N) (ltb N) -> forall (asc : bool) (l : list Z) (x : list (T N)) (ps : list nat) (y : list (T N)), length l <> 1 -> length x <> 1 -> norm_all (length x) l = Some ps -> NoDup ps -> monotonic N asc (ITuple l) x = Some y -> StronglySorted (ordered N asc) (gather (zero N) y (sort_nat ps)) /\ (forall (i : nat) (d : T N), i < length ps -> ordered N asc (nth i (gather (zero N) x (sort_nat ps)) d) (nth i (gather (zero N) y (sort_nat ps)) d)) /\ (forall (i : nat) (d : T N), i < length ps -> exists j : nat, j <= i /\ nth i (gather (zero N) y (sort_nat ps)) d = nth j (gather (zero N) x (sort_nat ps)) d).
Proof. exact monotonic_in_target. Qed.
Print Assumptions C16_monotonic_in_target.

Theorem C16_monotonic_conforming :
  forall (N : Num) (asc : bool) (l : list Z) (x : list (T N)) (ps : list nat) (y : list (T N)), ord_antisym N -> length l <> 1 -> length x <> 1 -> norm_all (length x) l = Some ps -> monotonic N asc (ITuple l) x = Some y -> StronglySorted (ordered N asc) (gather (zero N) x (sort_nat ps)) -> y = x.
Proof. exact monotonic_conforming. Qed.
Print Assumptions C16_monotonic_conforming.

Theorem C16_monotonic_conforming_strict :
  forall N : Num, StrictWeak (T N) (ltb N) -> forall (asc : bool) (l : list Z) (x : list (T N)) (ps : list nat) (y : list (T N)), length l <> 1 -> length x <> 1 -> norm_all (length x) l = Some ps -> monotonic N asc (ITuple l) x = Some y -> StronglySorted (strict_or_same N asc) (gather (zero N) x (sort_nat ps)) -> y = x.
Proof. exact monotonic_conforming_strict. Qed.
Print Assumptions C16_monotonic_conforming_strict.

Theorem C16_monotonic_idempotent :
  forall N : Num, StrictWeak (T N) (ltb N) -> forall (asc : bool) (idx : index) (x y : list (T N)), monotonic N asc idx x = Some y -> monotonic N asc idx y = Some y.
Proof. exact monotonic_idempotent. Qed.
Print Assumptions C16_monotonic_idempotent.

Theorem C16_clipped_length :
  forall (N : Num) (lo hi : option (T N)) (x : list (T N)), length (clipped N lo hi x) = length x.
Proof. exact clipped_length. Qed.
Print Assumptions C16_clipped_length.

Theorem C16_clipped_in_range :
  forall N : Num, StrictWeak (T N) (ltb N) -> forall (lo hi : option (T N)) (x : list (T N)) (p : nat) (d : T N), ord_bounds_ok N lo hi -> p < length x -> ord_above N lo (nth p (clipped N lo hi x) d) /\ ord_below N hi (nth p (clipped N lo hi x) d).
Proof. exact clipped_in_range. Qed.
Print Assumptions C16_clipped_in_range.

Theorem C16_clipped_inside_unchanged :
  forall (N : Num) (lo hi : option (T N)) (x : list (T N)) (p : nat) (d : T N), p < length x -> ord_above N lo (nth p x d) -> ord_below N hi (nth p x d) -> nth p (clipped N lo hi x) d = nth p x d.
Proof. exact clipped_inside_unchanged. Qed.
Print Assumptions C16_clipped_inside_unchanged.

Theorem C16_clipped_only_to_bounds :
  forall (N : Num) (lo hi : option (T N)) (x : list (T N)) (p : nat) (d : T N), p < length x -> nth p (clipped N lo hi x) d <> nth p x d -> lo = Some (nth p (clipped N lo hi x) d) \/ hi = Some (nth p (clipped N lo hi x) d).
Proof. exact clipped_only_to_bounds. Qed.
Print Assumptions C16_clipped_only_to_bounds.

Theorem C16_clipped_idempotent :
  forall N : Num, StrictWeak (T N) (ltb N) -> forall (lo hi : option (T N)) (x : list (T N)), clipped N lo hi (clipped N lo hi x) = clipped N lo hi x.
Proof. exact clipped_idempotent. Qed.
Print Assumptions C16_clipped_idempotent.

Theorem C16_suppress_clip_length :
  forall (N : Num) (tol : T N) (x : list (T N)), length (suppress N tol true x) = length x.
Proof. exact suppress_clip_length. Qed.
Print Assumptions C16_suppress_clip_length.

Theorem C16_suppress_clip_spec :
  forall (N : Num) (tol : T N) (x : list (T N)) (p : nat) (d : T N), p < length x -> nth p (suppress N tol true x) d = (if small N tol (nth p x d) then zero N else nth p x d).
Proof. exact suppress_clip_spec. Qed.
Print Assumptions C16_suppress_clip_spec.

Theorem C16_suppress_clip_idempotent :
  forall (N : Num) (tol : T N) (x : list (T N)), suppress N tol true (suppress N tol true x) = suppress N tol true x.
Proof. exact suppress_clip_idempotent. Qed.
Print Assumptions C16_suppress_clip_idempotent.

(* ---------------------------------------------------------------- surgery (any carrier) *)
Theorem C16_impose_at_length :
  forall (N : Num) (index : list Z) (t : target N) (x y : list (T N)), impose_at N index t x = Some y -> length y = length x.
Proof. exact impose_at_length. Qed.
Print Assumptions C16_impose_at_length.

Theorem C16_impose_at_scalar_pinned :
  forall (N : Num) (index : list Z) (v : T N) (x y : list (T N)) (i : Z) (p : nat) (d : T N), impose_at N index (TScalar N v) x = Some y -> In i index -> norm_idx (length x) i = Some p -> nth p y d = v.
Proof. exact impose_at_scalar_pinned. Qed.
Print Assumptions C16_impose_at_scalar_pinned.

Theorem C16_impose_at_others_unchanged :
  forall (N : Num) (index : list Z) (t : target N) (x y : list (T N)) (p : nat) (d : T N), impose_at N index t x = Some y -> p < length x -> (forall i : Z, In i index -> norm_idx (length x) i <> Some p) -> nth p y d = nth p x d.
Proof. exact impose_at_others_unchanged. Qed.
Print Assumptions C16_impose_at_others_unchanged.

Theorem C16_impose_at_none_iff :
  forall (N : Num) (index : list Z) (t : target N) (x : list (T N)), impose_at N index t x = None <-> match t with | TScalar _ _ => exists i : Z, In i index /\ (i < - Z.of_nat (length x))%Z | TList _ vs => exists iv : Z * T N, In iv (combine index vs) /\ (fst iv < - Z.of_nat (length x))%Z end.
Proof. exact impose_at_none_iff. Qed.
Print Assumptions C16_impose_at_none_iff.

Theorem C16_impose_at_list_is_spec :
  forall (N : Num) (index : list Z) (vs x : list (T N)), (forall iv : Z * T N, In iv (combine index vs) -> (- Z.of_nat (length x) <= fst iv)%Z) -> impose_at N index (TList N vs) x = Some (impose_at_spec N index vs x).
Proof. exact impose_at_list_is_spec. Qed.
Print Assumptions C16_impose_at_list_is_spec.

Theorem C16_impose_at_list_dropped_ok :
  forall (N : Num) (index : list Z) (vs x : list (T N)), length vs = length index -> (forall i : Z, In i index -> (0 <= i)%Z) -> impose_at N index (TList N vs) x = Some (impose_at_spec N index vs x).
Proof. exact impose_at_list_dropped_ok. Qed.
Print Assumptions C16_impose_at_list_dropped_ok.

Theorem C16_impose_at_list_pinned :
  forall (N : Num) (index : list Z) (vs x y : list (T N)) (ps : list nat) (k : nat) (d : T N), impose_at N index (TList N vs) x = Some y -> norm_all (length x) (map fst (filter (fun iv : Z * T N => (fst iv <? Z.of_nat (length x))%Z) (combine index vs))) = Some ps -> NoDup ps -> k < length ps -> nth (nth k ps 0) y d = nth k (map snd (filter (fun iv : Z * T N => (fst iv <? Z.of_nat (length x))%Z) (combine index vs))) d.
Proof. exact impose_at_list_pinned. Qed.
Print Assumptions C16_impose_at_list_pinned.

Theorem C16_impose_at_list_dropped_example :
  impose_at NumQ [1%Z; 3%Z] (TList NumQ [0%Q; 2%Q]) [1%Q; 1%Q] = Some [1%Q; 0%Q].
Proof. exact impose_at_list_dropped_example. Qed.
Print Assumptions C16_impose_at_list_dropped_example.

Theorem C16_impose_at_idempotent :
  forall (N : Num) (index : list Z) (t : target N) (x y : list (T N)), impose_at N index t x = Some y -> impose_at N index t y = Some y.
Proof. exact impose_at_idempotent. Qed.
Print Assumptions C16_impose_at_idempotent.

Theorem C16_partial_length :
  forall (N : Num) (mask : list (Z * T N)) (x : list (T N)), length (partial N mask x) = length x.
Proof. exact partial_length. Qed.
Print Assumptions C16_partial_length.

Theorem C16_partial_others_unchanged :
  forall (N : Num) (mask : list (Z * T N)) (x : list (T N)) (p : nat) (d : T N), (forall kv : Z * T N, In kv mask -> norm_idx (length x) (fst kv) <> Some p) -> nth p (partial N mask x) d = nth p x d.
Proof. exact partial_others_unchanged. Qed.
Print Assumptions C16_partial_others_unchanged.

Theorem C16_partial_fixed :
  forall (N : Num) (mask : list (Z * T N)) (x : list (T N)) (i : Z) (v : T N) (p : nat) (d : T N), sg_distinct_positions (length x) mask -> In (i, v) mask -> norm_idx (length x) i = Some p -> nth p (partial N mask x) d = v.
Proof. exact partial_fixed. Qed.
Print Assumptions C16_partial_fixed.

Theorem C16_partial_idempotent :
  forall (N : Num) (mask : list (Z * T N)) (x : list (T N)), partial N mask (partial N mask x) = partial N mask x.
Proof. exact partial_idempotent. Qed.
Print Assumptions C16_partial_idempotent.

Theorem C16_insert_missing_none_iff :
  forall (N : Num) (mask : list (Z * T N)) (x : list (T N)), insert_missing N mask x = None <-> (exists k : Z, In k (map fst mask) /\ (k < 0)%Z) \/ (exists k : Z, In k (map fst mask) /\ (k > Z.of_nat (length x + length mask) - 1)%Z).
Proof. exact insert_missing_none_iff. Qed.
Print Assumptions C16_insert_missing_none_iff.

Theorem C16_insert_missing_length :
  forall (N : Num) (mask : list (Z * T N)) (x y : list (T N)), insert_missing N mask x = Some y -> length y = length x + length mask.
Proof. exact insert_missing_length. Qed.
Print Assumptions C16_insert_missing_length.

Theorem C16_insert_missing_at_keys :
  forall (N : Num) (mask : list (Z * T N)) (x y : list (T N)) (k : Z) (v d : T N), insert_missing N mask x = Some y -> NoDup (map fst mask) -> In (k, v) mask -> nth (Z.to_nat k) y d = v.
Proof. exact insert_missing_at_keys. Qed.
Print Assumptions C16_insert_missing_at_keys.

Theorem C16_insert_missing_rest_is_x :
  forall (N : Num) (mask : list (Z * T N)) (x y : list (T N)), insert_missing N mask x = Some y -> NoDup (map fst mask) -> map snd (filter (fun pv : nat * T N => negb (memZ (Z.of_nat (fst pv)) (map fst mask))) (enum_from 0 y)) = x.
Proof. exact insert_missing_rest_is_x. Qed.
Print Assumptions C16_insert_missing_rest_is_x.

Theorem C16_synchronized_length :
  forall (N : Num) (mask : list (Z * source N)) (x : list (T N)), length (synchronized N mask x) = length x.
Proof. exact synchronized_length. Qed.
Print Assumptions C16_synchronized_length.

Theorem C16_synchronized_others_unchanged :
  forall (N : Num) (mask : list (Z * source N)) (x : list (T N)) (p : nat) (d : T N), (forall kv : Z * source N, In kv mask -> norm_idx (length x) (fst kv) <> Some p) -> nth p (synchronized N mask x) d = nth p x d.
Proof. exact synchronized_others_unchanged. Qed.
Print Assumptions C16_synchronized_others_unchanged.

Theorem C16_synchronized_tied :
  forall (N : Num) (mask : list (Z * source N)) (x : list (T N)) (i j : Z) (pi pj : nat) (d : T N), sg_sources_untouched N (length x) mask -> sg_distinct_positions (length x) mask -> In (i, SIdx N j) mask -> norm_idx (length x) i = Some pi -> norm_idx (length x) j = Some pj -> nth pi (synchronized N mask x) d = nth pj x d.
Proof. exact synchronized_tied. Qed.
Print Assumptions C16_synchronized_tied.

Theorem C16_synchronized_tied_mul :
  forall (N : Num) (mask : list (Z * source N)) (x : list (T N)) (i j0 : Z) (c : T N) (pi pj : nat) (d : T N), sg_sources_untouched N (length x) mask -> sg_distinct_positions (length x) mask -> In (i, SMul N j0 c) mask -> norm_idx (length x) i = Some pi -> norm_idx (length x) j0 = Some pj -> nth pi (synchronized N mask x) d = mul N c (nth pj x d).
Proof. exact synchronized_tied_mul. Qed.
Print Assumptions C16_synchronized_tied_mul.

(* ---------------------------------------------------------------- rounding (Q) *)
Theorem C16_rhe_nearest :
  forall q : Q, (Qabs (inject_Z (round_half_even q) - q) <= 1 # 2)%Q.
Proof. exact rhe_nearest. Qed.
Print Assumptions C16_rhe_nearest.

Theorem C16_rhe_tie_even :
  forall q : Q, (q - inject_Z (Qfloor q) == 1 # 2)%Q -> Z.even (round_half_even q) = true.
Proof. exact rhe_tie_even. Qed.
Print Assumptions C16_rhe_tie_even.

Theorem C16_rhe_int :
  forall z : Z, round_half_even (inject_Z z) = z.
Proof. exact rhe_int. Qed.
Print Assumptions C16_rhe_int.

Theorem C16_integers_float_length :
  forall (idx : index) (x : list Q), length (integers false idx x) = length x.
Proof. exact integers_float_length. Qed.
Print Assumptions C16_integers_float_length.

Theorem C16_integers_float_unselected :
  forall (idx : index) (x : list Q) (p : nat) (d : Q), p < length x -> ~ msel (length x) idx p -> nth p (integers false idx x) d = nth p x d.
Proof. exact integers_float_unselected. Qed.
Print Assumptions C16_integers_float_unselected.

Theorem C16_integers_float_in_target :
  forall (idx : index) (x : list Q) (p : nat) (d : Q), p < length x -> msel (length x) idx p -> exists z : Z, nth p (integers false idx x) d = inject_Z z /\ (Qabs (inject_Z z - nth p x d) <= 1 # 2)%Q.
Proof. exact integers_float_in_target. Qed.
Print Assumptions C16_integers_float_in_target.

Theorem C16_integers_float_conforming :
  forall (idx : index) (x : list Q) (p : nat) (d : Q) (z : Z), p < length x -> (nth p x d == inject_Z z)%Q -> (nth p (integers false idx x) d == nth p x d)%Q.
Proof. exact integers_float_conforming. Qed.
Print Assumptions C16_integers_float_conforming.

Theorem C16_integers_float_idempotent :
  forall (idx : index) (x : list Q), integers false idx (integers false idx x) = integers false idx x.
Proof. exact integers_float_idempotent. Qed.
Print Assumptions C16_integers_float_idempotent.

Theorem C16_integers_int_all_integral :
  forall (idx : index) (x : list Q) (p : nat) (d : Q), p < length x -> exists z : Z, nth p (integers true idx x) d = inject_Z z.
Proof. exact integers_int_all_integral. Qed.
Print Assumptions C16_integers_int_all_integral.

Theorem C16_integers_int_none_eq :
  forall x : list Q, integers true INone x = integers false INone x.
Proof. exact integers_int_none_eq. Qed.
Print Assumptions C16_integers_int_none_eq.

Theorem C16_integers_int_selected :
  forall (idx : index) (x : list Q) (p : nat) (d : Q), p < length x -> msel (length x) idx p -> nth p (integers true idx x) d = inject_Z (round_half_even (nth p x d)).
Proof. exact integers_int_selected. Qed.
Print Assumptions C16_integers_int_selected.

Theorem C16_integers_int_unselected_refuted :
  exists (idx : index) (x : list Q) (p : nat), p < length x /\ ~ msel (length x) idx p /\ ~ (nth p (integers true idx x) 0 == nth p x 0)%Q.
Proof. exact integers_int_unselected_refuted. Qed.
Print Assumptions C16_integers_int_unselected_refuted.

Theorem C16_integers_int_unselected_partial :
  forall (idx : index) (x : list Q) (p : nat) (d : Q), p < length x -> ~ msel (length x) idx p -> nth p (integers true idx x) d = inject_Z (qtrunc (nth p x d)).
Proof. exact integers_int_unselected_partial. Qed.
Print Assumptions C16_integers_int_unselected_partial.

Theorem C16_integers_int_idempotent :
  forall (idx : index) (x : list Q), integers true idx (integers true idx x) = integers true idx x.
Proof. exact integers_int_idempotent. Qed.
Print Assumptions C16_integers_int_idempotent.

Theorem C16_rounded_length :
  forall (d : Z) (idx : index) (x : list Q), length (rounded d idx x) = length x.
Proof. exact rounded_length. Qed.
Print Assumptions C16_rounded_length.

Theorem C16_rounded_unselected :
  forall (d : Z) (idx : index) (x : list Q) (p : nat) (d0 : Q), p < length x -> ~ msel (length x) idx p -> nth p (rounded d idx x) d0 = nth p x d0.
Proof. exact rounded_unselected. Qed.
Print Assumptions C16_rounded_unselected.

Theorem C16_rounded_in_target :
  forall (d : Z) (idx : index) (x : list Q) (p : nat) (d0 : Q), p < length x -> msel (length x) idx p -> exists z : Z, nth p (rounded d idx x) d0 = (inject_Z z / pow10 d)%Q /\ (Qabs (nth p (rounded d idx x) d0 - nth p x d0) <= (1 # 2) / pow10 d)%Q.
Proof. exact rounded_in_target. Qed.
Print Assumptions C16_rounded_in_target.

Theorem C16_rounded_conforming :
  forall (d : Z) (idx : index) (x : list Q) (p : nat) (d0 : Q) (z : Z), p < length x -> (nth p x d0 == inject_Z z / pow10 d)%Q -> (nth p (rounded d idx x) d0 == nth p x d0)%Q.
Proof. exact rounded_conforming. Qed.
Print Assumptions C16_rounded_conforming.

Theorem C16_rounded_idempotent :
  forall (d : Z) (idx : index) (x : list Q), rounded d idx (rounded d idx x) = rounded d idx x.
Proof. exact rounded_idempotent. Qed.
Print Assumptions C16_rounded_idempotent.

(* ---------------------------------------------------------------- discrete (R) *)
Theorem C16_discrete_none_iff :
  forall (samples : list R) (idx : index) (x : list R), discrete NumR samples idx x = None <-> samples = [] \/ x = [].
Proof. exact discrete_none_iff. Qed.
Print Assumptions C16_discrete_none_iff.

Theorem C16_discrete_length :
  forall (samples : list R) (idx : index) (x y : list R), discrete NumR samples idx x = Some y -> length y = length x.
Proof. exact discrete_length. Qed.
Print Assumptions C16_discrete_length.

Theorem C16_discrete_unselected :
  forall (samples : list R) (idx : index) (x y : list R), discrete NumR samples idx x = Some y -> forall (p : nat) (d : R), p < length x -> ~ msel (length x) idx p -> nth p y d = nth p x d.
Proof. exact discrete_unselected. Qed.
Print Assumptions C16_discrete_unselected.

Theorem C16_discrete_in_target :
  forall (samples : list R) (idx : index) (x y : list R), discrete NumR samples idx x = Some y -> forall (p : nat) (d : R), p < length x -> msel (length x) idx p -> In (nth p y d) samples.
Proof. exact discrete_in_target. Qed.
Print Assumptions C16_discrete_in_target.

Theorem C16_discrete_nearest :
  forall (samples : list R) (idx : index) (x y : list R), discrete NumR samples idx x = Some y -> forall (p : nat) (d : R), p < length x -> msel (length x) idx p -> forall s : R, In s samples -> (Rabs (nth p y d - nth p x d) <= Rabs (s - nth p x d))%R.
Proof. exact discrete_nearest. Qed.
Print Assumptions C16_discrete_nearest.

Theorem C16_discrete_tie_lower :
  forall (samples : list R) (idx : index) (x y : list R), discrete NumR samples idx x = Some y -> forall (p : nat) (d : R), p < length x -> msel (length x) idx p -> forall s : R, In s samples -> Rabs (s - nth p x d) = Rabs (nth p y d - nth p x d) -> (nth p y d <= s)%R.
Proof. exact discrete_tie_lower. Qed.
Print Assumptions C16_discrete_tie_lower.

Theorem C16_discrete_conforming :
  forall (samples : list R) (idx : index) (x y : list R), discrete NumR samples idx x = Some y -> forall (p : nat) (d : R), p < length x -> In (nth p x d) samples -> nth p y d = nth p x d.
Proof. exact discrete_conforming. Qed.
Print Assumptions C16_discrete_conforming.

Theorem C16_discrete_idempotent :
  forall (samples : list R) (idx : index) (x y : list R), discrete NumR samples idx x = Some y -> discrete NumR samples idx y = Some y.
Proof. exact discrete_idempotent. Qed.
Print Assumptions C16_discrete_idempotent.

(* ---------------------------------------------------------------- bounds (R) *)
Theorem C16_bounded_length :
  forall (mode : bmode) (bs : list iv) (idx : index) (st : draws NumR) (x : list R), length (fst (bounded NumR mode bs idx st x)) = length x.
Proof. exact bounded_length. Qed.
Print Assumptions C16_bounded_length.

Theorem C16_bounded_unselected :
  forall (mode : bmode) (bs : list iv) (idx : index) (st : draws NumR) (x : list R) (p : nat) (d : T NumR), p < length x -> ~ bsel idx p -> nth p (fst (bounded NumR mode bs idx st x)) d = nth p x d.
Proof. exact bounded_unselected. Qed.
Print Assumptions C16_bounded_unselected.

Theorem C16_bounded_conforming :
  forall (mode : bmode) (bs : list iv) (idx : index) (st : draws NumR) (x : list R) (p : nat) (d : R), p < length x -> inR bs (nth p x d) = true -> nth p (fst (bounded NumR mode bs idx st x)) d = nth p x d.
Proof. exact bounded_conforming. Qed.
Print Assumptions C16_bounded_conforming.

Theorem C16_clip_nearest_in_target :
  forall (bs : list iv) (v : R), bs <> [] -> Forall nonempty bs -> inR bs v = false -> inR bs (clip_nearest NumR bs v) = true /\ is_end bs (clip_nearest NumR bs v).
Proof. exact clip_nearest_in_target. Qed.
Print Assumptions C16_clip_nearest_in_target.

Theorem C16_bounded_clip_in_target :
  forall (bs : list iv) (idx : index) (st : draws NumR) (x : list R) (p : nat) (d : T NumR), bs <> [] -> Forall nonempty bs -> p < length x -> bsel idx p -> inR bs (nth p (fst (bounded NumR ClipNearest bs idx st x)) d) = true.
Proof. exact bounded_clip_in_target. Qed.
Print Assumptions C16_bounded_clip_in_target.

Theorem C16_bounded_clip_moved_to_end :
  forall (bs : list iv) (idx : index) (st : draws NumR) (x : list R) (p : nat) (d : T NumR), bs <> [] -> Forall nonempty bs -> p < length x -> nth p (fst (bounded NumR ClipNearest bs idx st x)) d <> nth p x d -> is_end bs (nth p (fst (bounded NumR ClipNearest bs idx st x)) d).
Proof. exact bounded_clip_moved_to_end. Qed.
Print Assumptions C16_bounded_clip_moved_to_end.

Theorem C16_bounded_clip_idempotent_fst :
  forall (bs : list iv) (idx : index) (st : draws NumR) (x : list R), bs <> [] -> Forall nonempty bs -> fst (bounded NumR ClipNearest bs idx st (fst (bounded NumR ClipNearest bs idx st x))) = fst (bounded NumR ClipNearest bs idx st x).
Proof. exact bounded_clip_idempotent_fst. Qed.
Print Assumptions C16_bounded_clip_idempotent_fst.

Theorem C16_bounded_single_is_clip :
  forall (l h : R) (idx : index) (st : draws NumR) (x : list R) (p : nat) (d : T NumR), (l <= h)%R -> p < length x -> bsel idx p -> nth p (fst (bounded NumR ClipNearest [(Some l, Some h)] idx st x)) d = (if Rlt_dec (nth p x d) l then l else if Rlt_dec h (nth p x d) then h else nth p x d).
Proof. exact bounded_single_is_clip. Qed.
Print Assumptions C16_bounded_single_is_clip.

Theorem C16_bounded_single_general :
  forall (lo hi : option R) (idx : index) (st : draws NumR) (x : list R) (p : nat) (d : T NumR), p < length x -> bsel idx p -> nth p (fst (bounded NumR ClipNearest [(lo, hi)] idx st x)) d = (if inb NumR (nth p x d) (lo, hi) then nth p x d else clipo NumR (nth p x d) lo hi).
Proof. exact bounded_single_general. Qed.
Print Assumptions C16_bounded_single_general.

Theorem C16_bounded_cliprandom_in_target :
  forall (bs : list iv) (idx : index) (st : draws NumR) (x : list R) (p : nat) (d : T NumR), bs <> [] -> Forall nonempty bs -> Forall (fun j : nat => j < length bs) (picks NumR st) -> p < length x -> bsel idx p -> inR bs (nth p (fst (bounded NumR ClipRandom bs idx st x)) d) = true.
Proof. exact bounded_cliprandom_in_target. Qed.
Print Assumptions C16_bounded_cliprandom_in_target.

Theorem C16_bounded_draw_in_target :
  forall (mode : bmode) (bs : list iv) (idx : index) (st : draws NumR) (x : list R) (p : nat) (d : T NumR), mode = DrawNearest \/ mode = DrawRandom -> bs <> [] -> Forall finite_nonempty bs -> Forall (fun j : nat => j < length bs) (picks NumR st) -> Forall (fun u : R => (0 <= u <= 1)%R) (unifs NumR st) -> length bs * length x <= length (unifs NumR st) -> p < length x -> bsel idx p -> inR bs (nth p (fst (bounded NumR mode bs idx st x)) d) = true.
Proof. exact bounded_draw_in_target. Qed.
Print Assumptions C16_bounded_draw_in_target.

Theorem C16_impose_bounds_length :
  forall (mode : bmode) (bs : list iv) (idx : index) (st : draws NumR) (x : list R), length (fst (impose_bounds NumR mode bs idx st x)) = length x.
Proof. exact impose_bounds_length. Qed.
Print Assumptions C16_impose_bounds_length.

Theorem C16_impose_bounds_unselected :
  forall (mode : bmode) (bs : list iv) (idx : index) (st : draws NumR) (x : list R) (p : nat) (d : T NumR), p < length x -> ~ bsel idx p -> nth p (fst (impose_bounds NumR mode bs idx st x)) d = nth p x d.
Proof. exact impose_bounds_unselected. Qed.
Print Assumptions C16_impose_bounds_unselected.

Theorem C16_impose_bounds_conforming :
  forall (mode : bmode) (bs : list iv) (idx : index) (st : draws NumR) (x : list R) (p : nat) (d : R), p < length x -> inR bs (nth p x d) = true -> nth p (fst (impose_bounds NumR mode bs idx st x)) d = nth p x d.
Proof. exact impose_bounds_conforming. Qed.
Print Assumptions C16_impose_bounds_conforming.

Theorem C16_impose_bounds_clip_in_target :
  forall (bs : list iv) (idx : index) (st : draws NumR) (x : list R) (p : nat) (d : T NumR), bs <> [] -> Forall nonempty bs -> p < length x -> bsel idx p -> inR bs (nth p (fst (impose_bounds NumR ClipNearest bs idx st x)) d) = true.
Proof. exact impose_bounds_clip_in_target. Qed.
Print Assumptions C16_impose_bounds_clip_in_target.

Theorem C16_impose_bounds_clip_idempotent_fst :
  forall (bs : list iv) (idx : index) (st : draws NumR) (x : list R), bs <> [] -> Forall nonempty bs -> fst (impose_bounds NumR ClipNearest bs idx st (fst (impose_bounds NumR ClipNearest bs idx st x))) = fst (impose_bounds NumR ClipNearest bs idx st x).
Proof. exact impose_bounds_clip_idempotent_fst. Qed.
Print Assumptions C16_impose_bounds_clip_idempotent_fst.

Theorem C16_impose_bounds_dict_length :
  forall (mode : bmode) (D : list (Z * list iv)) (idx : index) (st : draws NumR) (x : list R), length (fst (impose_bounds_dict NumR mode D idx st x)) = length x.
Proof. exact impose_bounds_dict_length. Qed.
Print Assumptions C16_impose_bounds_dict_length.

Theorem C16_impose_bounds_dict_other :
  forall (mode : bmode) (D : list (Z * list iv)) (idx : index) (st : draws NumR) (x : list R) (p : nat) (d : R), p < length x -> ~ In (Z.of_nat p) (map fst D) \/ ~ bsel idx p -> nth p (fst (impose_bounds_dict NumR mode D idx st x)) d = nth p x d.
Proof. exact impose_bounds_dict_other. Qed.
Print Assumptions C16_impose_bounds_dict_other.

Theorem C16_impose_bounds_dict_conforming :
  forall (mode : bmode) (D : list (Z * list iv)) (idx : index) (st : draws NumR) (x : list R) (p : nat) (d : R), p < length x -> (forall bsk : list iv, In (Z.of_nat p, bsk) D -> bsel idx p -> inR bsk (nth p x d) = true) -> nth p (fst (impose_bounds_dict NumR mode D idx st x)) d = nth p x d.
Proof. exact impose_bounds_dict_conforming. Qed.
Print Assumptions C16_impose_bounds_dict_conforming.

Theorem C16_impose_bounds_dict_clip_in_target :
  forall (D : list (Z * list iv)) (idx : index) (st : draws NumR) (x : list R) (p : nat) (bsk : list iv) (d : R), NoDup (map fst D) -> In (Z.of_nat p, bsk) D -> bsel idx p -> bsk <> [] -> Forall nonempty bsk -> p < length x -> inR bsk (nth p (fst (impose_bounds_dict NumR ClipNearest D idx st x)) d) = true.
Proof. exact impose_bounds_dict_clip_in_target. Qed.
Print Assumptions C16_impose_bounds_dict_clip_in_target.

Theorem C16_impose_bounds_dict_clip_idempotent :
  forall (D : list (Z * list iv)) (idx : index) (st st' : draws NumR) (x : list R), NoDup (map fst D) -> Forall (fun kv : Z * list iv => snd kv <> [] /\ Forall nonempty (snd kv)) D -> impose_bounds_dict NumR ClipNearest D idx st' (fst (impose_bounds_dict NumR ClipNearest D idx st x)) = (fst (impose_bounds_dict NumR ClipNearest D idx st x), st').
Proof. exact impose_bounds_dict_clip_idempotent. Qed.
Print Assumptions C16_impose_bounds_dict_clip_idempotent.

Theorem C16_clip_nearest_in_target_needs_nonempty :
  exists (bs : list iv) (v : R), bs <> [] /\ inR bs v = false /\ inR bs (clip_nearest NumR bs v) = false.
Proof. exact clip_nearest_in_target_needs_nonempty. Qed.
Print Assumptions C16_clip_nearest_in_target_needs_nonempty.

Theorem C16_clip_nearest_not_nearest_point :
  let bs := [(Some 0%R, Some 1%R); (Some 10%R, Some 11%R)] in let v := (28 / 5)%R in clip_nearest NumR bs v = 1%R /\ inR bs 10%R = true /\ (Rabs (v - 10) < Rabs (v - 1))%R.
Proof. exact clip_nearest_not_nearest_point. Qed.
Print Assumptions C16_clip_nearest_not_nearest_point.

(* ---------------------------------------------------------------- moments, unique, impose_as (R) *)
Theorem C16_with_mean_none_iff :
  forall (tol rel m : T NumR) (x : list R), with_mean NumR tol rel m x = None <-> x = [].
Proof. exact with_mean_none_iff. Qed.
Print Assumptions C16_with_mean_none_iff.

Theorem C16_with_mean_hits :
  forall (tol rel m : T NumR) (x y : list R), x <> [] -> with_mean NumR tol rel m x = Some y -> almost NumR tol rel (mean NumR x) m = false -> mean NumR y = m.
Proof. exact with_mean_hits. Qed.
Print Assumptions C16_with_mean_hits.

Theorem C16_with_mean_conforming :
  forall (tol rel m : T NumR) (x : list R), almost NumR tol rel (mean NumR x) m = true -> x <> [] -> with_mean NumR tol rel m x = Some x.
Proof. exact with_mean_conforming. Qed.
Print Assumptions C16_with_mean_conforming.

Theorem C16_with_mean_in_target :
  forall (tol rel : R) (m : T NumR) (x y : list R), (0 <= tol)%R -> (0 <= rel)%R -> x <> [] -> with_mean NumR tol rel m x = Some y -> almost NumR tol rel (mean NumR y) m = true.
Proof. exact with_mean_in_target. Qed.
Print Assumptions C16_with_mean_in_target.

Theorem C16_with_mean_idempotent :
  forall (tol rel : R) (m : T NumR) (x y : list R), (0 <= tol)%R -> (0 <= rel)%R -> with_mean NumR tol rel m x = Some y -> with_mean NumR tol rel m y = Some y.
Proof. exact with_mean_idempotent. Qed.
Print Assumptions C16_with_mean_idempotent.

Theorem C16_with_mean_keeps_differences :
  forall (tol rel m : T NumR) (x y : list R) (i j : nat) (d : R), with_mean NumR tol rel m x = Some y -> i < length x -> j < length x -> (nth i y d - nth j y d)%R = (nth i x d - nth j x d)%R.
Proof. exact with_mean_keeps_differences. Qed.
Print Assumptions C16_with_mean_keeps_differences.

Theorem C16_with_spread_none_iff :
  forall (tol rel r : T NumR) (x : list R), with_spread NumR tol rel r x = None <-> x = [] \/ almost NumR tol rel (spread NumR x) r = false /\ spread NumR x = 0%R.
Proof. exact with_spread_none_iff. Qed.
Print Assumptions C16_with_spread_none_iff.

Theorem C16_with_spread_hits :
  forall (tol rel : T NumR) (r : R) (x y : list R), x <> [] -> spread NumR x <> 0%R -> (0 <= r)%R -> almost NumR tol rel (spread NumR x) r = false -> with_spread NumR tol rel r x = Some y -> spread NumR y = r /\ mean NumR y = mean NumR x.
Proof. exact with_spread_hits. Qed.
Print Assumptions C16_with_spread_hits.

Theorem C16_with_spread_conforming :
  forall (tol rel r : T NumR) (x : list R), x <> [] -> almost NumR tol rel (spread NumR x) r = true -> with_spread NumR tol rel r x = Some x.
Proof. exact with_spread_conforming. Qed.
Print Assumptions C16_with_spread_conforming.

Theorem C16_with_spread_in_target :
  forall (tol rel r : R) (x y : list R), (0 <= tol)%R -> (0 <= rel)%R -> (0 <= r)%R -> with_spread NumR tol rel r x = Some y -> almost NumR tol rel (spread NumR y) r = true.
Proof. exact with_spread_in_target. Qed.
Print Assumptions C16_with_spread_in_target.

Theorem C16_with_spread_idempotent :
  forall (tol rel r : R) (x y : list R), (0 <= tol)%R -> (0 <= rel)%R -> (0 <= r)%R -> with_spread NumR tol rel r x = Some y -> with_spread NumR tol rel r y = Some y.
Proof. exact with_spread_idempotent. Qed.
Print Assumptions C16_with_spread_idempotent.

Theorem C16_normalized_length :
  forall (tol rel mass : T NumR) (x : list R), length (normalized NumR tol rel mass x) = length x.
Proof. exact normalized_length. Qed.
Print Assumptions C16_normalized_length.

Theorem C16_normalized_hits :
  forall (tol rel mass : T NumR) (x : list R), almost NumR tol rel (vsum NumR x) mass = false -> vsum NumR (map Rabs x) <> 0%R -> vsum NumR x <> 0%R -> vsum NumR (normalized NumR tol rel mass x) = mass.
Proof. exact normalized_hits. Qed.
Print Assumptions C16_normalized_hits.

Theorem C16_normalized_conforming :
  forall (tol rel mass : T NumR) (x : list R), almost NumR tol rel (vsum NumR x) mass = true -> normalized NumR tol rel mass x = x.
Proof. exact normalized_conforming. Qed.
Print Assumptions C16_normalized_conforming.

Theorem C16_normalized_degenerate_zero :
  forall (tol rel mass : T NumR) (x : list R), almost NumR tol rel (vsum NumR x) mass = false -> vsum NumR (map Rabs x) = 0%R \/ vsum NumR x = 0%R -> normalized NumR tol rel mass x = repeat 0%R (length x).
Proof. exact normalized_degenerate_zero. Qed.
Print Assumptions C16_normalized_degenerate_zero.

Theorem C16_normalized_idempotent :
  forall (tol rel : R) (mass : T NumR) (x : list R), (0 <= tol)%R -> (0 <= rel)%R -> normalized NumR tol rel mass (normalized NumR tol rel mass x) = normalized NumR tol rel mass x.
Proof. exact normalized_idempotent. Qed.
Print Assumptions C16_normalized_idempotent.

Theorem C16_with_variance_none_iff :
  forall (sqrtf : R -> R) (tol rel v : T NumR) (x : list R), with_variance NumR sqrtf tol rel v x = None <-> x = [] \/ almost NumR tol rel (variance NumR x) v = false /\ variance NumR x = 0%R /\ v <> 0%R.
Proof. exact with_variance_none_iff. Qed.
Print Assumptions C16_with_variance_none_iff.

Theorem C16_with_variance_hits :
  forall sqrtf : R -> R, (forall a : R, (0 <= a)%R -> (sqrtf a * sqrtf a)%R = a) -> forall (tol rel : T NumR) (v : R) (x y : list R), x <> [] -> variance NumR x <> 0%R -> (0 <= v)%R -> almost NumR tol rel (variance NumR x) v = false -> with_variance NumR sqrtf tol rel v x = Some y -> variance NumR y = v /\ mean NumR y = mean NumR x.
Proof. exact with_variance_hits. Qed.
Print Assumptions C16_with_variance_hits.

Theorem C16_with_variance_conforming :
  forall (sqrtf : R -> R) (tol rel v : T NumR) (x : list R), x <> [] -> almost NumR tol rel (variance NumR x) v = true -> with_variance NumR sqrtf tol rel v x = Some x.
Proof. exact with_variance_conforming. Qed.
Print Assumptions C16_with_variance_conforming.

Theorem C16_with_variance_idempotent :
  forall sqrtf : R -> R, (forall a : R, (0 <= a)%R -> (sqrtf a * sqrtf a)%R = a) -> forall (tol rel v : R) (x y : list R), (0 <= tol)%R -> (0 <= rel)%R -> (0 <= v)%R -> with_variance NumR sqrtf tol rel v x = Some y -> with_variance NumR sqrtf tol rel v y = Some y.
Proof. exact with_variance_idempotent. Qed.
Print Assumptions C16_with_variance_idempotent.

Theorem C16_with_variance_sqrt_instance :
  forall (tol rel : T NumR) (v : R) (x y : list R), x <> [] -> variance NumR x <> 0%R -> (0 <= v)%R -> almost NumR tol rel (variance NumR x) v = false -> with_variance NumR sqrt tol rel v x = Some y -> variance NumR y = v /\ mean NumR y = mean NumR x.
Proof. exact with_variance_sqrt_instance. Qed.
Print Assumptions C16_with_variance_sqrt_instance.

Theorem C16_unique_length :
  forall (full sh : list (T NumR)) (x y : list R), unique_list NumR full sh x = Some y -> length y = length x.
Proof. exact unique_length. Qed.
Print Assumptions C16_unique_length.

Theorem C16_unique_nodup :
  forall (full sh : list (T NumR)) (x y : list R), NoDup sh -> unique_list NumR full sh x = Some y -> NoDup y.
Proof. exact unique_nodup. Qed.
Print Assumptions C16_unique_nodup.

Theorem C16_unique_in_full :
  forall (full sh : list (T NumR)) (x y : list R), unique_list NumR full sh x = Some y -> forall v : R, In v y -> In v full.
Proof. exact unique_in_full. Qed.
Print Assumptions C16_unique_in_full.

Theorem C16_unique_first_occurrences_kept :
  forall (full sh : list (T NumR)) (x y : list R) (p : nat) (d : R), unique_list NumR full sh x = Some y -> p < length x -> ~ In (nth p x d) (firstn p x) -> nth p y d = nth p x d.
Proof. exact unique_first_occurrences_kept. Qed.
Print Assumptions C16_unique_first_occurrences_kept.

Theorem C16_unique_conforming :
  forall (full sh : list (T NumR)) (x y : list R), unique_list NumR full sh x = Some y -> NoDup x -> y = x.
Proof. exact unique_conforming. Qed.
Print Assumptions C16_unique_conforming.

Theorem C16_unique_idempotent :
  forall (full sh sh' : list (T NumR)) (x y : list R), NoDup sh -> unique_list NumR full sh x = Some y -> same_set NumR sh' (diffT NumR (dedupT NumR full) (dedupT NumR y)) = true -> unique_list NumR full sh' y = Some y.
Proof. exact unique_idempotent. Qed.
Print Assumptions C16_unique_idempotent.

Theorem C16_unique_none_cases :
  forall (full sh : list (T NumR)) (x : list R), unique_list NumR full sh x = None <-> (exists v : R, In v x /\ ~ In v full) \/ length full < length x \/ same_set NumR sh (diffT NumR (dedupT NumR full) (dedupT NumR x)) = false \/ length sh < length x - length (dedupT NumR x).
Proof. exact unique_none_cases. Qed.
Print Assumptions C16_unique_none_cases.

Theorem C16_connected_wf :
  forall pairs : list (Z * Z), wf (connected pairs).
Proof. exact connected_wf. Qed.
Print Assumptions C16_connected_wf.

Theorem C16_connected_pair_same_group :
  forall (pairs : list (Z * Z)) (i j : Z), In (i, j) pairs -> i <> j -> exists kv : Z * list Z, In kv (connected pairs) /\ holds i kv = true /\ holds j kv = true.
Proof. exact connected_pair_same_group. Qed.
Print Assumptions C16_connected_pair_same_group.

Theorem C16_connected_only_mentions :
  forall (z : Z) (pairs : list (Z * Z)), held z (connected pairs) -> exists ij : Z * Z, In ij pairs /\ (z = fst ij \/ z = snd ij).
Proof. exact connected_only_mentions. Qed.
Print Assumptions C16_connected_only_mentions.

Theorem C16_impose_as_length :
  forall (mask : list (Z * Z)) (off : T NumR) (x y : list R), impose_as NumR mask off x = Some y -> length y = length x.
Proof. exact impose_as_length. Qed.
Print Assumptions C16_impose_as_length.

Theorem C16_impose_as_untouched :
  forall (mask : list (Z * Z)) (off : T NumR) (x y : list R) (p : nat) (d : R), impose_as NumR mask off x = Some y -> (forall (kv : Z * list Z) (k : Z), In kv (connected mask) -> In k (snd kv) -> norm_idx (length x) k <> Some p) -> (forall ij : Z * Z, In ij mask -> norm_idx (length x) (snd ij) <> Some p) -> nth p y d = nth p x d.
Proof. exact impose_as_untouched. Qed.
Print Assumptions C16_impose_as_untouched.

Theorem C16_impose_as_single_pair :
  forall (i j : Z) (pi pj : nat) (off : T NumR) (x y : list R) (d : R), impose_as NumR [(i, j)] off x = Some y -> norm_idx (length x) i = Some pi -> norm_idx (length x) j = Some pj -> pi <> pj -> nth pj y d = (nth pi x d + off)%R /\ nth pi y d = nth pi x d.
Proof. exact impose_as_single_pair. Qed.
Print Assumptions C16_impose_as_single_pair.

Theorem C16_impose_as_single_pair_idempotent :
  forall (i j : Z) (pi pj : nat) (off : T NumR) (x y : list R), impose_as NumR [(i, j)] off x = Some y -> norm_idx (length x) i = Some pi -> norm_idx (length x) j = Some pj -> pi <> pj -> impose_as NumR [(i, j)] off y = Some y.
Proof. exact impose_as_single_pair_idempotent. Qed.
Print Assumptions C16_impose_as_single_pair_idempotent.

Theorem C16_impose_as_zero_offset_tied :
  forall (mask : list (Z * Z)) (x y : list R) (i j : Z) (d : R), (forall ij : Z * Z, In ij mask -> (0 <= fst ij < Z.of_nat (length x))%Z /\ (0 <= snd ij < Z.of_nat (length x))%Z) -> impose_as NumR mask 0%R x = Some y -> In (i, j) mask -> nth (Z.to_nat j) y d = nth (Z.to_nat i) y d.
Proof. exact impose_as_zero_offset_tied. Qed.
Print Assumptions C16_impose_as_zero_offset_tied.

Theorem C16_impose_as_zero_offset_group_value :
  forall (mask : list (Z * Z)) (x y : list R) (kv : Z * list Z) (z : Z) (d : R), (forall ij : Z * Z, In ij mask -> (0 <= fst ij < Z.of_nat (length x))%Z /\ (0 <= snd ij < Z.of_nat (length x))%Z) -> impose_as NumR mask 0%R x = Some y -> In kv (connected mask) -> holds z kv = true -> nth (Z.to_nat z) y d = nth (Z.to_nat (fst kv)) x d.
Proof. exact impose_as_zero_offset_group_value. Qed.
Print Assumptions C16_impose_as_zero_offset_group_value.

Theorem C16_impose_as_bridging_pair_now_tied :
  qred_result (impose_as NumQ [(2%Z, 3%Z); (0%Z, 1%Z); (1%Z, 2%Z)] 0%Q [9%Q; 8%Q; 7%Q; 6%Q]) = Some [9%Q; 9%Q; 9%Q; 9%Q].
Proof. exact impose_as_bridging_pair_now_tied. Qed.
Print Assumptions C16_impose_as_bridging_pair_now_tied.

Theorem C16_impose_as_offset_drift_refuted :
  exists (mask : list (Z * Z)) (off : T NumQ) (x : list (T NumQ)) (y : list Q), qred_result (impose_as NumQ mask off x) = Some y /\ (forall i j : Z, In (i, j) mask -> (nth (Z.to_nat j) x 0 == nth (Z.to_nat i) x 0 + off)%Q) /\ y <> x /\ qred_result (impose_as NumQ mask off y) <> Some y.
Proof. exact impose_as_offset_drift_refuted. Qed.
Print Assumptions C16_impose_as_offset_drift_refuted.

Theorem C16_impose_as_out_of_range_partner_refuted :
  exists (mask : list (Z * Z)) (off : T NumQ) (x : list (T NumQ)) (y : list Q), qred_result (impose_as NumQ mask off x) = Some y /\ mask = [(2%Z, 0%Z)] /\ norm_idx (length x) 2 = None /\ ~ (nth 0 y 0 == nth 0 x 0)%Q.
Proof. exact impose_as_out_of_range_partner_refuted. Qed.
Print Assumptions C16_impose_as_out_of_range_partner_refuted.

(* ---------------------------------------------------------------- non-vacuity of the hypotheses used above *)
Example C16_strict_weak_order_exists : StrictWeak (T NumQ) (ltb NumQ).
Proof. exact ord_NumQ_strict_weak. Qed.
Print Assumptions C16_strict_weak_order_exists.

Example C16_nonempty_intervals_exist :
  let bs : list (interval NumR) := [(Some 0%R, Some 5%R); (Some 7%R, Some 10%R); (None, Some (-3)%R)] in
  bs <> [] /\ Forall nonempty bs.
Proof.
  cbn. split; [discriminate|].
  apply Forall_cons; [cbn; apply Rlt_le, IZR_lt; reflexivity|].
  apply Forall_cons; [cbn; apply Rlt_le, IZR_lt; reflexivity|].
  apply Forall_cons; [exact I|]. apply Forall_nil.
Qed.

Example C16_discrete_runs :
  option_map (map Qred) (discrete NumQ [4%Q; 1%Q; 2%Q] (ITuple [0%Z; (-1)%Z]) [(3 # 2)%Q; 3%Q; 3%Q]) = Some [1%Q; 3%Q; 2%Q].
Proof. vm_compute. reflexivity. Qed.

Example C16_bounds_runs :
  map Qred (fst (impose_bounds NumQ ClipNearest [(Some 0%Q, Some 5%Q); (Some 7%Q, Some 10%Q)] INone (mkDraws NumQ [] [])
                 [(-1)%Q; 6%Q; 11%Q; 3%Q])) = [0%Q; 5%Q; 10%Q; 3%Q].
Proof. vm_compute. reflexivity. Qed.

Example C16_sqrt_hypothesis_satisfiable : forall a : R, (0 <= a)%R -> (sqrt a * sqrt a)%R = a.
Proof. exact sqrt_sqrt. Qed.
