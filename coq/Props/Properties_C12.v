(* C12 - Symbolic rewriting preserves the solution set.
   Only statements, each closed by [exact] of a lemma proved in Pure/Symbolic_Proofs.v.

   Layer 1 (here): the comparator algebra mystic.symbolic relies on, for ALL expressions, coefficients, comparators and
   evaluation points (exact rational arithmetic).  Layer 2 (harness/props/c12.py, every run): for every generated system
   the text returned by mystic is parsed into the same AST and the statement
       forall env, holds_sys env INPUT <-> holds_cases env OUTPUT
   is proved by lra/nra inside the generated cases file (a kernel-checked certificate per program).

   Three clauses of the property are REFUTED by the faithful model and by /repo (known findings):
     - simplify pre-merges the user's lines with merge(inclusive=True) (symbolic.absval), a union table;
     - solving a line for a variable that occurs as a divisor introduces a new divisor whose zero is dropped;
     - an '=' / '!=' line in which all variables cancel is returned as '' whatever its truth value.
   For each the true weaker statement is proved as [_partial].  A fourth known finding (the test-point based flip
   decision evaluates constants beyond float range to inf/nan) concerns float evaluation and is outside the model. *)
From Coq Require Import List ZArith QArith Bool.
From MV Require Import Pure.SymExpr Pure.Symbolic Pure.Symbolic_Proofs.
Import ListNotations.
Open Scope Q_scope.

(* ---- semantics: the executable evaluator used in witnesses agrees with the propositional one *)
Theorem C12_holdsb_spec : forall e r, holdsb e r = true <-> holds e r.
Proof. exact holdsb_spec. Qed.
Print Assumptions C12_holdsb_spec.

Theorem C12_linearize_sound : forall e x l, linearize x = Some l -> defined e x /\ eval e x == leval e l.
Proof. exact linearize_sound. Qed.
Print Assumptions C12_linearize_sound.

(* ---- symbolic._flip *)
Theorem C12_flip_sound : forall c a b, cmp_holds (flipc c) a b <-> cmp_holds c b a.
Proof. exact flip_sound. Qed.
Print Assumptions C12_flip_sound.

Theorem C12_flip_negative_factor : forall c k a b, k < 0 -> (cmp_holds c a b <-> cmp_holds (flipc c) (k * a) (k * b)).
Proof. exact flipc_neg_mul. Qed.
Print Assumptions C12_flip_negative_factor.

Theorem C12_flip_bounds_complement : forall c a b, is_ineq c = true -> (cmp_holds (flipb c) a b <-> ~ cmp_holds c a b).
Proof. exact flipb_sound. Qed.
Print Assumptions C12_flip_bounds_complement.

(* ---- symbolic.merge(inclusive=False), the merge used by _simplify: same points; None only if unsatisfiable *)
Theorem C12_merge_sound : forall eqs out, merge_excl eqs = Some out -> forall e, holds_sys e eqs <-> holds_sys e out.
Proof. exact merge_excl_sound. Qed.
Print Assumptions C12_merge_sound.

Theorem C12_merge_none_unsat : forall eqs, merge_excl eqs = None -> forall e, ~ holds_sys e eqs.
Proof. exact merge_excl_none. Qed.
Print Assumptions C12_merge_none_unsat.

(* ---- symbolic.merge(inclusive=True) as applied by simplify (via absval) to the user's conjunction.
   FULL statement (refuted):  forall eqs e, holds_sys e (merge_incl eqs) <-> holds_sys e eqs *)
Theorem C12_merge_inclusive_refuted : exists eqs e, holds_sys e (merge_incl eqs) /\ ~ holds_sys e eqs.
Proof. exact merge_incl_refuted. Qed.
Print Assumptions C12_merge_inclusive_refuted.

Theorem C12_merge_inclusive_partial : forall eqs, no_opposing eqs = true ->
  forall e, holds_sys e (merge_incl eqs) <-> holds_sys e eqs.
Proof. exact merge_incl_partial. Qed.
Print Assumptions C12_merge_inclusive_partial.

(* ---- isolating a variable of a linear line: move terms, divide by the coefficient, flip iff it is negative *)
Theorem C12_isolate_equiv : forall r v l1 l2,
  linearize (lhs r) = Some l1 -> linearize (rhs r) = Some l2 -> ~ coeff (lsub l1 l2) v == 0 ->
  exists i, isolate r v = Some i /\ iv i = v /\ forall e, holds e r <-> holds e (rel_of_iso i).
Proof. exact isolate_total. Qed.
Print Assumptions C12_isolate_equiv.

Theorem C12_isolate_sound : forall r v i, isolate r v = Some i -> forall e, holds e r <-> holds e (rel_of_iso i).
Proof. exact isolate_equiv. Qed.
Print Assumptions C12_isolate_sound.

Theorem C12_isolate_none_zero_coeff : forall r v l1 l2,
  linearize (lhs r) = Some l1 -> linearize (rhs r) = Some l2 -> coeff (lsub l1 l2) v == 0 -> isolate r v = None.
Proof. exact isolate_none_zero_coeff. Qed.
Print Assumptions C12_isolate_none_zero_coeff.

(* ---- a single variable divisor: two sign cases with their sign conditions (undefined at 0 on both sides) *)
Theorem C12_isolate_div_equiv : forall a d c b, divfree a = true -> divfree b = true ->
  forall e, holds e (Rel (Div a (Var d)) c b) <-> holds_cases e (isolate_div a d c b).
Proof. exact isolate_div_equiv. Qed.
Print Assumptions C12_isolate_div_equiv.

(* ---- solving for the divisor variable.  FULL statement (refuted):
   forall n d c a e, divfree n = true -> (holds e (Rel (Div n (Var d)) c (Var a)) <-> holds_cases e (isolate_den n d c a)) *)
Theorem C12_isolate_den_refuted : exists n d c a e,
  divfree n = true /\ holds e (Rel (Div n (Var d)) c (Var a)) /\ ~ holds_cases e (isolate_den n d c a).
Proof. exact isolate_den_refuted. Qed.
Print Assumptions C12_isolate_den_refuted.

Theorem C12_isolate_den_partial : forall n d c a, divfree n = true ->
  forall e, ~ e a == 0 -> (holds e (Rel (Div n (Var d)) c (Var a)) <-> holds_cases e (isolate_den n d c a)).
Proof. exact isolate_den_partial. Qed.
Print Assumptions C12_isolate_den_partial.

(* ---- systems: product of the per-line cases, then the exclusive merge *)
Theorem C12_product_of_cases : forall e css, holds_cases e (product css) <-> Forall (holds_cases e) css.
Proof. exact holds_cases_product. Qed.
Print Assumptions C12_product_of_cases.

Theorem C12_simplify_lin_equiv : forall lines targets cs,
  (length lines <= length targets)%nat -> simplify_lin lines targets = Some cs ->
  forall e, holds_sys e lines <-> holds_cases e cs.
Proof. exact simplify_lin_equiv. Qed.
Print Assumptions C12_simplify_lin_equiv.

(* simplify = inclusive pre-merge + _simplify.  FULL statement (refuted): the same without [no_opposing]. *)
Theorem C12_simplify_model_refuted : exists lines targets cs e,
  simplify_model lines targets = Some cs /\ holds_cases e cs /\ ~ holds_sys e lines.
Proof. exact simplify_model_refuted. Qed.
Print Assumptions C12_simplify_model_refuted.

Theorem C12_simplify_model_partial : forall lines targets cs,
  no_opposing lines = true ->
  (length (merge_incl lines) <= length targets)%nat -> simplify_model lines targets = Some cs ->
  forall e, holds_sys e lines <-> holds_cases e cs.
Proof. exact simplify_model_partial. Qed.
Print Assumptions C12_simplify_model_partial.

(* ---- what simplify does to the user's lines before isolating (inclusive pre-merge, cancelling '='/'!=' lines dropped).
   FULL statement (refuted):  forall lines e, holds_sys e (simplify_pre lines) <-> holds_sys e lines *)
Theorem C12_degenerate_sound : forall r b, degenerate r = Some b -> forall e, holds e r <-> b = true.
Proof. exact degenerate_sound. Qed.
Print Assumptions C12_degenerate_sound.

Theorem C12_simplify_pre_refuted : exists lines e,
  no_opposing lines = true /\ holds_sys e (simplify_pre lines) /\ ~ holds_sys e lines.
Proof. exact simplify_pre_refuted. Qed.
Print Assumptions C12_simplify_pre_refuted.

Theorem C12_simplify_pre_partial : forall lines, no_opposing lines = true -> drops_only_true lines = true ->
  forall e, holds_sys e (simplify_pre lines) <-> holds_sys e lines.
Proof. exact simplify_pre_partial. Qed.
Print Assumptions C12_simplify_pre_partial.

(* ---- the verified rewriting step used by the per-program certificates: clearing a variable divisor *)
Theorem C12_clear_divisor_pos : forall e d r r', clear_rel d r = Some r' -> 0 < e d -> (holds e r <-> holds e r').
Proof. exact clear_pos. Qed.
Print Assumptions C12_clear_divisor_pos.

Theorem C12_clear_divisor_neg : forall e d r r', clear_rel d r = Some r' -> e d < 0 ->
  (holds e r <-> holds e (with_cmp r' (flipc (rcmp r)))).
Proof. exact clear_neg. Qed.
Print Assumptions C12_clear_divisor_neg.

Theorem C12_clear_divisor_zero : forall e d r r', clear_rel d r = Some r' -> rel_divfree r = false -> e d == 0 ->
  (holds e r <-> False).
Proof. exact clear_zero. Qed.
Print Assumptions C12_clear_divisor_zero.

(* ---- linear_symbolic / symbolic_bounds: the text holds exactly where the matrices / bounds hold *)
Theorem C12_text_of_matrix_sound : forall A b G h s, text_of_matrix A b G h = Some s ->
  forall e, holds_sys e s <->
            (Forall2 (fun row q => dot e row 0 == q) A b /\ Forall2 (fun row q => dot e row 0 <= q) G h).
Proof. exact text_of_matrix_sound. Qed.
Print Assumptions C12_text_of_matrix_sound.

Theorem C12_text_of_matrix_dimension_error : forall A b G h,
  text_of_matrix A b G h = None <-> (length A <> length b \/ length G <> length h).
Proof. exact text_of_matrix_none. Qed.
Print Assumptions C12_text_of_matrix_dimension_error.

Theorem C12_text_of_bounds_sound : forall lo hi s, text_of_bounds lo hi = Some s ->
  forall e, holds_sys e s <->
            ((forall k q, nth_error lo k = Some (Some q) -> q <= e k) /\
             (forall k q, nth_error hi k = Some (Some q) -> e k <= q)).
Proof. exact text_of_bounds_sound. Qed.
Print Assumptions C12_text_of_bounds_sound.

Theorem C12_text_of_bounds_error : forall lo hi,
  bounds_ok lo hi = true <->
  (length lo = length hi /\
   forall k a b, nth_error lo k = Some (Some a) -> nth_error hi k = Some (Some b) -> a <= b).
Proof. exact bounds_ok_spec. Qed.
Print Assumptions C12_text_of_bounds_error.

(* ---- non-vacuity: '-2*x0 + 3*x1 < 4' has a non-zero (negative) coefficient on x0, is isolated with a flipped
   comparator, the result has satisfying and falsifying points; a two-line system goes through simplify_lin;
   a 1x2 matrix system and a bounds pair produce text *)
Example C12_nonvacuous :
  let r := Rel (Add (Mul (Cst (-2)) (Var 0)) (Mul (Cst 3) (Var 1))) Lt (Cst 4) in
  (exists i, isolate r 0 = Some i /\ ic i = Gt /\
             holdsb (env_of [1; 1]) (rel_of_iso i) = true /\ holdsb (env_of [-3; 1]) (rel_of_iso i) = false /\
             holdsb (env_of [1; 1]) r = true /\ holdsb (env_of [-3; 1]) r = false) /\
  (exists cs, simplify_lin [r; Rel (Var 1) Ge (Cst 0)] [0%nat; 1%nat] = Some cs /\ length cs = 1%nat) /\
  no_opposing [r; Rel (Var 1) Ge (Cst 0)] = true /\
  (exists s, text_of_matrix [[1; 2]] [3] [[1; 0]] [5] = Some s /\ length s = 2%nat) /\
  (exists s, text_of_bounds [Some (-1); None] [Some 1; Some 2] = Some s /\ length s = 3%nat) /\
  divfree (Add (Var 0) (Cst 2)) = true /\
  drops_only_true [r; Rel (Var 0) Eq (Var 0)] = true /\ dropped (Rel (Var 0) Eq (Var 0)) = true /\
  (exists r', clear_rel 1 (Rel (Div (Var 0) (Var 1)) Lt (Cst 3)) = Some r' /\ rel_divfree r' = true).
Proof.
  cbv zeta. repeat split; try (eexists; split; [vm_compute; reflexivity|]); vm_compute; repeat split; reflexivity.
Qed.
