(* C04 - best-so-far never worsens; counters and monitors are faithful.  Statements only. *)
From Coq Require Import List ZArith QArith Bool.
From MV Require Import Common.Num Common.Order Core.Machine Core.Machine_Proofs Core.DE Core.DE_Proofs Core.NM Core.NM_Proofs Core.NM_History Core.Powell Core.Powell_Proofs.
Import ListNotations.
Open Scope Z_scope.

(* the evaluation counter equals the number of real calls of the user's cost, after ANY sequence of API operations
   (Step / Solve / Set* / Finalize ...), for every algorithm that leaves the counter to the cost wrapper *)
Theorem C04_counter_is_calls :
  forall (N : Num) (inf : T N) (C I : Type) (A : algo N C I), counter_faithful N C I A ->
  forall (ops : list (op N I)) (sc : sys N * C), Inv_cnt N (fst sc) -> Inv_cnt N (fst (run N inf C I A sc ops)).
Proof. exact counter_is_calls. Qed.
Print Assumptions C04_counter_is_calls.

(* DifferentialEvolutionSolver and NelderMeadSimplexSolver are such algorithms; DifferentialEvolutionSolver2 recomputes the
   counter from the monitor length / the non-infinite trial energies and is NOT (known finding) *)
Theorem C04_counter_faithful_instances : forall (N : Num) (inf : T N),
  counter_faithful N _ _ (de_algo N inf false) /\ counter_faithful N _ _ (nm_algo N inf).
Proof. intros. split; intros s0 s1 c; reflexivity. Qed.
Print Assumptions C04_counter_faithful_instances.

Theorem C04_de2_counter_refuted :
  exists (s0 s1 : sys NumQ) (c : de NumQ), a_fix_counter NumQ _ _ (de_algo NumQ 1%Q true) s0 s1 c <> fcalls NumQ s1.
Proof.
  exists (init_sys NumQ 1%Q (TNever NumQ)), (set_fcalls NumQ (init_sys NumQ 1%Q (TNever NumQ)) 4),
         {| pop := []; popE := []; best := None; lastE := [] |}.
  cbn. discriminate.
Qed.

(* the evaluation monitor holds the most recent real calls (x, cost(x)) in call order: all of them when it was installed
   before the first evaluation and never replaced with new=True *)
Theorem C04_evalmon_is_recent_calls :
  forall (N : Num) (inf : T N) (C I : Type) (A : algo N C I) (ops : list (op N I)) (sc : sys N * C),
  Inv_emon N (fst sc) -> Inv_emon N (fst (run N inf C I A sc ops)).
Proof. exact evalmon_is_recent_calls. Qed.
Print Assumptions C04_evalmon_is_recent_calls.

(* differential evolution: after any clean sequence of operations the best-energy history is non-increasing, its last
   entry is the reported best energy, and members/best are honest (C01) *)
Theorem C04_de_history :
  forall (N : Num) (inf : T N), StrictWeak (T N) (ltb N) -> (forall p, is_top N (add N inf p)) -> is_top N inf ->
  forall (npop : nat) (de2 : bool) (ops : list (op N (de_in N))) (sc : sys N * de N),
  Forall (clean_op N _ (de_ok_in N npop) false false) ops -> P_de N inf npop (fst sc) (snd sc) ->
  let r := run N inf _ _ (de_algo N inf de2) sc ops in
  desc N (map snd (stepmon N (fst r))) /\
  (stepmon N (fst r) <> [] -> snd (last (stepmon N (fst r)) ([], inf)) = snd (de_best N inf (snd r))).
Proof.
  intros N inf Ho Ht Hi npop de2 ops sc Hc Hp.
  pose proof (de_run_ok N inf Ho Ht Hi npop de2 ops sc Hc Hp) as (_ & H & _). exact H.
Qed.
Print Assumptions C04_de_history.

(* generations is, by definition of the model, the number of step-monitor records minus one; one record per executed
   DE generation (the record is the best after the generation) *)
Theorem C04_de_one_record_per_step :
  forall (N : Num) (inf : T N), StrictWeak (T N) (ltb N) -> (forall p, is_top N (add N inf p)) -> is_top N inf ->
  forall (s : sys N) (c : de N) (i : de_in N),
  Inv_de N inf s c -> length (trials N i) = length (pop N c) ->
  snd (snd (run_prog inf false s (de_step N inf s c i))) = [de_best N inf (fst (snd (run_prog inf false s (de_step N inf s c i))))].
Proof.
  intros N inf Ho Ht Hi s c i Hinv Hl. pose proof (de_step_honest N inf Ho Ht Hi s c i Hinv Hl) as (_ & _ & H & _). exact H.
Qed.
Print Assumptions C04_de_one_record_per_step.

(* Nelder-Mead: in every clean run the last step-monitor record is the reported best solution and energy *)
Theorem C04_nm_last_record_is_best :
  forall (N : Num) (inf : T N), (forall p, is_top N (add N inf p)) -> is_top N inf ->
  forall cons0 : vec N -> vec N, (forall x, cons0 (cons0 x) = cons0 x) ->
  forall (ops : list (op N (nm_in N))) (sc : sys N * nm N),
  Forall (clean_op N _ (nm_ok_in N) true false) ops -> P_nm N inf cons0 (fst sc) (snd sc) ->
  let r := run N inf _ _ (nm_algo N inf) sc ops in
  stepmon N (fst r) <> [] -> sim N (snd r) <> [] ->
  last (stepmon N (fst r)) ([], inf) = nm_best N inf (snd r).
Proof.
  intros N inf Ht Hi cons0 Hid ops sc Hc HP r Hs Hn.
  exact (proj2 (proj2 (nm_reported_best N inf Ht Hi cons0 Hid ops sc Hc HP Hs Hn))).
Qed.
Print Assumptions C04_nm_last_record_is_best.

(* Nelder-Mead at run level: after any clean sequence of operations - also one that replaces constraints, penalty, ranges, limits or
   termination in the middle of the run - the best-energy history is non-increasing and its last entry is the reported best energy; for
   every cost, candidate stream, argsort answer and simplex size *)
Theorem C04_nm_history :
  forall (N : Num) (inf : T N), StrictWeak (T N) (ltb N) ->
  forall (ops : list (op N (nm_in N))) (sc : sys N * nm N),
  Forall (clean_op N _ (nm_ok_in N) false false) ops -> H_nm N inf (fst sc) (snd sc) ->
  let r := run N inf _ _ (nm_algo N inf) sc ops in
  desc N (map snd (stepmon N (fst r))) /\
  (stepmon N (fst r) <> [] -> snd (last (stepmon N (fst r)) ([], inf)) = snd (nm_best N inf (snd r))).
Proof.
  intros N inf Ho ops sc Hc H. exact (nm_history_ok N inf Ho ops sc Hc H).
Qed.
Print Assumptions C04_nm_history.

Example C04_nm_history_nonvacuous : forall (N : Num) (inf : T N) t ndim, H_nm N inf (init_sys N inf t) (nm_init N inf ndim).
Proof. intros. apply nm_history_init. reflexivity. Qed.

(* Powell: a generation's record reaches the step monitor one phase late and is completed by Finalize; nevertheless the LAST entry of
   the solver's energy history is the reported best energy after every operation of a clean run (any cost, constraints, line searches) *)
Theorem C04_powell_history_last_is_best :
  forall (N : Num) (inf : T N) (ops : list (op N (pw_in N))) (sc : sys N * pw N),
  Forall (clean_op N _ (pw_ok_in N) false false) ops -> H_pw N inf (fst sc) (snd sc) ->
  let r := run N inf _ _ (pw_algo N inf) sc ops in
  energy_history N _ _ (pw_algo N inf) (fst r) (snd r) <> [] ->
  last (energy_history N _ _ (pw_algo N inf) (fst r) (snd r)) inf = snd (pw_best N inf (snd r)).
Proof.
  intros N inf ops sc Hc H r. destruct (pw_history_ok N inf ops sc Hc H) as (_ & _ & Hh). exact Hh.
Qed.
Print Assumptions C04_powell_history_last_is_best.

Example C04_powell_nonvacuous : forall (N : Num) (inf : T N) t ndim, H_pw N inf (init_sys N inf t) (pw_init N inf ndim).
Proof. intros. apply pw_init_hist. reflexivity. Qed.

Example C04_nonvacuous : forall (N : Num) (inf : T N) t, Inv_cnt N (init_sys N inf t) /\ Inv_emon N (init_sys N inf t).
Proof. intros. pose proof (init_invs N inf t) as (_ & H1 & H2 & _). auto. Qed.
