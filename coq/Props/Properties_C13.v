(* C13 - Compiled constraint functions enforce exactly the stated relation.
   Only statements, each closed by [exact] of a lemma proved in Pure/SymCompile_Proofs.v.

   Model: Pure/SymCompile.v.  [apply_rel tol rel c eta i f] is the assignment statement that
   symbolic.constraints_parser builds for a line `x_i c f(x)'; f is ANY function of the vector that does not read x_i
   (hypothesis f_indep) - it is universally quantified, so the theorems cover every right-hand-side expression;
   eta tells whether a `!=' line with the same left variable currently collides (false when the text has none).
   [compiled_constraint] is generate_constraint(generate_solvers(text, locals={tol,rel})).
   tol, rel >= 0 is what generate_solvers enforces (ValueError otherwise; error branch: C13_negative_tolerance_rejected). *)
From Coq Require Import List Arith Reals.
From MV Require Import Common.Num Common.NumR Pure.SymCompile Pure.SymCompile_Proofs.
Import ListNotations.
Open Scope R_scope.

(* "returns a vector in which that relation holds (strictly for strict comparators)".
   For <, > and != the tolerance term tol + |f|*rel must be positive (default tol = rel = 1e-15: always). *)
Theorem C13_holds_after : forall tol rel, 0 <= tol -> 0 <= rel ->
  forall (f : vec NumR -> R) (i : nat), (forall x v, f (upd NumR x i v) = f x) ->
  forall (c : cmp) (eta : bool) (x : vec NumR), (i < length x)%nat ->
  (needs_tol c = true -> 0 < tolerance NumR tol rel (f x)) ->
  let y := apply_rel NumR tol rel c eta i f x in holds c (getx NumR y i) (f y).
Proof. exact rel_holds_after. Qed.
Print Assumptions C13_holds_after.

(* strictness is exactly what the positive tolerance buys: *)
Theorem C13_strict_after : forall tol rel, 0 < tol -> 0 <= rel ->
  forall (f : vec NumR -> R) (i : nat), (forall x v, f (upd NumR x i v) = f x) ->
  forall (eta : bool) (x : vec NumR), (i < length x)%nat ->
  getx NumR (apply_rel NumR tol rel Clt eta i f x) i < f (apply_rel NumR tol rel Clt eta i f x) /\
  getx NumR (apply_rel NumR tol rel Cgt eta i f x) i > f (apply_rel NumR tol rel Cgt eta i f x) /\
  getx NumR (apply_rel NumR tol rel Cne eta i f x) i <> f (apply_rel NumR tol rel Cne eta i f x).
Proof. exact strict_after. Qed.
Print Assumptions C13_strict_after.

(* with tol = rel = 0 (allowed through locals) only the weak relation is left *)
Theorem C13_weak_after_without_tolerance : forall tol rel, 0 <= tol -> 0 <= rel ->
  forall (f : vec NumR -> R) (i : nat), (forall x v, f (upd NumR x i v) = f x) ->
  forall (c : cmp) (eta : bool) (x : vec NumR), (i < length x)%nat ->
  let y := apply_rel NumR tol rel c eta i f x in holds_weak c (getx NumR y i) (f y).
Proof. exact rel_weak_after. Qed.
Print Assumptions C13_weak_after_without_tolerance.

(* "which differs from the input at most in xi" *)
Theorem C13_only_xi_changes : forall tol rel (f : vec NumR -> R) (i : nat) (c : cmp) (eta : bool) (x : vec NumR),
  length (apply_rel NumR tol rel c eta i f x) = length x /\
  forall j, j <> i -> getx NumR (apply_rel NumR tol rel c eta i f x) j = getx NumR x j.
Proof. exact rel_only_xi_changes. Qed.
Print Assumptions C13_only_xi_changes.

(* "and which equals the input whenever the input already satisfies the relation": =, <=, >=, != *)
Theorem C13_identity_if_satisfied : forall tol rel (f : vec NumR -> R) (i : nat) (c : cmp) (x : vec NumR),
  is_strict c = false -> holds c (getx NumR x i) (f x) -> apply_rel NumR tol rel c false i f x = x.
Proof. exact rel_identity_if_satisfied. Qed.
Print Assumptions C13_identity_if_satisfied.

(* The same clause for < and > at full strength would read
     forall tol rel f i x, holds Cgt (getx x i) (f x) -> apply_rel tol rel Cgt false i f x = x.
   The faithful model REFUTES it for every positive tol (DESIGN section 7, F7; known finding
   site=symbolic.constraints_parser pattern=strict-comparator-tol-sliver-moved): *)
Theorem C13_identity_if_satisfied_strict_refuted : forall tol rel, 0 <= tol -> 0 <= rel -> 0 < tol ->
  (exists x : vec NumR, holds Cgt (getx NumR x 0) (getx NumR x 1) /\
     apply_rel NumR tol rel Cgt false 0 (fun x => getx NumR x 1) x <> x) /\
  (exists x : vec NumR, holds Clt (getx NumR x 0) (getx NumR x 1) /\
     apply_rel NumR tol rel Clt false 0 (fun x => getx NumR x 1) x <> x).
Proof. exact identity_strict_refuted. Qed.
Print Assumptions C13_identity_if_satisfied_strict_refuted.

(* what does hold: identity when the relation is satisfied with margin tol(f)
   (missing: the sliver f < x_i < f + tol(f), resp. f - tol(f) < x_i < f) *)
Theorem C13_identity_if_satisfied_strict_partial : forall tol rel (f : vec NumR -> R) (i : nat) (c : cmp) (x : vec NumR),
  (c = Clt /\ getx NumR x i <= f x - tolerance NumR tol rel (f x)) \/
  (c = Cgt /\ f x + tolerance NumR tol rel (f x) <= getx NumR x i) ->
  apply_rel NumR tol rel c false i f x = x.
Proof. exact rel_identity_strict_partial. Qed.
Print Assumptions C13_identity_if_satisfied_strict_partial.

(* a one-line text compiles to apply_rel with f := the value of its right-hand side *)
Theorem C13_single_line_is_apply_rel : forall tol rel i c (e : expr NumR) (x : vec NumR),
  0 <= tol -> 0 <= rel -> (need_rel NumR (mkRel i c e) <= length x)%nat ->
  compiled_constraint NumR tol rel [mkRel i c e] x = Some (apply_rel NumR tol rel c false i (eval NumR e) x).
Proof. exact compiled_single_line. Qed.
Print Assumptions C13_single_line_is_apply_rel.

(* "A function generated from several relations whose left-hand variables do not feed one another satisfies all of
   them at once" - any number of lines, any order; the function is defined (no exception), only left variables move *)
Theorem C13_system_all_hold : forall tol rel, 0 <= tol -> 0 <= rel ->
  forall (sys : list (irel NumR)) (x : vec NumR),
  NoDup (map lhs sys) -> no_feed sys -> (need_sys NumR sys <= length x)%nat ->
  (forall r, In r sys -> needs_tol (rcmp r) = true -> 0 < tolerance NumR tol rel (eval NumR (rhs r) x)) ->
  exists y, compiled_constraint NumR tol rel sys x = Some y /\ length y = length x /\
    (forall j, ~ In j (map lhs sys) -> getx NumR y j = getx NumR x j) /\
    Forall (fun r => holds (rcmp r) (getx NumR y (lhs r)) (eval NumR (rhs r) y)) sys.
Proof. exact system_all_hold. Qed.
Print Assumptions C13_system_all_hold.

(* composition order of generate_constraint (nested coupler.inner over the reversed tuple) = text order, `!=' lines first *)
Theorem C13_composition_order : forall (N : Num) tol rel (sys : list (irel N)) (x : vec N),
  generate_constraint N tol rel (constraints_parser N sys) x = run_in_order N tol rel (apply_order N sys) x.
Proof. exact composition_order. Qed.
Print Assumptions C13_composition_order.

(* error branches of the real code, as modelled *)
Theorem C13_negative_tolerance_rejected : forall tol rel (sys : list (irel NumR)) (x : vec NumR),
  tol < 0 \/ rel < 0 -> compiled_constraint NumR tol rel sys x = None.
Proof. exact negative_tolerance_rejected. Qed.
Print Assumptions C13_negative_tolerance_rejected.

Theorem C13_short_vector_rejected : forall tol rel (sys : list (irel NumR)) (x : vec NumR),
  (length x < need_sys NumR sys)%nat -> compiled_constraint NumR tol rel sys x = None.
Proof. exact short_vector_rejected. Qed.
Print Assumptions C13_short_vector_rejected.

(* "the bounds constraint built from (min,max) clips into the box and is the identity inside it" *)
Theorem C13_bounds_clip_into_box : forall (lo hi : list (option R)) (x : vec NumR),
  (forall j, ok_bound (nth j lo None) (nth j hi None)) ->
  forall j, (j < length lo)%nat -> (j < length hi)%nat -> (j < length x)%nat ->
  in_interval (nth j lo None) (nth j hi None) (getx NumR (bounds_clip NumR lo hi x) j).
Proof. exact bounds_clip_into_box. Qed.
Print Assumptions C13_bounds_clip_into_box.

Theorem C13_bounds_clip_to_nearest_bound : forall (lo hi : list (option R)) (x : vec NumR),
  (forall j, ok_bound (nth j lo None) (nth j hi None)) ->
  forall j, (j < length lo)%nat -> (j < length hi)%nat -> (j < length x)%nat ->
  (forall l, nth j lo None = Some l -> getx NumR x j < l -> getx NumR (bounds_clip NumR lo hi x) j = l) /\
  (forall h, nth j hi None = Some h -> h < getx NumR x j -> getx NumR (bounds_clip NumR lo hi x) j = h).
Proof. exact bounds_clip_nearest. Qed.
Print Assumptions C13_bounds_clip_to_nearest_bound.

Theorem C13_bounds_identity_inside : forall (lo hi : list (option R)) (x : vec NumR),
  (forall j, (j < length lo)%nat -> (j < length hi)%nat -> (j < length x)%nat ->
             in_interval (nth j lo None) (nth j hi None) (getx NumR x j)) ->
  bounds_clip NumR lo hi x = x.
Proof. exact bounds_identity_inside. Qed.
Print Assumptions C13_bounds_identity_inside.

(* the bounds constraint IS the compiled text of symbolic_bounds (what boundsconstrain(symbolic=True) builds,
   sympy's re-printing of the text aside) *)
Theorem C13_boundsconstrain_is_clip : forall tol rel, 0 <= tol -> 0 <= rel ->
  forall (lo hi : list (option R)) (x : vec NumR),
  length lo = length hi -> (length lo <= length x)%nat ->
  (forall j, ok_bound (nth j lo None) (nth j hi None)) ->
  boundsconstrain NumR tol rel lo hi x = Some (bounds_clip NumR lo hi x).
Proof. exact boundsconstrain_is_clip. Qed.
Print Assumptions C13_boundsconstrain_is_clip.

(* non-vacuity: the hypotheses of C13_system_all_hold are met by the text
     x0 < x1*2      x2 >= abs(x1)      x3 != x1
   at x = [5; 1; 0; 1] with the default tolerances *)
Example C13_nonvacuous :
  let tol := / 1000000000000000 in
  let sys : list (irel NumR) :=
    [mkRel 0 Clt (EMul (@EVar NumR 1) (@EConst NumR 2)); mkRel 2 Cge (EAbs (@EVar NumR 1)); mkRel 3 Cne (@EVar NumR 1)] in
  let x : vec NumR := [5; 1; 0; 1] in
  0 <= tol /\ NoDup (map lhs sys) /\ no_feed sys /\ (need_sys NumR sys <= length x)%nat /\
  (forall r, In r sys -> needs_tol (rcmp r) = true -> 0 < tolerance NumR tol tol (eval NumR (rhs r) x)).
Proof. exact c13_nonvacuous. Qed.
