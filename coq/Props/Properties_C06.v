(* C06 - a checkpointed solver resumes exactly as if it had never been interrupted; restored solvers and deep copies are
   independent of the original.  Statements only (proofs: Core/Store.v).  Any algorithm, any operations, any oracle inputs. *)
From Coq Require Import List ZArith Bool.
From MV Require Import Common.Num Core.Machine Core.Machine_Proofs Core.Store.
Import ListNotations.

(* resume equivalence: the restored solver, given the same operations (and the same random draws = oracle inputs), reaches
   exactly the state the uninterrupted original reaches - for every interruption point (the theorem holds for any state sc),
   and whatever is done to the original or to any other solver after the snapshot *)
Theorem C06_resume_equiv :
  forall (N : Num) (inf : T N) (C I : Type) (A : algo N C I)
         (s : store N C) (k : nat) (sc : sys N * C) (junk : list (sop N I)) (ops : list (op N I)),
  nth_error s k = Some sc ->
  Forall (fun o => match o with SDo _ _ j _ => j <> length s | SSnap _ _ _ => True end) junk ->
  let s1 := srun N inf C I A (sapply N inf C I A s (SSnap N I k)) junk in
  nth_error (srun N inf C I A s1 (map (SDo N I (length s)) ops)) (length s) = Some (run N inf C I A sc ops).
Proof. exact resume_equiv. Qed.
Print Assumptions C06_resume_equiv.

(* independence: advancing one solver never changes another *)
Theorem C06_do_frame :
  forall (N : Num) (inf : T N) (C I : Type) (A : algo N C I) (s : store N C) (k : nat) (o : op N I) (j : nat),
  j <> k -> nth_error (sapply N inf C I A s (SDo N I k o)) j = nth_error s j.
Proof. exact do_frame. Qed.
Print Assumptions C06_do_frame.

Theorem C06_original_unaffected :
  forall (N : Num) (inf : T N) (C I : Type) (A : algo N C I) (s : store N C) (k j : nat) (ops : list (op N I)),
  (j < length s)%nat -> nth_error s k <> None ->
  nth_error (srun N inf C I A (sapply N inf C I A s (SSnap N I k)) (map (SDo N I (length s)) ops)) j = nth_error s j.
Proof. exact original_unaffected. Qed.
Print Assumptions C06_original_unaffected.

(* the snapshot equals the original at the moment it is taken and leaves every existing solver unchanged *)
Theorem C06_snapshot :
  forall (N : Num) (inf : T N) (C I : Type) (A : algo N C I) (s : store N C) (k : nat) (sc : sys N * C),
  nth_error s k = Some sc ->
  nth_error (sapply N inf C I A s (SSnap N I k)) (length s) = Some sc /\
  forall j, (j < length s)%nat -> nth_error (sapply N inf C I A s (SSnap N I k)) j = nth_error s j.
Proof. exact snap_new. Qed.
Print Assumptions C06_snapshot.

(* each solver keeps counting its own evaluations *)
Theorem C06_each_counts_its_own :
  forall (N : Num) (inf : T N) (C I : Type) (A : algo N C I), counter_faithful N C I A ->
  forall (ops : list (sop N I)) (s : store N C),
  Forall (fun sc => Inv_cnt N (fst sc)) s -> Forall (fun sc => Inv_cnt N (fst sc)) (srun N inf C I A s ops).
Proof. exact each_counts_its_own. Qed.
Print Assumptions C06_each_counts_its_own.

Example C06_nonvacuous : forall (N : Num) (inf : T N) (C I : Type) (A : algo N C I) (c : C) t,
  let s := [(init_sys N inf t, c)] in
  nth_error s 0 = Some (init_sys N inf t, c) /\ Forall (fun sc => Inv_cnt N (fst sc)) s.
Proof. intros. split; [reflexivity|]. constructor; [|constructor]. apply init_invs. Qed.
