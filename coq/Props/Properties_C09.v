(* C09 - Ensemble solvers return the best member and account for all work.
   Only statements, each closed by [exact] of a lemma proved in Core/Ensemble_Proofs.v or Core/C09_Ensemble_Real.v.
   Model: Core/Ensemble.v (member solvers abstract: a member = its reported solution / energy / counter / call log).
   Energies are compared with Python's [<=]; the order theorems assume it is the reflexive closure of a strict weak
   order (no NaN energy).  Arithmetic theorems are over R; float rounding at cell / range end points is outside the model. *)
From Coq Require Import List Arith Reals Permutation Lia Lra.
From MV Require Import Common.Num Common.NumR Common.Order Core.Ensemble Core.Ensemble_Proofs Core.C09_Ensemble_Real.
Import ListNotations.
Local Open Scope nat_scope.

(* The reported energy is the minimum over the members.  Side condition: some member is at least as good as the member
   the scan starts from (automatic on the first reduction, and whenever _bestSolver is one of the current members). *)
Theorem C09_best_is_min_member : forall (X E Cfg : Type) (ltb leb : E -> E -> bool),
  StrictWeak E ltb -> (forall x y, leb x y = negb (ltb y x)) ->
  forall own prev (all : list (option (member X E Cfg))) b upd,
  update_bestSolver leb own prev all = Some (b, upd) ->
  (exists m, In m (somes all) /\
             leb (r_energy (m_res m)) (cur X E Cfg own (start_of X E Cfg prev all)) = true) ->
  upd = true /\ exists m, b = Some m /\ In m (somes all) /\
    forall x, In x (somes all) -> leb (r_energy (m_res m)) (r_energy (m_res x)) = true.
Proof. exact best_is_min_member. Qed.
Print Assumptions C09_best_is_min_member.

(* ... and the reported solution, energy and evaluation counter are those of ONE member attaining it: exactly the LAST
   member of minimal energy (every earlier member is >=, every later member is strictly >). *)
Theorem C09_solution_is_that_members : forall (X E Cfg : Type) (ltb leb : E -> E -> bool),
  StrictWeak E ltb -> (forall x y, leb x y = negb (ltb y x)) ->
  forall (e e' : ens X E Cfg),
  update_state leb e = Some e' ->
  (exists m, In m (somes (e_all e)) /\
             leb (r_energy (m_res m)) (cur X E Cfg (e_energy e) (start_of X E Cfg (e_best e) (e_all e))) = true) ->
  exists m l1 l2,
    somes (e_all e) = l1 ++ m :: l2 /\
    Forall (fun x => leb (r_energy (m_res m)) (r_energy (m_res x)) = true) l1 /\
    Forall (fun x => ltb (r_energy (m_res m)) (r_energy (m_res x)) = true) l2 /\
    e_best e' = Some m /\ e_energy e' = r_energy (m_res m) /\ e_sol e' = Some (r_sol (m_res m)) /\
    e_evals e' = r_evals (m_res m) /\ e_all e' = e_all e.
Proof. exact solution_is_that_members. Qed.
Print Assumptions C09_solution_is_that_members.

(* the side condition above holds when nothing was selected before (first reduction) ... *)
Theorem C09_first_reduction : forall (X E Cfg : Type) (ltb leb : E -> E -> bool),
  StrictWeak E ltb -> (forall x y, leb x y = negb (ltb y x)) ->
  forall own (m0 : member X E Cfg) rest b upd,
  update_bestSolver leb own None (Some m0 :: rest) = Some (b, upd) ->
  upd = true /\ exists m, b = Some m /\ is_last_min X E Cfg ltb leb m (somes (Some m0 :: rest)).
Proof. exact update_bestSolver_fresh. Qed.
Print Assumptions C09_first_reduction.

(* ... and when _bestSolver is one of the current members (Step loop with in-process maps) *)
Theorem C09_later_reductions : forall (X E Cfg : Type) (ltb leb : E -> E -> bool),
  StrictWeak E ltb -> (forall x y, leb x y = negb (ltb y x)) ->
  forall own (p : member X E Cfg) all b upd,
  In p (somes all) ->
  update_bestSolver leb own (Some p) all = Some (b, upd) ->
  upd = true /\ exists m, b = Some m /\ is_last_min X E Cfg ltb leb m (somes all).
Proof. exact update_bestSolver_alias. Qed.
Print Assumptions C09_later_reductions.

(* the total evaluation count is the sum over the members ... *)
Theorem C09_total_evals_is_sum : forall (X E Cfg : Type) (all : list (option (member X E Cfg))),
  total_evals all = sum_nat (map (fun m => r_evals (m_res m)) (somes all)).
Proof. exact total_evals_is_sum. Qed.
Print Assumptions C09_total_evals_is_sum.

(* ... and the number of real cost calls (entries of the union of the members' call logs), given that every member's
   own counter is faithful (C04 for the member solvers) *)
Theorem C09_total_evals_is_real_calls : forall (X E Cfg : Type) (all : list (option (member X E Cfg))),
  (forall m, In m (somes all) -> r_evals (m_res m) = length (r_log (m_res m))) ->
  total_evals all = length (all_logs all).
Proof. exact total_evals_is_real_calls. Qed.
Print Assumptions C09_total_evals_is_real_calls.

(* One Solve of a fresh ensemble, under ANY map schedule that runs every member: exactly one member per start point
   (member_count), in slot order, each created from the one configured nested solver and started at its own point;
   the ensemble reports the last member of minimal energy. *)
Theorem C09_first_round : forall (X E Cfg : Type) (leb : E -> E -> bool)
  (fresh : nat -> Cfg -> member X E Cfg) (run : member X E Cfg -> option X -> result X E) (ltb : E -> E -> bool),
  StrictWeak E ltb -> (forall x y, leb x y = negb (ltb y x)) ->
  forall cfg n id npts inf (starts : list X) sched,
  length starts = npts -> 0 < npts ->
  (forall i, i < npts -> In i sched) ->
  exists e' m,
    ens_round leb fresh run (ens_init X E Cfg cfg n id npts inf) (map Some starts) sched = Some e' /\
    e_all e' = map Some (first_members X E Cfg fresh run cfg n id starts) /\
    is_last_min X E Cfg ltb leb m (first_members X E Cfg fresh run cfg n id starts) /\
    e_best e' = Some m /\ e_energy e' = r_energy (m_res m) /\ e_sol e' = Some (r_sol (m_res m)) /\
    e_evals e' = r_evals (m_res m).
Proof. exact ens_first_round. Qed.
Print Assumptions C09_first_round.

Theorem C09_member_count : forall (X E Cfg : Type) (fresh : nat -> Cfg -> member X E Cfg)
  (run : member X E Cfg -> option X -> result X E) cfg n id starts,
  length (first_members X E Cfg fresh run cfg n id starts) = length starts.
Proof. exact first_members_length. Qed.
Print Assumptions C09_member_count.

(* schedules: a map that evaluates every work item, in any order, returns what the builtin serial map returns *)
Theorem C09_map_order_irrelevant : forall (B C : Type) (f : B -> C) inputs sched,
  Permutation sched (seq 0 (length inputs)) ->
  sched_map f inputs sched = map (fun b => Some (f b)) inputs.
Proof. exact @sched_map_permutation. Qed.
Print Assumptions C09_map_order_irrelevant.

(* lattice: prod(nbins) start points, each of the problem's dimension *)
Theorem C09_member_count_lattice : forall (N : Num) lo hi ns pts, length lo = length ns -> length hi = length ns ->
  lattice_points N lo hi ns = Some pts -> length pts = prod_nat ns /\ Forall (fun p => length p = length ns) pts.
Proof. exact lattice_count. Qed.
Print Assumptions C09_member_count_lattice.

(* buckshot: npts start points *)
Theorem C09_member_count_samples : forall (N : Num) los his npts draws, length (sample_points N los his npts draws) = npts.
Proof. exact sample_count. Qed.
Print Assumptions C09_member_count_samples.

(* LatticeSolver(dim, nbins=<integer N>): whatever the random keys, randomly_bin returns dim bins whose product is N *)
Theorem C09_randomly_bin_product : forall K (kltb : K -> K -> bool) N ndim keys bins,
  0 < ndim -> randomly_bin kltb N ndim keys = Some bins -> length bins = ndim /\ prod_nat bins = N.
Proof. exact randomly_bin_spec. Qed.
Print Assumptions C09_randomly_bin_product.

(* partial: the trial division is shown never to fall off its loop for 1 <= N <= 512 by an exhaustive sweep; a proof for
   all N (every prime factor of N is <= N and is met by the candidate list 2,3,5,7,...) is not attempted *)
Theorem C09_randomly_bin_total_partial : forall K (kltb : K -> K -> bool) N ndim keys,
  1 <= N <= 512 -> N + ndim <= length keys -> exists bins, randomly_bin kltb N ndim keys = Some bins.
Proof. exact randomly_bin_total. Qed.
Print Assumptions C09_randomly_bin_total_partial.

(* members are created with the ensemble's configuration when the nested solver is a solver class *)
Theorem C09_members_inherit_settings : forall (X E Cfg : Type) (fresh : nat -> Cfg -> member X E Cfg),
  (forall i c, m_cfg (fresh i c) = c) ->
  forall cfg id npts inf o,
  In o (init_allSolvers fresh (ens_init X E Cfg cfg NestedClass id npts inf)) ->
  exists m, o = Some m /\ m_cfg m = cfg.
Proof. exact members_inherit_settings. Qed.
Print Assumptions C09_members_inherit_settings.

(* FULL statement "every member is subject to the ensemble's settings" is REFUTED for a configured solver instance
   (SetNestedSolver(NelderMeadSimplexSolver(3))): the members carry the instance's configuration instead
   (known finding: configured-instance-ignores-ensemble-settings). *)
Theorem C09_members_inherit_settings_refuted :
  exists (cfg c : nat) (o : option (member nat nat nat)),
    In o (init_allSolvers (fun i c => mkMember i c None (mkResult 0 0 0 nil))
                          (ens_init nat nat nat cfg (NestedInstance c) 0 1 0)) /\
    ~ (exists m, o = Some m /\ m_cfg m = cfg).
Proof.
  exists 0, 1, (Some (mkMember 0 1 None (mkResult 0 0 0 nil))). split; [now left|].
  intros (m & Hm & Hc). injection Hm as <-. discriminate.
Qed.
Print Assumptions C09_members_inherit_settings_refuted.

(* gridpts: the lexicographic Cartesian product -- size, membership, order (last axis fastest), no duplicates when the
   axes have none; and the loop as written in grid.py (with its empty-axis guard) computes it for every list of axes;
   the only rejected input is the one without any axis (q[-1] raises IndexError: gridpts_impl [] = None) *)
Theorem C09_gridpts_is_product : forall (A : Type) (q : list (list A)),
  length (gridpts q) = prod_nat (map (@length A) q) /\
  (forall p, In p (gridpts q) <-> Forall2 (@In A) p q) /\
  (forall js d, Forall2 (fun j ax => j < length ax) js q ->
       nth (grid_rank js (map (@length A) q)) (gridpts q) [] = grid_point d js q) /\
  (Forall (@NoDup A) q -> NoDup (gridpts q)) /\
  (q <> [] -> gridpts_impl q = Some (gridpts q)).
Proof. exact gridpts_is_product. Qed.
Print Assumptions C09_gridpts_is_product.

Theorem C09_gridpts_no_axes_rejected : forall A : Type, gridpts_impl (@nil (list A)) = None.
Proof. exact gridpts_impl_no_axes. Qed.
Print Assumptions C09_gridpts_no_axes_rejected.

(* lattice: the k-th start point is the centre of its own cell in every coordinate, and lies inside the ranges *)
Theorem C09_lattice_start_in_own_cell : forall los his ns js pts,
  cells_ok los his ns js ->
  lattice_points NumR los his ns = Some pts ->
  length pts = prod_nat ns /\ in_cells los his ns js (nth (grid_rank js ns) pts []).
Proof. exact lattice_start_in_own_cell. Qed.
Print Assumptions C09_lattice_start_in_own_cell.

(* sampled points stay within their ranges (draws in [0,1), lo <= hi) *)
Theorem C09_samples_within_ranges : forall npts los his draws p,
  draws_ok npts los his draws ->
  In p (sample_points NumR los his npts draws) -> boxed los his p.
Proof. exact samples_within_ranges. Qed.
Print Assumptions C09_samples_within_ranges.

(* non-vacuity: a 3-member ensemble with a tie at the minimum; the last tied member wins; hypotheses are satisfiable *)
Example C09_nonvacuous :
  let mk i e := Some (mkMember i 0 (Some i) (mkResult (10 + i) e (i + 1) (repeat i (i + 1)))) : option (member nat nat nat) in
  let all := [mk 0 5; mk 1 3; mk 2 3] in
  StrictWeak nat Nat.ltb /\ (forall x y, Nat.leb x y = negb (Nat.ltb y x)) /\
  (exists e', update_state Nat.leb (mkEns 0 NestedClass 0 all None None 99 0) = Some e' /\
              e_energy e' = 3 /\ e_sol e' = Some 12 /\ e_evals e' = 3) /\
  total_evals all = 6 /\ length (all_logs all) = 6 /\
  cells_ok [0%R] [1%R] [2] [1] /\ draws_ok 1 [0%R] [1%R] [[(1/2)%R]].
Proof.
  split; [|split; [|split; [|split; [|split; [|split]]]]].
  - constructor.
    + intros x. apply Nat.ltb_irrefl.
    + intros x y z H1 H2. apply Nat.ltb_lt in H1, H2. apply Nat.ltb_lt. eapply Nat.lt_trans; eauto.
    + intros x y z H1 H2. apply Nat.ltb_ge in H1, H2. apply Nat.ltb_ge. eapply Nat.le_trans; eauto.
  - intros x y. destruct (Nat.leb_spec x y), (Nat.ltb_spec y x); cbn; auto; lia.
  - eexists. split; [vm_compute; reflexivity|]. cbn. auto.
  - reflexivity.
  - reflexivity.
  - constructor; [lia | lra | lia | constructor].
  - constructor; [lra | reflexivity | | constructor].
    constructor; [lra | constructor].
Qed.
