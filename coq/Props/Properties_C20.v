(* C20 - Monitors and log files give back exactly what was recorded.
   Only statements, each closed by [exact] of a lemma proved in Pure/Monitor_Proofs.v or
   Pure/LogCodec_Proofs.v, followed by Print Assumptions; Examples at the end show that the
   hypotheses are satisfiable.

   Clauses of the property and where they are:
     n calls -> length n                                   C20_len_after_n_calls
     i-th x, y, id back unchanged, k transparent            C20_contents_after_calls, C20_nth_roundtrip (R, k<>0)
     slicing / + / extend / prepend = concatenations        C20_slice_*, C20_add/extend/prepend_is_concat
     ... never alter the monitor passed to them             C20_argument_unchanged, C20_step_untouched
     LoggingMonitor output read back by logfile_reader      C20_parse_format_line, C20_parse_format_file
     write_support/converge/raw_file read back              C20_raw_file_cost, C20_support_file_cost, C20_support_roundtrip, C20_converge_roundtrip,
                                                            C20_transpose_involutive, C20_ids_roundtrip, C20_file_ids_roundtrip
   History: the first version of this file carried C20_support_file_cost_refuted/_partial (write_support_file /
   write_converge_file divided the cost column by k twice); /repo was repaired (fix: commits for the double
   division, numpy-scalar repr in written files, mixed numpy/python costs, 0-d array costs with k, the stale
   module cache of read_import, a.extend(a) / a.prepend(a)), the model follows the repaired code and the full
   statement C20_support_file_cost is proved. *)
From Coq Require Import List ZArith Reals Ascii String.
From MV Require Import Common.Num Common.NumR Pure.Monitor Pure.Monitor_Proofs Pure.LogCodec Pure.LogCodec_Proofs.
Import ListNotations.

(* ---------------------------------------------------------------- monitors *)

(* a monitor called n times has length n (x, y and id all have n entries) *)
Theorem C20_len_after_n_calls : forall (N : Num) (X I M : Type) (k : option (T N)) (rs : list (record N X I)),
  let m := call_all (new_monitor N X I M k) rs in
  mlen m = length rs /\ length (get_y m) = length rs /\ length (get_id m) = length rs.
Proof. exact len_after_n_calls. Qed.
Print Assumptions C20_len_after_n_calls.

Theorem C20_len_after_more_calls : forall (N : Num) (X I M : Type) (m : monitor N X I M) (rs : list (record N X I)),
  mlen (call_all m rs) = mlen m + length rs.
Proof. exact len_after_more_calls. Qed.
Print Assumptions C20_len_after_more_calls.

(* x and id come back exactly (any numeric instance); y comes back exactly over R for k <> 0 *)
Theorem C20_x_id_after_calls : forall (N : Num) (X I M : Type) (k : option (T N)) (rs : list (record N X I)),
  get_x (call_all (new_monitor N X I M k) rs) = map rec_x rs /\
  get_id (call_all (new_monitor N X I M k) rs) = map rec_id rs.
Proof. intros. split; [apply get_x_calls|apply get_id_calls]. Qed.
Print Assumptions C20_x_id_after_calls.

Theorem C20_contents_after_calls : forall (X I M : Type) (k : option R) (rs : list (record NumR X I)),
  knz k -> get_y (call_all (new_monitor NumR X I M k) rs) = map rec_y rs.
Proof. exact get_y_calls. Qed.
Print Assumptions C20_contents_after_calls.

(* the i-th recorded (x, y, id) is returned unchanged by m[i], by m[i-n], and by m.id[i] *)
Theorem C20_nth_roundtrip : forall (X I M : Type) (k : option R) (rs : list (record NumR X I)) (i : nat) x y id,
  knz k -> nth_error rs i = Some (x, y, id) ->
  let m := call_all (new_monitor NumR X I M k) rs in
  getitem_int m (Z.of_nat i) = Some (x, y) /\
  getitem_int m (Z.of_nat i - Z.of_nat (length rs)) = Some (x, y) /\
  nth_error (get_id m) i = Some id.
Proof. exact nth_roundtrip. Qed.
Print Assumptions C20_nth_roundtrip.

(* the error branch: indices outside [-n, n) raise IndexError (None) *)
Theorem C20_nth_out_of_range : forall (X I M : Type) (k : option R) (rs : list (record NumR X I)) (i : Z),
  (Z.of_nat (length rs) <= i \/ i < - Z.of_nat (length rs))%Z ->
  getitem_int (call_all (new_monitor NumR X I M k) rs) i = None.
Proof. exact nth_out_of_range. Qed.
Print Assumptions C20_nth_out_of_range.

(* extend / prepend / + are the concatenations of x, y (read back through each monitor's own k), id, info *)
Theorem C20_extend_is_concat : forall (X I M : Type) (a b : monitor NumR X I M),
  knz (mk a) -> knz (mk b) ->
  let m := extend a b in
  get_x m = get_x a ++ get_x b /\ get_y m = get_y a ++ get_y b /\
  get_id m = get_id a ++ get_id b /\ minfo m = minfo a ++ minfo b /\ mk m = mk a.
Proof. exact extend_is_concat. Qed.
Print Assumptions C20_extend_is_concat.

Theorem C20_prepend_is_concat : forall (X I M : Type) (a b : monitor NumR X I M),
  knz (mk a) -> knz (mk b) ->
  let m := prepend a b in
  get_x m = get_x b ++ get_x a /\ get_y m = get_y b ++ get_y a /\
  get_id m = get_id b ++ get_id a /\ minfo m = minfo b ++ minfo a /\ mk m = mk a.
Proof. exact prepend_is_concat. Qed.
Print Assumptions C20_prepend_is_concat.

(* a monitor extended / prepended with itself: contents doubled *)
Theorem C20_self_combination : forall (X I M : Type) (m : monitor NumR X I M),
  knz (mk m) ->
  (get_x (extend m m) = get_x m ++ get_x m /\ get_y (extend m m) = get_y m ++ get_y m /\
   get_id (extend m m) = get_id m ++ get_id m /\ minfo (extend m m) = minfo m ++ minfo m) /\
  (get_x (prepend m m) = get_x m ++ get_x m /\ get_y (prepend m m) = get_y m ++ get_y m /\
   get_id (prepend m m) = get_id m ++ get_id m /\ minfo (prepend m m) = minfo m ++ minfo m).
Proof. exact self_combination. Qed.
Print Assumptions C20_self_combination.

Theorem C20_add_is_concat : forall (X I M : Type) (a b : monitor NumR X I M),
  knz (mk a) -> knz (mk b) ->
  let m := madd a b in
  get_x m = get_x a ++ get_x b /\ get_y m = get_y a ++ get_y b /\
  get_id m = get_id a ++ get_id b /\ minfo m = minfo a ++ minfo b /\ mk m = mk a.
Proof. exact extend_is_concat. Qed.
Print Assumptions C20_add_is_concat.

(* m[slice]: x, y, id are the python slices of m's x, y, id; info dropped, k kept; ValueError iff step = 0 *)
Theorem C20_slice_contents : forall (N : Num) (X I M : Type) (m m' : monitor N X I M) (s : pyslice),
  getitem_slice m s = Some m' ->
  py_slice (get_x m) s = Some (get_x m') /\ py_slice (get_y m) s = Some (get_y m') /\
  py_slice (get_id m) s = Some (get_id m') /\ minfo m' = [] /\ mk m' = mk m.
Proof. exact getitem_slice_contents. Qed.
Print Assumptions C20_slice_contents.

Theorem C20_slice_error : forall (N : Num) (X I M : Type) (m : monitor N X I M) (s : pyslice),
  getitem_slice m s = None <-> s_step s = Some 0%Z.
Proof. exact getitem_slice_error. Qed.
Print Assumptions C20_slice_error.

(* python slice semantics, any start/stop/step (negative, out of range, None) *)
Theorem C20_slice_spec : forall (A : Type) (l l' : list A) (s : pyslice),
  py_slice l s = Some l' ->
  exists start stop step, slice_bounds (length l) s = Some (start, stop, step) /\
    (forall j, j < length l' ->
       (0 <= start + Z.of_nat j * step < Z.of_nat (length l))%Z /\
       nth_error l' j = nth_error l (Z.to_nat (start + Z.of_nat j * step))) /\
    ((0 < step)%Z -> (stop <= start + Z.of_nat (length l') * step)%Z) /\
    ((step < 0)%Z -> (start + Z.of_nat (length l') * step <= stop)%Z).
Proof. exact @py_slice_spec. Qed.
Print Assumptions C20_slice_spec.

(* l[a:b] is a contiguous block, l[:a] + l[a:] = l for every a, l[:] = l *)
Theorem C20_slice_contiguous : forall (A : Type) (l : list A) (a b : option Z),
  let lo := clampn (length l) a 0 in let hi := clampn (length l) b (length l) in
  py_slice l (mkSlice a b None) = Some (firstn (hi - lo) (skipn lo l)).
Proof. exact @py_slice_contiguous. Qed.
Print Assumptions C20_slice_contiguous.

Theorem C20_slice_split : forall (A : Type) (l : list A) (a : Z),
  exists l1 l2, py_slice l (mkSlice None (Some a) None) = Some l1 /\
                py_slice l (mkSlice (Some a) None None) = Some l2 /\ l1 ++ l2 = l.
Proof. exact @py_slice_split. Qed.
Print Assumptions C20_slice_split.

Theorem C20_slice_all : forall (A : Type) (l : list A), py_slice l (mkSlice None None None) = Some l.
Proof. exact @py_slice_all. Qed.
Print Assumptions C20_slice_all.

(* no operation alters a monitor other than its target; +, extend, prepend, [slice] never alter their argument
   (a.extend(a) / a.prepend(a), where the argument IS the target, double a: C20_self_combination) *)
Theorem C20_step_untouched : forall (N : Num) (X I M : Type) (st st' : store N X I M) (o : op N X I M) (j : nat),
  step st o = Some st' -> j < length st -> target N X I M o <> Some j -> nth_error st' j = nth_error st j.
Proof. exact step_untouched. Qed.
Print Assumptions C20_step_untouched.

Theorem C20_argument_unchanged : forall (N : Num) (X I M : Type) (st st' : store N X I M) (a b : nat) (s : pyslice),
  (step st (OAdd a b) = Some st' -> nth_error st' a = nth_error st a /\ nth_error st' b = nth_error st b) /\
  (a <> b -> step st (OExtend a b) = Some st' -> nth_error st' b = nth_error st b) /\
  (a <> b -> step st (OPrepend a b) = Some st' -> nth_error st' b = nth_error st b) /\
  (step st (OSlice a s) = Some st' -> nth_error st' a = nth_error st a).
Proof. exact argument_unchanged. Qed.
Print Assumptions C20_argument_unchanged.

Theorem C20_step_result : forall (N : Num) (X I M : Type) (st st' : store N X I M) (a b : nat) (ma mb : monitor N X I M),
  nth_error st a = Some ma -> nth_error st b = Some mb ->
  (step st (OAdd a b) = Some st' -> nth_error st' (length st) = Some (madd ma mb)) /\
  (step st (OExtend a b) = Some st' -> nth_error st' a = Some (extend ma mb)) /\
  (step st (OPrepend a b) = Some st' -> nth_error st' a = Some (prepend ma mb)).
Proof. exact step_result. Qed.
Print Assumptions C20_step_result.

(* ---------------------------------------------------------------- cost column of the parameter files *)

(* write_raw_file writes monitor.y: the recorded costs *)
Theorem C20_raw_file_cost : forall (X I M : Type) (k : option R) (rs : list (record NumR X I)),
  knz k -> raw_file_cost (call_all (new_monitor NumR X I M k) rs) = map rec_y rs.
Proof. exact raw_file_cost_ok. Qed.
Print Assumptions C20_raw_file_cost.

(* write_support_file / write_converge_file (through write_monitor(..., k=mon.k)) write the recorded costs too *)
Theorem C20_support_file_cost : forall (X I M : Type) (k : option R) (rs : list (record NumR X I)),
  knz k -> support_file_cost (call_all (new_monitor NumR X I M k) rs) = map rec_y rs.
Proof. exact support_file_cost_ok. Qed.
Print Assumptions C20_support_file_cost.

(* ---------------------------------------------------------------- log codec *)

(* any printer with read(show v) = v whose output has no blank, no newline, is not empty and does not
   start with '[' : the line LoggingMonitor writes is parsed back by logfile_reader to the same entry
   (iteration, id, scalar or vector cost, parameter list) *)
Theorem C20_parse_format_line :
  forall (V : Type) (show : V -> str) (read : str -> option V) (showi : Z -> str) (readi : str -> option Z),
  (forall v, read (show v) = Some v) ->
  (forall v, show v <> [] /\ nospb (show v) = true /\ nonlb (show v) = true) ->
  (forall v c r, show v = c :: r -> Ascii.eqb c c_lb = false) ->
  (forall z, readi (showi z) = Some z) ->
  (forall z, showi z <> [] /\ nospb (showi z) = true /\ nonlb (showi z) = true) ->
  forall e : entry V, parse_line V read readi (format_line V show showi e) = Some e.
Proof. exact parse_format_line. Qed.
Print Assumptions C20_parse_format_line.

(* whole files: header and info lines ("# ...", no newline inside) interleaved with entries *)
Theorem C20_parse_format_file :
  forall (V : Type) (show : V -> str) (read : str -> option V) (showi : Z -> str) (readi : str -> option Z),
  (forall v, read (show v) = Some v) ->
  (forall v, show v <> [] /\ nospb (show v) = true /\ nonlb (show v) = true) ->
  (forall v c r, show v = c :: r -> Ascii.eqb c c_lb = false) ->
  (forall z, readi (showi z) = Some z) ->
  (forall z, showi z <> [] /\ nospb (showi z) = true /\ nonlb (showi z) = true) ->
  forall ls : list (fline V), Forall (comment_ok V) ls ->
  parse_file V read readi (format_file V show showi ls) = Some (entries V ls).
Proof. exact parse_format_file. Qed.
Print Assumptions C20_parse_format_file.

(* ---------------------------------------------------------------- support / converge / raw files *)

Theorem C20_transpose_involutive : forall (A : Type) (n : nat) (X : list (list A)),
  0 < n -> rect n X -> zipstar (zipstar X) = X.
Proof. exact zipstar_involutive. Qed.
Print Assumptions C20_transpose_involutive.

(* write_support_file / read_support_file on n-dimensional trajectories (n > 0, at least one iteration) *)
Theorem C20_support_roundtrip : forall (A : Type) (n : nat) (X : traj A),
  0 < n -> X <> [] -> rect n X ->
  read_support (support_params X) = [zipstar X] /\ zipstar (zipstar X) = X /\
  length (zipstar X) = n /\ rect (length X) (zipstar X).
Proof. exact support_roundtrip. Qed.
Print Assumptions C20_support_roundtrip.

Theorem C20_support_params_spec : forall (A : Type) (X : traj A),
  support_params X = map (map (fun a => [a])) (zipstar X).
Proof. exact support_params_spec. Qed.
Print Assumptions C20_support_params_spec.

Theorem C20_converge_roundtrip : forall (A : Type) (X : traj A),
  Forall (fun x => x <> []) X -> read_converge (converge_params X) = map (fun x => [x]) X.
Proof. exact converge_roundtrip. Qed.
Print Assumptions C20_converge_roundtrip.

(* the id column: _reduce_ids(_process_ids(ids, n)) = ids; iterations count occurrences per id;
   write_raw_file's compression (None / single value / list) is undone by read_raw_file *)
Theorem C20_ids_roundtrip : forall l : list (option Z),
  exists steps, process_ids (IdsList l) (length l) = PList steps /\ reduce_ids steps = l /\ length steps = length l.
Proof. exact ids_roundtrip. Qed.
Print Assumptions C20_ids_roundtrip.

Theorem C20_ids_iterations : forall (l : list (option Z)) (i : nat) (j : option Z),
  forallb is_noneb l = false -> nth_error l i = Some j ->
  exists steps, process_ids (IdsList l) (length l) = PList steps /\
                nth_error steps i = Some (S2 (length (filter (oz_eqb j) (firstn i l))) j).
Proof. exact ids_iterations. Qed.
Print Assumptions C20_ids_iterations.

Theorem C20_file_ids_roundtrip : forall l : list (option Z),
  l <> [] -> exists steps, file_ids l (length l) = PList steps /\ reduce_ids steps = l /\ length steps = length l.
Proof. exact file_ids_roundtrip. Qed.
Print Assumptions C20_file_ids_roundtrip.

(* ---------------------------------------------------------------- non-vacuity *)

(* k-hypotheses: satisfiable, and the round trip is exhibited on a two-record history with k = -2 *)
Example C20_knz_example :
  knz (Some (-2)%R) /\
  getitem_int (call_all (new_monitor NumR nat nat nat (Some (-2)%R))
                 [(7, CS (N:=NumR) 3%R, Some 1); (8, CV (N:=NumR) [1%R; 2%R], None)]) (-1)%Z
  = Some (8, CV (N:=NumR) [1%R; 2%R]).
Proof.
  split; [cbn; apply Rlt_not_eq; apply Ropp_lt_gt_0_contravar; apply Rlt_gt; apply Rlt_0_2|].
  refine (proj1 (proj2 (nth_roundtrip nat nat nat (Some (-2)%R)
     [(7, CS (N:=NumR) 3%R, Some 1); (8, CV (N:=NumR) [1%R; 2%R], None)] 1 8 (CV (N:=NumR) [1%R; 2%R]) None _ eq_refl))).
  cbn. apply Rlt_not_eq. apply Ropp_lt_gt_0_contravar. apply Rlt_gt. apply Rlt_0_2.
Qed.

(* the codec hypotheses are met by a concrete printer: booleans as "0"/"1", integers in signed unary *)
Definition ex_show (b : bool) : str := if b then lit "1" else lit "0".
Definition ex_read (s : str) : option bool :=
  match s with [c] => if Ascii.eqb c "1"%char then Some true else if Ascii.eqb c "0"%char then Some false else None | _ => None end.
Definition ex_showi (z : Z) : str :=
  (if (z <? 0)%Z then "-"%char else "+"%char) :: repeat "1"%char (Z.abs_nat z).
Definition ex_readi (s : str) : option Z :=
  match s with
  | c :: r => if Ascii.eqb c "-"%char then Some (- Z.of_nat (length r))%Z
              else if Ascii.eqb c "+"%char then Some (Z.of_nat (length r)) else None
  | [] => None
  end.
Example C20_codec_hypotheses_satisfiable :
  (forall v, ex_read (ex_show v) = Some v) /\
  (forall v, ex_show v <> [] /\ nospb (ex_show v) = true /\ nonlb (ex_show v) = true) /\
  (forall v c r, ex_show v = c :: r -> Ascii.eqb c c_lb = false) /\
  (forall z, ex_readi (ex_showi z) = Some z) /\
  (forall z, ex_showi z <> [] /\ nospb (ex_showi z) = true /\ nonlb (ex_showi z) = true).
Proof.
  assert (R1 : forall n, nospb (repeat "1"%char n) = true) by (induction n; cbn; auto).
  assert (R2 : forall n, nonlb (repeat "1"%char n) = true) by (induction n; cbn; auto).
  repeat split.
  - intros []; reflexivity.
  - destruct v; discriminate.
  - destruct v; reflexivity.
  - destruct v; reflexivity.
  - intros [] c r H; inversion H; reflexivity.
  - intro z. unfold ex_showi, ex_readi. destruct (z <? 0)%Z eqn:E.
    + apply Z.ltb_lt in E. cbn. rewrite repeat_length. f_equal. rewrite Zabs2Nat.id_abs. rewrite Z.abs_neq; auto with zarith.
    + apply Z.ltb_ge in E. cbn. rewrite repeat_length. f_equal. rewrite Zabs2Nat.id_abs. apply Z.abs_eq; auto.
  - discriminate.
  - unfold ex_showi. destruct (z <? 0)%Z; cbn; apply R1.
  - unfold ex_showi. destruct (z <? 0)%Z; cbn; apply R2.
Qed.
(* ... and a concrete line makes the round trip by computation *)
Example C20_codec_line_example :
  let e := mkEntry 3%Z (Some (-2)%Z) (YV [true; false]) [false; true; true] in
  format_line bool ex_show ex_showi e = lit "  (+111, -11)     [1, 0]   [0, 1, 1]" /\
  parse_line bool ex_read ex_readi (format_line bool ex_show ex_showi e) = Some e.
Proof. split; reflexivity. Qed.

(* rectangular non-empty data exists, and zero-dimensional vectors are genuinely lost by the support format *)
Example C20_support_example :
  rect 2 [[1; 2]; [3; 4]; [5; 6]] /\ zipstar [[1; 2]; [3; 4]; [5; 6]] = [[1; 3; 5]; [2; 4; 6]] /\
  zipstar (zipstar ([[]; []] : list (list nat))) <> [[]; []].
Proof. split; [repeat constructor|split; [reflexivity|discriminate]]. Qed.
