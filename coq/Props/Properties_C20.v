(* C20 - Monitors and log files give back exactly what was recorded.
   Only statements, each closed by [exact] of a lemma proved in Pure/Monitor_Proofs.v or
   Pure/LogCodec_Proofs.v. *)
From Coq Require Import List ZArith Reals.
From MV Require Import Common.Num Common.NumR Pure.Monitor Pure.Monitor_Proofs.
Import ListNotations.

(* ---- a monitor called n times has length n ---- *)
Theorem C20_len_after_n_calls : forall (N : Num) (X I M : Type) (k : option (T N)) (rs : list (record N X I)),
  let m := call_all (new_monitor N X I M k) rs in
  mlen m = length rs /\ length (get_y m) = length rs /\ length (get_id m) = length rs.
Proof. exact len_after_n_calls. Qed.
Print Assumptions C20_len_after_n_calls.
