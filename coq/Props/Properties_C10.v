(* C10 - Termination conditions mean what they say, alone and in combination.
   Only statements, each closed by [exact] of a lemma proved in Pure/Termination_Proofs.v.

   Reading guide.  [cond N] / [view N] / [leaf_eval] model mystic/termination.py's primitive conditions over any
   numeric instance N (PrimFloat in the correspondence run, R below); [tree], [eval], [info], [mk], [mk_when],
   [describe]/[build] model When/And/Or objects, their __call__, their __new__ and type()/state().
   Theorems named *_refuted are witnesses that the full property clause FAILS for the faithful model (the same inputs
   fail on /repo and are listed in known_findings.d/C10.txt); *_partial / *_documented say what does hold. *)
From Coq Require Import ZArith List Bool Reals.
From MV Require Import Common.Num Common.NumR Pure.Termination Pure.Termination_Proofs.
Import ListNotations.

(* ------------------------------------------------------------------ Python indexing used by the window conditions *)
Theorem C10_window_index : forall (A : Type) (l : list A) (g : Z),
  (0 < g <= Z.of_nat (length l))%Z -> pyget l (- g) = nth_error l (Z.to_nat (Z.of_nat (length l) - g)).
Proof. exact @pyget_neg. Qed.
Print Assumptions C10_window_index.

Theorem C10_window_zero_is_first : forall (A : Type) (l : list A), pyget l 0 = nth_error l 0.
Proof. exact @pyget_zero. Qed.
Print Assumptions C10_window_zero_is_first.

Theorem C10_last_index : forall (A : Type) (l : list A) (d : A), l <> [] -> pylast l = Some (last l d).
Proof. exact @pylast_last. Qed.
Print Assumptions C10_last_index.

(* ------------------------------------------------------------------ primitives, any numeric instance (incl. binary64) *)
Theorem C10_VTR_iff : forall (N : Num) (tol target : T N) (h : list (T N)),
  vtr N tol target h = Sat <-> exists c, pylast h = Some c /\ leb N (absdiff N c target) tol = true.
Proof. exact vtr_iff. Qed.
Print Assumptions C10_VTR_iff.

Theorem C10_ChangeOverGeneration_iff : forall (N : Num) (tol : T N) (g : option Z) (h : list (T N)),
  cog N tol g h = Sat <->
  exists a b, (gens_of g < Z.of_nat (length h))%Z /\ pyget h (- gens_of g) = Some a /\ pylast h = Some b /\
              (leb N (sub N a b) tol = true \/ eqb N a b = true).
Proof. exact cog_iff. Qed.
Print Assumptions C10_ChangeOverGeneration_iff.

(* the only exception path: a negative window (hist[-gens] then indexes from the front) *)
Theorem C10_ChangeOverGeneration_error : forall (N : Num) (tol : T N) (g : option Z) (h : list (T N)),
  cog N tol g h = Err -> (gens_of g < 0)%Z.
Proof. exact cog_err. Qed.
Print Assumptions C10_ChangeOverGeneration_error.

Theorem C10_NormalizedChangeOverGeneration_iff : forall (N : Num) (eta tol : T N) (g : option Z) (h : list (T N)),
  ncog N eta tol g h = Sat <->
  exists a b, (gens_of g < Z.of_nat (length h))%Z /\ pyget h (- gens_of g) = Some a /\ pylast h = Some b /\
              (eqb N a b = true \/
               leb N (mul N (two N) (sub N a b)) (add N (mul N tol (add N (abs N a) (abs N b))) eta) = true).
Proof. exact ncog_iff. Qed.
Print Assumptions C10_NormalizedChangeOverGeneration_iff.

Theorem C10_NormalizedCostTarget_target_iff : forall (N : Num) (f tol : T N) (g : option Z) (h : list (T N)),
  nct N (Some f) tol g h = Sat <->
  exists c, pylast h = Some c /\ leb N (absdiff N c f) (abs N (mul N tol f)) = true.
Proof. exact nct_target_iff. Qed.
Print Assumptions C10_NormalizedCostTarget_target_iff.

Theorem C10_NormalizedCostTarget_nowindow : forall (N : Num) (g : option Z) (tol : T N) (h : list (T N)),
  gens_of g = 0%Z -> (nct N None tol g h = Sat <-> h <> []).
Proof. exact nct_nowindow. Qed.
Print Assumptions C10_NormalizedCostTarget_nowindow.

Theorem C10_NormalizedCostTarget_window_iff : forall (N : Num) (g : option Z) (tol : T N) (h : list (T N)),
  gens_of g <> 0%Z ->
  (nct N None tol g h = Sat <->
   exists a b, (gens_of g < Z.of_nat (length h))%Z /\ pyget h (- gens_of g) = Some a /\ pylast h = Some b /\
               (leb N (sub N a b) (zero N) = true \/ eqb N a b = true)).
Proof. exact nct_window_iff. Qed.
Print Assumptions C10_NormalizedCostTarget_window_iff.

Theorem C10_VTRChangeOverGeneration_iff : forall (N : Num) (ftol gtol : T N) (g : option Z) (target : T N) (h : list (T N)),
  (0 <= gens_of g)%Z ->
  (vtrcog N ftol gtol g target h = Sat <->
   (exists a b, (gens_of g < Z.of_nat (length h))%Z /\ pyget h (- gens_of g) = Some a /\ pylast h = Some b /\
                (leb N (sub N a b) gtol = true \/ eqb N a b = true)) \/
   (exists c, pylast h = Some c /\ leb N (absdiff N c target) ftol = true)).
Proof. exact vtrcog_iff. Qed.
Print Assumptions C10_VTRChangeOverGeneration_iff.

Theorem C10_PopulationSpread_iff : forall (N : Num) (tol : T N) (s : view N),
  ps N tol s = Sat <->
  exists x0 rest, pop s = x0 :: rest /\
    forall r, In r (pop s) -> forall p, In p (combine r x0) ->
      leb N (absdiff N (fst p) (snd p)) (abs N (mul N tol (snd p))) = true.
Proof. exact ps_iff. Qed.
Print Assumptions C10_PopulationSpread_iff.

Theorem C10_EvaluationLimits_iff : forall (N : Num) (g e : option Z) (s : view N),
  el N g e s = Sat <-> (exists m, e = Some m /\ (m <= fcalls s)%Z) \/ (exists m, g = Some m /\ (m <= gens s)%Z).
Proof. exact el_iff. Qed.
Print Assumptions C10_EvaluationLimits_iff.

Theorem C10_TimeLimits_iff : forall (N : Num) (sec : T N) (s : view N),
  tl N sec s = Sat <-> leb N (abs N sec) (sub N (tnow s) (tstart s)) = true.
Proof. exact tl_iff. Qed.
Print Assumptions C10_TimeLimits_iff.

Theorem C10_SolverInterrupt_iff : forall (N : Num) (eta : T N) (s : view N),
  leaf_eval N eta SINT s = Sat <-> exitflag s = true.
Proof. exact sint_iff. Qed.
Print Assumptions C10_SolverInterrupt_iff.

Theorem C10_SolutionImprovement_vector_iff : forall (N : Num) (tol : T N) (s : view N) (x : list (T N)),
  trial s = Trial1 x -> (si N tol s = Sat <-> leb N (nsum N (vabsdiff N (best s) x)) tol = true).
Proof. exact si_vector_iff. Qed.
Print Assumptions C10_SolutionImprovement_vector_iff.

(* with a trial population: every member (abstract strict weak order on the numbers = no NaN) *)
Theorem C10_SolutionImprovement_population_iff : forall (N : Num),
  (forall x y z : T N, ltb N x y = true -> ltb N y z = true -> ltb N x z = true) ->
  (forall x y z : T N, ltb N x y = false -> ltb N y z = false -> ltb N x z = false) ->
  (forall x : T N, ltb N x x = false) ->
  (forall x y : T N, leb N x y = negb (ltb N y x)) ->
  forall (tol : T N) (s : view N) (xs : list (list (T N))), trial s = Trial2 xs -> xs <> [] ->
  (si N tol s = Sat <-> forall r, In r xs -> leb N (nsum N (vabsdiff N (best s) r)) tol = true).
Proof. exact si_population_forall. Qed.
Print Assumptions C10_SolutionImprovement_population_iff.

Theorem C10_CandidateRelativeTolerance_iff : forall (N : Num),
  (forall x y z : T N, ltb N x y = true -> ltb N y z = true -> ltb N x z = true) ->
  (forall x y z : T N, ltb N x y = false -> ltb N y z = false -> ltb N x z = false) ->
  (forall x : T N, ltb N x x = false) ->
  (forall x y : T N, leb N x y = negb (ltb N y x)) ->
  forall (xtol ftol : T N) (s : view N) f0 f1 fr x0 xr,
  popE s = f0 :: f1 :: fr -> pop s = x0 :: xr -> concat (map (fun r => vabsdiff N r x0) xr) <> [] ->
  (crt N xtol ftol s = Sat <->
   (forall r, In r xr -> forall p, In p (combine r x0) -> leb N (absdiff N (fst p) (snd p)) xtol = true) /\
   (forall f, In f (f1 :: fr) -> leb N (absdiff N f0 f) ftol = true)).
Proof. exact crt_forall. Qed.
Print Assumptions C10_CandidateRelativeTolerance_iff.

(* fewer than two energies: the warning string (truthy) is returned instead of a verdict *)
Theorem C10_CandidateRelativeTolerance_warning_iff : forall (N : Num) (xtol ftol : T N) (s : view N),
  crt N xtol ftol s = Warn <-> (length (popE s) < 2)%nat.
Proof. exact crt_warn_iff. Qed.
Print Assumptions C10_CandidateRelativeTolerance_warning_iff.

Theorem C10_GradientNormTolerance_iff : forall (N : Num) (tol : T N) (k : normkind) (s : view N),
  gnt N tol k s = Sat <-> exists g w, grad_of N s = Some g /\ gnorm N k g = Some w /\ leb N w tol = true.
Proof. exact gnt_iff. Qed.
Print Assumptions C10_GradientNormTolerance_iff.

Theorem C10_GradientNormTolerance_uses_last_gradient : forall (N : Num) (s : view N) (l : list (list (T N))),
  gradient s = Some l -> l <> [] -> forall d, grad_of N s = Some (last l d).
Proof. exact grad_is_last. Qed.
Print Assumptions C10_GradientNormTolerance_uses_last_gradient.

(* ------------------------------------------------------------------ the documented inequalities over R *)
Open Scope R_scope.

Theorem C10_VTR_documented : forall (tol target : R) (h : list R),
  vtr NumR tol target h = Sat <-> exists c, pylast h = Some c /\ Rabs (c - target) <= tol.
Proof. exact vtr_R. Qed.
Print Assumptions C10_VTR_documented.

(* FULL CLAUSE (false): cog = Sat <-> window fits /\ cost[-g] - cost[-1] <= tolerance, for every tolerance *)
Theorem C10_ChangeOverGeneration_documented_partial : forall (tol : R) (g : option Z) (h : list R), 0 <= tol ->
  (cog NumR tol g h = Sat <-> exists a b, window_of h g a b /\ a - b <= tol).
Proof. exact cog_R_documented. Qed.
Print Assumptions C10_ChangeOverGeneration_documented_partial.

Theorem C10_ChangeOverGeneration_documented_refuted :
  exists tol g (h : list R) a b, cog NumR tol g h = Sat /\ window_of h g a b /\ ~ (a - b <= tol).
Proof. exact cog_R_refuted. Qed.
Print Assumptions C10_ChangeOverGeneration_documented_refuted.

Theorem C10_ChangeOverGeneration_real : forall (tol : R) (g : option Z) (h : list R),
  cog NumR tol g h = Sat <-> exists a b, window_of h g a b /\ (a - b <= tol \/ a = b).
Proof. exact cog_R. Qed.
Print Assumptions C10_ChangeOverGeneration_real.

Theorem C10_NormalizedChangeOverGeneration_real : forall (eta tol : R) (g : option Z) (h : list R),
  ncog NumR eta tol g h = Sat <->
  exists a b, window_of h g a b /\ (a = b \/ 2 * (a - b) <= tol * (Rabs a + Rabs b) + eta).
Proof. exact ncog_R. Qed.
Print Assumptions C10_NormalizedChangeOverGeneration_real.

(* FULL CLAUSE (false twice): the documented quotient, for every tolerance and with the code's eta = 1e-20 > 0 *)
Theorem C10_NormalizedChangeOverGeneration_documented_partial : forall (tol : R) (g : option Z) (h : list R), 0 <= tol ->
  (ncog NumR 0 tol g h = Sat <->
   exists a b, window_of h g a b /\ (a = b \/ (a <> b /\ (a - b) / (/ 2 * (Rabs a + Rabs b)) <= tol))).
Proof. exact ncog_R_documented. Qed.
Print Assumptions C10_NormalizedChangeOverGeneration_documented_partial.

Theorem C10_NormalizedChangeOverGeneration_eta_refuted :
  exists eta tol g (h : list R) a b, 0 < eta /\ ncog NumR eta tol g h = Sat /\ window_of h g a b /\ a <> b /\
    ~ ((a - b) / (/ 2 * (Rabs a + Rabs b)) <= tol).
Proof. exact ncog_R_eta_refuted. Qed.
Print Assumptions C10_NormalizedChangeOverGeneration_eta_refuted.

Theorem C10_NormalizedChangeOverGeneration_plateau_refuted :
  exists tol g (h : list R) a b, ncog NumR 0 tol g h = Sat /\ window_of h g a b /\
    ~ (2 * (a - b) <= tol * (Rabs a + Rabs b)).
Proof. exact ncog_R_plateau_refuted. Qed.
Print Assumptions C10_NormalizedChangeOverGeneration_plateau_refuted.

Theorem C10_NormalizedCostTarget_real : forall (f tol : R) (g : option Z) (h : list R),
  nct NumR (Some f) tol g h = Sat <-> exists c, pylast h = Some c /\ Rabs (c - f) <= Rabs (tol * f).
Proof. exact nct_R. Qed.
Print Assumptions C10_NormalizedCostTarget_real.

Theorem C10_NormalizedCostTarget_documented_partial : forall (f tol : R) (g : option Z) (h : list R), 0 < f -> 0 <= tol ->
  (nct NumR (Some f) tol g h = Sat <-> exists c, pylast h = Some c /\ Rabs (c - f) / f <= tol).
Proof. exact nct_R_documented. Qed.
Print Assumptions C10_NormalizedCostTarget_documented_partial.

Theorem C10_NormalizedCostTarget_documented_refuted :
  exists f tol g (h : list R) c, 0 < f /\ nct NumR (Some f) tol g h = Sat /\ pylast h = Some c /\
    ~ (Rabs (c - f) / f <= tol).
Proof. exact nct_R_refuted. Qed.
Print Assumptions C10_NormalizedCostTarget_documented_refuted.

(* "no improvement over g iterations" *)
Theorem C10_NormalizedCostTarget_no_improvement : forall (tol : R) (g : option Z) (h : list R), gens_of g <> 0%Z ->
  (nct NumR None tol g h = Sat <-> exists a b, window_of h g a b /\ a <= b).
Proof. exact nct_R_window. Qed.
Print Assumptions C10_NormalizedCostTarget_no_improvement.

Theorem C10_PopulationSpread_documented_partial : forall (tol : R) (s : view NumR), 0 <= tol ->
  (ps NumR tol s = Sat <->
   exists x0 rest, pop s = x0 :: rest /\
     forall r, In r (pop s) -> forall p, In p (combine r x0) -> Rabs (fst p - snd p) <= tol * Rabs (snd p)).
Proof. exact ps_R_documented. Qed.
Print Assumptions C10_PopulationSpread_documented_partial.

Theorem C10_PopulationSpread_documented_refuted :
  exists tol (s : view NumR) x y, ps NumR tol s = Sat /\ pop s = [[x]; [y]] /\ ~ (Rabs (y - x) <= tol * Rabs x).
Proof. exact ps_R_refuted. Qed.
Print Assumptions C10_PopulationSpread_documented_refuted.

Theorem C10_TimeLimits_documented_partial : forall (sec : R) (s : view NumR), 0 <= sec ->
  (tl NumR sec s = Sat <-> sec <= tnow s - tstart s).
Proof. exact tl_R_documented. Qed.
Print Assumptions C10_TimeLimits_documented_partial.

Theorem C10_TimeLimits_documented_refuted :
  exists sec (s : view NumR), sec <= tnow s - tstart s /\ tl NumR sec s <> Sat.
Proof. exact tl_R_refuted. Qed.
Print Assumptions C10_TimeLimits_documented_refuted.

Theorem C10_CandidateRelativeTolerance_documented : forall (xtol ftol : R) (s : view NumR) f0 f1 fr x0 xr,
  popE s = f0 :: f1 :: fr -> pop s = x0 :: xr -> concat (map (fun r => vabsdiff NumR r x0) xr) <> [] ->
  (crt NumR xtol ftol s = Sat <->
   (forall r, In r xr -> forall p, In p (combine r x0) -> Rabs (fst p - snd p) <= xtol) /\
   (forall f, In f (f1 :: fr) -> Rabs (f0 - f) <= ftol)).
Proof. exact crt_R. Qed.
Print Assumptions C10_CandidateRelativeTolerance_documented.

Theorem C10_SolutionImprovement_documented : forall (tol : R) (s : view NumR) (xs : list (list R)),
  trial s = @Trial2 NumR xs -> xs <> [] ->
  (si NumR tol s = Sat <-> forall r, In r xs -> nsum NumR (vabsdiff NumR (best s) r) <= tol).
Proof. exact si_R. Qed.
Print Assumptions C10_SolutionImprovement_documented.

Close Scope R_scope.

(* ------------------------------------------------------------------ And / Or / When, any depth *)
(* FULL CLAUSE (false without [wf]): evaluation is the intended meaning for every condition object.
   [wf t]: inside every compound of t the members are pairwise distinct as dictionary keys. *)
Theorem C10_eval_any_depth_partial : forall (L : Type) (out : L -> outcome) (t : tree L),
  wf t = true -> eval out t = sem out t.
Proof. exact eval_sem. Qed.
Print Assumptions C10_eval_any_depth_partial.

Theorem C10_eval_And_partial : forall (L : Type) (out : L -> outcome) (ts : list (tree L)), wf (Node KAnd ts) = true ->
  (eval out (Node KAnd ts) = true <-> forall m, In m ts -> eval out m = true).
Proof. exact eval_and_iff. Qed.
Print Assumptions C10_eval_And_partial.

Theorem C10_eval_Or_partial : forall (L : Type) (out : L -> outcome) (ts : list (tree L)), wf (Node KOr ts) = true ->
  (eval out (Node KOr ts) = true <-> exists m, In m ts /\ eval out m = true).
Proof. exact eval_or_iff. Qed.
Print Assumptions C10_eval_Or_partial.

Theorem C10_eval_When_partial : forall (L : Type) (out : L -> outcome) (ts : list (tree L)), wf (Node KWhen ts) = true ->
  (eval out (Node KWhen ts) = true <-> forall m, In m ts -> eval out m = true).
Proof. exact eval_when_iff. Qed.
Print Assumptions C10_eval_When_partial.

Theorem C10_eval_Or_collision_refuted : forall (L : Type) (out : L -> outcome) (a b : L), out a = Sat -> out b = Unsat ->
  let t := Node KOr [Node KOr [Leaf 0 a; Leaf 1 b]; Node KAnd [Leaf 0 a; Leaf 1 b]] in
  eval out t = false /\ sem out t = true.
Proof. exact eval_or_collision_refuted. Qed.
Print Assumptions C10_eval_Or_collision_refuted.

Theorem C10_eval_And_collision_refuted : forall (L : Type) (out : L -> outcome),
  let t := @Node L KAnd [Node KOr []; Node KAnd []] in eval out t = true /\ sem out t = false.
Proof. exact eval_and_collision_refuted. Qed.
Print Assumptions C10_eval_And_collision_refuted.

(* the constructors: And(args...) / Or(args...) / When(arg) build an object with the intended meaning, EXCEPT when a
   single compound argument of the other kind is unpacked *)
Theorem C10_construct_And_partial : forall (L : Type) (out : L -> outcome) (args : list (tree L)),
  (forall ts, args <> [Node KOr ts]) -> sem out (mk KAnd args) = forallb (sem out) args.
Proof. exact mk_and_sem_partial. Qed.
Print Assumptions C10_construct_And_partial.

Theorem C10_construct_Or_partial : forall (L : Type) (out : L -> outcome) (args : list (tree L)),
  (forall k ts, k <> KOr -> args <> [Node k ts]) -> sem out (mk KOr args) = existsb (sem out) args.
Proof. exact mk_or_sem_partial. Qed.
Print Assumptions C10_construct_Or_partial.

Theorem C10_construct_When_partial : forall (L : Type) (out : L -> outcome) (a : tree L),
  when_ok L a = true -> sem out (mk_when a) = sem out a.
Proof. exact mk_when_sem_partial. Qed.
Print Assumptions C10_construct_When_partial.

Theorem C10_construct_And_refuted : forall (L : Type) (out : L -> outcome) (a b : L), out a = Sat -> out b = Unsat ->
  let args := [Node KOr [Leaf 0 a; Leaf 1 b]] in sem out (mk KAnd args) = false /\ forallb (sem out) args = true.
Proof. exact mk_and_flatten_refuted. Qed.
Print Assumptions C10_construct_And_refuted.

Theorem C10_construct_Or_refuted : forall (L : Type) (out : L -> outcome) (a b : L), out a = Sat -> out b = Unsat ->
  let args := [Node KAnd [Leaf 0 a; Leaf 1 b]] in sem out (mk KOr args) = true /\ existsb (sem out) args = false.
Proof. exact mk_or_flatten_refuted. Qed.
Print Assumptions C10_construct_Or_refuted.

Theorem C10_construct_When_refuted : forall (L : Type) (out : L -> outcome) (a b : L), out a = Sat -> out b = Unsat ->
  let arg := Node KOr [Leaf 0 a; Leaf 1 b] in sem out (mk_when arg) = false /\ sem out arg = true.
Proof. exact mk_when_flatten_refuted. Qed.
Print Assumptions C10_construct_When_refuted.

(* info=True names only satisfied leaves (the nPop warning counts as CandidateRelativeTolerance's truthy answer) *)
Theorem C10_info_sound : forall (L : Type) (out : L -> outcome) (t : tree L) (i : nat) (w : bool),
  In (i, w) (info out t) -> exists c, In (i, c) (leaves t) /\ out c = (if w then Warn else Sat).
Proof. exact info_sound. Qed.
Print Assumptions C10_info_sound.

(* FULL CLAUSE (false for And()): info empty iff not satisfied *)
Theorem C10_info_empty_iff_partial : forall (L : Type) (out : L -> outcome) (t : tree L),
  no_empty_all t = true -> (info out t = [] <-> eval out t = false).
Proof. exact info_empty_iff. Qed.
Print Assumptions C10_info_empty_iff_partial.

Theorem C10_info_empty_refuted : forall (L : Type) (out : L -> outcome),
  eval out (@Node L KAnd []) = true /\ info out (@Node L KAnd []) = [].
Proof. exact info_empty_and_refuted. Qed.
Print Assumptions C10_info_empty_refuted.

(* exceptions of any member propagate; otherwise the call returns [eval] *)
Theorem C10_exception_iff : forall (L : Type) (out : L -> outcome) (t : tree L),
  run out t = None <-> exists i c, In (i, c) (leaves t) /\ out c = Err.
Proof. exact run_none_iff. Qed.
Print Assumptions C10_exception_iff.

(* rebuilt from type + state: identical object (hence identical behaviour in every mode) for every object the
   constructors can produce whose When nodes hold one member *)
Theorem C10_rebuild_same_partial : forall (L : Type) (t : tree L),
  canonical t = true -> when_single t = true -> build (describe t) = Some t.
Proof. exact rebuild_same. Qed.
Print Assumptions C10_rebuild_same_partial.

Theorem C10_constructors_canonical : forall (L : Type) (k : kind) (args : list (tree L)),
  forallb canonical args = true -> canonical (mk k args) = true.
Proof. exact canonical_mk. Qed.
Print Assumptions C10_constructors_canonical.

Theorem C10_when_canonical : forall (L : Type) (a : tree L), canonical a = true -> canonical (mk_when a) = true.
Proof. exact canonical_mk_when. Qed.
Print Assumptions C10_when_canonical.

Theorem C10_rebuild_refuted : forall (L : Type) (a b : L),
  let t := mk_when (mk KAnd [Leaf 0 a; Leaf 1 b]) in canonical t = true /\ build (describe t) = None.
Proof. exact rebuild_when_multi_refuted. Qed.
Print Assumptions C10_rebuild_refuted.

(* ------------------------------------------------------------------ non-vacuity *)
(* a depth-3 expression with distinct members that is wf, canonical, rebuildable, non-trivially satisfied *)
Example C10_nonvacuous :
  let out := fun c : bool => if c then Sat else Unsat in
  let t := mk KOr [mk KAnd [Leaf 0 true; Leaf 1 false]; mk_when (Leaf 2 true); mk KAnd [mk KOr [Leaf 3 false; Leaf 4 true]; Leaf 5 true]] in
  wf t = true /\ canonical t = true /\ when_single t = true /\ no_empty_all t = true /\
  eval out t = true /\ info out t = [(2%nat, false); (4%nat, false); (5%nat, false)] /\ build (describe t) = Some t.
Proof. cbn. repeat split. Qed.

(* the window hypotheses of the primitive theorems are satisfiable: a staircase history with a plateau at the end *)
Example C10_nonvacuous_window :
  let h := [4; 3; 3; 3]%Z in
  pyget h (- 2) = Some 3%Z /\ pyget h (- 0) = Some 4%Z /\ pylast h = Some 3%Z /\ pyget h (- 5) = None /\ pyget h (- 4) = Some 4%Z.
Proof. cbn. repeat split. Qed.
