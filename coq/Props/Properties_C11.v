(* C11 - Dimensional collapse is detected per definition, applied exactly, reported once.
   Only statements, each closed by [exact] of a lemma proved in Pure/Collapse_Proofs.v.
   Model: Pure/Collapse.v (collapse_at/as/weight/position over the look-back window of a recorded history, all mask
   formats, mask.update_mask, the Collapse* termination wrappers, constraints.impose_at / impose_as with tools.connected,
   composition of collapse rounds onto the constraints, the collapse loop of AbstractSolver._Solve).
   [N] is any numeric instance (binary64 in the correspondence runs); order facts assume a strict weak order without NaN;
   the two spread (max - min) characterisations are over the reals.  collapse_cost is not modelled (oracle only). *)
From Coq Require Import List ZArith Bool Arith Reals QArith.
From MV Require Import Common.Num Common.Order Common.NumR Pure.Collapse Pure.Collapse_Proofs.
Import ListNotations.
Open Scope nat_scope.

(* ---------------------------------------------------------------- the look-back window: _solutions(monitor, last) *)
Theorem C11_window_None_is_whole_history : forall (A : Type) (l : list A), window None l = l.
Proof. exact @window_None. Qed.
Print Assumptions C11_window_None_is_whole_history.

Theorem C11_window_zero_is_whole_history : forall (A : Type) (l : list A), window (Some 0%Z) l = l.
Proof. exact @window_zero. Qed.
Print Assumptions C11_window_zero_is_whole_history.

Theorem C11_window_last_g : forall (A : Type) (g : nat) (l : list A), 0 < g -> window (Some (Z.of_nat g)) l = skipn (length l - g) l.
Proof. exact @window_pos. Qed.
Print Assumptions C11_window_last_g.

Theorem C11_window_longer_than_history : forall (A : Type) (g : nat) (l : list A), length l <= g -> window (Some (Z.of_nat g)) l = l.
Proof. exact @window_longer. Qed.
Print Assumptions C11_window_longer_than_history.

(* ---------------------------------------------------------------- detector_is_definition: result = {i | test i} \ mask *)
Theorem C11_detector_is_definition_at :
  forall (N : Num) (hist : list (list (T N))) (tg : target N) (tol : T N) (g : option Z) (mask : mask_at) (r : list nat),
  collapse_at N hist tg tol g mask = Ok r ->
  forall i, In i r <->
    (i < ncols N (window g hist) /\ test_at N tg tol (window g hist) i = true /\ ~ In i (mask_at_list mask)).
Proof. exact collapse_at_is_definition. Qed.
Print Assumptions C11_detector_is_definition_at.

(* the inputs the real code rejects (bad masks, empty window, target list of the wrong length) and how *)
Theorem C11_collapse_at_rejections :
  forall (N : Num) (hist : list (list (T N))) (tg : target N) (tol : T N) (g : option Z) (mask : mask_at),
  match collapse_at N hist tg tol g mask with
  | Err ErrType => mask = MaNotSet
  | Err ErrValue => mask = MaBadElem \/ window g hist = [] \/
                    (exists ts, tg = TList ts /\ length ts <> ncols N (window g hist))
  | Err ErrIndex => False
  | Ok _ => (mask = MaNone \/ exists m, mask = MaSet m) /\ window g hist <> []
  end.
Proof. exact collapse_at_errors. Qed.
Print Assumptions C11_collapse_at_rejections.

Theorem C11_detector_is_definition_as :
  forall (N : Num) (hist : list (list (T N))) (off : bool) (tol : T N) (g : option Z) (mask : mask_as) (r : list (nat * nat)),
  collapse_as N hist off tol g mask = Ok r ->
  forall i j, In (i, j) r <->
    (i < j /\ j < ncols N (window g hist) /\ test_as N off tol (window g hist) (i, j) = true /\
     masked_as (mask_as_list mask) (i, j) = false).
Proof. exact collapse_as_is_definition. Qed.
Print Assumptions C11_detector_is_definition_as.

(* what a CollapseAs mask element masks: an index masks every pair containing it, a pair masks itself in both orientations *)
Theorem C11_as_mask_meaning : forall (m : list melem) (p : nat * nat),
  masked_as m p = true <->
  exists e, In e m /\ match e with MInt k => k = fst p \/ k = snd p | MPair a b => (a, b) = p \/ (a, b) = swap p end.
Proof. exact masked_as_meaning. Qed.
Print Assumptions C11_as_mask_meaning.

Theorem C11_collapse_as_rejections :
  forall (N : Num) (hist : list (list (T N))) (off : bool) (tol : T N) (g : option Z) (mask : mask_as),
  match collapse_as N hist off tol g mask with
  | Err ErrType => mask = MsNotSet
  | Err ErrValue => mask = MsBadElem \/ window g hist = []
  | Err ErrIndex => False
  | Ok _ => (mask = MsNone \/ exists m, mask = MsSet m) /\ window g hist <> []
  end.
Proof. exact collapse_as_errors. Qed.
Print Assumptions C11_collapse_as_rejections.

Theorem C11_detector_is_definition_weight :
  forall (N : Num) (hist : list (list (T N))) (npts : list nat) (tol : T N) (g : option Z) (mask : mask_m nat) f r,
  collapse_weight N hist npts tol g mask = Ok (f, r) ->
  exists m0 w, measures N true npts hist g = Ok (m0 :: w) /\ f = mask_m_fmt mask /\
    forall e, In e r <-> (In e (cells N m0) /\ test_weight N tol (m0 :: w) e = true /\ ~ In e (mask_m_list mask)).
Proof. exact collapse_weight_is_definition. Qed.
Print Assumptions C11_detector_is_definition_weight.

Theorem C11_detector_is_definition_position :
  forall (N : Num) (hist : list (list (T N))) (npts : list nat) (tol : T N) (g : option Z) (mask : mask_m (nat * nat)) f r,
  collapse_position N hist npts tol g mask = Ok (f, r) ->
  exists m0 w, measures N false npts hist g = Ok (m0 :: w) /\ f = mask_m_fmt mask /\
    forall e, In e r <-> (In e (pcells N m0) /\ test_position N tol (m0 :: w) e = true /\
                          ~ In e (mask_m_list mask) /\ ~ In (fst e, swap (snd e)) (mask_m_list mask)).
Proof. exact collapse_position_is_definition. Qed.
Print Assumptions C11_detector_is_definition_position.

(* ---------------------------------------------------------------- the tolerance tests are the documented definitions *)
(* any numeric instance whose ltb is a strict weak order and leb = not (flipped ltb): floats without NaN, Q, R *)
Theorem C11_test_at_target_meaning :
  forall (N : Num), StrictWeak (T N) (ltb N) -> (forall x y, Num.leb N x y = negb (ltb N y x)) ->
  forall (t tol : T N) (w : list (list (T N))) (i : nat), w <> [] ->
  (test_at N (TScalar t) tol w i = true <->
   forall r, In r w -> Num.leb N (abs N (sub N (nth i r (zero N)) t)) tol = true).
Proof. exact test_at_scalar_meaning. Qed.
Print Assumptions C11_test_at_target_meaning.

Theorem C11_test_at_target_list_meaning :
  forall (N : Num), StrictWeak (T N) (ltb N) -> (forall x y, Num.leb N x y = negb (ltb N y x)) ->
  forall (ts : list (T N)) (tol : T N) (w : list (list (T N))) (i : nat), w <> [] ->
  (test_at N (TList ts) tol w i = true <->
   forall r, In r w -> Num.leb N (abs N (sub N (nth i r (zero N)) (nth i ts (zero N)))) tol = true).
Proof. exact test_at_list_meaning. Qed.
Print Assumptions C11_test_at_target_list_meaning.

Theorem C11_test_as_tied_meaning :
  forall (N : Num), StrictWeak (T N) (ltb N) -> (forall x y, Num.leb N x y = negb (ltb N y x)) ->
  forall (tol : T N) (w : list (list (T N))) (p : nat * nat), w <> [] ->
  (test_as N false tol w p = true <-> forall r, In r w -> Num.leb N (dist N p r) tol = true).
Proof. exact test_as_tied_meaning. Qed.
Print Assumptions C11_test_as_tied_meaning.

Theorem C11_test_weight_meaning :
  forall (N : Num), StrictWeak (T N) (ltb N) -> (forall x y, Num.leb N x y = negb (ltb N y x)) ->
  forall (tol : T N) (w : list (list (list (T N)))) (e : nat * nat), w <> [] ->
  (test_weight N tol w e = true <-> forall ms, In ms w -> Num.leb N (nth (snd e) (nth (fst e) ms []) (zero N)) tol = true).
Proof. exact test_weight_meaning. Qed.
Print Assumptions C11_test_weight_meaning.

Theorem C11_test_position_meaning :
  forall (N : Num), StrictWeak (T N) (ltb N) -> (forall x y, Num.leb N x y = negb (ltb N y x)) ->
  forall (tol : T N) (w : list (list (list (T N)))) (e : nat * (nat * nat)), w <> [] ->
  (test_position N tol w e = true <-> forall ms, In ms w -> Num.leb N (dist N (snd e) (nth (fst e) ms [])) tol = true).
Proof. exact test_position_meaning. Qed.
Print Assumptions C11_test_position_meaning.

(* target=None: max - min over the window <= tolerance  <->  no two generations of the window differ by more (reals) *)
Theorem C11_test_at_spread_meaning_R : forall (tol : R) (w : list (list R)) (i : nat), w <> [] ->
  (test_at NumR TNone tol w i = true <-> forall r s, In r w -> In s w -> (nth i r 0 - nth i s 0 <= tol)%R).
Proof. exact test_at_none_meaning_R. Qed.
Print Assumptions C11_test_at_spread_meaning_R.

Theorem C11_test_as_offset_meaning_R : forall (tol : R) (w : list (list R)) (p : nat * nat), w <> [] ->
  (test_as NumR true tol w p = true <-> forall r s, In r w -> In s w -> (dist NumR p r - dist NumR p s <= tol)%R).
Proof. exact test_as_offset_meaning_R. Qed.
Print Assumptions C11_test_as_offset_meaning_R.

(* the order hypotheses above are satisfiable (non-vacuity): the reals meet them *)
Example C11_order_hypotheses_satisfiable : StrictWeak R (ltb NumR) /\ (forall x y, Num.leb NumR x y = negb (ltb NumR y x)).
Proof. exact (conj NumR_sw NumR_leb_def). Qed.

(* ---------------------------------------------------------------- detector_idempotent_under_own_mask *)
Theorem C11_detector_idempotent_under_own_mask_at :
  forall (N : Num) hist (tg : target N) tol g mask r,
  collapse_at N hist tg tol g mask = Ok r ->
  collapse_at N hist tg tol g (MaSet (extend_mask (mask_at_list mask) r)) = Ok [].
Proof. exact collapse_at_idempotent_under_own_mask. Qed.
Print Assumptions C11_detector_idempotent_under_own_mask_at.

Theorem C11_detector_idempotent_under_own_mask_as :
  forall (N : Num) hist off tol g mask r,
  collapse_as N hist off tol g mask = Ok r ->
  collapse_as N hist off tol g (MsSet (extend_mask (mask_as_list mask) (as_mask_of r))) = Ok [].
Proof. exact collapse_as_idempotent_under_own_mask. Qed.
Print Assumptions C11_detector_idempotent_under_own_mask_as.

Theorem C11_detector_idempotent_under_own_mask_weight :
  forall (N : Num) hist npts tol g mask f r,
  collapse_weight N hist npts tol g mask = Ok (f, r) ->
  collapse_weight N hist npts tol g (MmMask f (extend_mask (mask_m_list mask) r)) = Ok (f, []).
Proof. exact collapse_weight_idempotent_under_own_mask. Qed.
Print Assumptions C11_detector_idempotent_under_own_mask_weight.

Theorem C11_detector_idempotent_under_own_mask_position :
  forall (N : Num) hist npts tol g mask f r,
  collapse_position N hist npts tol g mask = Ok (f, r) ->
  collapse_position N hist npts tol g (MmMask f (extend_mask (mask_m_list mask) r)) = Ok (f, []).
Proof. exact collapse_position_idempotent_under_own_mask. Qed.
Print Assumptions C11_detector_idempotent_under_own_mask_position.

(* ---------------------------------------------------------------- mask_grows_by_applied *)
(* mask._extend_mask on the canonical entry lists (set.update / per-key dict update / tuple concatenation / replace-if-falsy) *)
Theorem C11_mask_grows_by_applied : forall (A : Type) (old new : list A) x, In x (extend_mask old new) <-> In x old \/ In x new.
Proof. exact @extend_mask_In. Qed.
Print Assumptions C11_mask_grows_by_applied.

(* mask._update_masks over a termination tree of any shape: docs are kept, every leaf's mask is untouched or extended by
   exactly the applied collapse; the reporting leaf inside Or(...) and a bare reporting leaf ARE extended *)
Theorem C11_update_masks_grows : forall (M : Type) (ext : M -> M -> M) (c : cond M) kind new,
  Forall2 (leaf_step M ext new) (leaves c) (leaves (update_masks ext c kind new)).
Proof. exact update_masks_grows. Qed.
Print Assumptions C11_update_masks_grows.

Theorem C11_update_masks_hits_reporting_leaf : forall (M : Type) (ext : M -> M -> M) cs kind new d m,
  In (Leaf d true m) cs -> String.prefix kind d = true ->
  In (d, ext m new) (leaves (update_masks ext (Node cs) kind new)).
Proof. exact update_masks_hits. Qed.
Print Assumptions C11_update_masks_hits_reporting_leaf.

(* ---------------------------------------------------------------- never_reported_twice *)
Theorem C11_never_reported_twice_at :
  forall (N : Num) hist (tg : target N) tol g m r applied,
  collapse_at N hist tg tol g (MaSet m) = Ok r ->
  (forall i, In i applied -> In i m) -> forall i, In i applied -> ~ In i r.
Proof. exact collapse_at_never_reported_twice. Qed.
Print Assumptions C11_never_reported_twice_at.

Theorem C11_never_reported_twice_as :
  forall (N : Num) hist off tol g m r a b,
  collapse_as N hist off tol g (MsSet m) = Ok r ->
  In (MPair a b) m \/ In (MInt a) m \/ In (MInt b) m -> ~ In (a, b) r /\ ~ In (b, a) r.
Proof. exact collapse_as_never_reported_twice. Qed.
Print Assumptions C11_never_reported_twice_as.

(* a termination reports exactly a non-empty detector result, and only once the history is longer than the look-back *)
Theorem C11_termination_reports_detector_result_at :
  forall (N : Num) lg hist (tg : target N) tol g mask r,
  term_at N lg hist tg tol g mask = Ok (Some r) ->
  r <> [] /\ collapse_at N hist tg tol g mask = Ok r /\ exists gz, g = Some gz /\ (gz < Z.of_nat lg)%Z.
Proof. exact term_at_reports. Qed.
Print Assumptions C11_termination_reports_detector_result_at.

Theorem C11_termination_reports_detector_result_as :
  forall (N : Num) lg hist off tol g mask r,
  term_as N lg hist off tol g mask = Ok (Some r) ->
  r <> [] /\ collapse_as N hist off tol g mask = Ok r /\ exists gz, g = Some gz /\ (gz < Z.of_nat lg)%Z.
Proof. exact term_as_reports. Qed.
Print Assumptions C11_termination_reports_detector_result_as.

(* ---------------------------------------------------------------- after_collapse_relation_exact: impose_at *)
Theorem C11_impose_at_scalar_exact : forall (N : Num) idx (t : T N) (x : list (T N)) d,
  exists y, impose_at N idx (AtScalar t) x = Ok y /\ length y = length x /\
    forall i, (In i idx -> i < length x -> nth i y d = t) /\ (~ In i idx -> nth i y d = nth i x d).
Proof. exact impose_at_scalar_exact. Qed.
Print Assumptions C11_impose_at_scalar_exact.

(* list target (impose_at as repaired by the lead's fix commit f9df652): target k goes to index k; a target whose index is
   out of range is dropped together with it; everything outside the addressed indices is untouched; never an error *)
Theorem C11_impose_at_list_exact : forall (N : Num) idx (ts x : list (T N)) d,
  NoDup idx ->
  exists y, impose_at N idx (AtList ts) x = Ok y /\ length y = length x /\
    (forall k, k < length idx -> k < length ts -> nth k idx 0 < length x -> nth (nth k idx 0) y d = nth k ts d) /\
    (forall i, ~ In i (firstn (length ts) idx) -> nth i y d = nth i x d).
Proof. exact impose_at_list_exact. Qed.
Print Assumptions C11_impose_at_list_exact.

(* Collapse with CollapseAt(target=list) (as repaired by fix 3c01a6d: the targets of the collapsed indices are selected):
   FULL -- every collapsed in-range index is fixed at ITS OWN target, for any subset and iteration order; frame as above.
   (The pre-repair code passed the whole list and refuted this: see the second half of the Example.) *)
Theorem C11_collapse_list_target_exact : forall (N : Num) idx (ts x : list (T N)),
  NoDup idx ->
  exists y, collapse_at_list N idx ts x = Ok y /\ length y = length x /\
    (forall i, In i idx -> i < length x -> nth i y (zero N) = nth i ts (zero N)) /\
    (forall i, ~ In i idx -> nth i y (zero N) = nth i x (zero N)).
Proof. exact collapse_at_list_exact. Qed.
Print Assumptions C11_collapse_list_target_exact.

Example C11_collapse_list_target_example :
  collapse_at_list NumQ [1] [1%Q; 2%Q] [5%Q; 6%Q] = Ok [5%Q; 2%Q] /\
  impose_at NumQ [1] (@AtList NumQ [1%Q; 2%Q]) [5%Q; 6%Q] = Ok [5%Q; 1%Q].
Proof. exact collapse_list_target_witness. Qed.

(* ---------------------------------------------------------------- after_collapse_relation_exact: impose_as *)
(* tools.connected as repaired by the lead's fix commit 8baa3a7 (bridging pairs merge their groups): the groups are always
   pairwise disjoint and the tie stage of impose_as makes x_i = x_j EXACTLY for every pair of the mask, for any iteration
   order of the set and any chaining of pairs (FULL; the pre-repair model refuted this with {(0,1),(2,4),(0,4)}).
   Not covered by a theorem: the offset stage (x[i] += offset loop) -- correspondence only. *)
Theorem C11_connected_groups_disjoint : forall pairs, groups_disjoint (connected pairs) = true.
Proof. exact connected_groups_disjoint. Qed.
Print Assumptions C11_connected_groups_disjoint.

Theorem C11_impose_as_ties_exact : forall (N : Num) pairs (x : list (T N)),
  (forall p, In p pairs -> fst p < length x /\ snd p < length x) ->
  forall i j, In (i, j) pairs ->
    nth i (apply_groups N (connected pairs) x) (zero N) = nth j (apply_groups N (connected pairs) x) (zero N).
Proof. exact impose_as_ties. Qed.
Print Assumptions C11_impose_as_ties_exact.

Example C11_impose_as_merge_example :
  let pairs := [(0, 1); (2, 4); (0, 4)] in
  let x := [10; 20; 30; 40; 50]%Q : list Q in
  connected pairs = [(0, [1; 4; 2])] /\
  apply_groups NumQ (connected pairs) x = [10; 10; 10; 40; 10]%Q /\
  groups_disjoint (connected pairs) = true.
Proof. exact impose_as_merge_witness. Qed.

(* CollapseAs(offset=True) in a solver: the boolean is handed to impose_as as the offset: x_j = x_i + 1 (known finding) *)
Theorem C11_offset_true_imposes_plus_one_refuted : impose_as NumQ [(0, 1)] 1%Q [5%Q; 8%Q] = Some [5%Q; (5 + 1)%Q].
Proof. exact offset_true_witness. Qed.
Print Assumptions C11_offset_true_imposes_plus_one_refuted.

(* ---------------------------------------------------------------- composition with other collapses *)
(* Collapse composes  c0 o I(r1) o ... o I(rn): the newest round acts first.  A relation established by any round holds
   for every vector the composed constraints return PROVIDED every transformation applied after it (the OLDER rounds and
   the base constraints) preserves it. *)
Theorem C11_compose_rounds_preserves : forall (V : Type) (Rel : V -> Prop) (c0 : xform V) (before : list (xform V)) (I : xform V) (after : list (xform V)),
  (forall x, Rel (I x)) ->
  Forall (fun J => forall x, Rel x -> Rel (J x)) before ->
  (forall x, Rel x -> Rel (c0 x)) ->
  forall x, Rel (compose_rounds V c0 (before ++ I :: after) x).
Proof. exact compose_rounds_older_relation. Qed.
Print Assumptions C11_compose_rounds_preserves.

(* frame conditions that give the preservation hypotheses: not writing i keeps x_i = t; not writing i, j keeps x_i = x_j *)
Theorem C11_frame_keeps_fixed : forall (N : Num) W I i (t : T N), frames N W I -> ~ In i W -> forall x, fixed_at N i t x -> fixed_at N i t (I x).
Proof. exact frames_keep_fixed. Qed.
Print Assumptions C11_frame_keeps_fixed.
Theorem C11_frame_keeps_tied : forall (N : Num) W I i j, frames N W I -> ~ In i W -> ~ In j W -> forall x, tied N i j x -> tied N i j (I x).
Proof. exact frames_keep_tied. Qed.
Print Assumptions C11_frame_keeps_tied.
Theorem C11_impose_at_frames : forall (N : Num) idx (t : T N), frames N idx (at_xform N idx t).
Proof. exact at_xform_frames. Qed.
Print Assumptions C11_impose_at_frames.

(* CollapseAt-only terminations: the mask makes the index sets of the rounds pairwise disjoint, and then EVERY applied
   relation x_i = t_k holds for every vector returned by the composed constraints, for any number of rounds *)
Theorem C11_after_collapse_relation_exact_at_only :
  forall (N : Num) (c0 : list (T N) -> list (T N)) (rs : list (list nat * T N)),
  NoDup (all_indices N rs) ->
  frames N nil c0 \/ (forall x j, In j (all_indices N rs) -> nth j (c0 x) (zero N) = nth j x (zero N)) ->
  forall x k idx t i, nth_error rs k = Some (idx, t) -> In i idx -> i < length x ->
    fixed_at N i t (compose_rounds _ c0 (rounds_xforms N rs) x).
Proof. exact at_only_all_rounds_exact. Qed.
Print Assumptions C11_after_collapse_relation_exact_at_only.

(* FULL statement "the relation of every applied collapse holds for every later candidate, whatever else was collapsed" is
   REFUTED: an older CollapseAs round (x1 := x0) acts after a newer CollapseAt round (x1 := 0) and overwrites it
   (known finding relation-overwritten-by-other-collapse) *)
Theorem C11_compose_overwrites_refuted :
  exists (older newest : xform (list Q)) (x : list Q),
    (forall y, 1 < length y -> fixed_at NumQ 1 0%Q (newest y)) /\
    ~ fixed_at NumQ 1 0%Q (compose_rounds _ (fun y => y) [older; newest] x).
Proof. exact compose_overwrites_refuted_lemma. Qed.
Print Assumptions C11_compose_overwrites_refuted.

(* ---------------------------------------------------------------- collapse_loop_terminates *)
(* state machine of the outer loop of _Solve; the inner solve and Collapse's effect on the solver are arbitrary (Section
   variables); the only hypothesis is what the detector theorems provide: reported collapses are unmasked candidates *)
Theorem C11_collapse_round_decreases_measure :
  forall (St C : Type) (ceq : forall a b : C, {a = b} + {a <> b}) (U : list C) (inner : St -> list C -> St * list C),
  (forall s m c, In c (snd (inner s m)) -> In c U /\ ~ In c m) ->
  forall s m, snd (inner s m) <> [] -> unmasked C ceq U (extend_mask m (snd (inner s m))) < unmasked C ceq U m.
Proof. exact collapse_round_decreases. Qed.
Print Assumptions C11_collapse_round_decreases_measure.

Theorem C11_collapse_loop_terminates :
  forall (St C : Type) (ceq : forall a b : C, {a = b} + {a <> b}) (U : list C)
         (inner : St -> list C -> St * list C) (apply : St -> list C -> St),
  (forall s m c, In c (snd (inner s m)) -> In c U /\ ~ In c m) ->
  forall fuel s m, unmasked C ceq U m < fuel ->
  exists s' m' k, solve_loop St C inner apply fuel s m = Some (s', m', k) /\ k <= unmasked C ceq U m /\
                  (forall c, In c m -> In c m') /\ exists s0, inner s0 m' = (s', []).
Proof. exact collapse_loop_terminates. Qed.
Print Assumptions C11_collapse_loop_terminates.

Theorem C11_collapse_loop_terminates_within_candidates :
  forall (St C : Type) (ceq : forall a b : C, {a = b} + {a <> b}) (U : list C)
         (inner : St -> list C -> St * list C) (apply : St -> list C -> St),
  (forall s m c, In c (snd (inner s m)) -> In c U /\ ~ In c m) ->
  forall s m, exists s' m' k, solve_loop St C inner apply (S (length U)) s m = Some (s', m', k) /\ k <= length U.
Proof. exact collapse_loop_terminates_within_candidates. Qed.
Print Assumptions C11_collapse_loop_terminates_within_candidates.

(* ---------------------------------------------------------------- non-vacuity *)
Example C11_detector_example :
  collapse_at NumQ [[1; 2; 5]; [1; 3; 5]; [1; 2; 5 + (1 # 8)]]%Q (@TNone NumQ) (1 # 8)%Q None (MaSet [2]) = Ok [0] /\
  collapse_at NumQ [[1; 2; 5]; [1; 3; 5]; [1; 2; 5 + (1 # 8)]]%Q (@TNone NumQ) (1 # 8)%Q None MaNone = Ok [0; 2] /\
  collapse_as NumQ [[1; 1; 5]; [2; 2; 5]]%Q false 0%Q (Some 1%Z) (MsSet [MInt 2]) = Ok [(0, 1)] /\
  term_at NumQ 3 [[1; 2]; [1; 3]; [1; 4]]%Q (@TScalar NumQ 1%Q) 0%Q (Some 2%Z) MaNone = Ok (Some [0]) /\
  term_at NumQ 2 [[1; 2]; [1; 3]]%Q (@TScalar NumQ 1%Q) 0%Q (Some 2%Z) MaNone = Ok None.
Proof. exact detector_example. Qed.

Example C11_loop_example :
  let inner := fun (s : nat) (m : list nat) =>
     (S s, match filter (fun c => negb (memb c m)) [0; 1; 2] with [] => [] | c :: _ => [c] end) in
  solve_loop nat nat inner (fun s _ => s) 4 0 [] = Some (4, [0; 1; 2], 3).
Proof. exact loop_example. Qed.
