From Coq Require Import List.
From MV Require Import Common.Num Pure.Collapse Pure.Collapse_Proofs.
Theorem C11_mask_grows_by_applied : forall (A : Type) (old new : list A) x, In x (extend_mask old new) <-> In x old \/ In x new.
Proof. exact @extend_mask_In. Qed.
Print Assumptions C11_mask_grows_by_applied.
