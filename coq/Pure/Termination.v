(* Model of mystic/termination.py: the primitive termination conditions as Boolean functions of an
   abstract solver view, the compound conditions When/And/Or (with the dict-of-members evaluation and
   the argument handling of their __new__), the info / 'self' reporting modes, and describe/build
   (mystic.termination.state / type).  Definitions only (executable); proofs in Termination_Proofs.v. *)
From Coq Require Import ZArith List Bool.
From MV Require Import Common.Num.
Import ListNotations.
Open Scope Z_scope.

(* ------------------------------------------------------------------ Python list indexing *)
Section PyList.
  Context {A : Type}.
  (* l[i] with Python semantics: negative indices count from the end; None = IndexError.
     NB  l[-0] = l[0]  (this is what "generations=0" / None means in the window conditions) *)
  Definition pyget (l : list A) (i : Z) : option A :=
    let n := Z.of_nat (length l) in
    if 0 <=? i then (if i <? n then nth_error l (Z.to_nat i) else None)
    else if (- n) <=? i then nth_error l (Z.to_nat (n + i)) else None.
  Definition pylast (l : list A) : option A := pyget l (-1).
End PyList.

(* what a primitive condition returns: Sat = its doc string (truthy), Unsat = "" (falsy),
   Warn = CandidateRelativeTolerance's "Warning: Invalid termination condition (nPop < 2)" string,
   which is returned in every mode and is truthy; Err = a Python exception (IndexError/ValueError) *)
Inductive outcome := Sat | Unsat | Warn | Err.
Definition truthy (o : outcome) : bool := match o with Sat | Warn => true | _ => false end.
Definition raises (o : outcome) : bool := match o with Err => true | _ => false end.

Inductive normkind := NormInf | NormOne | NormZero.

(* int(generations) if generations is not None else 0 *)
Definition gens_of (g : option Z) : Z := match g with None => 0 | Some z => z end.

(* ------------------------------------------------------------------ primitive conditions *)
Section Prims.
  Variable N : Num.
  Notation E := (T N).
  Variable eta : E.     (* NormalizedChangeOverGeneration's constant 1e-20 *)

  Inductive trialv := Trial1 (x : list E) | Trial2 (xs : list (list E)).

  (* what the conditions read from the solver *)
  Record view := mkView {
    hist : list E;                 (* solver.energy_history *)
    pop : list (list E);           (* solver.population (rectangular) *)
    popE : list E;                 (* solver.popEnergy *)
    best : list E;                 (* solver.bestSolution *)
    trial : trialv;                (* solver.trialSolution: one vector, or a trial population *)
    gens : Z;                      (* solver.generations *)
    fcalls : Z;                    (* solver._fcalls[0] *)
    exitflag : bool;               (* solver._EARLYEXIT *)
    gradient : option (list (list E));   (* solver.gradient if the attribute exists *)
    approx_grad : list E;          (* oracle: approx_fprime(bestSolution, cost, eps) *)
    tstart : E;                    (* oracle clock: timer() when the TimeLimits condition was built *)
    tnow : E                       (* oracle clock: timer() at the call *)
  }.

  Inductive cond :=
  | VTR (tol target : E)
  | COG (tol : E) (g : option Z)
  | NCOG (tol : E) (g : option Z)
  | CRT (xtol ftol : E)
  | SI (tol : E)
  | NCT (fval : option E) (tol : E) (g : option Z)
  | VTRCOG (ftol gtol : E) (g : option Z) (target : E)
  | PS (tol : E)
  | GNT (tol : E) (norm : normkind)
  | EL (g e : option Z)
  | TL (seconds : E)
  | SINT.

  Definition two : E := add N (one N) (one N).
  Definition absdiff (a b : E) : E := abs N (sub N a b).
  Definition b2o (b : bool) : outcome := if b then Sat else Unsat.

  (* Python's builtin max over a sequence: keeps the first maximal element; item > current replaces *)
  Definition pymax (l : list E) : option E :=
    match l with
    | [] => None
    | x :: r => Some (fold_left (fun m y => if ltb N m y then y else m) r x)
    end.

  (* abs(row - base) elementwise *)
  Definition vabsdiff (row base : list E) : list E :=
    map (fun p => absdiff (fst p) (snd p)) (combine row base).

  (* the window test shared by COG / NormalizedCostTarget / VTRCOG:
     (hist[-gens]-hist[-1]) <= tol  or  hist[-gens] == hist[-1];  None = IndexError *)
  Definition window (h : list E) (gn : Z) (tol : E) : option bool :=
    match pyget h (- gn), pylast h with
    | Some a, Some b => Some (leb N (sub N a b) tol || eqb N a b)%bool
    | _, _ => None
    end.

  (* _VTR *)
  Definition vtr (tol target : E) (h : list E) : outcome :=
    match pylast h with
    | None => Unsat
    | Some c => b2o (leb N (absdiff c target) tol)
    end.

  (* _ChangeOverGeneration *)
  Definition cog (tol : E) (g : option Z) (h : list E) : outcome :=
    let lg := Z.of_nat (length h) in
    if lg =? 0 then Unsat else
    if lg <=? gens_of g then Unsat else
    match window h (gens_of g) tol with
    | Some b => b2o b
    | None => Err
    end.

  (* _NormalizedChangeOverGeneration *)
  Definition ncog (tol : E) (g : option Z) (h : list E) : outcome :=
    let lg := Z.of_nat (length h) in
    if lg =? 0 then Unsat else
    if lg <=? gens_of g then Unsat else
    match pyget h (- gens_of g), pylast h with
    | Some a, Some b =>
        if eqb N a b then Sat else
        let diff := add N (mul N tol (add N (abs N a) (abs N b))) eta in
        b2o (leb N (mul N two (sub N a b)) diff)
    | _, _ => Err
    end.

  (* _CandidateRelativeTolerance *)
  Definition crt (xtol ftol : E) (s : view) : outcome :=
    match popE s with
    | [] => Warn
    | [_] => Warn
    | f0 :: frest =>
        match pop s with
        | [] => Err
        | x0 :: xrest =>
            match pymax (concat (map (fun r => vabsdiff r x0) xrest)) with
            | None => Err
            | Some mx =>
                if leb N mx xtol then
                  match pymax (map (fun f => absdiff f0 f) frest) with
                  | None => Err
                  | Some mf => b2o (leb N mf ftol)
                  end
                else Unsat
            end
        end
    end.

  (* _SolutionImprovement *)
  Definition si (tol : E) (s : view) : outcome :=
    match trial s with
    | Trial1 x => b2o (leb N (nsum N (vabsdiff (best s) x)) tol)
    | Trial2 xs =>
        match pymax (map (fun r => nsum N (vabsdiff (best s) r)) xs) with
        | None => Err
        | Some m => b2o (leb N m tol)
        end
    end.

  (* _NormalizedCostTarget *)
  Definition nct (fval : option E) (tol : E) (g : option Z) (h : list E) : outcome :=
    let lg := Z.of_nat (length h) in
    if lg =? 0 then Unsat else
    match fval with
    | None =>
        if gens_of g =? 0 then Sat else
        if gens_of g <? lg then
          match window h (gens_of g) (zero N) with Some b => b2o b | None => Err end
        else Unsat
    | Some f =>
        match pylast h with
        | Some c => b2o (leb N (absdiff c f) (abs N (mul N tol f)))
        | None => Err
        end
    end.

  (* _VTRChangeOverGeneration *)
  Definition vtrcog (ftol gtol : E) (g : option Z) (target : E) (h : list E) : outcome :=
    let lg := Z.of_nat (length h) in
    if lg =? 0 then Unsat else
    let w := if gens_of g <? lg then window h (gens_of g) gtol else Some false in
    match w with
    | None => Err
    | Some true => Sat
    | Some false => vtr ftol target h
    end.

  (* _PopulationSpread *)
  Definition ps (tol : E) (s : view) : outcome :=
    match pop s with
    | [] => Err
    | x0 :: _ =>
        b2o (forallb (fun r => forallb (fun p => leb N (absdiff (fst p) (snd p)) (abs N (mul N tol (snd p))))
                                       (combine r x0)) (pop s))
    end.

  (* _GradientNormTolerance: the gradient is the last recorded one, else the finite-difference oracle *)
  Definition grad_of (s : view) : option (list E) :=
    match gradient s with
    | None => Some (approx_grad s)
    | Some l => pylast l
    end.
  (* mystic.math.distance.Lnorm for p = inf, 1, 0 (no NaN in the gradient) *)
  Definition gnorm (k : normkind) (g : list E) : option E :=
    match k with
    | NormInf => pymax (map (abs N) g)
    | NormOne => Some (nsum N (map (abs N) g))
    | NormZero => Some (of_Z N (Z.of_nat (length (filter (fun x => negb (eqb N x (zero N))) g))))
    end.
  Definition gnt (tol : E) (k : normkind) (s : view) : outcome :=
    match grad_of s with
    | None => Err
    | Some g => match gnorm k g with None => Err | Some w => b2o (leb N w tol) end
    end.

  (* _EvaluationLimits: None = inf *)
  Definition reached (limit : option Z) (n : Z) : bool :=
    match limit with None => false | Some m => m <=? n end.
  Definition el (g e : option Z) (s : view) : outcome :=
    b2o (reached e (fcalls s) || reached g (gens s))%bool.

  (* _TimeLimits: delta = seconds.__abs__() *)
  Definition tl (seconds : E) (s : view) : outcome :=
    b2o (leb N (abs N seconds) (sub N (tnow s) (tstart s))).

  Definition leaf_eval (c : cond) (s : view) : outcome :=
    match c with
    | VTR tol target => vtr tol target (hist s)
    | COG tol g => cog tol g (hist s)
    | NCOG tol g => ncog tol g (hist s)
    | CRT xtol ftol => crt xtol ftol s
    | SI tol => si tol s
    | NCT fval tol g => nct fval tol g (hist s)
    | VTRCOG ftol gtol g target => vtrcog ftol gtol g target (hist s)
    | PS tol => ps tol s
    | GNT tol k => gnt tol k s
    | EL g e => el g e s
    | TL sec => tl sec s
    | SINT => b2o (exitflag s)
    end.
End Prims.

Arguments Trial1 {N}. Arguments Trial2 {N}.
Arguments mkView {N}. Arguments hist {N}. Arguments pop {N}. Arguments popE {N}. Arguments best {N}.
Arguments trial {N}. Arguments gens {N}. Arguments fcalls {N}. Arguments exitflag {N}.
Arguments gradient {N}. Arguments approx_grad {N}. Arguments tstart {N}. Arguments tnow {N}.
Arguments VTR {N}. Arguments COG {N}. Arguments NCOG {N}. Arguments CRT {N}. Arguments SI {N}.
Arguments NCT {N}. Arguments VTRCOG {N}. Arguments PS {N}. Arguments GNT {N}. Arguments EL {N}.
Arguments TL {N}. Arguments SINT {N}.

(* ------------------------------------------------------------------ compound conditions *)
Inductive kind := KWhen | KAnd | KOr.

Section Trees.
  Variable L : Type.     (* a primitive condition (its factory and keyword settings) *)

  (* a condition OBJECT: a closure (identified by [id]: Python compares/hashes functions by identity)
     or a tuple subclass instance holding its members *)
  Inductive tree := Leaf (id : nat) (c : L) | Node (k : kind) (ts : list tree).

  (* dictionary key of a member in When/Or.__call__'s  stop = {}: functions by identity,
     tuples by VALUE -- the class (When/And/Or) does not take part in tuple equality *)
  Inductive key := KL (id : nat) | KT (ks : list key).
  Fixpoint key_eqb (a b : key) {struct a} : bool :=
    match a, b with
    | KL i, KL j => Nat.eqb i j
    | KT xs, KT ys =>
        (fix go (xs ys : list key) {struct xs} : bool :=
           match xs, ys with
           | [], [] => true
           | x :: xs', y :: ys' => key_eqb x y && go xs' ys'
           | _, _ => false
           end) xs ys
    | _, _ => false
    end.
  Fixpoint key_of (t : tree) : key :=
    match t with Leaf i _ => KL i | Node _ ts => KT (map key_of ts) end.

  (* stop.update({f : v}): an equal key keeps its slot and takes the new value *)
  Fixpoint dput {V} (k : key) (v : V) (d : list (key * V)) : list (key * V) :=
    match d with
    | [] => [(k, v)]
    | (k', v') :: r => if key_eqb k' k then (k', v) :: r else (k', v') :: dput k v r
    end.
  Definition dict_of {V} (l : list (key * V)) : list (key * V) :=
    fold_left (fun d kv => dput (fst kv) (snd kv) d) l [].
  Definition dvalues {V} (l : list (key * V)) : list V := map snd (dict_of l).

  Variable out : L -> outcome.   (* the member's own verdict on the current solver *)

  (* condition(solver)  (info=False) *)
  Fixpoint eval (t : tree) : bool :=
    match t with
    | Leaf _ c => truthy (out c)
    | Node k ts =>
        let vs := dvalues (map (fun m => (key_of m, eval m)) ts) in
        match k with KOr => existsb (fun b => b) vs | _ => forallb (fun b => b) vs end
    end.

  (* condition(solver, info=True): the names in the returned "; "-joined string, as
     (leaf id, is-it-the-nPop-warning); an empty list is the empty (falsy) string *)
  Definition nonempty {B} (l : list B) : bool := match l with [] => false | _ => true end.
  Fixpoint info (t : tree) : list (nat * bool) :=
    match t with
    | Leaf i c => match out c with Sat => [(i, false)] | Warn => [(i, true)] | _ => [] end
    | Node k ts =>
        let vs := dvalues (map (fun m => (key_of m, info m)) ts) in
        match k with
        | KOr => concat vs
        | _ => if forallb nonempty vs then concat vs else []
        end
    end.

  (* condition(solver, 'self'): size of the returned tuple of (directly) satisfied members;
     for a primitive: 1 if it returns its (truthy) doc string *)
  Definition pos (n : nat) : bool := negb (Nat.eqb n 0).
  Fixpoint selfn (t : tree) : nat :=
    match t with
    | Leaf _ c => if truthy (out c) then 1%nat else 0%nat
    | Node k ts =>
        let vs := dvalues (map (fun m => (key_of m, selfn m)) ts) in
        match k with
        | KOr => length (filter pos vs)
        | _ => if forallb pos vs then length vs else 0%nat
        end
    end.

  Fixpoint leaves (t : tree) : list (nat * L) :=
    match t with Leaf i c => [(i, c)] | Node _ ts => flat_map leaves ts end.
  (* every member is called (list comprehension, no short circuit): an exception anywhere propagates *)
  Definition any_err (t : tree) : bool := existsb (fun ic => raises (out (snd ic))) (leaves t).
  Definition run (t : tree) : option bool := if any_err t then None else Some (eval t).

  (* the intended meaning: And = all members, Or = some member, When = its member(s) *)
  Fixpoint sem (t : tree) : bool :=
    match t with
    | Leaf _ c => truthy (out c)
    | Node KOr ts => existsb sem ts
    | Node _ ts => forallb sem ts
    end.

  (* no two members of one compound are equal as dictionary keys *)
  Fixpoint distinct_keys (ks : list key) : bool :=
    match ks with
    | [] => true
    | k :: r => negb (existsb (key_eqb k) r) && distinct_keys r
    end.
  Fixpoint wf (t : tree) : bool :=
    match t with
    | Leaf _ _ => true
    | Node _ ts => distinct_keys (map key_of ts) && forallb wf ts
    end.
  (* no And()/When-of-nothing anywhere (such a node is satisfied but names nothing) *)
  Fixpoint no_empty_all (t : tree) : bool :=
    match t with
    | Leaf _ _ => true
    | Node k ts => (match k, ts with KOr, _ => true | _, [] => false | _, _ => true end) && forallb no_empty_all ts
    end.

  (* ---- constructors: And.__new__ / Or.__new__ (args...) and When.__new__ (arg) *)
  Definition is_node (t : tree) : bool := match t with Node _ _ => true | _ => false end.
  (* And(args...) / Or(args...): a single argument that is itself a compound is unpacked into its members *)
  Definition mk (k : kind) (args : list tree) : tree :=
    match args with
    | [Node _ ts] => Node k ts
    | _ => Node k args
    end.
  (* When(arg): a one-member compound is replaced by its member; a compound is unpacked *)
  Definition mk_when (arg : tree) : tree :=
    let arg' := match arg with Node _ [m] => m | _ => arg end in
    match arg' with
    | Leaf _ _ => Node KWhen [arg']
    | Node _ ts => Node KWhen ts
    end.
  Definition construct (k : kind) (args : list tree) : option tree :=
    match k with
    | KWhen => match args with [a] => Some (mk_when a) | _ => None (* TypeError *) end
    | _ => Some (mk k args)
    end.

  (* ---- describe (mystic.termination.type + state, member by member) and build (type(c)(members...)) *)
  Inductive desc := DLeaf (id : nat) (c : L) | DNode (k : kind) (ds : list desc).
  Fixpoint describe (t : tree) : desc :=
    match t with Leaf i c => DLeaf i c | Node k ts => DNode k (map describe ts) end.
  Fixpoint sequence {B} (l : list (option B)) : option (list B) :=
    match l with
    | [] => Some []
    | None :: _ => None
    | Some x :: r => match sequence r with Some xs => Some (x :: xs) | None => None end
    end.
  Fixpoint build (d : desc) : option tree :=
    match d with
    | DLeaf i c => Some (Leaf i c)
    | DNode k ds => match sequence (map build ds) with Some ts => construct k ts | None => None end
    end.

  (* objects that the public constructors can produce from primitive conditions *)
  Fixpoint canonical (t : tree) : bool :=
    match t with
    | Leaf _ _ => true
    | Node k ts => (match ts with [Node _ _] => false | _ => true end) && forallb canonical ts
    end.
  (* When objects that type(c)(members...) can rebuild: exactly one member *)
  Fixpoint when_single (t : tree) : bool :=
    match t with
    | Leaf _ _ => true
    | Node k ts => (match k, ts with KWhen, [_] => true | KWhen, _ => false | _, _ => true end) && forallb when_single ts
    end.
End Trees.

Arguments Leaf {L}. Arguments Node {L}. Arguments DLeaf {L}. Arguments DNode {L}.
Arguments key_of {L}. Arguments eval {L}. Arguments info {L}. Arguments selfn {L}. Arguments leaves {L}.
Arguments any_err {L}. Arguments run {L}. Arguments sem {L}. Arguments wf {L}. Arguments no_empty_all {L}.
Arguments mk {L}. Arguments mk_when {L}. Arguments construct {L}. Arguments describe {L}. Arguments build {L}.
Arguments canonical {L}. Arguments when_single {L}. Arguments is_node {L}.

(* the condition language of mystic.termination on a view *)
Definition cond_tree (N : Num) := tree (cond N).
Definition tree_eval (N : Num) (eta : T N) (t : cond_tree N) (s : view N) : bool :=
  eval (fun c => leaf_eval N eta c s) t.
Definition tree_info (N : Num) (eta : T N) (t : cond_tree N) (s : view N) : list (nat * bool) :=
  info (fun c => leaf_eval N eta c s) t.
Definition tree_selfn (N : Num) (eta : T N) (t : cond_tree N) (s : view N) : nat :=
  selfn (fun c => leaf_eval N eta c s) t.
Definition tree_run (N : Num) (eta : T N) (t : cond_tree N) (s : view N) : option bool :=
  run (fun c => leaf_eval N eta c s) t.
