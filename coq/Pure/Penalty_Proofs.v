(* Proofs about the model Pure/Penalty.v, over the real-number instance NumR.
   log (barrier) and x**0.5 (error, as_penalty) are Section variables; the facts used about sqrt are hypotheses. *)
From Coq Require Import List Bool ZArith Reals Lra Lia.
From MV Require Import Common.Num Common.NumR Pure.Penalty.
Import ListNotations.
Open Scope R_scope.

Ltac unr := unfold half, n2, n1, z0, hpow in *; cbn [NumR T zero one add sub mul div opp abs ltb leb eqb of_Z] in *.

Ltac rdec :=
  repeat match goal with
  | |- context [Rltb ?a ?b] =>
      let H := fresh "Hlt" in destruct (Rltb a b) eqn:H; [apply Rltb_true in H | apply Rltb_false in H]
  | |- context [Reqb ?a ?b] =>
      let H := fresh "Heq" in destruct (Reqb a b) eqn:H; [apply Reqb_true in H | apply Reqb_false in H]
  | |- context [Rleb ?a ?b] =>
      let H := fresh "Hle" in destruct (Rleb a b) eqn:H; [apply Rleb_true in H | apply Rleb_false in H]
  end.

Lemma npow_R (h : R) (n : nat) : npow NumR h n = h ^ n.
Proof. induction n; cbn [npow NumR one mul]; [reflexivity | rewrite IHn; reflexivity]. Qed.

Lemma nmax_R (a b : R) : nmax NumR a b = Rmax a b.
Proof.
  unfold nmax; cbn [NumR ltb]. unfold Rmax.
  destruct (Rltb a b) eqn:H; [apply Rltb_true in H | apply Rltb_false in H];
    destruct (Rle_dec a b); try lra; reflexivity.
Qed.

Lemma nmin_R (a b : R) : nmin NumR a b = Rmin a b.
Proof.
  unfold nmin; cbn [NumR ltb]. unfold Rmin.
  destruct (Rltb b a) eqn:H; [apply Rltb_true in H | apply Rltb_false in H];
    destruct (Rle_dec a b); try lra; reflexivity.
Qed.

Lemma pow_pos_R (h : R) (n : nat) : 0 < h -> 0 < h ^ n.
Proof. intros; apply pow_lt; assumption. Qed.

Section Proofs.
  Variable lg : R -> R.
  Variable sqrt : R -> R.
  Variable X : Type.

  Notation level := (level NumR X).
  Notation pen := (pen NumR X).
  Notation xval := (xval NumR).
  Notation Fin := (Fin NumR).
  Notation PInf := (PInf NumR).
  Notation NonFin := (NonFin NumR).
  Notation Raises := (Raises NumR).
  Notation CV := (CV NumR).
  Notation CZeroDiv := (CZeroDiv NumR).
  Notation CInf := (CInf NumR).
  Notation xadd := (xadd NumR).
  Notation p_func := (p_func NumR lg X).
  Notation p_error := (p_error NumR sqrt X).
  Notation amount := (amount NumR lg X).
  Notation early := (early NumR X).
  Notation stored := (stored NumR).

  (* k * h**n of a level with finite k *)
  Definition kk (k : R) (l : level) : R := k * lh _ _ l ^ ln _ _ l.

  Lemma xadd_zero_l (v : xval) : xadd (Fin 0) v = v.
  Proof. destruct v; cbn; try reflexivity. f_equal; lra. Qed.

  Lemma p_func_cons base l r x :
    p_func base (l :: r) x = level_apply NumR lg X l (lcond _ _ l x) (p_func base r x).
  Proof. reflexivity. Qed.

  (* ------------------------------------------------------------ value_is_formula, the six simple kinds *)
  Definition simple_amount (kd : kind) (kq c : R) : R :=
    match kd with
    | QuadEq => kq * (c * c)
    | LinEq => kq * Rabs c
    | UniEq => if Reqb c 0 then 0 else kq
    | UniIneq => if Rltb 0 c then kq else 0
    | QuadIneq => 2 * kq * (Rmax 0 c * Rmax 0 c)
    | LinIneq => 2 * kq * Rmax 0 c
    | _ => 0
    end.
  Definition simple (kd : kind) : Prop :=
    match kd with QuadEq | LinEq | UniEq | UniIneq | QuadIneq | LinIneq => True | _ => False end.

  Lemma Rabs_Rmax0 c : Rabs (Rmax 0 c) = Rmax 0 c.
  Proof. apply Rabs_right. apply Rle_ge. apply Rmax_l. Qed.

  Theorem simple_value_is_formula base l r x k c :
    simple (lk _ _ l) -> lmul _ _ l = Some k -> lcond _ _ l x = CV c ->
    p_func base (l :: r) x = xadd (Fin (simple_amount (lk _ _ l) (kk k l) c)) (p_func base r x).
  Proof.
    intros Hs Hk Hc. rewrite p_func_cons, Hc. unfold level_apply, early.
    destruct (lk _ _ l) eqn:K; try contradiction; f_equal;
      unfold Penalty.amount; rewrite Hk; unfold amount_fin, uni_amount; rewrite ?K, ?Hk; unr;
      rewrite ?npow_R, ?nmax_R, ?Rabs_Rmax0; unfold kk, simple_amount.
    - reflexivity.
    - destruct (Reqb c 0); reflexivity.
    - reflexivity.
    - reflexivity.
    - destruct (Rltb 0 c); reflexivity.
    - reflexivity.
  Qed.

  (* ------------------------------------------------------------ zero on the feasible set / positive off it *)
  Definition satisfied (kd : kind) (c : R) : Prop := if is_ineq kd then c <= 0 else c = 0.

  Lemma simple_amount_zero kd kq c : simple kd -> satisfied kd c -> simple_amount kd kq c = 0.
  Proof.
    unfold satisfied; destruct kd; cbn; try contradiction; intros _ H; subst.
    - lra.
    - rdec; lra.
    - rewrite Rabs_R0; lra.
    - rewrite Rmax_left by lra; lra.
    - rdec; lra.
    - rewrite Rmax_left by lra; lra.
  Qed.

  Lemma simple_amount_pos kd kq c : simple kd -> 0 < kq -> ~ satisfied kd c -> 0 < simple_amount kd kq c.
  Proof.
    unfold satisfied; destruct kd; cbn; try contradiction; intros _ Hk H.
    - assert (0 < c * c) by nra. nra.
    - rdec; [contradiction | lra].
    - assert (0 < Rabs c) by (apply Rabs_pos_lt; exact H). nra.
    - assert (0 < c) by lra. rewrite Rmax_right by lra. assert (0 < c * c) by nra. nra.
    - rdec; lra.
    - assert (0 < c) by lra. rewrite Rmax_right by lra. nra.
  Qed.

  (* the penalised function returns exactly the decorated function's value where the condition is satisfied
     (also for the uniform kinds' default k = inf) *)
  Theorem zero_on_feasible base l r x c :
    simple (lk _ _ l) -> lcond _ _ l x = CV c -> satisfied (lk _ _ l) c ->
    (lmul _ _ l <> None \/ lk _ _ l = UniEq \/ lk _ _ l = UniIneq) ->
    p_func base (l :: r) x = p_func base r x.
  Proof.
    intros Hs Hc Hsat Hk. destruct (lmul _ _ l) as [k|] eqn:Ek.
    - rewrite (simple_value_is_formula base l r x k c Hs Ek Hc), simple_amount_zero by assumption.
      apply xadd_zero_l.
    - destruct Hk as [Hk|Hk]; [congruence|].
      rewrite p_func_cons, Hc. unfold level_apply, early, satisfied in *.
      destruct Hk as [K|K]; rewrite K in *; cbn in Hsat;
        unfold Penalty.amount; rewrite Ek, K; unfold uni_amount; unr; rdec; try lra; cbn [negb];
        apply xadd_zero_l.
  Qed.

  Theorem positive_on_violation base l r x k c :
    simple (lk _ _ l) -> lmul _ _ l = Some k -> lcond _ _ l x = CV c -> 0 < k -> 0 < lh _ _ l ->
    ~ satisfied (lk _ _ l) c ->
    exists a, 0 < a /\ a = simple_amount (lk _ _ l) (k * lh _ _ l ^ ln _ _ l) c /\
              p_func base (l :: r) x = xadd (Fin a) (p_func base r x).
  Proof.
    intros Hs Hk Hc Kp Hp Hv. eexists; split; [|split; [reflexivity|]].
    - apply simple_amount_pos; auto. apply Rmult_lt_0_compat; auto. apply pow_pos_R; auto.
    - apply (simple_value_is_formula base l r x k c Hs Hk Hc).
  Qed.

  (* default multiplier of the uniform kinds (k = inf): the added amount is +inf *)
  Theorem uniform_inf_on_violation base l r x c :
    (lk _ _ l = UniEq \/ lk _ _ l = UniIneq) -> lmul _ _ l = None -> lcond _ _ l x = CV c -> 0 < lh _ _ l ->
    ~ satisfied (lk _ _ l) c ->
    p_func base (l :: r) x = xadd PInf (p_func base r x).
  Proof.
    intros K Ek Hc Hp Hv. rewrite p_func_cons, Hc. unfold level_apply, early, satisfied in *.
    pose proof (pow_pos_R _ (ln _ _ l) Hp) as Hpw.
    destruct K as [K|K]; rewrite K in *; cbn in Hv;
      unfold Penalty.amount; rewrite Ek, K; unfold uni_amount; unr; rewrite npow_R; rdec; try lra; cbn [negb];
      rewrite ?Ek; try reflexivity; try contradiction.
  Qed.


  (* ------------------------------------------------------------ a condition that divides by zero *)
  Theorem div_by_zero_gives_inf base l r x :
    lcond _ _ l x = CZeroDiv -> p_func base (l :: r) x = PInf.
  Proof. intros H. rewrite p_func_cons, H. reflexivity. Qed.

  (* ------------------------------------------------------------ barrier_inequality *)
  Theorem barrier_value_is_formula base l r x k c :
    lk _ _ l = BarIneq -> lmul _ _ l = Some k -> lcond _ _ l x = CV c -> c < 0 -> kk k l <> 0 ->
    p_func base (l :: r) x = xadd (Fin (- (1 / (2 * kk k l)) * lg (- c))) (p_func base r x).
  Proof.
    intros K Ek Hc Hneg Hk. rewrite p_func_cons, Hc. unfold level_apply, early, kk in *. rewrite K.
    unr. rdec; try lra. f_equal.
    unfold Penalty.amount; rewrite Ek. unfold amount_fin; rewrite K. unr. rewrite npow_R.
    rdec; try lra; try contradiction; (f_equal; field; split; intros E; apply Hk; rewrite E; ring).
  Qed.

  Theorem barrier_violation_is_inf base l r x c :
    lk _ _ l = BarIneq -> lcond _ _ l x = CV c -> 0 < c -> p_func base (l :: r) x = PInf.
  Proof.
    intros K Hc Hpos. rewrite p_func_cons, Hc. unfold level_apply, early. rewrite K. unr. rdec; try lra. reflexivity.
  Qed.

  Theorem barrier_boundary_is_inf base l r x k :
    lk _ _ l = BarIneq -> lmul _ _ l = Some k -> lcond _ _ l x = CV 0 -> 0 < kk k l ->
    p_func base (l :: r) x = xadd PInf (p_func base r x).
  Proof.
    intros K Ek Hc Hk. rewrite p_func_cons, Hc. unfold level_apply, early, kk in *. rewrite K.
    unr. rdec; try lra. f_equal.
    unfold Penalty.amount; rewrite Ek. unfold amount_fin; rewrite K. unr. rewrite npow_R.
    rdec; try lra; try contradiction. reflexivity.
  Qed.

  (* the real code evaluates -.5/_k outside any try: ZeroDivisionError when k*h**n == 0 *)
  Theorem barrier_rejects_zero_multiplier base l r x k c :
    lk _ _ l = BarIneq -> lmul _ _ l = Some k -> lcond _ _ l x = CV c -> c <= 0 -> kk k l = 0 ->
    p_func base (l :: r) x = Raises.
  Proof.
    intros K Ek Hc Hneg Hk. rewrite p_func_cons, Hc. unfold level_apply, early, kk in *. rewrite K.
    unr. rdec; try lra.
    unfold Penalty.amount; rewrite Ek. unfold amount_fin; rewrite K. unr. rewrite npow_R.
    rdec; try lra; try contradiction. reflexivity.
  Qed.

  (* what does hold of the property's "zero on the feasible set" for the barrier: only where log(-f(x)) = 0 *)
  Theorem barrier_zero_on_feasible_partial base l r x k c :
    lk _ _ l = BarIneq -> lmul _ _ l = Some k -> lcond _ _ l x = CV c -> c < 0 -> kk k l <> 0 -> lg (- c) = 0 ->
    p_func base (l :: r) x = p_func base r x.
  Proof.
    intros K Ek Hc Hneg Hk Hl. rewrite (barrier_value_is_formula base l r x k c K Ek Hc Hneg Hk), Hl.
    replace (- (1 / (2 * kk k l)) * 0) with 0 by ring. apply xadd_zero_l.
  Qed.

  (* refutation of "zero on the feasible set" for the barrier kind (documented design, DESIGN F6):
     at any interior point where log(-f(x)) <> 0 the added amount is not zero; on the boundary it is +inf *)
  Theorem barrier_zero_on_feasible_refuted (x : X) (a : R) :
    0 < a -> lg a <> 0 ->
    exists (l : level) c, lk _ _ l = BarIneq /\ lcond _ _ l x = CV c /\ satisfied BarIneq c /\
      p_func (zero_base NumR X) [l] x <> zero_base NumR X x.
  Proof.
    intros Ha Hl.
    exists (mkLevel NumR X BarIneq (fun _ => CV (- a)) (Some 1) 1 0 []), (- a).
    repeat split; [cbn; lra|].
    rewrite (barrier_value_is_formula _ _ [] x 1 (- a)); try reflexivity; try lra;
      [| unfold kk; cbn; lra].
    unfold kk, zero_base; cbn. unr. intros H. injection H as H.
    replace (- - a) with a in H by ring. apply Hl. nra.
  Qed.

  Theorem barrier_boundary_refuted (x : X) :
    exists (l : level), lk _ _ l = BarIneq /\ lcond _ _ l x = CV 0 /\ satisfied BarIneq 0 /\
      p_func (zero_base NumR X) [l] x = PInf.
  Proof.
    exists (mkLevel NumR X BarIneq (fun _ => CV 0) (Some 1) 1 0 []).
    repeat split; [cbn; lra|].
    rewrite (barrier_boundary_is_inf _ _ [] x 1); try reflexivity. unfold kk; cbn; lra.
  Qed.


  (* ------------------------------------------------------------ Lagrange kinds: the multiplier recurrences *)
  Definition sval (ys : list (option R)) (i : nat) : R :=
    match stored ys i with Some s => s | None => 0 end.
  (* every multiplier read by the loop is finite (no `inf` stored after a ZeroDivisionError) *)
  Definition finite_upto (ys : list (option R)) (n : nat) : Prop :=
    forall i, (i < n)%nat -> stored ys i <> None.

  (* documented: lam_{m+1} = lam_m + 2 k h^m f(x_m) *)
  Fixpoint lamF (k h : R) (ys : list (option R)) (n : nat) : R :=
    match n with O => 0 | S m => lamF k h ys m + 2 * (k * h ^ m) * sval ys m end.
  (* documented: beta_{m+1} = beta_m + 2 k_m max(-beta_m/(2 k_m), f(x_m)),  k_m = k h^m *)
  Fixpoint betaF (k h : R) (ys : list (option R)) (n : nat) : R :=
    match n with
    | O => 0
    | S m => betaF k h ys m + 2 * (k * h ^ m) * Rmax (- betaF k h ys m / (2 * (k * h ^ m))) (sval ys m)
    end.

  Lemma lag_eq_loop_spec ys h k cnt : forall i,
    finite_upto ys (i + cnt) ->
    lag_eq_loop NumR ys h cnt i (lamF k h ys i) (k * h ^ i) = LOk NumR (lamF k h ys (i + cnt)) (k * h ^ (i + cnt)).
  Proof.
    induction cnt as [|m IH]; intros i Hf.
    - rewrite Nat.add_0_r. reflexivity.
    - cbn [lag_eq_loop]. pose proof (Hf i ltac:(lia)) as Hi.
      destruct (stored ys i) as [s|] eqn:Es; [|congruence].
      unr.
      replace (lamF k h ys i + (1 + 1) * (k * h ^ i) * s) with (lamF k h ys (S i))
        by (cbn [lamF]; unfold sval; rewrite Es; ring).
      replace (k * h ^ i * h) with (k * h ^ S i) by (cbn [pow]; ring).
      rewrite IH by (intros j Hj; apply Hf; lia).
      replace (S i + m)%nat with (i + S m)%nat by lia. reflexivity.
  Qed.

  Lemma two_kpos k h i : 0 < k -> 0 < h -> 0 < 2 * (k * h ^ i).
  Proof. intros Hk Hh. pose proof (pow_pos_R h i Hh). nra. Qed.

  Lemma lag_ineq_loop_spec ys h k cnt : 0 < k -> 0 < h -> forall i,
    finite_upto ys (i + cnt) ->
    lag_ineq_loop NumR ys h cnt i false (betaF k h ys i) (k * h ^ i)
      = LOk NumR (betaF k h ys (i + cnt)) (k * h ^ (i + cnt)).
  Proof.
    intros Hk Hh. induction cnt as [|m IH]; intros i Hf.
    - rewrite Nat.add_0_r. reflexivity.
    - cbn [lag_ineq_loop]. pose proof (Hf i ltac:(lia)) as Hi. pose proof (two_kpos k h i Hk Hh) as Hp.
      destruct (stored ys i) as [s|] eqn:Es; [|exfalso; apply Hi; reflexivity].
      unr. rdec; [lra|].
      rewrite nmax_R.
      replace (betaF k h ys i + (1 + 1) * (k * h ^ i) * Rmax (- betaF k h ys i / ((1 + 1) * (k * h ^ i))) s)
        with (betaF k h ys (S i)).
      2:{ cbn [betaF]; unfold sval; rewrite Es. replace (1 + 1) with 2 by ring. reflexivity. }
      replace (k * h ^ i * h) with (k * h ^ S i) by (cbn [pow]; ring).
      rewrite IH by (intros j Hj; apply Hf; lia).
      replace (S i + m)%nat with (i + S m)%nat by lia. reflexivity.
  Qed.

  (* the recurrence keeps the multiplier non-negative: beta' = max(0, beta + 2 k_m f(x_m)) *)
  Lemma beta_step_max0 b km s : 0 < km -> b + 2 * km * Rmax (- b / (2 * km)) s = Rmax 0 (b + 2 * km * s).
  Proof.
    intros Hk. set (q := - b / (2 * km)).
    assert (Hq : q * (2 * km) = - b) by (unfold q; field; lra).
    destruct (Rle_dec q s) as [H|H].
    - rewrite Rmax_right by exact H. rewrite Rmax_right; [reflexivity | nra].
    - rewrite Rmax_left by lra. rewrite Rmax_left; nra.
  Qed.

  Lemma betaF_nonneg k h ys n : 0 < k -> 0 < h -> 0 <= betaF k h ys n.
  Proof.
    intros Hk Hh. destruct n; cbn [betaF]; [lra|].
    pose proof (two_kpos k h n Hk Hh).
    replace (2 * (k * h ^ n)) with (2 * (k * h ^ n)) by ring.
    rewrite (beta_step_max0 (betaF k h ys n) (k * h ^ n) (sval ys n)) by lra. apply Rmax_l.
  Qed.

  Lemma lamF_zero k h ys n : (forall i, (i < n)%nat -> sval ys i = 0) -> lamF k h ys n = 0.
  Proof.
    induction n; intros H; cbn [lamF]; [reflexivity|].
    rewrite IHn by (intros; apply H; lia). rewrite (H n) by lia. ring.
  Qed.

  Lemma betaF_zero k h ys n : 0 < k -> 0 < h -> (forall i, (i < n)%nat -> sval ys i = 0) -> betaF k h ys n = 0.
  Proof.
    intros Hk Hh. induction n; intros H; cbn [betaF]; [reflexivity|].
    rewrite IHn by (intros; apply H; lia). rewrite (H n) by lia.
    pose proof (two_kpos k h n Hk Hh).
    replace (- 0 / (2 * (k * h ^ n))) with 0 by (unfold Rdiv; ring). rewrite Rmax_left by lra. ring.
  Qed.

  (* ------------------------------------------------------------ lagrange_equality *)
  Theorem lagrange_eq_value_is_formula base l r x k c :
    lk _ _ l = LagEq -> lmul _ _ l = Some k -> lcond _ _ l x = CV c -> finite_upto (ly _ _ l) (ln _ _ l) ->
    p_func base (l :: r) x =
      xadd (Fin (kk k l * (c * c) + lamF k (lh _ _ l) (ly _ _ l) (ln _ _ l) * c)) (p_func base r x).
  Proof.
    intros K Ek Hc Hf. rewrite p_func_cons, Hc. unfold level_apply, early. rewrite K. f_equal.
    unfold Penalty.amount; rewrite Ek. unfold amount_fin; rewrite K.
    pose proof (lag_eq_loop_spec (ly _ _ l) (lh _ _ l) k (ln _ _ l) 0 Hf) as L.
    cbn [lamF pow Nat.add] in L. unr. replace (k * 1) with k in L by ring. rewrite L. reflexivity.
  Qed.

  (* zero on the feasible set holds for lagrange_equality whatever the multipliers are *)
  Theorem lagrange_eq_zero_on_feasible base l r x k :
    lk _ _ l = LagEq -> lmul _ _ l = Some k -> lcond _ _ l x = CV 0 -> finite_upto (ly _ _ l) (ln _ _ l) ->
    p_func base (l :: r) x = p_func base r x.
  Proof.
    intros K Ek Hc Hf. rewrite (lagrange_eq_value_is_formula base l r x k 0 K Ek Hc Hf).
    replace (kk k l * (0 * 0) + lamF k (lh _ _ l) (ly _ _ l) (ln _ _ l) * 0) with 0 by ring. apply xadd_zero_l.
  Qed.

  (* strictly positive off the feasible set: only when the multiplier does not point against the violation
     (in particular with an empty / all-zero multiplier history or at iteration 0) *)
  Theorem lagrange_eq_positive_on_violation_partial base l r x k c :
    lk _ _ l = LagEq -> lmul _ _ l = Some k -> lcond _ _ l x = CV c -> finite_upto (ly _ _ l) (ln _ _ l) ->
    0 < k -> 0 < lh _ _ l -> c <> 0 -> 0 <= lamF k (lh _ _ l) (ly _ _ l) (ln _ _ l) * c ->
    exists a, 0 < a /\ p_func base (l :: r) x = xadd (Fin a) (p_func base r x).
  Proof.
    intros K Ek Hc Hf Hk Hh Hne Hl. eexists; split; [|apply (lagrange_eq_value_is_formula base l r x k c K Ek Hc Hf)].
    assert (0 < kk k l) by (unfold kk; pose proof (pow_pos_R _ (ln _ _ l) Hh); nra).
    assert (0 < c * c) by nra. nra.
  Qed.

  Theorem lagrange_eq_zero_history base l r x k c :
    lk _ _ l = LagEq -> lmul _ _ l = Some k -> lcond _ _ l x = CV c ->
    (forall i, (i < ln _ _ l)%nat -> stored (ly _ _ l) i = Some 0) ->
    p_func base (l :: r) x = xadd (Fin (kk k l * (c * c))) (p_func base r x).
  Proof.
    intros K Ek Hc H0.
    rewrite (lagrange_eq_value_is_formula base l r x k c K Ek Hc) by (intros i Hi; rewrite H0 by exact Hi; discriminate).
    rewrite lamF_zero by (intros i Hi; unfold sval; rewrite H0 by exact Hi; reflexivity).
    do 2 f_equal. ring.
  Qed.

  (* refutation of "strictly positive where violated" with a stored multiplier (documented design, DESIGN F6):
     k=1, h=2, one stored value 1, iteration 1, f(x) = -1/2 (violated): the added amount is -1/2 *)
  Theorem lagrange_eq_positive_on_violation_refuted (x : X) :
    exists (l : level) c, lk _ _ l = LagEq /\ lcond _ _ l x = CV c /\ ~ satisfied LagEq c /\
      p_func (zero_base NumR X) [l] x = Penalty.Fin NumR (- (1 / 2)).
  Proof.
    exists (mkLevel NumR X LagEq (fun _ => CV (- (1 / 2))) (Some 1) 2 1 [Some 1]), (- (1 / 2)).
    repeat split; [cbn; lra|].
    rewrite (lagrange_eq_value_is_formula _ _ [] x 1 (- (1 / 2))); try reflexivity.
    - unfold kk, zero_base, sval, Penalty.stored; cbn. unr. f_equal. field.
    - intros i Hi. cbn in Hi. assert (i = 0)%nat by lia. subst. cbn. discriminate.
  Qed.

  (* ------------------------------------------------------------ lagrange_inequality *)
  Definition lag_ineq_amount (kn beta c : R) : R :=
    let mpf := Rmax (- beta / (2 * kn)) c in kn * (mpf * mpf) + beta * mpf.

  Theorem lagrange_ineq_value_is_formula base l r x k c :
    lk _ _ l = LagIneq -> lmul _ _ l = Some k -> lcond _ _ l x = CV c -> finite_upto (ly _ _ l) (ln _ _ l) ->
    0 < k -> 0 < lh _ _ l ->
    p_func base (l :: r) x =
      xadd (Fin (lag_ineq_amount (kk k l) (betaF k (lh _ _ l) (ly _ _ l) (ln _ _ l)) c)) (p_func base r x).
  Proof.
    intros K Ek Hc Hf Hk Hh. rewrite p_func_cons, Hc. unfold level_apply, early. rewrite K. f_equal.
    unfold Penalty.amount; rewrite Ek. unfold amount_fin; rewrite K.
    pose proof (lag_ineq_loop_spec (ly _ _ l) (lh _ _ l) k (ln _ _ l) Hk Hh 0 Hf) as L.
    cbn [betaF pow Nat.add] in L. unr. replace (k * 1) with k in L by ring. rewrite L.
    pose proof (two_kpos k (lh _ _ l) (ln _ _ l) Hk Hh).
    rdec; [lra|]. rewrite nmax_R. unfold lag_ineq_amount, kk. replace (1 + 1) with 2 by ring. reflexivity.
  Qed.

  (* strictly positive where violated, whatever the (finite) multiplier history *)
  Theorem lagrange_ineq_positive_on_violation base l r x k c :
    lk _ _ l = LagIneq -> lmul _ _ l = Some k -> lcond _ _ l x = CV c -> finite_upto (ly _ _ l) (ln _ _ l) ->
    0 < k -> 0 < lh _ _ l -> 0 < c ->
    exists a, 0 < a /\ p_func base (l :: r) x = xadd (Fin a) (p_func base r x).
  Proof.
    intros K Ek Hc Hf Hk Hh Hpos.
    eexists; split; [|apply (lagrange_ineq_value_is_formula base l r x k c K Ek Hc Hf Hk Hh)].
    pose proof (betaF_nonneg k (lh _ _ l) (ly _ _ l) (ln _ _ l) Hk Hh) as Hb.
    assert (Hkk : 0 < kk k l) by (unfold kk; pose proof (pow_pos_R _ (ln _ _ l) Hh); nra).
    unfold lag_ineq_amount. set (b := betaF _ _ _ _) in *.
    assert (Hq : - b / (2 * kk k l) <= 0).
    { assert (- b / (2 * kk k l) * (2 * kk k l) = - b) by (field; lra). nra. }
    rewrite Rmax_right by lra. assert (0 < c * c) by nra. nra.
  Qed.

  (* with zero multipliers (iteration 0, empty or all-zero history) it is the plain quadratic penalty *)
  Theorem lagrange_ineq_zero_history base l r x k c :
    lk _ _ l = LagIneq -> lmul _ _ l = Some k -> lcond _ _ l x = CV c -> 0 < k -> 0 < lh _ _ l ->
    (forall i, (i < ln _ _ l)%nat -> stored (ly _ _ l) i = Some 0) ->
    p_func base (l :: r) x = xadd (Fin (kk k l * (Rmax 0 c * Rmax 0 c))) (p_func base r x).
  Proof.
    intros K Ek Hc Hk Hh H0.
    rewrite (lagrange_ineq_value_is_formula base l r x k c K Ek Hc) by
      (try assumption; intros i Hi; rewrite H0 by exact Hi; discriminate).
    rewrite betaF_zero by (try assumption; intros i Hi; unfold sval; rewrite H0 by exact Hi; reflexivity).
    unfold lag_ineq_amount.
    assert (Hkk : 0 < kk k l) by (unfold kk; pose proof (pow_pos_R _ (ln _ _ l) Hh); nra).
    replace (- 0 / (2 * kk k l)) with 0 by (unfold Rdiv; ring). do 2 f_equal. ring.
  Qed.

  (* what holds on the feasible set in general: the added amount is never positive *)
  Theorem lagrange_ineq_zero_on_feasible_partial base l r x k c :
    lk _ _ l = LagIneq -> lmul _ _ l = Some k -> lcond _ _ l x = CV c -> finite_upto (ly _ _ l) (ln _ _ l) ->
    0 < k -> 0 < lh _ _ l -> c <= 0 ->
    exists a, a <= 0 /\ p_func base (l :: r) x = xadd (Fin a) (p_func base r x).
  Proof.
    intros K Ek Hc Hf Hk Hh Hneg.
    eexists; split; [|apply (lagrange_ineq_value_is_formula base l r x k c K Ek Hc Hf Hk Hh)].
    pose proof (betaF_nonneg k (lh _ _ l) (ly _ _ l) (ln _ _ l) Hk Hh) as Hb.
    assert (Hkk : 0 < kk k l) by (unfold kk; pose proof (pow_pos_R _ (ln _ _ l) Hh); nra).
    unfold lag_ineq_amount. set (b := betaF _ _ _ _) in *. set (q := - b / (2 * kk k l)).
    assert (Hq : q * (2 * kk k l) = - b) by (unfold q; field; lra).
    assert (Hq0 : q <= 0) by nra.
    set (K0 := kk k l) in *.
    assert (Hkq : K0 * q = - b / 2) by lra.
    destruct (Rle_dec q c) as [H|H].
    - rewrite Rmax_right by exact H.
      assert (K0 * q <= K0 * c) by (apply Rmult_le_compat_l; lra).
      assert (0 <= K0 * c + b) by lra.
      replace (K0 * (c * c) + b * c) with (c * (K0 * c + b)) by ring.
      replace 0 with (c * 0) by ring. apply Rmult_le_compat_neg_l; lra.
    - rewrite Rmax_left by lra.
      replace (K0 * (q * q) + b * q) with (q * (K0 * q + b)) by ring.
      replace 0 with (q * 0) by ring. apply Rmult_le_compat_neg_l; lra.
  Qed.

  (* refutation of "zero on the feasible set" with a stored multiplier (documented design, DESIGN F6):
     k=1, h=2, one stored value 1, iteration 1, f(x) = -1/2 <= 0: the added amount is -1/2 *)
  Theorem lagrange_ineq_zero_on_feasible_refuted (x : X) :
    exists (l : level) c, lk _ _ l = LagIneq /\ lcond _ _ l x = CV c /\ satisfied LagIneq c /\
      p_func (zero_base NumR X) [l] x = Penalty.Fin NumR (- (1 / 2)).
  Proof.
    exists (mkLevel NumR X LagIneq (fun _ => CV (- (1 / 2))) (Some 1) 2 1 [Some 1]), (- (1 / 2)).
    repeat split; [cbn; lra|].
    rewrite (lagrange_ineq_value_is_formula _ _ [] x 1 (- (1 / 2))); try reflexivity; try lra.
    - unfold kk, zero_base, lag_ineq_amount, sval, Penalty.stored; cbn. unr.
      replace (- 0 / (2 * (1 * 1))) with 0 by (unfold Rdiv; ring). rewrite (Rmax_right 0 1) by lra.
      replace (- (0 + 2 * (1 * 1) * 1) / (2 * (1 * (2 * 1)))) with (- (1 / 2)) by field.
      rewrite Rmax_left by lra. f_equal. field.
    - intros i Hi. cbn in Hi. assert (i = 0)%nat by lia. subst. cbn. discriminate.
    - cbn; lra.
  Qed.


  (* ------------------------------------------------------------ error(x) *)
  Section Error.
    Hypothesis sqrt_sq : forall a, 0 <= a -> sqrt a * sqrt a = a.
    Hypothesis sqrt_nn : forall a, 0 <= a -> 0 <= sqrt a.

    Definition viol_R (kd : kind) (c : R) : R := if is_ineq kd then Rmax 0 c else c.

    Lemma viol_CV l c : viol NumR X l (CV c) = Some (viol_R (lk _ _ l) c).
    Proof. unfold viol, viol_R. destruct (is_ineq (lk _ _ l)); [rewrite nmax_R|]; reflexivity. Qed.

    Lemma sq_nonneg_R (v : R) : 0 <= v * v.
    Proof. nra. Qed.

    Lemma sqrt_sqr_abs v : sqrt (v * v) = Rabs v.
    Proof.
      pose proof (sqrt_sq (v * v) (sq_nonneg_R v)) as H1. pose proof (sqrt_nn (v * v) (sq_nonneg_R v)) as H2.
      set (s := sqrt (v * v)) in *.
      assert (H : (s - Rabs v) * (s + Rabs v) = 0).
      { unfold Rabs; destruct (Rcase_abs v); nra. }
      pose proof (Rabs_pos v).
      apply Rmult_integral in H. destruct H as [H|H]; [lra|].
      assert (s = 0) by lra. assert (Rabs v = 0) by lra. lra.
    Qed.

    (* one level: error(x) is the violation magnitude |f(x)| resp. max(0, f(x)) *)
    Theorem error_is_violation l x c :
      lcond _ _ l x = CV c -> p_error [l] x = Some (Rabs (viol_R (lk _ _ l) c)).
    Proof.
      intros Hc. cbn [Penalty.p_error]. rewrite Hc, viol_CV. unr. rewrite sqrt_sqr_abs. reflexivity.
    Qed.

    Corollary error_is_violation_ineq l x c :
      is_ineq (lk _ _ l) = true -> lcond _ _ l x = CV c -> p_error [l] x = Some (Rmax 0 c).
    Proof.
      intros Hi Hc. rewrite (error_is_violation l x c Hc). unfold viol_R. rewrite Hi, Rabs_Rmax0. reflexivity.
    Qed.

    (* nested levels: error(x)^2 is the sum of the squared violations of all levels *)
    Fixpoint viol_sumsq (p : pen) (x : X) : R :=
      match p with
      | [] => 0
      | l :: r => match lcond _ _ l x with
                  | Penalty.CV _ c => viol_R (lk _ _ l) c * viol_R (lk _ _ l) c
                  | _ => 0
                  end + viol_sumsq r x
      end.

    Lemma viol_sumsq_nonneg p x : 0 <= viol_sumsq p x.
    Proof.
      induction p as [|l r IH]; cbn [viol_sumsq]; [lra|].
      destruct (lcond _ _ l x); try lra. pose proof (sq_nonneg_R (viol_R (lk _ _ l) c)). lra.
    Qed.

    Theorem error_sq_is_sum_of_squared_violations p x :
      p <> [] -> Forall (fun l => exists c, lcond _ _ l x = CV c) p ->
      exists e, p_error p x = Some e /\ 0 <= e /\ e * e = viol_sumsq p x.
    Proof.
      induction p as [|l r IH]; intros Hne Hall; [congruence|].
      inversion Hall as [|? ? [c Hc] Hr]; subst.
      cbn [Penalty.p_error viol_sumsq]. rewrite Hc, viol_CV. set (v := viol_R (lk _ _ l) c). unr.
      destruct r as [|l2 r2].
      - exists (sqrt (v * v)). cbn [viol_sumsq]. pose proof (sq_nonneg_R v).
        repeat split; [apply sqrt_nn; lra | rewrite sqrt_sq by lra; ring].
      - destruct (IH ltac:(discriminate) Hr) as [e [He [He0 Hee]]]. rewrite He.
        assert (0 <= v * v + e * e) by (pose proof (sq_nonneg_R v); pose proof (sq_nonneg_R e); lra).
        exists (sqrt (v * v + e * e)). repeat split; [apply sqrt_nn; lra | rewrite sqrt_sq by lra; rewrite Hee; ring].
    Qed.

    (* a condition that divides by zero (or is infinite) at any level makes error(x) infinite *)
    Theorem error_inf p x :
      Exists (fun l => forall c, lcond _ _ l x <> CV c) p -> p_error p x = None.
    Proof.
      induction p as [|l r IH]; intros H; inversion H as [? ? Hl|? ? Hr]; subst; cbn [Penalty.p_error].
      - destruct (lcond _ _ l x) eqn:E; try reflexivity. exfalso; apply (Hl c); reflexivity.
      - destruct (viol NumR X l (lcond _ _ l x)); [|reflexivity].
        destruct r as [|l2 r2]; [inversion Hr|]. rewrite (IH Hr). reflexivity.
    Qed.
  End Error.


  (* ------------------------------------------------------------ the closure state machine *)
  (* everything a level owns besides its iteration counter and stored history *)
  Definition same_params (a b : level) : Prop :=
    lk _ _ a = lk _ _ b /\ lcond _ _ a = lcond _ _ b /\ lmul _ _ a = lmul _ _ b /\ lh _ _ a = lh _ _ b.

  Lemma same_params_refl a : same_params a a.
  Proof. repeat split. Qed.
  Lemma same_params_trans a b c : same_params a b -> same_params b c -> same_params a c.
  Proof. unfold same_params; intuition congruence. Qed.

  Lemma Forall2_refl_sp (p : pen) : Forall2 same_params p p.
  Proof. induction p; constructor; auto using same_params_refl. Qed.
  Lemma Forall2_trans_sp (p q r : pen) : Forall2 same_params p q -> Forall2 same_params q r -> Forall2 same_params p r.
  Proof.
    intros H; revert r; induction H; intros r0 H2; inversion H2; subst; constructor; eauto using same_params_trans.
  Qed.

  (* iter() reaches every nesting level: each counter advances by one ... *)
  Theorem iter_advances_all_levels (p : pen) :
    map (ln _ _) (p_iter NumR X None p) = map (fun l => S (ln _ _ l)) p.
  Proof. induction p as [|l r IH]; cbn; [reflexivity | f_equal; exact IH]. Qed.

  (* ... iter(i) sets every counter to i ... *)
  Theorem iter_sets_all_levels (p : pen) (i : nat) :
    map (ln _ _) (p_iter NumR X (Some i) p) = map (fun _ => i) p.
  Proof. induction p as [|l r IH]; cbn; [reflexivity | f_equal; exact IH]. Qed.

  (* ... and nothing else changes at any level (kind, condition, k, h, stored history) *)
  Theorem iter_touches_nothing_else (p : pen) (i : option nat) :
    Forall2 (fun a b => same_params a b /\ ly _ _ a = ly _ _ b) (p_iter NumR X i p) p.
  Proof. induction p as [|l r IH]; cbn; constructor; [repeat split | exact IH]. Qed.

  (* clear() resets the iteration state of every level (counter 0, history empty), nothing else *)
  Theorem clear_resets_all_levels (p : pen) :
    Forall (fun l => ln _ _ l = 0%nat /\ ly _ _ l = []) (p_clear NumR X p) /\
    Forall2 same_params (p_clear NumR X p) p.
  Proof.
    split; induction p as [|l r IH]; cbn; constructor; try exact IH; repeat split.
  Qed.

  (* store() changes only the stored history of the Lagrange levels *)
  Theorem store_touches_only_lagrange_history (p : pen) (x : X) : forall i,
    Forall2 (fun a b => same_params a b /\ ln _ _ a = ln _ _ b /\
                        (is_lagrange (lk _ _ b) = false -> ly _ _ a = ly _ _ b)) (p_store NumR X x i p) p.
  Proof.
    induction p as [|l r IH]; intros i; cbn [p_store]; [constructor|].
    destruct (is_lagrange (lk _ _ l)) eqn:E; constructor; try apply IH; repeat split; intros; congruence.
  Qed.

  Lemma stored_nil j : stored [] j = Some 0.
  Proof. destruct j; reflexivity. Qed.
  Lemma stored_cons_S a ys j : stored (a :: ys) (S j) = stored ys j.
  Proof. reflexivity. Qed.
  Lemma stored_cons_0 a ys : stored (a :: ys) 0 = a.
  Proof. reflexivity. Qed.

  Lemma stored_put_same ys i y : stored (put NumR ys i y) i = y.
  Proof.
    revert ys; induction i as [|i IH]; intros [|a ys]; cbn [put]; rewrite ?stored_cons_0, ?stored_cons_S; auto.
  Qed.

  Lemma stored_put_other ys i y j : j <> i -> stored (put NumR ys i y) j = stored ys j.
  Proof.
    revert ys j; induction i as [|i IH]; intros [|a ys] [|j] Hne; cbn [put];
      rewrite ?stored_cons_0, ?stored_cons_S, ?stored_nil; try reflexivity; try congruence.
    - rewrite IH by congruence. apply stored_nil.
    - apply IH; congruence.
  Qed.

  (* what store(x, i) records in a Lagrange level: the condition value (inf after a ZeroDivisionError) at index
     i, or at the level's own iteration() when i is None; every other index reads as before *)
  Theorem store_records l r x i :
    is_lagrange (lk _ _ l) = true ->
    let j := match i with None => ln _ _ l | Some j => j end in
    exists l' r', p_store NumR X x i (l :: r) = l' :: r' /\ r' = p_store NumR X x (Some j) r /\
      stored (ly _ _ l') j = yval NumR (lcond _ _ l x) /\
      forall j', j' <> j -> stored (ly _ _ l') j' = stored (ly _ _ l) j'.
  Proof.
    intros Hl j. cbn [p_store]. rewrite Hl. eexists; eexists; split; [reflexivity|]. split; [reflexivity|].
    cbn [ly set_y]. split; [apply stored_put_same | intros; apply stored_put_other; assumption].
  Qed.

  (* a call made through the handle of the level at depth lvl leaves the levels outside it untouched *)
  Theorem at_level_outer_untouched (f : pen -> pen) (p : pen) (lvl : nat) :
    (lvl <= length p)%nat ->
    firstn lvl (at_level NumR X lvl f p) = firstn lvl p /\ skipn lvl (at_level NumR X lvl f p) = f (skipn lvl p).
  Proof.
    intros H. unfold at_level.
    assert (L : length (firstn lvl p) = lvl) by (rewrite firstn_length; lia).
    split.
    - rewrite firstn_app, L, Nat.sub_diag. cbn [firstn]. rewrite app_nil_r.
      rewrite <- L at 1. apply firstn_all.
    - rewrite skipn_app, L, Nat.sub_diag. cbn [skipn].
      rewrite <- L at 1. rewrite skipn_all. reflexivity.
  Qed.

  Lemma at_level_same_params (f : pen -> pen) (p : pen) (lvl : nat) :
    (forall q, Forall2 same_params (f q) q) -> Forall2 same_params (at_level NumR X lvl f p) p.
  Proof.
    intros Hf. unfold at_level. rewrite <- (firstn_skipn lvl p) at 3.
    apply Forall2_app; [apply Forall2_refl_sp | apply Hf].
  Qed.

  Lemma Forall2_weaken {A B} (P Q : A -> B -> Prop) l1 l2 :
    (forall a b, P a b -> Q a b) -> Forall2 P l1 l2 -> Forall2 Q l1 l2.
  Proof. intros H F; induction F; constructor; auto. Qed.

  (* no script of iter / clear / store calls, through any handles, ever changes a kind, a condition, k or h *)
  Theorem run_preserves_params (ops : list (op X)) : forall p : pen, Forall2 same_params (run NumR X ops p) p.
  Proof.
    induction ops as [|o ops IH]; intros p; cbn [run fold_left]; [apply Forall2_refl_sp|].
    apply Forall2_trans_sp with (q := step NumR X p o); [apply IH|].
    destruct o; cbn [step]; apply at_level_same_params; intros q.
    - eapply Forall2_weaken; [|apply iter_touches_nothing_else]. intros a b [H _]; exact H.
    - apply clear_resets_all_levels.
    - eapply Forall2_weaken; [|apply store_touches_only_lagrange_history]. intros a b [H _]; exact H.
  Qed.

  (* m calls of iter() on the outermost handle: every level's iteration() has advanced by m *)
  Theorem iter_m_times (m : nat) : forall p : pen,
    map (ln _ _) (run NumR X (repeat (OpIter X 0 None) m) p) = map (fun l => (ln _ _ l + m)%nat) p.
  Proof.
    induction m as [|m IH]; intros p; cbn [repeat].
    - cbn. apply map_ext; intros; lia.
    - change (run NumR X (OpIter X 0 None :: repeat (OpIter X 0 None) m) p)
        with (run NumR X (repeat (OpIter X 0 None) m) (step NumR X p (OpIter X 0 None))).
      rewrite IH. cbn [step]. unfold at_level; cbn [firstn skipn app].
      unfold p_iter. rewrite map_map. apply map_ext; intros l; cbn; lia.
  Qed.

  (* clear() after any script: iteration() = 0 and stored() = [] at every level *)
  Theorem clear_after_any_script (ops : list (op X)) (p : pen) :
    Forall (fun l => ln _ _ l = 0%nat /\ ly _ _ l = []) (run NumR X (ops ++ [OpClear X 0]) p).
  Proof.
    unfold run. rewrite fold_left_app. cbn [fold_left step]. unfold at_level; cbn [firstn skipn app].
    apply clear_resets_all_levels.
  Qed.


  (* ------------------------------------------------------------ stacked penalties add *)
  (* a level that contributes the finite amount a at x (no early `return inf`) *)
  Definition contributes (x : X) (l : level) (a : R) : Prop :=
    early l (lcond _ _ l x) = false /\ amount l (lcond _ _ l x) = Fin a.

  Theorem stacked_add base (p : pen) x b amts :
    base x = Fin b -> Forall2 (contributes x) p amts ->
    p_func base p x = Fin (fold_right Rplus b amts).
  Proof.
    intros Hb H. induction H as [|l a r ar [He Ha] Hr IH]; cbn [Penalty.p_func fold_right]; [exact Hb|].
    unfold level_apply. rewrite He, Ha, IH. reflexivity.
  Qed.

  (* the value is the decorated function's value plus what the penalties add *)
  Corollary total_is_base_plus_added base (p : pen) x b amts :
    base x = Fin b -> Forall2 (contributes x) p amts ->
    exists a, p_added NumR lg X p x = Fin a /\ p_func base p x = Fin (a + b).
  Proof.
    intros Hb H. exists (fold_right Rplus 0 amts). split.
    - apply (stacked_add (fun _ => Fin 0) p x 0 amts); [reflexivity | exact H].
    - rewrite (stacked_add base p x b amts Hb H). f_equal.
      clear H. induction amts as [|a r IH]; cbn [fold_right]; unr; [lra | rewrite IH; lra].
  Qed.

  (* coupler.additive: y' = f(x) + p(x) *)
  Theorem additive_adds (penalty f : X -> xval) x u v :
    f x = Fin u -> penalty x = Fin v -> additive NumR X penalty f x = Fin (u + v).
  Proof. intros Hf Hp. unfold additive. rewrite Hf, Hp. reflexivity. Qed.

  Theorem additive_inf (penalty f : X -> xval) x u :
    f x = Fin u -> penalty x = PInf -> additive NumR X penalty f x = PInf.
  Proof. intros Hf Hp. unfold additive. rewrite Hf, Hp. reflexivity. Qed.

  (* ------------------------------------------------------------ division by zero at any nesting depth *)
  (* a level inside the property's scope: finite positive k, positive h, finite stored multipliers, and a
     condition that is finite or divides by zero *)
  Definition in_scope (x : X) (l : level) : Prop :=
    (exists k, lmul _ _ l = Some k /\ 0 < k) /\ 0 < lh _ _ l /\ finite_upto (ly _ _ l) (ln _ _ l) /\
    (lcond _ _ l x = CZeroDiv \/ exists c, lcond _ _ l x = CV c).

  Lemma in_scope_keeps_inf x l : in_scope x l -> level_apply NumR lg X l (lcond _ _ l x) PInf = PInf.
  Proof.
    intros [[k [Ek Hk]] [Hh [Hf [Hc|[c Hc]]]]]; [rewrite Hc; reflexivity|].
    change (p_func (fun _ => PInf) [l] x = PInf).
    assert (Hkk : 0 < kk k l) by (unfold kk; pose proof (pow_pos_R _ (ln _ _ l) Hh); nra).
    destruct (lk _ _ l) eqn:K.
    - rewrite (simple_value_is_formula _ l [] x k c); rewrite ?K; cbn; auto.
    - rewrite (lagrange_eq_value_is_formula _ l [] x k c); auto.
    - rewrite (simple_value_is_formula _ l [] x k c); rewrite ?K; cbn; auto.
    - rewrite (simple_value_is_formula _ l [] x k c); rewrite ?K; cbn; auto.
    - rewrite (simple_value_is_formula _ l [] x k c); rewrite ?K; cbn; auto.
    - rewrite (lagrange_ineq_value_is_formula _ l [] x k c); auto.
    - rewrite (simple_value_is_formula _ l [] x k c); rewrite ?K; cbn; auto.
    - rewrite (simple_value_is_formula _ l [] x k c); rewrite ?K; cbn; auto.
    - destruct (Rtotal_order c 0) as [Hn|[Hz|Hp]].
      + rewrite (barrier_value_is_formula _ l [] x k c); auto. lra.
      + subst c. rewrite (barrier_boundary_is_inf _ l [] x k); auto.
      + apply (barrier_violation_is_inf _ l [] x c); auto.
  Qed.

  Theorem div_by_zero_any_depth base (outer : pen) l r x :
    Forall (in_scope x) outer -> lcond _ _ l x = CZeroDiv ->
    p_func base (outer ++ l :: r) x = PInf.
  Proof.
    intros Ho Hz. induction Ho as [|o outer Hs Ho IH]; cbn [app].
    - apply div_by_zero_gives_inf; exact Hz.
    - rewrite p_func_cons, IH. apply in_scope_keeps_inf; exact Hs.
  Qed.

  (* ------------------------------------------------------------ coupler.and_ / or_ / not_ and the adapters *)
  Fixpoint sumR (l : list R) : R := match l with [] => 0 | a :: r => a + sumR r end.

  Lemma and_cond_fin (members : list (X -> xval)) (vals : list R) x : forall acc,
    Forall2 (fun m v => m x = Fin v) members vals ->
    fold_left (fun a m => xadd a (m x)) members (Fin acc) = Fin (acc + sumR vals).
  Proof.
    intros acc H; revert acc. induction H as [|m v ms vs Hm Hr IH]; intros acc; cbn [fold_left sumR].
    - f_equal. unr. lra.
    - rewrite Hm. cbn [Penalty.xadd]. unr. rewrite IH. f_equal. unr. lra.
  Qed.

  (* and_(p1..pn) with the default settings (linear_equality, k=1) adds h**n * |p1(x)+...+pn(x)| *)
  Theorem and_value_is_formula (members : list (X -> xval)) (vals : list R) x n ys :
    Forall2 (fun m v => m x = Fin v) members vals ->
    forall l, pen_and NumR X members None None None = [l] ->
    p_func (zero_base NumR X) [mkLevel NumR X (lk _ _ l) (lcond _ _ l) (lmul _ _ l) (lh _ _ l) n ys] x
      = Fin (1 * 5 ^ n * Rabs (sumR vals) + 0).
  Proof.
    intros H l Hl. injection Hl as <-. cbn [new_level lk lcond lmul lh comb_k default_h].
    rewrite (simple_value_is_formula _ _ [] x 1 (sumR vals)); cbn [lk lmul lcond]; auto.
    - unfold kk; cbn [lh ln simple_amount Penalty.p_func zero_base Penalty.xadd]. unr. reflexivity.
    - unfold and_cond. unr. rewrite (and_cond_fin members vals x 0 H). cbn [x_to_c]. f_equal. unr. lra.
  Qed.

  (* hence (members >= 0): zero iff every member is zero at x *)
  Lemma sumR_zero_iff vals : Forall (fun v => 0 <= v) vals -> (sumR vals = 0 <-> Forall (fun v => v = 0) vals).
  Proof.
    induction 1 as [|v r Hv Hr IH]; cbn [sumR]; split; intros H; try constructor; try lra.
    - assert (0 <= sumR r) by (clear IH H; induction Hr; cbn [sumR]; lra). lra.
    - apply IH. assert (0 <= sumR r) by (clear IH H; induction Hr; cbn [sumR]; lra). lra.
    - inversion H; subst. apply IH in H3. lra.
  Qed.

  (* iter() on a combined penalty never reaches the members: they are captured as plain functions (the combined
     level decorates `lambda x: 0.`), so the members' closures are not in the combined penalty's state *)
  Theorem combined_is_single_level members pt kw_k kw_h :
    length (pen_and NumR X members pt kw_k kw_h) = 1%nat /\ length (pen_or NumR X members pt kw_k kw_h) = 1%nat.
  Proof. split; reflexivity. Qed.

  (* not_ of an inequality penalty penalises exactly the region where the member's condition is < 0 *)
  Theorem not_ineq_condition (kd : kind) (cond : X -> cval NumR) x c :
    is_ineq kd = true -> cond x = CV c -> not_cond NumR X kd cond x = CV (0 - c).
  Proof. intros Hk Hc. unfold not_cond. rewrite Hc, Hk. reflexivity. Qed.

  Theorem not_eq_condition (kd : kind) (cond : X -> cval NumR) x c :
    is_ineq kd = false -> cond x = CV c -> not_cond NumR X kd cond x = CV (if Reqb c 0 then 1 else 0).
  Proof. intros Hk Hc. unfold not_cond. rewrite Hc, Hk. reflexivity. Qed.

  (* constraints.with_penalty: one level of the chosen kind over the zero function, iteration 0, empty history *)
  Theorem with_penalty_is_one_fresh_level kd kw_k kw_h cond :
    exists l, with_penalty NumR X kd kw_k kw_h cond = [l] /\ lk _ _ l = kd /\ lcond _ _ l = cond /\
              ln _ _ l = 0%nat /\ ly _ _ l = [].
  Proof. eexists; repeat split. Qed.


  (* ------------------------------------------------------------ the documented expression, kind by kind *)
  Ltac by_simple K Ek Hc :=
    match goal with |- p_func ?base (?l :: ?r) ?x = _ =>
      let H := fresh in
      pose proof (simple_value_is_formula base l r x _ _ ltac:(rewrite K; exact I) Ek Hc) as H;
      rewrite K in H; unfold simple_amount, kk in H; exact H end.

  Theorem quadratic_equality_value base l r x k c :
    lk _ _ l = QuadEq -> lmul _ _ l = Some k -> lcond _ _ l x = CV c ->
    p_func base (l :: r) x = xadd (Fin (k * lh _ _ l ^ ln _ _ l * (c * c))) (p_func base r x).
  Proof. intros K Ek Hc. by_simple K Ek Hc. Qed.

  Theorem linear_equality_value base l r x k c :
    lk _ _ l = LinEq -> lmul _ _ l = Some k -> lcond _ _ l x = CV c ->
    p_func base (l :: r) x = xadd (Fin (k * lh _ _ l ^ ln _ _ l * Rabs c)) (p_func base r x).
  Proof. intros K Ek Hc. by_simple K Ek Hc. Qed.

  Theorem uniform_equality_value base l r x k c :
    lk _ _ l = UniEq -> lmul _ _ l = Some k -> lcond _ _ l x = CV c ->
    p_func base (l :: r) x = xadd (Fin (if Reqb c 0 then 0 else k * lh _ _ l ^ ln _ _ l)) (p_func base r x).
  Proof. intros K Ek Hc. by_simple K Ek Hc. Qed.

  Theorem uniform_inequality_value base l r x k c :
    lk _ _ l = UniIneq -> lmul _ _ l = Some k -> lcond _ _ l x = CV c ->
    p_func base (l :: r) x = xadd (Fin (if Rltb 0 c then k * lh _ _ l ^ ln _ _ l else 0)) (p_func base r x).
  Proof. intros K Ek Hc. by_simple K Ek Hc. Qed.

  Theorem quadratic_inequality_value base l r x k c :
    lk _ _ l = QuadIneq -> lmul _ _ l = Some k -> lcond _ _ l x = CV c ->
    p_func base (l :: r) x = xadd (Fin (2 * (k * lh _ _ l ^ ln _ _ l) * (Rmax 0 c * Rmax 0 c))) (p_func base r x).
  Proof. intros K Ek Hc. by_simple K Ek Hc. Qed.

  Theorem linear_inequality_value base l r x k c :
    lk _ _ l = LinIneq -> lmul _ _ l = Some k -> lcond _ _ l x = CV c ->
    p_func base (l :: r) x = xadd (Fin (2 * (k * lh _ _ l ^ ln _ _ l) * Rmax 0 c)) (p_func base r x).
  Proof. intros K Ek Hc. by_simple K Ek Hc. Qed.


  (* the growth factor is raised to the CURRENT iteration: after iter() / iter(i) the same formula holds with the
     new counter, at every nesting level (the inner value is that of the iterated inner stack) *)
  Theorem iter_then_value base l r x k c (i : option nat) :
    simple (lk _ _ l) -> lmul _ _ l = Some k -> lcond _ _ l x = CV c ->
    p_func base (p_iter NumR X i (l :: r)) x =
      xadd (Fin (simple_amount (lk _ _ l) (k * lh _ _ l ^ (match i with None => S (ln _ _ l) | Some j => j end)) c))
           (p_func base (p_iter NumR X i r) x).
  Proof.
    intros Hs Ek Hc. cbn [p_iter map].
    rewrite (simple_value_is_formula base (iter1 NumR X i l) (map (iter1 NumR X i) r) x k c); try assumption.
    reflexivity.
  Qed.

End Proofs.

(* ---------------------------------------------------------------- constraints.as_penalty *)
Section AsPenaltyProofs.
  Variable lg : R -> R.
  Variable sqrt : R -> R.
  Hypothesis sqrt_sq : forall a, 0 <= a -> sqrt a * sqrt a = a.

  Fixpoint sqdistR (cx x : list R) : R :=
    match x, cx with
    | xi :: xr, ci :: cr => (ci - xi) * (ci - xi) + sqdistR cr xr
    | _, _ => 0
    end.

  Lemma sqdistR_nonneg cx x : 0 <= sqdistR cx x.
  Proof.
    revert cx; induction x as [|xi xr IH]; intros [|ci cr]; cbn [sqdistR]; try lra.
    specialize (IH cr). pose proof (Rle_0_sqr (ci - xi)) as Hs. unfold Rsqr in Hs. lra.
  Qed.

  Lemma sqdist_spec x : forall cx acc, length cx = length x ->
    sqdist NumR cx x acc = Some (acc + sqdistR cx x).
  Proof.
    induction x as [|xi xr IH]; intros [|ci cr] acc Hl; try discriminate; cbn [sqdist sqdistR].
    - f_equal. cbn [NumR T]. lra.
    - injection Hl as Hl. rewrite (IH cr _ Hl). f_equal. cbn [NumR T add sub mul]. lra.
  Qed.

  (* as_penalty(constraint) with the defaults (quadratic_equality, k=100, h=5, iteration n):
     the value is 100 * 5**n * |constraint(x) - x|^2 *)
  Theorem as_penalty_value_is_formula (constraint : list R -> list R) (x : list R) (n : nat) ys :
    length (constraint x) = length x ->
    forall l, as_penalty NumR sqrt constraint None None None = [l] ->
    p_func NumR lg (list R) (zero_base NumR (list R))
      [mkLevel NumR (list R) (lk _ _ l) (lcond _ _ l) (lmul _ _ l) (lh _ _ l) n ys] x
    = Fin NumR (100 * 5 ^ n * sqdistR (constraint x) x + 0).
  Proof.
    intros Hl l El. injection El as <-. cbn [new_level lk lcond lmul lh default_k default_h].
    pose proof (sqdistR_nonneg (constraint x) x) as Hnn.
    rewrite (simple_value_is_formula lg (list R) _ _ [] x 100 (sqrt (sqdistR (constraint x) x)));
      cbn [lk lmul lcond]; [ | exact I | reflexivity | ].
    - unfold kk; cbn [lh ln simple_amount Penalty.p_func zero_base Penalty.xadd].
      rewrite sqrt_sq by exact Hnn. unr. reflexivity.
    - unfold as_penalty_cond, rnorm. rewrite (sqdist_spec x (constraint x) _ Hl). cbn [option_map].
      unr. do 2 f_equal. lra.
  Qed.

  (* zero exactly on the constraint's fixed points, strictly positive elsewhere *)
  Lemma sqdistR_zero_iff x : forall cx, length cx = length x -> (sqdistR cx x = 0 <-> cx = x).
  Proof.
    induction x as [|xi xr IH]; intros [|ci cr] Hl; try discriminate; cbn [sqdistR]; [tauto|].
    injection Hl as Hl. specialize (IH cr Hl). pose proof (sqdistR_nonneg cr xr) as Hn.
    split; intros H.
    - pose proof (Rle_0_sqr (ci - xi)) as Hs. unfold Rsqr in Hs.
      assert (E1 : (ci - xi) * (ci - xi) = 0) by lra. assert (E2 : sqdistR cr xr = 0) by lra.
      apply Rmult_integral in E1. assert (ci = xi) by (destruct E1; lra). subst. f_equal. apply IH; assumption.
    - injection H as E1 E2. subst. assert (E3 : sqdistR xr xr = 0) by (apply IH; reflexivity). rewrite E3. ring.
  Qed.

  Theorem as_penalty_zero_iff_fixed_point (constraint : list R -> list R) (x : list R) (n : nat) :
    length (constraint x) = length x ->
    (100 * 5 ^ n * sqdistR (constraint x) x + 0 = 0 <-> constraint x = x) /\
    (constraint x <> x -> 0 < 100 * 5 ^ n * sqdistR (constraint x) x + 0).
  Proof.
    intros Hl. pose proof (sqdistR_nonneg (constraint x) x) as Hnn.
    pose proof (sqdistR_zero_iff x (constraint x) Hl) as Hz.
    assert (0 < 100 * 5 ^ n) by (pose proof (pow_pos_R 5 n ltac:(lra)); lra).
    split; [split; intros H1|intros Hne].
    - apply Hz. nra.
    - apply Hz in H1. rewrite H1. ring.
    - assert (sqdistR (constraint x) x <> 0) by (intros E; apply Hne, Hz, E). nra.
  Qed.
End AsPenaltyProofs.

(* non-vacuity witness used by Props/Properties_C15.v *)
Lemma nonvacuous_scope :
  let l1 : level NumR nat := mkLevel NumR nat QuadEq (fun _ => CV NumR 3) (Some 2) 5 1 [] in
  let l2 : level NumR nat := mkLevel NumR nat LagIneq (fun _ => CV NumR (-1)) (Some 20) 5 2 [Some 1; Some 0] in
  let l3 : level NumR nat := mkLevel NumR nat BarIneq (fun _ => CV NumR (-2)) (Some 100) 5 0 [] in
  Forall (in_scope nat 0%nat) [l1; l2; l3] /\ simple (lk _ _ l1) /\ ~ satisfied (lk _ _ l1) 3 /\
  satisfied (lk _ _ l2) (-1) /\ finite_upto (ly _ _ l2) (ln _ _ l2).
Proof.
  cbv zeta.
  assert (F0 : forall n, finite_upto [] n).
  { intros n i _. unfold Penalty.stored. destruct i; discriminate. }
  assert (F2 : finite_upto [Some 1; Some 0] 2).
  { intros i Hi. unfold Penalty.stored. destruct i as [|[|i]]; cbn; try discriminate. lia. }
  split; [|split; [exact I | split; [cbn; lra | split; [cbn; lra | exact F2]]]].
  assert (S : forall (l : level NumR nat) k c, lmul _ _ l = Some k -> 0 < k -> 0 < lh _ _ l ->
              finite_upto (ly _ _ l) (ln _ _ l) -> lcond _ _ l 0%nat = CV NumR c -> in_scope nat 0%nat l).
  { intros l k c Ek Hk Hh Hf Hc. split; [exists k; split; assumption|]. split; [exact Hh|]. split; [exact Hf|].
    right; exists c; exact Hc. }
  apply Forall_cons; [|apply Forall_cons; [|apply Forall_cons; [|apply Forall_nil]]].
  - apply (S _ 2 3); cbn; try reflexivity; try lra. apply F0.
  - apply (S _ 20 (-1)); cbn; try reflexivity; try lra. exact F2.
  - apply (S _ 100 (-2)); cbn; try reflexivity; try lra. apply F0.
Qed.
