(* C11 - dimensional collapse: executable model (definitions only, no proofs).
   Mirrors mystic/collapse.py (collapse_at, collapse_as, collapse_weight, collapse_position, the mask
   filters), mystic/monitors.py (_solutions, _measures, Monitor.get_wts/get_pos), mystic/mask.py
   (update_mask/_update_masks/_extend_mask), the Collapse* wrappers of mystic/termination.py with
   collapse.collapsed (message round trip, abstracted to (doc, result) pairs), constraints.impose_at /
   impose_as (+ tools.connected) as vector functions, and the outer loop of AbstractSolver._Solve.
   Numbers are polymorphic over Common/Num.v's [Num]: NumF executes bit-exactly, proofs use an abstract
   order / NumR.  NOT modelled: collapse_cost (oracle only), NaN parameters, ragged histories. *)
From Coq Require Import List ZArith Bool Arith.
From Coq Require String.
From MV Require Import Common.Num.
Import ListNotations.
Open Scope nat_scope.

(* Python exceptions that the modelled functions raise *)
Inductive err := ErrValue | ErrType | ErrIndex.
Inductive res (A : Type) := Ok (a : A) | Err (e : err).
Arguments Ok {A} a.
Arguments Err {A} e.

Definition memb (i : nat) (l : list nat) : bool := existsb (Nat.eqb i) l.
Definition pair_eqb (p q : nat * nat) : bool := (Nat.eqb (fst p) (fst q) && Nat.eqb (snd p) (snd q))%bool.
Definition pmemb (p : nat * nat) (l : list (nat * nat)) : bool := existsb (pair_eqb p) l.
Definition swap (p : nat * nat) : nat * nat := (snd p, fst p).

(* ---- monitors._solutions(monitor, last):  monitor.x[indx:]  with indx = None if last is None else -last.
   So last=None and last=0 both give the WHOLE history (x[-0:] = x[0:]), last>=len gives the whole history,
   a negative last drops the first |last| entries. *)
Definition pyslice_from {A} (k : Z) (l : list A) : list A :=      (* l[k:] *)
  if (k <? 0)%Z then skipn (length l - Z.to_nat (- k)) l else skipn (Z.to_nat k) l.
Definition window {A} (last : option Z) (l : list A) : list A :=
  match last with None => l | Some g => pyslice_from (- g)%Z l end.

(* all unordered pairs i<j in numpy.triu_indices(n, k=1) order *)
Definition pairs_of (n : nat) : list (nat * nat) :=
  flat_map (fun i => map (fun j => (i, j)) (seq (S i) (n - S i))) (seq 0 n).

Section Detectors.
  Variable N : Num.
  Notation E := (T N).

  (* numpy max/min over axis 0 (sequential reduce; exact, so order-free when no NaN occurs) *)
  Definition maxl (d : E) (l : list E) : E := match l with [] => d | x :: r => fold_left (nmax N) r x end.
  Definition minl (d : E) (l : list E) : E := match l with [] => d | x :: r => fold_left (nmin N) r x end.
  Definition ptp (l : list E) : E := sub N (maxl (zero N) l) (minl (zero N) l).
  Definition col (i : nat) (rows : list (list E)) : list E := map (fun r => nth i r (zero N)) rows.

  (* ------------------------------------------------------------------ collapse_at *)
  Inductive target := TNone | TScalar (t : E) | TList (ts : list E).
  (* mask argument: None | a set of ints | a set with an element that has __len__ (ValueError) | not a set (TypeError) *)
  Inductive mask_at := MaNone | MaSet (m : list nat) | MaBadElem | MaNotSet.
  Definition mask_at_list (m : mask_at) : list nat := match m with MaSet l => l | _ => [] end.

  (* change(param[i]) = ptp(param[i]) if target is None else max(abs(param[i] - target)) *)
  Definition change_at (tg : target) (w : list (list E)) (i : nat) : E :=
    match tg with
    | TNone => ptp (col i w)
    | TScalar t => maxl (zero N) (map (fun x => abs N (sub N x t)) (col i w))
    | TList ts => maxl (zero N) (map (fun x => abs N (sub N x (nth i ts (zero N)))) (col i w))
    end.
  Definition test_at (tg : target) (tol : E) (w : list (list E)) (i : nat) : bool := leb N (change_at tg w i) tol.

  Definition collapse_at (hist : list (list E)) (tg : target) (tol : E) (gens : option Z) (mask : mask_at)
    : res (list nat) :=
    match mask with
    | MaBadElem => Err ErrValue
    | MaNotSet => Err ErrType
    | _ =>
      let w := window gens hist in
      match w with
      | [] => Err ErrValue                         (* zero-size array to reduction operation *)
      | r0 :: _ =>
        let n := length r0 in
        if match tg with TList ts => negb (Nat.eqb (length ts) n) | _ => false end
        then Err ErrValue                          (* operands could not be broadcast together *)
        else Ok (filter (fun i => negb (memb i (mask_at_list mask))) (filter (test_at tg tol w) (seq 0 n)))
      end
    end.

  (* ------------------------------------------------------------------ collapse_as *)
  (* mask elements: an int (masks every pair containing it) or a pair (masks that pair in both orientations) *)
  Inductive melem := MInt (k : nat) | MPair (a b : nat).
  Inductive mask_as := MsNone | MsSet (m : list melem) | MsBadElem | MsNotSet.
  Definition mask_as_list (m : mask_as) : list melem := match m with MsSet l => l | _ => [] end.

  (* tools.pairwise: abs(x[a] - x[b]) for a<b *)
  Definition dist (p : nat * nat) (r : list E) : E := abs N (sub N (nth (fst p) r (zero N)) (nth (snd p) r (zero N))).
  Definition change_as (offset : bool) (w : list (list E)) (p : nat * nat) : E :=
    let c := map (dist p) w in if offset then ptp c else maxl (zero N) c.
  Definition test_as (offset : bool) (tol : E) (w : list (list E)) (p : nat * nat) : bool := leb N (change_as offset w p) tol.
  (* collapse.selector: _pair_selector or _index_selector *)
  Definition melem_hits (p : nat * nat) (e : melem) : bool :=
    match e with
    | MInt k => (Nat.eqb k (fst p) || Nat.eqb k (snd p))%bool
    | MPair a b => (pair_eqb (a, b) p || pair_eqb (a, b) (swap p))%bool
    end.
  Definition masked_as (m : list melem) (p : nat * nat) : bool := existsb (melem_hits p) m.

  Definition collapse_as (hist : list (list E)) (offset : bool) (tol : E) (gens : option Z) (mask : mask_as)
    : res (list (nat * nat)) :=
    match mask with
    | MsBadElem => Err ErrValue
    | MsNotSet => Err ErrType
    | _ =>
      let w := window gens hist in
      match w with
      | [] => Err ErrValue
      | r0 :: _ =>
        Ok (filter (fun p => negb (masked_as (mask_as_list mask) p)) (filter (test_as offset tol w) (pairs_of (length r0))))
      end
    end.

  (* ------------------------------------------------------------------ measures: Monitor.get_wts / get_pos *)
  Fixpoint sum_nat (l : list nat) : nat := match l with [] => 0 | x :: r => x + sum_nat r end.
  (* get_iwts / get_ipos: note the position offset is npts[0] for EVERY measure (as written) *)
  Definition iwts (npts : list nat) : list nat :=
    flat_map (fun i => seq (2 * sum_nat (firstn i npts)) (nth i npts 0)) (seq 0 (length npts)).
  Definition ipos (npts : list nat) : list nat :=
    flat_map (fun i => seq (2 * sum_nat (firstn i npts) + hd 0 npts) (nth i npts 0)) (seq 0 (length npts)).
  Definition gather (idx : list nat) (r : list E) : option (list E) :=
    if forallb (fun i => Nat.ltb i (length r)) idx then Some (map (fun i => nth i r (zero N)) idx) else None.
  Fixpoint chunks {A} (k : nat) (m : nat) (l : list A) : list (list A) :=
    match m with O => [] | S m' => firstn k l :: chunks k m' (skipn k l) end.
  (* numpy.array(self.x)[:, idx] reshaped to (len, len(npts), -1): one row of the history -> list of measures *)
  Definition measures_row (idx : list nat) (nm : nat) (r : list E) : res (list (list E)) :=
    match gather idx r with
    | None => Err ErrIndex
    | Some v =>
      if (Nat.eqb nm 0 || negb (Nat.eqb (length v mod nm) 0) || Nat.eqb (length v) 0)%bool then Err ErrValue
      else Ok (chunks (length v / nm) nm v)
    end.
  Fixpoint all_ok {A} (l : list (res A)) : res (list A) :=
    match l with
    | [] => Ok []
    | Ok a :: r => match all_ok r with Ok l' => Ok (a :: l') | Err e => Err e end
    | Err e :: _ => Err e
    end.
  (* monitors._measures(monitor, last, weights): the WHOLE history is converted first, then sliced *)
  Definition measures (weights : bool) (npts : list nat) (hist : list (list E)) (gens : option Z)
    : res (list (list (list E))) :=
    match hist with
    | [] => Err ErrIndex                             (* numpy.array([])[:, idx]: too many indices *)
    | _ =>
      match all_ok (map (measures_row (if weights then iwts npts else ipos npts) (length npts)) hist) with
      | Err e => Err e
      | Ok ms => Ok (window gens ms)
      end
    end.

  (* the three accepted mask formats of collapse_weight / collapse_position; all three act as a set of
     (measure, index) resp. (measure, (i,j)) entries; the format only selects the return type *)
  Inductive mfmt := FDict | FSet | FWhere.
  Inductive mask_m (A : Type) := MmNone | MmMask (f : mfmt) (m : list (nat * A)) | MmBad (e : err).
  Arguments MmNone {A}.
  Arguments MmMask {A} f m.
  Arguments MmBad {A} e.
  Definition mask_m_fmt {A} (m : mask_m A) : mfmt := match m with MmMask f _ => f | _ => FDict end.
  Definition mask_m_list {A} (m : mask_m A) : list (nat * A) := match m with MmMask _ l => l | _ => [] end.

  Definition wmemb (e : nat * nat) (l : list (nat * nat)) : bool := pmemb e l.
  (* collapse_weight: max over the window of weight[m][i] <= tolerance (no abs: as written) *)
  Definition test_weight (tol : E) (w : list (list (list E))) (e : nat * nat) : bool :=
    leb N (maxl (zero N) (map (fun ms => nth (snd e) (nth (fst e) ms []) (zero N)) w)) tol.
  Definition cells (ms : list (list E)) : list (nat * nat) :=
    flat_map (fun m => map (fun i => (m, i)) (seq 0 (length (nth m ms [])))) (seq 0 (length ms)).
  Definition collapse_weight (hist : list (list E)) (npts : list nat) (tol : E) (gens : option Z) (mask : mask_m nat)
    : res (mfmt * list (nat * nat)) :=
    match mask with
    | MmBad e => Err e
    | _ =>
      match measures true npts hist gens with
      | Err e => Err e
      | Ok [] => Err ErrValue
      | Ok (m0 :: r) =>
        Ok (mask_m_fmt mask,
            filter (fun e => negb (wmemb e (mask_m_list mask))) (filter (test_weight tol (m0 :: r)) (cells m0)))
      end
    end.

  (* collapse_position: max over the window of |pos[m][a] - pos[m][b]| <= tolerance, a<b *)
  Definition ppair_eqb (x y : nat * (nat * nat)) : bool := (Nat.eqb (fst x) (fst y) && pair_eqb (snd x) (snd y))%bool.
  Definition ppmemb (e : nat * (nat * nat)) (l : list (nat * (nat * nat))) : bool :=
    (existsb (ppair_eqb e) l || existsb (ppair_eqb (fst e, swap (snd e))) l)%bool.
  Definition test_position (tol : E) (w : list (list (list E))) (e : nat * (nat * nat)) : bool :=
    leb N (maxl (zero N) (map (fun ms => dist (snd e) (nth (fst e) ms [])) w)) tol.
  Definition pcells (ms : list (list E)) : list (nat * (nat * nat)) :=
    flat_map (fun m => map (fun p => (m, p)) (pairs_of (length (nth m ms [])))) (seq 0 (length ms)).
  Definition collapse_position (hist : list (list E)) (npts : list nat) (tol : E) (gens : option Z)
    (mask : mask_m (nat * nat)) : res (mfmt * list (nat * (nat * nat))) :=
    match mask with
    | MmBad e => Err e
    | _ =>
      match measures false npts hist gens with
      | Err e => Err e
      | Ok [] => Err ErrValue
      | Ok (m0 :: r) =>
        Ok (mask_m_fmt mask,
            filter (fun e => negb (ppmemb e (mask_m_list mask))) (filter (test_position tol (m0 :: r)) (pcells m0)))
      end
    end.

  (* ------------------------------------------------------------------ termination.Collapse* wrappers
     _CollapseXx(inst, info): lg = len(energy_history); "" if lg == 0 or lg <= generations (TypeError when
     generations is None); otherwise the detector runs and a NON-EMPTY result r gives doc + ' at ' + str(r);
     collapse.collapsed(message) maps doc -> eval(str(r)).  Abstracted: Some r = "reported r". *)
  Definition term_guard {A} (lg : nat) (gens : option Z) (run : res (list A)) : res (option (list A)) :=
    if Nat.eqb lg 0 then Ok None else
    match gens with
    | None => Err ErrType
    | Some g =>
      if (Z.of_nat lg <=? g)%Z then Ok None else
      match run with
      | Err e => Err e
      | Ok [] => Ok None
      | Ok r => Ok (Some r)
      end
    end.
  Definition term_at lg hist tg tol gens mask := term_guard lg gens (collapse_at hist tg tol gens mask).
  Definition term_as lg hist off tol gens mask := term_guard lg gens (collapse_as hist off tol gens mask).
End Detectors.

Arguments MmNone {A}.
Arguments MmMask {A} f m.
Arguments MmBad {A} e.
Arguments mask_m_fmt {A} m.
Arguments mask_m_list {A} m.
Arguments TNone {N}.
Arguments TScalar {N} t.
Arguments TList {N} ts.

(* ---------------------------------------------------------------------- mask.py: _extend_mask
   "if not _mask: new mask = collapse; set: update; dict: per-key update; tuple: concatenation" --
   on the canonical entry lists all of these are: old entries followed by the new ones. *)
Definition extend_mask {A} (old new : list A) : list A := match old with [] => new | _ => old ++ new end.
Definition as_mask_of (r : list (nat * nat)) : list melem := map (fun p => MPair (fst p) (snd p)) r.

(* mask._update_masks over a termination tree; leaves carry their __doc__ and whether their state has a 'mask'
   key; a leaf inside a tuple is updated iff its doc starts with [kind]; a bare leaf is updated unconditionally *)
Inductive cond (M : Type) := Leaf (doc : String.string) (has_mask : bool) (m : M) | Node (cs : list (cond M)).
Arguments Leaf {M} doc has_mask m.
Arguments Node {M} cs.
Section UpdateMasks.
  Variable M : Type.
  Variable extend : M -> M -> M.
  Definition update_leaf (c : cond M) (new : M) : cond M :=
    match c with Leaf d true m => Leaf d true (extend m new) | _ => c end.
  Fixpoint update_masks (c : cond M) (kind : String.string) (new : M) : cond M :=
    match c with
    | Leaf d h m => update_leaf c new
    | Node cs =>
      Node (map (fun t => match t with
                          | Node _ => update_masks t kind new
                          | Leaf d h m => if String.prefix kind d then update_leaf t new else t
                          end) cs)
    end.
  (* flattened (doc, mask) view, in traversal order: termination.state() *)
  Fixpoint leaves (c : cond M) : list (String.string * M) :=
    match c with
    | Leaf d h m => [(d, m)]
    | Node cs => flat_map leaves cs
    end.
End UpdateMasks.
Arguments update_leaf {M} extend c new.
Arguments update_masks {M} extend c kind new.
Arguments leaves {M} c.

(* ---------------------------------------------------------------------- constraints.impose_at / impose_as *)
Section Impose.
  Variable N : Num.
  Notation E := (T N).

  Fixpoint set_nth (i : nat) (v : E) (x : list E) : list E :=
    match x, i with
    | [], _ => []
    | _ :: r, O => v :: r
    | a :: r, S k => a :: set_nth k v r
    end.

  Inductive at_target := AtScalar (t : E) | AtList (ts : list E).
  (* scalar target: x[[i for i in index if i < len(x)]] = target
     list target:   at = [(i,t) for (i,t) in zip(index, target) if i < len(x)]; x[[i..]] = [t..]
     (each target is dropped together with its out-of-range index; zip truncates to the shorter sequence) *)
  Definition impose_at (idx : list nat) (tg : at_target) (x : list E) : res (list E) :=
    match tg with
    | AtScalar t => Ok (fold_left (fun y i => set_nth i t y) (filter (fun i => Nat.ltb i (length x)) idx) x)
    | AtList ts =>
      Ok (fold_left (fun y p => set_nth (fst p) (snd p) y)
                    (filter (fun p => Nat.ltb (fst p) (length x)) (combine idx ts)) x)
    end.

  (* AbstractSolver.__collapse_constraints for CollapseAt with a list target (as repaired by fix 3c01a6d):
     at = tuple(collapses[k]); t = tuple(t[i] for i in at); impose_at(at, t)  -- each collapsed index gets ITS OWN target *)
  Definition select_targets (idx : list nat) (ts : list E) : list E := map (fun i => nth i ts (zero N)) idx.
  Definition collapse_at_list (idx : list nat) (ts : list E) (x : list E) : res (list E) :=
    impose_at idx (AtList (select_targets idx ts)) x.

  (* tools.connected(pairs): groups as an insertion-ordered dict {key: set of members}.  For each pair (i,j), i <> j:
     ki / kj = key of the first group holding i / j;  neither -> new group {i: {j}};  one -> the other index joins
     that group;  both and different -> group kj is popped and merged (with its key) into group ki. *)
  Definition in_group (i : nat) (g : nat * list nat) : bool := (Nat.eqb i (fst g) || memb i (snd g))%bool.
  Definition key_of (i : nat) (gs : list (nat * list nat)) : option nat :=
    match find (in_group i) gs with Some g => Some (fst g) | None => None end.
  Definition add_members (k : nat) (l : list nat) (gs : list (nat * list nat)) : list (nat * list nat) :=
    map (fun g => if Nat.eqb (fst g) k then (fst g, snd g ++ l) else g) gs.
  Definition followers (k : nat) (gs : list (nat * list nat)) : list nat :=
    match find (fun g => Nat.eqb (fst g) k) gs with Some g => snd g | None => [] end.
  Definition remove_key (k : nat) (gs : list (nat * list nat)) : list (nat * list nat) :=
    filter (fun g => negb (Nat.eqb (fst g) k)) gs.
  Definition connect_step (gs : list (nat * list nat)) (p : nat * nat) : list (nat * list nat) :=
    let i := fst p in let j := snd p in
    if Nat.eqb i j then gs else
    match key_of i gs, key_of j gs with
    | None, None => gs ++ [(i, [j])]
    | Some ki, None => add_members ki [j] gs
    | None, Some kj => add_members kj [i] gs
    | Some ki, Some kj =>
      if Nat.eqb ki kj then gs else add_members ki (followers kj gs ++ [kj]) (remove_key kj gs)
    end.
  Definition connected (pairs : list (nat * nat)) : list (nat * list nat) := fold_left connect_step pairs [].

  (* for i,j in pairs.items(): for k in j: try: x[k] = x[i] except IndexError: pass *)
  Definition copy_to (i k : nat) (x : list E) : list E :=
    if (Nat.ltb i (length x) && Nat.ltb k (length x))%bool then set_nth k (nth i x (zero N)) x else x.
  Definition apply_groups (gs : list (nat * list nat)) (x : list E) : list E :=
    fold_left (fun y g => fold_left (fun z k => copy_to (fst g) k z) (snd g) y) gs x.

  (* the offset loop: while pairs: trac = set(second members); x[i] += offset for i in trac;
     pairs = [m for m in pairs if m[0] in trac]   (fuel = number of pairs + 1; see Collapse_Proofs) *)
  Definition nodup_nat (l : list nat) : list nat := nodup Nat.eq_dec l.
  Definition bump (off : E) (i : nat) (x : list E) : list E :=
    if Nat.ltb i (length x) then set_nth i (add N (nth i x (zero N)) off) x else x.
  Fixpoint offset_loop (fuel : nat) (off : E) (pairs : list (nat * nat)) (x : list E) : option (list E) :=
    match pairs with
    | [] => Some x
    | _ =>
      match fuel with
      | O => None
      | S f =>
        let trac := nodup_nat (map snd pairs) in
        offset_loop f off (filter (fun m => memb (fst m) trac) pairs) (fold_left (fun y i => bump off i y) trac x)
      end
    end.
  Definition impose_as (pairs : list (nat * nat)) (off : E) (x : list E) : option (list E) :=
    offset_loop (S (length pairs)) off pairs (apply_groups (connected pairs) x).

  (* written coordinates (frame) *)
  Definition written_at (idx : list nat) : list nat := idx.
  Definition written_as (pairs : list (nat * nat)) : list nat := map snd pairs ++ map fst pairs.
  Definition groups_disjoint (gs : list (nat * list nat)) : bool :=
    let members := flat_map (fun g => fst g :: snd g) gs in
    Nat.eqb (length (nodup_nat members)) (length members).
End Impose.
Arguments AtScalar {N} t.
Arguments AtList {N} ts.

(* ---------------------------------------------------------------------- AbstractSolver.Collapse + _Solve
   A collapse round r carries the transformation it composes onto the constraints.  After rounds r1..rn
   (r1 first) the solver's constraints are   c0 o I(r1) o I(r2) o ... o I(rn):  chain(conditions...)(old)
   wraps the OLD constraints, so the newest transformation acts first on a candidate and c0 acts last. *)
Section Rounds.
  Variable V : Type.
  Definition xform := V -> V.
  Definition compose_rounds (c0 : xform) (rounds : list xform) : xform :=
    fun x => c0 (fold_right (fun I y => I y) x rounds).
End Rounds.

(* outer loop of _Solve:   stop = run Step to termination;  while Collapse(): run Step to termination.
   [inner] (a Section variable in the proofs) runs the inner loop from a solver state under the current masks and
   returns the new state and the collapses that the termination reports ([] = stopped by a non-collapse condition,
   which ends the loop); [apply] is Collapse (constraints + termination update). *)
Section SolveLoop.
  Variables St C : Type.
  Variable inner : St -> list C -> St * list C.
  Variable apply : St -> list C -> St.
  Fixpoint solve_loop (fuel : nat) (s : St) (mask : list C) : option (St * list C * nat) :=
    match fuel with
    | O => None
    | S f =>
      let (s', r) := inner s mask in
      match r with
      | [] => Some (s', mask, 0)
      | _ => match solve_loop f (apply s' r) (extend_mask mask r) with
             | Some (s'', m, k) => Some (s'', m, S k)
             | None => None
             end
      end
    end.
End SolveLoop.
