(* C16 -- proofs about the statistics transforms (with_mean / with_spread / normalized / with_variance),
   unique_list and impose_as of Pure/Transforms.v, over the real-number instance NumR.
   Helper lemmas carry the prefix [mo_]. *)
From Coq Require Import ZArith List Bool Arith Lia Permutation Sorting.
From Coq Require Import Reals Lra.
From MV Require Import Common.Num Common.Order Common.NumR Pure.Transforms.
Import ListNotations.
Local Open Scope R_scope.

(* ================================================================== Part 1: moments *)

(* ------------------------------------------------------------------ sums *)
Definition mo_rsum (x : list R) : R := fold_right Rplus 0 x.

Lemma mo_fold_left_add (x : list R) a : fold_left Rplus x a = a + mo_rsum x.
Proof.
  revert a; induction x as [|b x IH]; intros a; simpl.
  - lra.
  - rewrite IH. lra.
Qed.

Lemma vsum_rsum (x : list R) : vsum NumR x = fold_right Rplus 0 x.
Proof. unfold vsum; cbn. rewrite mo_fold_left_add. unfold mo_rsum. lra. Qed.

Lemma vsum_nil : vsum NumR (@nil R) = 0.
Proof. reflexivity. Qed.

Lemma vsum_cons a (x : list R) : vsum NumR (a :: x) = a + vsum NumR x.
Proof. rewrite !vsum_rsum. reflexivity. Qed.

Lemma vsum_app (x y : list R) : vsum NumR (x ++ y) = vsum NumR x + vsum NumR y.
Proof.
  induction x as [|a x IH]; cbn [app].
  - rewrite vsum_nil. lra.
  - rewrite !vsum_cons, IH. lra.
Qed.

Lemma lenT_INR (x : list R) : lenT NumR x = INR (length x).
Proof. unfold lenT; cbn. symmetry. apply INR_IZR_INZ. Qed.

Lemma lenT_cons a (x : list R) : lenT NumR (a :: x) = lenT NumR x + 1.
Proof. rewrite !lenT_INR. cbn [length]. rewrite S_INR. lra. Qed.

Lemma lenT_nonneg (x : list R) : 0 <= lenT NumR x.
Proof. rewrite lenT_INR. apply pos_INR. Qed.

Lemma lenT_pos (x : list R) : x <> [] -> 0 < lenT NumR x.
Proof.
  destruct x as [|a x]; [congruence|]. intros _.
  rewrite lenT_cons. pose proof (lenT_nonneg x). lra.
Qed.

Lemma lenT_map (f : R -> R) (x : list R) : lenT NumR (map f x) = lenT NumR x.
Proof. unfold lenT. rewrite map_length. reflexivity. Qed.

Lemma vsum_map_shift s (x : list R) :
  vsum NumR (map (fun v => v + s) x) = vsum NumR x + INR (length x) * s.
Proof.
  induction x as [|a x IH].
  - cbn [map length INR]. rewrite vsum_nil. lra.
  - cbn [map length]. rewrite !vsum_cons, IH, S_INR. lra.
Qed.

Lemma vsum_map_scale c (x : list R) :
  vsum NumR (map (fun v => v * c) x) = vsum NumR x * c.
Proof.
  induction x as [|a x IH].
  - cbn [map length INR]. rewrite vsum_nil. lra.
  - cbn [map]. rewrite !vsum_cons, IH. lra.
Qed.

Lemma vsum_map_affine c s (x : list R) :
  vsum NumR (map (fun v => v * c + s) x) = vsum NumR x * c + lenT NumR x * s.
Proof.
  induction x as [|a x IH].
  - rewrite lenT_INR. cbn [map length INR]. rewrite vsum_nil. lra.
  - cbn [map]. rewrite !vsum_cons, IH, lenT_cons. lra.
Qed.

Lemma vsum_nonneg (x : list R) : Forall (fun v => 0 <= v) x -> 0 <= vsum NumR x.
Proof.
  induction 1 as [|a x Ha _ IH].
  - rewrite vsum_nil. lra.
  - rewrite vsum_cons. lra.
Qed.

(* ------------------------------------------------------------------ mean *)
Lemma mean_eq (x : list R) : mean NumR x = vsum NumR x / lenT NumR x.
Proof. reflexivity. Qed.

Lemma mo_affine_div (S L c s : R) : 0 < L -> (S * c + L * s) / L = S / L * c + s.
Proof. intros. field. lra. Qed.

Lemma mean_affine c s (x : list R) :
  x <> [] -> mean NumR (map (fun v => v * c + s) x) = mean NumR x * c + s.
Proof.
  intros Hx. rewrite !mean_eq, vsum_map_affine, lenT_map.
  apply mo_affine_div. apply lenT_pos; assumption.
Qed.

Lemma mean_shift s (x : list R) :
  x <> [] -> mean NumR (map (fun v => v + s) x) = mean NumR x + s.
Proof.
  intros Hx. rewrite (map_ext _ (fun v => v * 1 + s)) by (intros; lra).
  rewrite mean_affine by assumption. lra.
Qed.

Lemma mean_scale c (x : list R) :
  mean NumR (map (fun v => v * c) x) = mean NumR x * c.
Proof.
  rewrite !mean_eq, vsum_map_scale, lenT_map. unfold Rdiv. lra.
Qed.

Lemma shift_to_mean_eq m (x : list R) :
  shift_to_mean NumR m x = map (fun v => v + (m - mean NumR x)) x.
Proof. reflexivity. Qed.

Lemma shift_to_mean_mean m (x : list R) : x <> [] -> mean NumR (shift_to_mean NumR m x) = m.
Proof. intros Hx. rewrite shift_to_mean_eq, mean_shift by assumption. lra. Qed.

Lemma shift_to_mean_length m (x : list R) : length (shift_to_mean NumR m x) = length x.
Proof. rewrite shift_to_mean_eq. apply map_length. Qed.

(* ------------------------------------------------------------------ almost *)
Lemma almost_true tol rel a b :
  almost NumR tol rel a b = true <-> Rabs (a - b) <= tol + rel * Rabs b.
Proof. unfold almost; cbn. apply Rleb_true. Qed.

Lemma almost_false tol rel a b :
  almost NumR tol rel a b = false <-> tol + rel * Rabs b < Rabs (a - b).
Proof. unfold almost; cbn. apply Rleb_false. Qed.

Lemma almost_refl tol rel a : 0 <= tol -> 0 <= rel -> almost NumR tol rel a a = true.
Proof.
  intros Ht Hr. apply almost_true.
  replace (a - a) with 0 by lra. rewrite Rabs_R0.
  pose proof (Rabs_pos a). nra.
Qed.

Ltac mo_case_almost :=
  match goal with |- context [almost ?n ?a ?b ?c ?d] => destruct (almost n a b c d) eqn:?Halm end.

(* ------------------------------------------------------------------ 1. with_mean *)
Theorem with_mean_none_iff tol rel m (x : list R) : with_mean NumR tol rel m x = None <-> x = [].
Proof.
  destruct x as [|a x]; unfold with_mean.
  - tauto.
  - split; [|discriminate]. mo_case_almost; discriminate.
Qed.

Theorem with_mean_hits tol rel m (x y : list R) :
  x <> [] -> with_mean NumR tol rel m x = Some y ->
  almost NumR tol rel (mean NumR x) m = false -> mean NumR y = m.
Proof.
  intros Hx H Ha. destruct x as [|a x]; [congruence|].
  unfold with_mean in H. rewrite Ha in H. inversion H; subst.
  apply shift_to_mean_mean. discriminate.
Qed.

Theorem with_mean_conforming tol rel m (x : list R) :
  almost NumR tol rel (mean NumR x) m = true -> x <> [] -> with_mean NumR tol rel m x = Some x.
Proof.
  intros Ha Hx. destruct x as [|a x]; [congruence|].
  unfold with_mean. rewrite Ha. reflexivity.
Qed.

Theorem with_mean_in_target tol rel m (x y : list R) :
  0 <= tol -> 0 <= rel -> x <> [] -> with_mean NumR tol rel m x = Some y ->
  almost NumR tol rel (mean NumR y) m = true.
Proof.
  intros Ht Hr Hx H.
  destruct (almost NumR tol rel (mean NumR x) m) eqn:Ha.
  - rewrite with_mean_conforming in H by assumption. inversion H; subst. exact Ha.
  - rewrite (with_mean_hits tol rel m x y Hx H Ha). apply almost_refl; assumption.
Qed.

Lemma with_mean_length tol rel m (x y : list R) :
  with_mean NumR tol rel m x = Some y -> length y = length x.
Proof.
  destruct x as [|a x]; [discriminate|]. unfold with_mean.
  mo_case_almost; intros H; inversion H; subst; auto.
  apply shift_to_mean_length.
Qed.

Theorem with_mean_idempotent tol rel m (x y : list R) :
  0 <= tol -> 0 <= rel -> with_mean NumR tol rel m x = Some y -> with_mean NumR tol rel m y = Some y.
Proof.
  intros Ht Hr H.
  assert (Hx : x <> []) by (intros ->; discriminate).
  assert (Hy : y <> []).
  { apply with_mean_length in H. destruct y; [|discriminate]. destruct x; [congruence|discriminate]. }
  apply with_mean_conforming; [|assumption].
  apply (with_mean_in_target tol rel m x y); assumption.
Qed.

(* the transform is a pure shift: all pairwise differences are preserved *)
Theorem with_mean_is_shift tol rel m (x y : list R) :
  with_mean NumR tol rel m x = Some y -> exists s, y = map (fun v => v + s) x.
Proof.
  destruct x as [|a x]; [discriminate|]. unfold with_mean.
  mo_case_almost; intros H; inversion H; subst.
  - exists 0. rewrite (map_ext _ (fun v => v)) by (intros; lra). symmetry; apply map_id.
  - eexists. apply shift_to_mean_eq.
Qed.

Lemma mo_nth_map {A B} (f : A -> B) (l : list A) i d d' :
  (i < length l)%nat -> nth i (map f l) d' = f (nth i l d).
Proof.
  intros H. rewrite (nth_indep _ d' (f d)) by (rewrite map_length; assumption). apply map_nth.
Qed.

Theorem with_mean_keeps_differences tol rel m (x y : list R) i j d :
  with_mean NumR tol rel m x = Some y -> (i < length x)%nat -> (j < length x)%nat ->
  nth i y d - nth j y d = nth i x d - nth j x d.
Proof.
  intros H Hi Hj. destruct (with_mean_is_shift _ _ _ _ _ H) as [s ->].
  rewrite !(mo_nth_map (fun v => v + s) x _ d d) by assumption. lra.
Qed.

(* ------------------------------------------------------------------ vmax / vmin / spread *)
Lemma vmax_cons a b (l : list R) : vmax NumR a (b :: l) = vmax NumR (if Rltb a b then b else a) l.
Proof. reflexivity. Qed.
Lemma vmin_cons a b (l : list R) : vmin NumR a (b :: l) = vmin NumR (if Rltb b a then b else a) l.
Proof. reflexivity. Qed.
Lemma vmax_nil (a : R) : vmax NumR a (@nil R) = a.
Proof. reflexivity. Qed.
Lemma vmin_nil (a : R) : vmin NumR a (@nil R) = a.
Proof. reflexivity. Qed.

Lemma mo_Rltb_cases a b : (Rltb a b = true /\ a < b) \/ (Rltb a b = false /\ b <= a).
Proof.
  destruct (Rltb a b) eqn:E; [left|right]; split; auto.
  - apply Rltb_true; assumption.
  - apply Rltb_false; assumption.
Qed.

Lemma vmax_ge_init a (l : list R) : a <= vmax NumR a l.
Proof.
  revert a; induction l as [|b l IH]; intros a.
  - rewrite vmax_nil. lra.
  - rewrite vmax_cons. destruct (mo_Rltb_cases a b) as [[-> H]|[-> H]].
    + specialize (IH b). lra.
    + apply IH.
Qed.

Lemma vmax_upper a (l : list R) v : In v l -> v <= vmax NumR a l.
Proof.
  revert a; induction l as [|b l IH]; intros a Hin; [contradiction|].
  rewrite vmax_cons. destruct Hin as [->|Hin]; [|apply IH; assumption].
  destruct (mo_Rltb_cases a v) as [[-> H]|[-> H]].
  - apply vmax_ge_init.
  - pose proof (vmax_ge_init a l). lra.
Qed.

Lemma vmax_in a (l : list R) : In (vmax NumR a l) (a :: l).
Proof.
  revert a; induction l as [|b l IH]; intros a.
  - left. reflexivity.
  - rewrite vmax_cons. destruct (Rltb a b).
    + right. apply IH.
    + destruct (IH a) as [H|H]; [left; exact H|right; right; exact H].
Qed.

Lemma vmin_le_init a (l : list R) : vmin NumR a l <= a.
Proof.
  revert a; induction l as [|b l IH]; intros a.
  - rewrite vmin_nil. lra.
  - rewrite vmin_cons. destruct (mo_Rltb_cases b a) as [[-> H]|[-> H]].
    + specialize (IH b). lra.
    + apply IH.
Qed.

Lemma vmin_lower a (l : list R) v : In v l -> vmin NumR a l <= v.
Proof.
  revert a; induction l as [|b l IH]; intros a Hin; [contradiction|].
  rewrite vmin_cons. destruct Hin as [->|Hin]; [|apply IH; assumption].
  destruct (mo_Rltb_cases v a) as [[-> H]|[-> H]].
  - apply vmin_le_init.
  - pose proof (vmin_le_init a l). lra.
Qed.

Lemma vmin_in a (l : list R) : In (vmin NumR a l) (a :: l).
Proof.
  revert a; induction l as [|b l IH]; intros a.
  - left. reflexivity.
  - rewrite vmin_cons. destruct (Rltb b a).
    + right. apply IH.
    + destruct (IH a) as [H|H]; [left; exact H|right; right; exact H].
Qed.

(* a non-decreasing affine map commutes with max and min *)
Lemma vmax_affine c s a (l : list R) :
  0 <= c -> vmax NumR (a * c + s) (map (fun v => v * c + s) l) = vmax NumR a l * c + s.
Proof.
  intros Hc. revert a; induction l as [|b l IH]; intros a.
  - reflexivity.
  - cbn [map]. rewrite !vmax_cons.
    destruct (mo_Rltb_cases a b) as [[-> H]|[-> H]];
    destruct (mo_Rltb_cases (a * c + s) (b * c + s)) as [[-> H']|[-> H']].
    + apply IH.
    + assert (E : a * c + s = b * c + s) by nra. rewrite E. apply IH.
    + exfalso. nra.
    + apply IH.
Qed.

Lemma vmin_affine c s a (l : list R) :
  0 <= c -> vmin NumR (a * c + s) (map (fun v => v * c + s) l) = vmin NumR a l * c + s.
Proof.
  intros Hc. revert a; induction l as [|b l IH]; intros a.
  - reflexivity.
  - cbn [map]. rewrite !vmin_cons.
    destruct (mo_Rltb_cases b a) as [[-> H]|[-> H]];
    destruct (mo_Rltb_cases (b * c + s) (a * c + s)) as [[-> H']|[-> H']].
    + apply IH.
    + assert (E : a * c + s = b * c + s) by nra. rewrite E. apply IH.
    + exfalso. nra.
    + apply IH.
Qed.

Lemma spread_cons a (r : list R) : spread NumR (a :: r) = vmax NumR a r - vmin NumR a r.
Proof. reflexivity. Qed.

Lemma spread_nonneg (x : list R) : 0 <= spread NumR x.
Proof.
  destruct x as [|a r].
  - cbn. lra.
  - rewrite spread_cons. pose proof (vmax_ge_init a r). pose proof (vmin_le_init a r). lra.
Qed.

(* the spread is the largest pairwise difference *)
Lemma spread_bounds_differences (x : list R) u v : In u x -> In v x -> u - v <= spread NumR x.
Proof.
  destruct x as [|a r]; [contradiction|]. intros Hu Hv. rewrite spread_cons.
  assert (u <= vmax NumR a r).
  { destruct Hu as [<-|Hu]; [apply vmax_ge_init|apply vmax_upper; assumption]. }
  assert (vmin NumR a r <= v).
  { destruct Hv as [<-|Hv]; [apply vmin_le_init|apply vmin_lower; assumption]. }
  lra.
Qed.

Lemma spread_attained (x : list R) : x <> [] -> exists u v, In u x /\ In v x /\ spread NumR x = u - v.
Proof.
  destruct x as [|a r]; [congruence|]. intros _.
  exists (vmax NumR a r), (vmin NumR a r). split; [apply vmax_in|split; [apply vmin_in|apply spread_cons]].
Qed.

Lemma spread_affine c s (x : list R) :
  0 <= c -> spread NumR (map (fun v => v * c + s) x) = spread NumR x * c.
Proof.
  intros Hc. destruct x as [|a r].
  - cbn. lra.
  - cbn [map]. rewrite !spread_cons, vmax_affine, vmin_affine by assumption. lra.
Qed.

(* ------------------------------------------------------------------ 2. with_spread *)
Lemma mo_rescale_eq m c (x : list R) :
  shift_to_mean NumR m (map (fun s => s * c) x) =
  map (fun v => v * c + (m - mean NumR (map (fun s => s * c) x))) x.
Proof. rewrite shift_to_mean_eq, map_map. reflexivity. Qed.

Lemma mo_map_nonnil {A B} (f : A -> B) (l : list A) : l <> [] -> map f l <> [].
Proof. destruct l; [congruence|discriminate]. Qed.

Lemma with_spread_hit_eq tol rel r (x : list R) :
  x <> [] -> almost NumR tol rel (spread NumR x) r = false -> spread NumR x <> 0 ->
  with_spread NumR tol rel r x =
  Some (shift_to_mean NumR (mean NumR x) (map (fun s => s * (r / spread NumR x)) x)).
Proof.
  intros Hx Ha Hs. destruct x as [|a x]; [congruence|].
  unfold with_spread. rewrite Ha.
  apply Reqb_false in Hs. cbn [eqb zero NumR]. rewrite Hs. reflexivity.
Qed.

Theorem with_spread_hits tol rel r (x y : list R) :
  x <> [] -> spread NumR x <> 0 -> 0 <= r -> almost NumR tol rel (spread NumR x) r = false ->
  with_spread NumR tol rel r x = Some y ->
  spread NumR y = r /\ mean NumR y = mean NumR x.
Proof.
  intros Hx Hs Hr Ha H. rewrite with_spread_hit_eq in H by assumption.
  inversion H; subst y; clear H. split.
  - rewrite mo_rescale_eq, spread_affine.
    + unfold Rdiv. rewrite <- Rmult_assoc, (Rmult_comm (spread NumR x)), Rmult_assoc, Rinv_r by assumption. lra.
    + pose proof (spread_nonneg x). apply Rmult_le_pos; [assumption|].
      apply Rlt_le, Rinv_0_lt_compat. lra.
  - apply shift_to_mean_mean. apply mo_map_nonnil; assumption.
Qed.

Theorem with_spread_conforming tol rel r (x : list R) :
  x <> [] -> almost NumR tol rel (spread NumR x) r = true -> with_spread NumR tol rel r x = Some x.
Proof.
  intros Hx Ha. destruct x as [|a x]; [congruence|]. unfold with_spread. rewrite Ha. reflexivity.
Qed.

Theorem with_spread_none_iff tol rel r (x : list R) :
  with_spread NumR tol rel r x = None <->
  x = [] \/ (almost NumR tol rel (spread NumR x) r = false /\ spread NumR x = 0).
Proof.
  destruct x as [|a x].
  - split; [left; reflexivity|reflexivity].
  - destruct (almost NumR tol rel (spread NumR (a :: x)) r) eqn:Ha.
    + rewrite with_spread_conforming by (assumption || discriminate).
      split; [discriminate|]. intros [H|[H _]]; discriminate.
    + destruct (Req_EM_T (spread NumR (a :: x)) 0) as [E|E].
      * split; [intros _; right; split; [reflexivity|assumption]|]. intros _.
        unfold with_spread. rewrite Ha. cbn [eqb zero NumR].
        apply Reqb_true in E. rewrite E. reflexivity.
      * rewrite with_spread_hit_eq by (assumption || discriminate).
        split; [discriminate|]. intros [H|[_ H]]; [discriminate|contradiction].
Qed.

Lemma with_spread_length tol rel r (x y : list R) :
  with_spread NumR tol rel r x = Some y -> length y = length x.
Proof.
  destruct x as [|a x]; [discriminate|]. unfold with_spread.
  mo_case_almost; [intros H; inversion H; reflexivity|].
  destruct (eqb NumR _ _); [discriminate|]. intros H; injection H as <-.
  rewrite shift_to_mean_length. cbn [length]. f_equal. apply map_length.
Qed.

Theorem with_spread_in_target tol rel r (x y : list R) :
  0 <= tol -> 0 <= rel -> 0 <= r -> with_spread NumR tol rel r x = Some y ->
  almost NumR tol rel (spread NumR y) r = true.
Proof.
  intros Ht Hrel Hr H.
  assert (Hx : x <> []) by (intros ->; discriminate).
  destruct (almost NumR tol rel (spread NumR x) r) eqn:Ha.
  - rewrite with_spread_conforming in H by assumption. inversion H; subst. exact Ha.
  - destruct (Req_EM_T (spread NumR x) 0) as [E|E].
    + assert (with_spread NumR tol rel r x = None) by (apply with_spread_none_iff; right; split; assumption).
      congruence.
    + destruct (with_spread_hits tol rel r x y Hx E Hr Ha H) as [-> _]. apply almost_refl; assumption.
Qed.

Theorem with_spread_idempotent tol rel r (x y : list R) :
  0 <= tol -> 0 <= rel -> 0 <= r -> with_spread NumR tol rel r x = Some y ->
  with_spread NumR tol rel r y = Some y.
Proof.
  intros Ht Hrel Hr H.
  assert (Hy : y <> []).
  { pose proof (with_spread_length _ _ _ _ _ H) as L. destruct y; [|discriminate].
    destruct x; [discriminate H|discriminate L]. }
  apply with_spread_conforming; [assumption|].
  apply (with_spread_in_target tol rel r x y); assumption.
Qed.

(* ------------------------------------------------------------------ 3. normalized *)
Lemma vsum_map_div w (x : list R) : vsum NumR (map (fun v => v / w) x) = vsum NumR x / w.
Proof. unfold Rdiv. apply vsum_map_scale. Qed.

Lemma mo_map_zero (x : list R) : map (fun v => v * 0) x = repeat 0 (length x).
Proof. induction x as [|a x IH]; cbn [map length repeat]; [reflexivity|]. rewrite IH. f_equal. lra. Qed.

Lemma mo_vsum_repeat0 n : vsum NumR (repeat 0 n) = 0.
Proof. induction n as [|n IH]; cbn [repeat]; [apply vsum_nil|]. rewrite vsum_cons, IH. lra. Qed.

Lemma mo_map_abs_repeat0 n : map Rabs (repeat 0 n) = repeat 0 n.
Proof. induction n as [|n IH]; cbn [repeat map]; [reflexivity|]. rewrite IH, Rabs_R0. reflexivity. Qed.

Lemma normalized_unfold tol rel mass (x : list R) :
  normalized NumR tol rel mass x =
  if almost NumR tol rel (vsum NumR x) mass then x
  else if Reqb (vsum NumR (map Rabs x)) 0 then map (fun v => v * 0) x
  else if Reqb (vsum NumR (map (fun v => v / vsum NumR (map Rabs x)) x)) 0 then map (fun v => v * 0) x
  else map (fun v => mass * v / vsum NumR (map (fun v => v / vsum NumR (map Rabs x)) x))
           (map (fun v => v / vsum NumR (map Rabs x)) x).
Proof. reflexivity. Qed.

Theorem normalized_length tol rel mass (x : list R) : length (normalized NumR tol rel mass x) = length x.
Proof.
  rewrite normalized_unfold.
  repeat match goal with |- context [if ?b then _ else _] => destruct b end;
  rewrite ?map_length; reflexivity.
Qed.

Theorem normalized_conforming tol rel mass (x : list R) :
  almost NumR tol rel (vsum NumR x) mass = true -> normalized NumR tol rel mass x = x.
Proof. intros Ha. rewrite normalized_unfold, Ha. reflexivity. Qed.

Lemma mo_norm_sum (S w mass : R) : w <> 0 -> S <> 0 -> (S / w) * (mass / (S / w)) = mass.
Proof. intros. field. split; assumption. Qed.

Theorem normalized_hits tol rel mass (x : list R) :
  almost NumR tol rel (vsum NumR x) mass = false ->
  vsum NumR (map Rabs x) <> 0 -> vsum NumR x <> 0 ->
  vsum NumR (normalized NumR tol rel mass x) = mass.
Proof.
  intros Ha Hw Hs. rewrite normalized_unfold, Ha.
  set (w := vsum NumR (map Rabs x)) in *.
  assert (Hm : vsum NumR x / w <> 0).
  { unfold Rdiv. apply Rmult_integral_contrapositive_currified; [assumption|apply Rinv_neq_0_compat; assumption]. }
  rewrite vsum_map_div.
  apply Reqb_false in Hw. rewrite Hw.
  pose proof Hm as Hm'. apply Reqb_false in Hm'. rewrite Hm'.
  rewrite map_map.
  rewrite (map_ext _ (fun v => v * (/ w * (mass / (vsum NumR x / w))))).
  2:{ intros v. unfold Rdiv. lra. }
  rewrite vsum_map_scale.
  apply Reqb_false in Hw.
  rewrite <- (mo_norm_sum (vsum NumR x) w mass Hw Hs) at 2. unfold Rdiv. lra.
Qed.

Theorem normalized_degenerate_zero tol rel mass (x : list R) :
  almost NumR tol rel (vsum NumR x) mass = false ->
  vsum NumR (map Rabs x) = 0 \/ vsum NumR x = 0 ->
  normalized NumR tol rel mass x = repeat 0 (length x).
Proof.
  intros Ha Hd. rewrite normalized_unfold, Ha.
  destruct (Reqb (vsum NumR (map Rabs x)) 0) eqn:Ew; [apply mo_map_zero|].
  destruct Hd as [Hd|Hd]; [apply Reqb_true in Hd; congruence|].
  rewrite vsum_map_div, Hd.
  replace (0 / vsum NumR (map Rabs x)) with 0 by (unfold Rdiv; lra).
  assert (E : Reqb 0 0 = true) by (apply Reqb_true; reflexivity).
  rewrite E. apply mo_map_zero.
Qed.

(* converse: outside the degenerate cases the sum is [mass], so the zero vector is returned only there *)
Theorem normalized_cases tol rel mass (x : list R) :
  normalized NumR tol rel mass x = x \/
  normalized NumR tol rel mass x = repeat 0 (length x) \/
  vsum NumR (normalized NumR tol rel mass x) = mass.
Proof.
  destruct (almost NumR tol rel (vsum NumR x) mass) eqn:Ha.
  - left. apply normalized_conforming; assumption.
  - destruct (Req_EM_T (vsum NumR (map Rabs x)) 0) as [E|E].
    + right; left. apply normalized_degenerate_zero; auto.
    + destruct (Req_EM_T (vsum NumR x) 0) as [E'|E'].
      * right; left. apply normalized_degenerate_zero; auto.
      * right; right. apply normalized_hits; assumption.
Qed.

Theorem normalized_idempotent tol rel mass (x : list R) :
  0 <= tol -> 0 <= rel ->
  normalized NumR tol rel mass (normalized NumR tol rel mass x) = normalized NumR tol rel mass x.
Proof.
  intros Ht Hr. destruct (normalized_cases tol rel mass x) as [E|[E|E]].
  - rewrite !E. reflexivity.
  - rewrite E. set (n := length x).
    destruct (almost NumR tol rel (vsum NumR (repeat 0 n)) mass) eqn:Ha.
    + apply normalized_conforming; assumption.
    + rewrite normalized_degenerate_zero; [rewrite repeat_length; reflexivity|assumption|].
      right. apply mo_vsum_repeat0.
  - apply normalized_conforming. rewrite E. apply almost_refl; assumption.
Qed.

(* ------------------------------------------------------------------ 4. variance / with_variance *)
Lemma variance_eq (x : list R) :
  variance NumR x = mean NumR (map (fun s => (s - mean NumR x) * (s - mean NumR x)) x).
Proof. reflexivity. Qed.

Lemma mean_nonneg (x : list R) : Forall (fun v => 0 <= v) x -> 0 <= mean NumR x.
Proof.
  intros H. rewrite mean_eq. destruct x as [|a x].
  - rewrite vsum_nil. unfold Rdiv. lra.
  - pose proof (vsum_nonneg _ H). assert (0 < lenT NumR (a :: x)) by (apply lenT_pos; discriminate).
    unfold Rdiv. apply Rmult_le_pos; [assumption|]. apply Rlt_le, Rinv_0_lt_compat; assumption.
Qed.

Theorem variance_nonneg (x : list R) : 0 <= variance NumR x.
Proof.
  rewrite variance_eq. apply mean_nonneg. apply Forall_forall. intros v Hv.
  apply in_map_iff in Hv. destruct Hv as [s [<- _]]. exact (Rle_0_sqr (s - mean NumR x)).
Qed.

Lemma variance_affine c s (x : list R) :
  x <> [] -> variance NumR (map (fun v => v * c + s) x) = variance NumR x * (c * c).
Proof.
  intros Hx. rewrite !variance_eq, mean_affine by assumption. rewrite map_map.
  rewrite <- (mean_scale (c * c) (map (fun s0 => (s0 - mean NumR x) * (s0 - mean NumR x)) x)), map_map.
  f_equal. apply map_ext. intros v. lra.
Qed.

Section WithVariance.
  Variable sqrtf : R -> R.
  Hypothesis sqrtf_sq : forall a, 0 <= a -> sqrtf a * sqrtf a = a.

  Lemma with_variance_hit_eq tol rel v (x : list R) :
    x <> [] -> almost NumR tol rel (variance NumR x) v = false -> variance NumR x <> 0 ->
    with_variance NumR sqrtf tol rel v x =
    Some (shift_to_mean NumR (mean NumR x) (map (fun s => s * sqrtf (v / variance NumR x)) x)).
  Proof.
    intros Hx Ha Hs. destruct x as [|a x]; [congruence|].
    unfold with_variance. rewrite Ha.
    apply Reqb_false in Hs. cbn [eqb zero NumR]. rewrite Hs. reflexivity.
  Qed.

  Theorem with_variance_hits tol rel v (x y : list R) :
    x <> [] -> variance NumR x <> 0 -> 0 <= v -> almost NumR tol rel (variance NumR x) v = false ->
    with_variance NumR sqrtf tol rel v x = Some y ->
    variance NumR y = v /\ mean NumR y = mean NumR x.
  Proof.
    intros Hx Hs Hv Ha H. rewrite with_variance_hit_eq in H by assumption.
    injection H as <-. split.
    - rewrite mo_rescale_eq, variance_affine by assumption.
      pose proof (variance_nonneg x) as Hn.
      assert (Hp : 0 < variance NumR x) by lra.
      rewrite sqrtf_sq.
      + unfold Rdiv. rewrite (Rmult_comm v), <- Rmult_assoc, Rinv_r by assumption. lra.
      + unfold Rdiv. apply Rmult_le_pos; [assumption|]. apply Rlt_le, Rinv_0_lt_compat; assumption.
    - apply shift_to_mean_mean. apply mo_map_nonnil; assumption.
  Qed.

  Theorem with_variance_conforming tol rel v (x : list R) :
    x <> [] -> almost NumR tol rel (variance NumR x) v = true -> with_variance NumR sqrtf tol rel v x = Some x.
  Proof.
    intros Hx Ha. destruct x as [|a x]; [congruence|]. unfold with_variance. rewrite Ha. reflexivity.
  Qed.

  (* a constant vector (variance 0) is kept when the target is 0 and rejected (nan) otherwise *)
  Theorem with_variance_degenerate tol rel v (x : list R) :
    x <> [] -> almost NumR tol rel (variance NumR x) v = false -> variance NumR x = 0 ->
    with_variance NumR sqrtf tol rel v x = if Reqb v 0 then Some x else None.
  Proof.
    intros Hx Ha Hs. destruct x as [|a x]; [congruence|].
    unfold with_variance. rewrite Ha. apply Reqb_true in Hs. cbn [eqb zero NumR]. rewrite Hs. reflexivity.
  Qed.

  Theorem with_variance_none_iff tol rel v (x : list R) :
    with_variance NumR sqrtf tol rel v x = None <->
    x = [] \/ (almost NumR tol rel (variance NumR x) v = false /\ variance NumR x = 0 /\ v <> 0).
  Proof.
    destruct x as [|a x].
    - split; [left; reflexivity|reflexivity].
    - destruct (almost NumR tol rel (variance NumR (a :: x)) v) eqn:Ha.
      + rewrite with_variance_conforming by (assumption || discriminate).
        split; [discriminate|]. intros [H|[H _]]; discriminate.
      + destruct (Req_EM_T (variance NumR (a :: x)) 0) as [E|E].
        * rewrite with_variance_degenerate by (assumption || discriminate).
          destruct (Reqb v 0) eqn:Ev.
          -- apply Reqb_true in Ev. split; [discriminate|]. intros [H|[_ [_ H]]]; [discriminate|contradiction].
          -- apply Reqb_false in Ev. split; auto.
        * rewrite with_variance_hit_eq by (assumption || discriminate).
          split; [discriminate|]. intros [H|[_ [H _]]]; [discriminate|contradiction].
  Qed.

  Lemma with_variance_cases tol rel v (x y : list R) :
    0 <= v -> with_variance NumR sqrtf tol rel v x = Some y ->
    y = x \/ (variance NumR y = v /\ mean NumR y = mean NumR x).
  Proof.
    intros Hv H.
    assert (Hx : x <> []) by (intros ->; discriminate).
    destruct (almost NumR tol rel (variance NumR x) v) eqn:Ha.
    - rewrite with_variance_conforming in H by assumption. injection H as <-. left; reflexivity.
    - destruct (Req_EM_T (variance NumR x) 0) as [E|E].
      + rewrite with_variance_degenerate in H by assumption.
        destruct (Reqb v 0); [|discriminate]. injection H as <-. left; reflexivity.
      + right. apply (with_variance_hits tol rel v x y); assumption.
  Qed.

  Lemma with_variance_length tol rel v (x y : list R) :
    with_variance NumR sqrtf tol rel v x = Some y -> length y = length x.
  Proof.
    intros H.
    assert (Hx : x <> []) by (intros ->; discriminate).
    destruct (almost NumR tol rel (variance NumR x) v) eqn:Ha.
    - rewrite with_variance_conforming in H by assumption. injection H as <-. reflexivity.
    - destruct (Req_EM_T (variance NumR x) 0) as [E|E].
      + rewrite with_variance_degenerate in H by assumption.
        destruct (Reqb v 0); [|discriminate]. injection H as <-. reflexivity.
      + rewrite with_variance_hit_eq in H by assumption. injection H as <-.
        rewrite shift_to_mean_length. apply map_length.
  Qed.

  Theorem with_variance_idempotent tol rel v (x y : list R) :
    0 <= tol -> 0 <= rel -> 0 <= v ->
    with_variance NumR sqrtf tol rel v x = Some y -> with_variance NumR sqrtf tol rel v y = Some y.
  Proof.
    intros Ht Hr Hv H.
    destruct (with_variance_cases tol rel v x y Hv H) as [->|[E _]]; [assumption|].
    assert (Hy : y <> []).
    { pose proof (with_variance_length _ _ _ _ _ H) as L. destruct y; [|discriminate].
      destruct x; [discriminate H|discriminate L]. }
    apply with_variance_conforming; [assumption|]. rewrite E. apply almost_refl; assumption.
  Qed.
End WithVariance.

(* the hypothesis on the square root is satisfiable: the square root of the standard library *)
Example with_variance_sqrt_instance tol rel v (x y : list R) :
  x <> [] -> variance NumR x <> 0 -> 0 <= v -> almost NumR tol rel (variance NumR x) v = false ->
  with_variance NumR sqrt tol rel v x = Some y ->
  variance NumR y = v /\ mean NumR y = mean NumR x.
Proof. apply with_variance_hits. exact sqrt_sqrt. Qed.

(* ================================================================== Part 2: unique_list *)
Local Close Scope R_scope.
Local Open Scope nat_scope.

Lemma mem_In (v : R) (l : list R) : mem NumR v l = true <-> In v l.
Proof.
  unfold mem; cbn [eqb NumR]. rewrite existsb_exists. split.
  - intros [u [Hu E]]. apply Reqb_true in E. subst; assumption.
  - intros H. exists v. split; [assumption|]. apply Reqb_true; reflexivity.
Qed.

Lemma mem_not_In (v : R) (l : list R) : mem NumR v l = false <-> ~ In v l.
Proof.
  rewrite <- mem_In. destruct (mem NumR v l); split; intros; congruence.
Qed.

Lemma mo_mem_dec (v : R) (l : list R) : In v l \/ ~ In v l.
Proof. destruct (mem NumR v l) eqn:E; [left; apply mem_In|right; apply mem_not_In]; assumption. Qed.

Lemma mo_dedup_step seen a (r : list R) :
  dedup_by Reqb seen (a :: r) = if mem NumR a seen then dedup_by Reqb seen r else a :: dedup_by Reqb (a :: seen) r.
Proof. reflexivity. Qed.

Lemma mo_dedup_in seen (l : list R) v : In v (dedup_by Reqb seen l) <-> In v l /\ ~ In v seen.
Proof.
  revert seen; induction l as [|a r IH]; intros seen.
  - cbn. tauto.
  - rewrite mo_dedup_step. destruct (mem NumR a seen) eqn:E.
    + apply mem_In in E. rewrite IH. cbn [In]. split; [tauto|].
      intros [[->|H] H']; [contradiction|tauto].
    + apply mem_not_In in E. cbn [In]. rewrite IH. cbn [In]. split.
      * intros [->|[H H']]; [tauto|]. split; [tauto|]. intros H''; apply H'; tauto.
      * intros [[->|H] H']; [tauto|]. destruct (Req_EM_T a v) as [->|N]; [tauto|].
        right. split; [assumption|]. intros [?|?]; [contradiction|tauto].
Qed.

Lemma mo_dedup_nodup seen (l : list R) : NoDup (dedup_by Reqb seen l).
Proof.
  revert seen; induction l as [|a r IH]; intros seen.
  - constructor.
  - rewrite mo_dedup_step. destruct (mem NumR a seen); [apply IH|].
    constructor; [|apply IH]. rewrite mo_dedup_in. cbn [In]. tauto.
Qed.

Lemma mo_dedup_id seen (l : list R) :
  NoDup l -> (forall v, In v l -> ~ In v seen) -> dedup_by Reqb seen l = l.
Proof.
  revert seen; induction l as [|a r IH]; intros seen Hn Hd; [reflexivity|].
  rewrite mo_dedup_step. inversion Hn; subst.
  assert (E : mem NumR a seen = false) by (apply mem_not_In, Hd; left; reflexivity).
  rewrite E. f_equal. apply IH; [assumption|].
  intros v Hv [<-|H]; [contradiction|]. apply (Hd v); [right; assumption|assumption].
Qed.

Lemma mo_dedup_length_le seen (l : list R) : length (dedup_by Reqb seen l) <= length l.
Proof.
  revert seen; induction l as [|a r IH]; intros seen; [apply le_n|].
  rewrite mo_dedup_step. destruct (mem NumR a seen); cbn [length].
  - specialize (IH seen). lia.
  - specialize (IH (a :: seen)). lia.
Qed.

Lemma dedupT_eq (l : list R) : dedupT NumR l = dedup_by Reqb [] l.
Proof. reflexivity. Qed.

Lemma dedupT_in (l : list R) v : In v (dedupT NumR l) <-> In v l.
Proof. rewrite dedupT_eq, mo_dedup_in. cbn [In]. tauto. Qed.

Lemma dedupT_nodup (l : list R) : NoDup (dedupT NumR l).
Proof. apply mo_dedup_nodup. Qed.

Lemma dedupT_id (l : list R) : NoDup l -> dedupT NumR l = l.
Proof. intros H. apply mo_dedup_id; auto. Qed.

Lemma diffT_in (a b : list R) v : In v (diffT NumR a b) <-> In v a /\ ~ In v b.
Proof.
  unfold diffT. rewrite filter_In. rewrite negb_true_iff, mem_not_In. tauto.
Qed.

Lemma diffT_nodup (a b : list R) : NoDup a -> NoDup (diffT NumR a b).
Proof. apply NoDup_filter. Qed.

Lemma subsetT_incl (a b : list R) : subsetT NumR a b = true <-> incl a b.
Proof.
  unfold subsetT. rewrite forallb_forall. unfold incl.
  split; intros H v Hv; [apply mem_In|apply mem_In]; auto.
Qed.

Lemma same_set_iff (a b : list R) :
  same_set NumR a b = true -> forall v, In v a <-> In v b.
Proof.
  unfold same_set. rewrite !andb_true_iff, !subsetT_incl. intros [[_ H1] H2] v. split; auto.
Qed.

Lemma same_set_refl (a : list R) : same_set NumR a a = true.
Proof.
  unfold same_set. rewrite !andb_true_iff, !subsetT_incl, Nat.eqb_eq.
  repeat split; auto using incl_refl.
Qed.

(* ------------------------------------------------------------------ fill_dups *)
Lemma fill_dups_step seen pool a (r : list R) :
  fill_dups NumR seen pool (a :: r) =
  if mem NumR a seen then
    match pool with [] => None | v :: pool' => option_map (cons v) (fill_dups NumR seen pool' r) end
  else option_map (cons a) (fill_dups NumR (a :: seen) pool r).
Proof. reflexivity. Qed.

Lemma mo_option_map_some {A B} (f : A -> B) o y : option_map f o = Some y -> exists z, o = Some z /\ y = f z.
Proof. destruct o; cbn; intros H; inversion H; eauto. Qed.

Lemma fill_dups_length seen pool (l y : list R) :
  fill_dups NumR seen pool l = Some y -> length y = length l.
Proof.
  revert seen pool y; induction l as [|a r IH]; intros seen pool y.
  - cbn. intros H; inversion H; reflexivity.
  - rewrite fill_dups_step. destruct (mem NumR a seen).
    + destruct pool as [|v pool']; [discriminate|]. intros H.
      apply mo_option_map_some in H. destruct H as [z [H ->]]. cbn [length]. f_equal. eapply IH; eauto.
    + intros H. apply mo_option_map_some in H. destruct H as [z [H ->]]. cbn [length]. f_equal. eapply IH; eauto.
Qed.

(* the invariant: [pool] has no duplicates and is disjoint from [seen] and from the rest of the input;
   every output is a fresh input element or a popped pool element *)
Lemma fill_dups_inv seen pool (l y : list R) :
  NoDup pool -> (forall v, In v pool -> ~ In v seen) -> (forall v, In v pool -> ~ In v l) ->
  fill_dups NumR seen pool l = Some y ->
  NoDup y /\ (forall v, In v y -> ~ In v seen) /\ (forall v, In v y -> In v l \/ In v pool).
Proof.
  revert seen pool y; induction l as [|a r IH]; intros seen pool y Hn Hs Hl.
  - cbn. intros H; inversion H; subst. split; [constructor|]. split; intros v [].
  - rewrite fill_dups_step. destruct (mem NumR a seen) eqn:E.
    + destruct pool as [|v pool']; [discriminate|]. intros H.
      apply mo_option_map_some in H. destruct H as [z [H ->]].
      inversion Hn; subst.
      destruct (IH seen pool' z) as [Z1 [Z2 Z3]]; auto.
      { intros u Hu. apply Hs. right; assumption. }
      { intros u Hu Hr. apply (Hl u); [right; assumption|right; assumption]. }
      split; [|split].
      * constructor; [|assumption]. intros Hz. destruct (Z3 v Hz) as [Hr|Hp]; [|contradiction].
        apply (Hl v); [left; reflexivity|right; assumption].
      * intros u [<-|Hu]; [apply Hs; left; reflexivity|apply Z2; assumption].
      * intros u [<-|Hu]; [right; left; reflexivity|].
        destruct (Z3 u Hu); [left; right; assumption|right; right; assumption].
    + apply mem_not_In in E. intros H.
      apply mo_option_map_some in H. destruct H as [z [H ->]].
      destruct (IH (a :: seen) pool z) as [Z1 [Z2 Z3]]; auto.
      { intros u Hu [<-|Hs']; [apply (Hl a); [assumption|left; reflexivity]|apply (Hs u); assumption]. }
      { intros u Hu Hr. apply (Hl u); [assumption|right; assumption]. }
      split; [|split].
      * constructor; [|assumption]. intros Hz. apply (Z2 a Hz). left; reflexivity.
      * intros u [<-|Hu]; [assumption|]. intros Hs'. apply (Z2 u Hu). right; assumption.
      * intros u [<-|Hu]; [left; left; reflexivity|].
        destruct (Z3 u Hu); [left; right; assumption|right; assumption].
Qed.

Lemma fill_dups_first_kept seen pool (l y : list R) p d :
  fill_dups NumR seen pool l = Some y -> p < length l ->
  ~ In (nth p l d) (firstn p l) -> ~ In (nth p l d) seen -> nth p y d = nth p l d.
Proof.
  revert seen pool y p; induction l as [|a r IH]; intros seen pool y p H Hp Hf Hs.
  - cbn in Hp. lia.
  - rewrite fill_dups_step in H. destruct p as [|p].
    + cbn [nth] in *. apply mem_not_In in Hs. rewrite Hs in H.
      apply mo_option_map_some in H. destruct H as [z [_ ->]]. reflexivity.
    + cbn [nth firstn length In] in *. destruct (mem NumR a seen) eqn:E.
      * destruct pool as [|v pool']; [discriminate|].
        apply mo_option_map_some in H. destruct H as [z [H ->]]. cbn [nth].
        apply (IH seen pool'); [assumption|lia|tauto|assumption].
      * apply mo_option_map_some in H. destruct H as [z [H ->]]. cbn [nth].
        apply (IH (a :: seen) pool); [assumption|lia|tauto|]. cbn [In]. intros [X|X]; [apply Hf; left; exact X|tauto].
Qed.

Lemma fill_dups_nodup_id seen pool (l : list R) :
  NoDup l -> (forall v, In v l -> ~ In v seen) -> fill_dups NumR seen pool l = Some l.
Proof.
  revert seen; induction l as [|a r IH]; intros seen Hn Hs; [reflexivity|].
  rewrite fill_dups_step. inversion Hn; subst.
  assert (E : mem NumR a seen = false) by (apply mem_not_In, Hs; left; reflexivity).
  rewrite E, IH; [reflexivity|assumption|].
  intros v Hv [<-|H]; [contradiction|]. apply (Hs v); [right; assumption|assumption].
Qed.

(* exactly one pool element is needed per repeated entry *)
Lemma fill_dups_none_iff seen pool (l : list R) :
  fill_dups NumR seen pool l = None <-> length pool < length l - length (dedup_by Reqb seen l).
Proof.
  revert seen pool; induction l as [|a r IH]; intros seen pool.
  - cbn. split; [discriminate|lia].
  - rewrite fill_dups_step, mo_dedup_step. destruct (mem NumR a seen).
    + pose proof (mo_dedup_length_le seen r). destruct pool as [|v pool'].
      * cbn [length]. split; [lia|reflexivity].
      * specialize (IH seen pool'). cbn [length].
        destruct (fill_dups NumR seen pool' r); cbn [option_map].
        -- split; [discriminate|]. intros. assert (Some l = None) by (apply IH; lia). discriminate.
        -- split; [|reflexivity]. intros _. assert (length pool' < length r - length (dedup_by Reqb seen r)) by (apply IH; reflexivity). lia.
    + specialize (IH (a :: seen) pool). cbn [length].
      destruct (fill_dups NumR (a :: seen) pool r); cbn [option_map].
      * split; [discriminate|]. intros. assert (Some l = None) by (apply IH; lia). discriminate.
      * split; [|reflexivity]. intros _. assert (length pool < length r - length (dedup_by Reqb (a :: seen) r)) by (apply IH; reflexivity). lia.
Qed.

(* ------------------------------------------------------------------ unique_list *)
Lemma unique_list_some full sh (x y : list R) :
  unique_list NumR full sh x = Some y ->
  incl x full /\ length x <= length full /\
  same_set NumR sh (diffT NumR (dedupT NumR full) (dedupT NumR x)) = true /\
  fill_dups NumR [] (rev sh) x = Some y.
Proof.
  unfold unique_list.
  destruct (subsetT NumR (dedupT NumR x) full) eqn:E1; cbn [negb]; [|discriminate].
  match goal with |- context [Nat.ltb ?a ?b] => change (Nat.ltb a b) with (Nat.ltb (length full) (length x)) end.
  destruct (Nat.ltb (length full) (length x)) eqn:E2; [discriminate|].
  destruct (same_set NumR sh _) eqn:E3; cbn [negb]; [|discriminate].
  intros H. apply Nat.ltb_ge in E2. apply subsetT_incl in E1.
  repeat split; auto. intros v Hv. apply E1, dedupT_in; assumption.
Qed.

Lemma mo_pool_props full sh (x : list R) :
  same_set NumR sh (diffT NumR (dedupT NumR full) (dedupT NumR x)) = true ->
  forall v, In v (rev sh) -> In v full /\ ~ In v x.
Proof.
  intros H v Hv. apply in_rev in Hv. apply (same_set_iff _ _ H) in Hv.
  apply diffT_in in Hv. rewrite !dedupT_in in Hv. exact Hv.
Qed.

Theorem unique_length full sh (x y : list R) :
  unique_list NumR full sh x = Some y -> length y = length x.
Proof. intros H. apply unique_list_some in H. eapply fill_dups_length, H. Qed.

(* [shuffled] is a rearrangement of a set, hence duplicate-free; the model's [same_set] check alone does not enforce it *)
Theorem unique_nodup full sh (x y : list R) :
  NoDup sh -> unique_list NumR full sh x = Some y -> NoDup y.
Proof.
  intros Hn H. apply unique_list_some in H. destruct H as [_ [_ [Hs Hf]]].
  apply fill_dups_inv in Hf.
  - apply Hf.
  - apply NoDup_rev; assumption.
  - intros v _ [].
  - intros v Hv. apply (mo_pool_props _ _ _ Hs v Hv).
Qed.

Theorem unique_in_full full sh (x y : list R) :
  unique_list NumR full sh x = Some y -> forall v, In v y -> In v full.
Proof.
  intros H. apply unique_list_some in H. destruct H as [Hi [_ [Hs Hf]]].
  assert (G : forall seen pool (l z : list R), fill_dups NumR seen pool l = Some z ->
              forall v, In v z -> In v l \/ In v pool).
  { intros seen pool l; revert seen pool; induction l as [|a r IH]; intros seen pool z.
    - cbn. intros E; inversion E; subst. intros v [].
    - rewrite fill_dups_step. destruct (mem NumR a seen).
      + destruct pool as [|u pool']; [discriminate|]. intros E.
        apply mo_option_map_some in E. destruct E as [w [E ->]]. intros v [<-|Hv].
        * right; left; reflexivity.
        * destruct (IH _ _ _ E v Hv); [left; right; assumption|right; right; assumption].
      + intros E. apply mo_option_map_some in E. destruct E as [w [E ->]]. intros v [<-|Hv].
        * left; left; reflexivity.
        * destruct (IH _ _ _ E v Hv); [left; right; assumption|right; assumption]. }
  intros v Hv. destruct (G _ _ _ _ Hf v Hv) as [Hx|Hp]; [apply Hi; assumption|].
  apply (mo_pool_props _ _ _ Hs v Hp).
Qed.

(* replaced entries are values of [full] that did not occur in [x] *)
Theorem unique_new_values_fresh full sh (x y : list R) :
  unique_list NumR full sh x = Some y -> forall v, In v y -> In v x \/ (In v full /\ ~ In v x /\ In v sh).
Proof.
  intros H v Hv. destruct (mo_mem_dec v x) as [Hx|Hx]; [left; assumption|right].
  pose proof (unique_in_full _ _ _ _ H v Hv) as Hfull.
  apply unique_list_some in H. destruct H as [Hi [_ [Hs Hf]]].
  repeat split; auto.
  assert (G : forall seen pool (l z : list R), fill_dups NumR seen pool l = Some z ->
              forall v, In v z -> In v l \/ In v pool).
  { intros seen pool l; revert seen pool; induction l as [|a r IH]; intros seen pool z.
    - cbn. intros E; inversion E; subst. intros u [].
    - rewrite fill_dups_step. destruct (mem NumR a seen).
      + destruct pool as [|u pool']; [discriminate|]. intros E.
        apply mo_option_map_some in E. destruct E as [w [E ->]]. intros t [<-|Ht].
        * right; left; reflexivity.
        * destruct (IH _ _ _ E t Ht); [left; right; assumption|right; right; assumption].
      + intros E. apply mo_option_map_some in E. destruct E as [w [E ->]]. intros t [<-|Ht].
        * left; left; reflexivity.
        * destruct (IH _ _ _ E t Ht); [left; right; assumption|right; assumption]. }
  destruct (G _ _ _ _ Hf v Hv) as [?|Hp]; [contradiction|]. apply in_rev; assumption.
Qed.

Theorem unique_first_occurrences_kept full sh (x y : list R) p d :
  unique_list NumR full sh x = Some y -> p < length x ->
  ~ In (nth p x d) (firstn p x) -> nth p y d = nth p x d.
Proof.
  intros H Hp Hf. apply unique_list_some in H. destruct H as [_ [_ [_ H]]].
  apply (fill_dups_first_kept [] (rev sh) x y p d H Hp Hf). intros [].
Qed.

Theorem unique_conforming full sh (x y : list R) :
  unique_list NumR full sh x = Some y -> NoDup x -> y = x.
Proof.
  intros H Hn. apply unique_list_some in H. destruct H as [_ [_ [_ H]]].
  rewrite fill_dups_nodup_id in H; [congruence|assumption|]. intros v _ [].
Qed.

(* a duplicate-free vector of allowed values is a fixed point, whatever the (admissible) shuffle *)
Theorem unique_fixed_point full sh (x : list R) :
  NoDup x -> Forall (fun v => In v full) x -> length x <= length full ->
  same_set NumR sh (diffT NumR (dedupT NumR full) (dedupT NumR x)) = true ->
  unique_list NumR full sh x = Some x.
Proof.
  intros Hn Hf Hl Hs. unfold unique_list.
  assert (E1 : subsetT NumR (dedupT NumR x) full = true).
  { apply subsetT_incl. intros v Hv. apply (proj1 (dedupT_in _ _)) in Hv. rewrite Forall_forall in Hf. exact (Hf v Hv). }
  rewrite E1. cbn [negb].
  assert (E2 : Nat.ltb (length full) (length x) = false) by (apply Nat.ltb_ge; assumption).
  match goal with |- context [Nat.ltb ?a ?b] => change (Nat.ltb a b) with (Nat.ltb (length full) (length x)) end.
  rewrite E2, Hs. cbn [negb]. apply fill_dups_nodup_id; [assumption|]. intros v _ [].
Qed.

Theorem unique_idempotent full sh sh' (x y : list R) :
  NoDup sh -> unique_list NumR full sh x = Some y ->
  same_set NumR sh' (diffT NumR (dedupT NumR full) (dedupT NumR y)) = true ->
  unique_list NumR full sh' y = Some y.
Proof.
  intros Hn H Hs'. apply unique_fixed_point.
  - apply (unique_nodup full sh x y); assumption.
  - apply Forall_forall. apply (unique_in_full full sh x y H).
  - rewrite (unique_length _ _ _ _ H). apply unique_list_some in H. tauto.
  - assumption.
Qed.

(* an admissible second shuffle always exists *)
Corollary unique_idempotent_exists full sh (x y : list R) :
  NoDup sh -> unique_list NumR full sh x = Some y ->
  exists sh', unique_list NumR full sh' y = Some y.
Proof.
  intros Hn H. exists (diffT NumR (dedupT NumR full) (dedupT NumR y)).
  apply (unique_idempotent full sh _ x y Hn H). apply same_set_refl.
Qed.

Theorem unique_none_cases full sh (x : list R) :
  unique_list NumR full sh x = None <->
  (exists v, In v x /\ ~ In v full) \/
  length full < length x \/
  same_set NumR sh (diffT NumR (dedupT NumR full) (dedupT NumR x)) = false \/
  length sh < length x - length (dedupT NumR x).
Proof.
  unfold unique_list.
  destruct (subsetT NumR (dedupT NumR x) full) eqn:E1; cbn [negb].
  2:{ split; [intros _|reflexivity]. left.
      unfold subsetT in E1.
      assert (G : forall l : list R, forallb (fun v => mem NumR v full) l = false -> exists v, In v l /\ ~ In v full).
      { induction l as [|a r IH]; cbn [forallb]; [discriminate|].
        destruct (mem NumR a full) eqn:Ea; cbn [andb].
        - intros Hr. destruct (IH Hr) as [v [? ?]]. exists v. split; [right; assumption|assumption].
        - intros _. exists a. split; [left; reflexivity|apply mem_not_In; assumption]. }
      destruct (G _ E1) as [v [Hv Hn]]. exists v. split; [apply dedupT_in; assumption|assumption]. }
  apply subsetT_incl in E1.
  assert (N1 : ~ exists v, In v x /\ ~ In v full).
  { intros [v [Hv Hn]]. apply Hn, E1, dedupT_in; assumption. }
  match goal with |- context [Nat.ltb ?a ?b] => change (Nat.ltb a b) with (Nat.ltb (length full) (length x)) end.
  destruct (Nat.ltb (length full) (length x)) eqn:E2.
  { apply Nat.ltb_lt in E2. split; [intros _; right; left; assumption|reflexivity]. }
  apply Nat.ltb_ge in E2.
  destruct (same_set NumR sh _) eqn:E3; cbn [negb].
  2:{ split; [intros _; right; right; left; reflexivity|reflexivity]. }
  rewrite fill_dups_none_iff, rev_length, dedupT_eq.
  split; [intros H; right; right; right; assumption|].
  intros [H|[H|[H|H]]]; [contradiction|lia|discriminate|assumption].
Qed.

(* evaluation of [Reqb] on numerals, to run the model on concrete real inputs *)
Ltac mo_Reqb_eval :=
  repeat match goal with
  | |- context [Reqb ?a ?b] =>
      first [ replace (Reqb a b) with true by (symmetry; apply Reqb_true; lra)
            | replace (Reqb a b) with false by (symmetry; apply Reqb_false; lra) ]
  end.
Ltac mo_run := repeat (cbn; mo_Reqb_eval).

(* without [NoDup sh] the result can contain duplicates: the model's [same_set] compares sets only *)
Lemma unique_nodup_refuted :
  exists full sh x y, unique_list NumR full sh x = Some y /\ ~ NoDup y.
Proof.
  exists [1; 2; 3]%R, [2; 1; 1]%R, [3; 3; 3]%R, [3; 1; 1]%R. split.
  - unfold unique_list, same_set, subsetT, diffT, dedupT, mem. mo_run. reflexivity.
  - intros H. inversion H as [|? ? _ H']; subst. inversion H' as [|? ? N _]; subst. apply N. left; reflexivity.
Qed.

(* when [full] itself has repeated values the pool can run dry (Python: IndexError, pop from empty list) *)
Lemma unique_pop_empty_example : unique_list NumR [1; 1]%R [] [1; 1]%R = None.
Proof. unfold unique_list, same_set, subsetT, diffT, dedupT, mem. mo_run. reflexivity. Qed.

(* success: enough distinct allowed values (always the case when [full] has no repeated values) *)
Theorem unique_succeeds full sh (x : list R) :
  incl x full -> length x <= length (dedupT NumR full) ->
  same_set NumR sh (diffT NumR (dedupT NumR full) (dedupT NumR x)) = true ->
  exists y, unique_list NumR full sh x = Some y.
Proof.
  intros Hi Hl Hs.
  destruct (unique_list NumR full sh x) as [y|] eqn:E; [exists y; reflexivity|exfalso].
  apply unique_none_cases in E. destruct E as [[v [Hv Hn]]|[E|[E|E]]].
  - apply Hn, Hi, Hv.
  - pose proof (mo_dedup_length_le [] full) as L. rewrite <- dedupT_eq in L.
    change (T NumR) with R in *. lia.
  - congruence.
  - set (D := diffT NumR (dedupT NumR full) (dedupT NumR x)) in *.
    assert (L1 : length (dedupT NumR sh) <= length sh) by apply mo_dedup_length_le.
    assert (L2 : length (dedupT NumR sh) = length (dedupT NumR D)).
    { unfold same_set in Hs. rewrite !andb_true_iff in Hs. destruct Hs as [[Hs _] _].
      apply Nat.eqb_eq in Hs. exact Hs. }
    assert (L3 : dedupT NumR D = D).
    { apply dedupT_id. apply diffT_nodup, dedupT_nodup. }
    assert (L4 : length (dedupT NumR full) <= length (D ++ dedupT NumR x)).
    { apply NoDup_incl_length; [apply dedupT_nodup|]. intros v Hv. apply in_or_app.
      destruct (mo_mem_dec v (dedupT NumR x)); [right; assumption|left].
      apply diffT_in. split; assumption. }
    rewrite app_length in L4. rewrite L3 in L2. lia.
Qed.

Corollary unique_succeeds_nodup_full full sh (x : list R) :
  NoDup full -> incl x full -> length x <= length full ->
  same_set NumR sh (diffT NumR (dedupT NumR full) (dedupT NumR x)) = true ->
  exists y, unique_list NumR full sh x = Some y.
Proof.
  intros Hn Hi Hl Hs. apply unique_succeeds; try assumption. rewrite dedupT_id; assumption.
Qed.

(* ================================================================== Part 3: impose_as *)
Lemma mo_set_nth_length {A} (l : list A) i v : length (set_nth l i v) = length l.
Proof.
  revert i; induction l as [|a r IH]; intros i; [reflexivity|].
  destruct i; cbn [set_nth length]; [reflexivity|]. rewrite IH. reflexivity.
Qed.

Lemma mo_set_nth_other {A} (l : list A) i p v d : p <> i -> nth p (set_nth l i v) d = nth p l d.
Proof.
  revert i p; induction l as [|a r IH]; intros i p H; [reflexivity|].
  destruct i, p; cbn [set_nth nth]; try reflexivity; try congruence.
  apply IH. congruence.
Qed.

Lemma mo_set_nth_same {A} (l : list A) i v d : i < length l -> nth i (set_nth l i v) d = v.
Proof.
  revert i; induction l as [|a r IH]; intros i H; [cbn in H; lia|].
  destruct i; cbn [set_nth nth]; [reflexivity|]. apply IH. cbn in H. lia.
Qed.

Lemma mo_set_nth_twice {A} (l : list A) i v w : set_nth (set_nth l i v) i w = set_nth l i w.
Proof.
  revert i; induction l as [|a r IH]; intros i; [reflexivity|].
  destruct i; cbn [set_nth]; [reflexivity|]. rewrite IH. reflexivity.
Qed.

Lemma mo_norm_idx_lt n z p : norm_idx n z = Some p -> p < n.
Proof.
  unfold norm_idx.
  destruct ((0 <=? z) && (z <? Z.of_nat n))%Z eqn:E1.
  - intros H; inversion H; subst. apply andb_true_iff in E1. destruct E1 as [A B].
    apply Z.leb_le in A. apply Z.ltb_lt in B. lia.
  - destruct ((z <? 0) && (- Z.of_nat n <=? z))%Z eqn:E2; [|discriminate].
    intros H; inversion H; subst. apply andb_true_iff in E2. destruct E2 as [A B].
    apply Z.ltb_lt in A. apply Z.leb_le in B. lia.
Qed.

Ltac mo_case_norm :=
  match goal with |- context [match norm_idx ?n ?z with _ => _ end] => destruct (norm_idx n z) eqn:?Hnorm end.

Lemma copy_entry_length (x : list R) k i : length (copy_entry NumR x k i) = length x.
Proof.
  unfold copy_entry. mo_case_norm; [|reflexivity].
  mo_case_norm; [|reflexivity]. apply mo_set_nth_length.
Qed.

Lemma copy_entry_other (x : list R) k i p d :
  norm_idx (length x) k <> Some p -> nth p (copy_entry NumR x k i) d = nth p x d.
Proof.
  unfold copy_entry. intros H. mo_case_norm; [|reflexivity].
  mo_case_norm; [|reflexivity]. apply mo_set_nth_other. change (T NumR) with R in *. congruence.
Qed.

Lemma bump_length off (x : list R) i : length (bump NumR off x i) = length x.
Proof. unfold bump. mo_case_norm; [|reflexivity]. apply mo_set_nth_length. Qed.

Lemma bump_other off (x : list R) i p d :
  norm_idx (length x) i <> Some p -> nth p (bump NumR off x i) d = nth p x d.
Proof.
  unfold bump. intros H. mo_case_norm; [|reflexivity].
  apply mo_set_nth_other. change (T NumR) with R in *. congruence.
Qed.

(* a fold of length-preserving writes that never address position p *)
Lemma mo_fold_writes {B} (f : list R -> B -> list R) (tgt : B -> Z) (bs : list B) (x : list R) p d :
  (forall a b, length (f a b) = length a) ->
  (forall a b, norm_idx (length a) (tgt b) <> Some p -> nth p (f a b) d = nth p a d) ->
  (forall b, In b bs -> norm_idx (length x) (tgt b) <> Some p) ->
  length (fold_left f bs x) = length x /\ nth p (fold_left f bs x) d = nth p x d.
Proof.
  intros Hl Hn. revert x; induction bs as [|b bs IH]; intros x Hb; [split; reflexivity|].
  cbn [fold_left]. destruct (IH (f x b)) as [L1 L2].
  - intros b' Hb'. rewrite Hl. apply Hb. right; assumption.
  - rewrite L1, L2, Hl, Hn; [split; reflexivity|]. apply Hb. left; reflexivity.
Qed.

Lemma mo_fold_length {B} (f : list R -> B -> list R) (bs : list B) (x : list R) :
  (forall a b, length (f a b) = length a) -> length (fold_left f bs x) = length x.
Proof.
  intros Hl. revert x; induction bs as [|b bs IH]; intros x; [reflexivity|].
  cbn [fold_left]. rewrite IH, Hl. reflexivity.
Qed.

Lemma mo_dedupZ_in seen l z : In z (dedup_by Z.eqb seen l) -> In z l.
Proof.
  revert seen; induction l as [|a r IH]; intros seen; [intros []|].
  cbn [dedup_by]. destruct (existsb (Z.eqb a) seen).
  - intros H. right. eapply IH; eauto.
  - intros [<-|H]; [left; reflexivity|right; eapply IH; eauto].
Qed.

Lemma offset_loop_length fuel off pairs (x y : list R) :
  offset_loop NumR fuel off pairs x = Some y -> length y = length x.
Proof.
  revert pairs x; induction fuel as [|f IH]; intros pairs x.
  - destruct pairs; cbn; [intros H; inversion H; reflexivity|discriminate].
  - destruct pairs as [|pr pairs]; [cbn; intros H; inversion H; reflexivity|].
    cbn [offset_loop]. intros H. apply IH in H. rewrite H.
    apply mo_fold_length. intros; apply bump_length.
Qed.

Lemma offset_loop_other fuel off pairs (x y : list R) p d :
  offset_loop NumR fuel off pairs x = Some y ->
  (forall ij, In ij pairs -> norm_idx (length x) (snd ij) <> Some p) ->
  nth p y d = nth p x d.
Proof.
  revert pairs x; induction fuel as [|f IH]; intros pairs x.
  - destruct pairs; cbn; [intros H; inversion H; reflexivity|discriminate].
  - destruct pairs as [|pr pairs]; [cbn; intros H; inversion H; reflexivity|].
    cbn [offset_loop]. set (P := pr :: pairs). intros H Hp.
    destruct (mo_fold_writes (bump NumR off) (fun t => t) (dedupZ (map snd P)) x p d) as [L1 L2].
    + intros; apply bump_length.
    + intros; apply bump_other; assumption.
    + intros t Ht. apply mo_dedupZ_in in Ht. apply in_map_iff in Ht. destruct Ht as [ij [<- Hij]]. apply Hp; assumption.
    + apply IH in H.
      * rewrite H. exact L2.
      * intros ij Hij. apply filter_In in Hij. change (T NumR) with R in *. rewrite L1. apply Hp. apply Hij.
Qed.

Theorem impose_as_length mask off (x y : list R) :
  impose_as NumR mask off x = Some y -> length y = length x.
Proof.
  unfold impose_as. intros H. apply offset_loop_length in H. rewrite H.
  apply mo_fold_length. intros a kv. apply mo_fold_length. intros; apply copy_entry_length.
Qed.

(* positions that are neither a member of a connected set nor a second component of a pair are left alone *)
Theorem impose_as_untouched mask off (x y : list R) p d :
  impose_as NumR mask off x = Some y ->
  (forall kv k, In kv (connected mask) -> In k (snd kv) -> norm_idx (length x) k <> Some p) ->
  (forall ij, In ij mask -> norm_idx (length x) (snd ij) <> Some p) ->
  nth p y d = nth p x d.
Proof.
  unfold impose_as. intros H Hc Hm.
  set (step := fun (acc : list R) (kv : Z * list Z) => fold_left (fun a k => copy_entry NumR a k (fst kv)) (snd kv) acc) in *.
  assert (G : forall (cs : list (Z * list Z)) (a : list R),
            (forall kv k, In kv cs -> In k (snd kv) -> norm_idx (length a) k <> Some p) ->
            length (fold_left step cs a) = length a /\ nth p (fold_left step cs a) d = nth p a d).
  { induction cs as [|kv cs IH]; intros a Ha; [split; reflexivity|].
    cbn [fold_left].
    assert (L : length (step a kv) = length a /\ nth p (step a kv) d = nth p a d).
    { unfold step. apply (mo_fold_writes (fun a k => copy_entry NumR a k (fst kv)) (fun k => k) (snd kv) a p d).
      - intros; apply copy_entry_length.
      - intros; apply copy_entry_other; assumption.
      - intros k Hk. apply (Ha kv k); [left; reflexivity|assumption]. }
    destruct L as [L1 L2]. destruct (IH (step a kv)) as [M1 M2].
    - intros kv' k Hkv Hk. change (T NumR) with R in *. rewrite L1. apply (Ha kv' k); [right; assumption|assumption].
    - split; [exact (eq_trans M1 L1)|exact (eq_trans M2 L2)]. }
  destruct (G (connected mask) x Hc) as [L1 L2].
  rewrite <- L2. eapply offset_loop_other; [exact H|].
  intros ij Hij. change (T NumR) with R in *. rewrite L1. apply Hm; assumption.
Qed.

(* ------------------------------------------------------------------ a single pair (i, j):  x[j] = x[i] + off *)
Lemma connected_single i j : i <> j -> connected [(i, j)] = [(i, [j])].
Proof.
  intros H. unfold connected. cbn [fold_left connect_step].
  apply Z.eqb_neq in H. rewrite H. reflexivity.
Qed.

Lemma connected_single_cyclic i : connected [(i, i)] = [].
Proof. unfold connected. cbn [fold_left connect_step]. rewrite Z.eqb_refl. reflexivity. Qed.

Lemma impose_as_single_eq i j off (x : list R) :
  i <> j ->
  impose_as NumR [(i, j)] off x = Some (bump NumR off (copy_entry NumR x j i) j).
Proof.
  intros Hij. unfold impose_as. rewrite connected_single by assumption.
  cbn [fold_left fst snd length offset_loop map].
  assert (E : Z.eqb j i = false) by (apply Z.eqb_neq; congruence).
  unfold dedupZ, memZ. cbn [dedup_by existsb fold_left filter orb]. rewrite E.
  cbn [filter fst existsb]. reflexivity.
Qed.

(* i = j loops for ever in Python; the model reports it as None *)
Lemma impose_as_single_cyclic i off (x : list R) : impose_as NumR [(i, i)] off x = None.
Proof.
  unfold impose_as. rewrite connected_single_cyclic.
  cbn [fold_left fst snd length offset_loop map].
  unfold dedupZ, memZ.
  repeat (cbn [dedup_by existsb fold_left filter orb fst snd map offset_loop]; rewrite ?Z.eqb_refl).
  reflexivity.
Qed.

Lemma impose_as_single_closed i j pi pj off (x : list R) :
  norm_idx (length x) i = Some pi -> norm_idx (length x) j = Some pj -> i <> j ->
  impose_as NumR [(i, j)] off x = Some (set_nth x pj (nth pi x 0 + off)%R).
Proof.
  intros Hi Hj Hij. rewrite impose_as_single_eq by assumption. f_equal.
  assert (C : copy_entry NumR x j i = set_nth x pj (nth pi x 0%R)).
  { unfold copy_entry. change (T NumR) with R. rewrite Hi, Hj. reflexivity. }
  rewrite C. unfold bump. change (T NumR) with R. rewrite mo_set_nth_length, Hj.
  rewrite mo_set_nth_same by (eapply mo_norm_idx_lt; eauto).
  apply mo_set_nth_twice.
Qed.

Theorem impose_as_single_pair i j pi pj off (x y : list R) d :
  impose_as NumR [(i, j)] off x = Some y ->
  norm_idx (length x) i = Some pi -> norm_idx (length x) j = Some pj -> pi <> pj ->
  nth pj y d = (nth pi x d + off)%R /\ nth pi y d = nth pi x d.
Proof.
  intros H Hi Hj Hp.
  assert (Hij : i <> j) by (intros ->; congruence).
  rewrite (impose_as_single_closed i j pi pj off x Hi Hj Hij) in H. injection H as <-.
  pose proof (mo_norm_idx_lt _ _ _ Hi). pose proof (mo_norm_idx_lt _ _ _ Hj).
  split.
  - rewrite mo_set_nth_same by assumption. f_equal. apply nth_indep; assumption.
  - apply mo_set_nth_other; assumption.
Qed.

(* every other position is unchanged *)
Theorem impose_as_single_pair_others i j pi pj off (x y : list R) p d :
  impose_as NumR [(i, j)] off x = Some y ->
  norm_idx (length x) i = Some pi -> norm_idx (length x) j = Some pj -> i <> j -> p <> pj ->
  nth p y d = nth p x d.
Proof.
  intros H Hi Hj Hij Hp.
  rewrite (impose_as_single_closed i j pi pj off x Hi Hj Hij) in H. injection H as <-.
  apply mo_set_nth_other; assumption.
Qed.

Theorem impose_as_single_pair_idempotent i j pi pj off (x y : list R) :
  impose_as NumR [(i, j)] off x = Some y ->
  norm_idx (length x) i = Some pi -> norm_idx (length x) j = Some pj -> pi <> pj ->
  impose_as NumR [(i, j)] off y = Some y.
Proof.
  intros H Hi Hj Hp.
  assert (Hij : i <> j) by (intros ->; congruence).
  pose proof (impose_as_length _ _ _ _ H) as L.
  rewrite (impose_as_single_closed i j pi pj off x Hi Hj Hij) in H. injection H as Hy. subst y.
  rewrite (impose_as_single_closed i j pi pj off (set_nth x pj (nth pi x 0 + off)%R));
    try (rewrite L; assumption); try assumption.
  f_equal. rewrite mo_set_nth_other by assumption. apply mo_set_nth_twice.
Qed.

Lemma impose_as_nil off (x : list R) : impose_as NumR [] off x = Some x.
Proof. reflexivity. Qed.

(* ================================================================== the repaired tools.connected (pure Z / list reasoning) *)
Definition held (z : Z) (c : list (Z * list Z)) : Prop := exists kv, In kv c /\ holds z kv = true.
(* keys pairwise distinct; every index is held (as key or member) by at most one group *)
Definition wf (c : list (Z * list Z)) : Prop :=
  NoDup (map fst c) /\
  forall z kv kv', In kv c -> In kv' c -> holds z kv = true -> holds z kv' = true -> kv = kv'.
Definition together (z z' : Z) (c : list (Z * list Z)) : Prop :=
  exists kv, In kv c /\ holds z kv = true /\ holds z' kv = true.

Lemma mo_memZ_In z l : memZ z l = true <-> In z l.
Proof.
  unfold memZ. rewrite existsb_exists. split.
  - intros [u [Hu E]]. apply Z.eqb_eq in E. subst; assumption.
  - intros H. exists z. split; [assumption|apply Z.eqb_refl].
Qed.

Lemma holds_iff z kv : holds z kv = true <-> z = fst kv \/ In z (snd kv).
Proof. unfold holds. rewrite orb_true_iff, Z.eqb_eq, mo_memZ_In. tauto. Qed.

Lemma mo_addZ_In z a l : In z (addZ a l) <-> z = a \/ In z l.
Proof.
  unfold addZ. destruct (memZ a l) eqn:E.
  - apply mo_memZ_In in E. split; [tauto|]. intros [->|H]; assumption.
  - rewrite in_app_iff. cbn [In]. split.
    + intros [H|[H|[]]]; [right; assumption|left; symmetry; assumption].
    + intros [H|H]; [right; left; symmetry; assumption|left; assumption].
Qed.

Definition mo_grow (zs v : list Z) : list Z := fold_left (fun v z => addZ z v) zs v.
Definition mo_upd (k : Z) (zs : list Z) (kv : Z * list Z) : Z * list Z :=
  if Z.eqb (fst kv) k then (fst kv, mo_grow zs (snd kv)) else kv.

Lemma mo_grow_In z zs v : In z (mo_grow zs v) <-> In z v \/ In z zs.
Proof.
  unfold mo_grow. revert v; induction zs as [|a zs IH]; intros v; cbn [fold_left In].
  - tauto.
  - rewrite IH, mo_addZ_In. split.
    + intros [[->|H]|H]; auto.
    + intros [H|[->|H]]; auto.
Qed.

Lemma add_to_eq k zs c : add_to k zs c = map (mo_upd k zs) c.
Proof. reflexivity. Qed.

Lemma mo_upd_fst k zs kv : fst (mo_upd k zs kv) = fst kv.
Proof. unfold mo_upd. destruct (Z.eqb (fst kv) k); reflexivity. Qed.

Lemma mo_upd_holds z k zs kv :
  holds z (mo_upd k zs kv) = true <-> holds z kv = true \/ (fst kv = k /\ In z zs).
Proof.
  unfold mo_upd. destruct (Z.eqb (fst kv) k) eqn:E.
  - apply Z.eqb_eq in E. rewrite !holds_iff. cbn [fst snd]. rewrite mo_grow_In. tauto.
  - apply Z.eqb_neq in E. tauto.
Qed.

Lemma add_to_keys k zs c : map fst (add_to k zs c) = map fst c.
Proof. rewrite add_to_eq, map_map. apply map_ext. intros; apply mo_upd_fst. Qed.

Lemma mo_key_inj (c : list (Z * list Z)) kv1 kv2 :
  NoDup (map fst c) -> In kv1 c -> In kv2 c -> fst kv1 = fst kv2 -> kv1 = kv2.
Proof.
  induction c as [|a r IH]; intros Hn H1 H2 E; [contradiction|].
  cbn [map] in Hn. inversion Hn as [|? ? Hna Hnr]; subst.
  destruct H1 as [<-|H1], H2 as [<-|H2].
  - reflexivity.
  - exfalso. apply Hna. rewrite E. apply in_map; assumption.
  - exfalso. apply Hna. rewrite <- E. apply in_map; assumption.
  - apply IH; assumption.
Qed.

Lemma mo_nodup_map_filter {A B} (f : A -> B) (p : A -> bool) (l : list A) :
  NoDup (map f l) -> NoDup (map f (filter p l)).
Proof.
  induction l as [|a r IH]; intros H; [constructor|].
  cbn [map] in H. inversion H as [|? ? Ha Hr]; subst. cbn [filter].
  destruct (p a); [|apply IH; assumption]. cbn [map]. constructor; [|apply IH; assumption].
  intros Hin. apply Ha. apply in_map_iff in Hin. destruct Hin as [b [Hb Hin]].
  apply filter_In in Hin. rewrite <- Hb. apply in_map. apply Hin.
Qed.

Lemma add_to_wf k zs c : wf c -> (forall z, In z zs -> ~ held z c) -> wf (add_to k zs c).
Proof.
  intros [Hk Hu] Hz. split; [rewrite add_to_keys; assumption|].
  intros z kv kv' H1 H2 Hh1 Hh2. rewrite add_to_eq in H1, H2.
  apply in_map_iff in H1. destruct H1 as [a [<- Ha]].
  apply in_map_iff in H2. destruct H2 as [b [<- Hb]].
  apply mo_upd_holds in Hh1. apply mo_upd_holds in Hh2.
  destruct Hh1 as [Hh1|[E1 Z1]], Hh2 as [Hh2|[E2 Z2]].
  - rewrite (Hu z a b); auto.
  - exfalso. apply (Hz z Z2). exists a; auto.
  - exfalso. apply (Hz z Z1). exists b; auto.
  - rewrite (mo_key_inj c a b); auto. congruence.
Qed.

Lemma remove_key_in k c kv : In kv (remove_key k c) <-> In kv c /\ fst kv <> k.
Proof. unfold remove_key. rewrite filter_In, negb_true_iff, Z.eqb_neq. tauto. Qed.

Lemma remove_key_wf k c : wf c -> wf (remove_key k c).
Proof.
  intros [Hk Hu]. split; [apply mo_nodup_map_filter; assumption|].
  intros z kv kv' H1 H2. apply remove_key_in in H1. apply remove_key_in in H2.
  apply Hu; tauto.
Qed.

Lemma find_key_none z c : find_key z c = None -> ~ held z c.
Proof.
  unfold find_key. destruct (find (holds z) c) eqn:E; cbn [option_map]; [discriminate|].
  intros _ [kv [Hin Hh]]. pose proof (find_none _ _ E kv Hin). congruence.
Qed.

Lemma find_key_some z c k : find_key z c = Some k -> exists kv, In kv c /\ fst kv = k /\ holds z kv = true.
Proof.
  unfold find_key. destruct (find (holds z) c) as [kv|] eqn:E; cbn [option_map]; [|discriminate].
  intros H; inversion H; subst. apply find_some in E. exists kv. tauto.
Qed.

Lemma members_of_spec k c kv : NoDup (map fst c) -> In kv c -> fst kv = k -> members_of k c = snd kv.
Proof.
  intros Hn Hin E. unfold members_of. destruct (find (fun kv0 => Z.eqb (fst kv0) k) c) as [p|] eqn:F.
  - apply find_some in F. destruct F as [Hp Ep]. apply Z.eqb_eq in Ep.
    rewrite (mo_key_inj c p kv); auto. congruence.
  - pose proof (find_none _ _ F kv Hin) as X. cbn in X. apply Z.eqb_neq in X. contradiction.
Qed.

Lemma mo_holds_in_zs z kv : holds z kv = true -> In z (snd kv ++ [fst kv]).
Proof. rewrite holds_iff, in_app_iff. cbn [In]. intros [H|H]; auto. Qed.

Lemma mo_zs_holds z kv : In z (snd kv ++ [fst kv]) -> holds z kv = true.
Proof. rewrite holds_iff, in_app_iff. cbn [In]. intros [H|[H|[]]]; auto. Qed.

Theorem connect_step_wf c ij : wf c -> wf (connect_step c ij).
Proof.
  intros Hw. destruct ij as [i j]. unfold connect_step.
  destruct (Z.eqb i j) eqn:Eij; [assumption|].
  destruct (find_key i c) as [ki|] eqn:Ei; destruct (find_key j c) as [kj|] eqn:Ej.
  - destruct (Z.eqb ki kj) eqn:Ek; [assumption|]. apply Z.eqb_neq in Ek.
    apply add_to_wf; [apply remove_key_wf; assumption|].
    intros z Hz [kv [Hin Hh]]. apply remove_key_in in Hin. destruct Hin as [Hin Hne].
    apply find_key_some in Ej. destruct Ej as [gj [Hgj [Egj Hj]]].
    rewrite (members_of_spec kj c gj) in Hz by (apply Hw || assumption).
    rewrite <- Egj in Hz. apply mo_zs_holds in Hz.
    destruct Hw as [_ Hu]. rewrite (Hu z kv gj) in Hne; auto.
  - apply add_to_wf; [assumption|]. intros z [<-|[]]. apply find_key_none; assumption.
  - apply add_to_wf; [assumption|]. intros z [<-|[]]. apply find_key_none; assumption.
  - apply find_key_none in Ei. apply find_key_none in Ej. destruct Hw as [Hk Hu]. split.
    + rewrite map_app. cbn [map fst].
      apply (Permutation_NoDup (Permutation_cons_append _ _)). constructor; [|assumption].
      intros Hin. apply in_map_iff in Hin. destruct Hin as [kv [E Hin]].
      apply Ei. exists kv. split; [assumption|]. apply holds_iff. left; symmetry; assumption.
    + assert (X : forall z kv, In kv c -> holds z kv = true -> holds z (i, [j]) = true -> False).
      { intros z kv Hin Hh Hg. apply holds_iff in Hg. cbn [fst snd In] in Hg.
        destruct Hg as [->|[<-|[]]]; [apply Ei|apply Ej]; exists kv; auto. }
      intros z kv kv' H1 H2 Hh1 Hh2. apply in_app_iff in H1. apply in_app_iff in H2. cbn [In] in H1, H2.
      destruct H1 as [H1|[<-|[]]], H2 as [H2|[<-|[]]].
      * apply (Hu z); assumption.
      * exfalso. apply (X z kv); assumption.
      * exfalso. apply (X z kv'); assumption.
      * reflexivity.
Qed.

Lemma wf_nil : wf [].
Proof. split; [constructor|]. intros z kv kv' []. Qed.

Lemma connect_fold_wf pairs c : wf c -> wf (fold_left connect_step pairs c).
Proof.
  revert c; induction pairs as [|ij r IH]; intros c H; [assumption|].
  cbn [fold_left]. apply IH, connect_step_wf, H.
Qed.

Theorem connected_wf pairs : wf (connected pairs).
Proof. apply connect_fold_wf, wf_nil. Qed.

(* ------------------------------------------------------------------ a pair ends up in one group *)
Lemma add_to_together k zs c z z' : together z z' c -> together z z' (add_to k zs c).
Proof.
  intros [kv [Hin [H1 H2]]]. exists (mo_upd k zs kv). rewrite add_to_eq.
  split; [apply in_map; assumption|]. rewrite !mo_upd_holds. tauto.
Qed.

Lemma connect_step_together_new c i j : wf c -> i <> j -> together i j (connect_step c (i, j)).
Proof.
  intros Hw Hij. unfold connect_step. apply Z.eqb_neq in Hij. rewrite Hij.
  destruct (find_key i c) as [ki|] eqn:Ei; destruct (find_key j c) as [kj|] eqn:Ej.
  - apply find_key_some in Ei. destruct Ei as [gi [Hgi [Egi Hi]]].
    apply find_key_some in Ej. destruct Ej as [gj [Hgj [Egj Hj]]].
    destruct (Z.eqb ki kj) eqn:Ek.
    + apply Z.eqb_eq in Ek. exists gi. split; [assumption|]. split; [assumption|].
      rewrite (mo_key_inj c gi gj); auto; [apply Hw|congruence].
    + apply Z.eqb_neq in Ek. exists (mo_upd ki (members_of kj c ++ [kj]) gi). rewrite add_to_eq. split.
      * apply in_map. apply remove_key_in. split; [assumption|congruence].
      * rewrite !mo_upd_holds. split; [left; assumption|]. right. split; [assumption|].
        rewrite (members_of_spec kj c gj) by (apply Hw || assumption). rewrite <- Egj.
        apply mo_holds_in_zs; assumption.
  - apply find_key_some in Ei. destruct Ei as [gi [Hgi [Egi Hi]]].
    exists (mo_upd ki [j] gi). rewrite add_to_eq. split; [apply in_map; assumption|].
    rewrite !mo_upd_holds. split; [left; assumption|right; split; [assumption|left; reflexivity]].
  - apply find_key_some in Ej. destruct Ej as [gj [Hgj [Egj Hj]]].
    exists (mo_upd kj [i] gj). rewrite add_to_eq. split; [apply in_map; assumption|].
    rewrite !mo_upd_holds. split; [right; split; [assumption|left; reflexivity]|left; assumption].
  - exists (i, [j]). split; [apply in_or_app; right; left; reflexivity|].
    rewrite !holds_iff. cbn [fst snd In]. auto.
Qed.

Lemma connect_step_together_keep c ij z z' : wf c -> together z z' c -> together z z' (connect_step c ij).
Proof.
  intros Hw Ht. destruct ij as [i j]. unfold connect_step.
  destruct (Z.eqb i j); [assumption|].
  destruct (find_key i c) as [ki|] eqn:Ei; destruct (find_key j c) as [kj|] eqn:Ej.
  - destruct (Z.eqb ki kj) eqn:Ek; [assumption|]. apply Z.eqb_neq in Ek.
    destruct Ht as [kv [Hin [H1 H2]]].
    destruct (Z.eq_dec (fst kv) kj) as [E|E].
    + apply find_key_some in Ei. destruct Ei as [gi [Hgi [Egi Hi]]].
      exists (mo_upd ki (members_of kj c ++ [kj]) gi). rewrite add_to_eq. split.
      * apply in_map. apply remove_key_in. split; [assumption|congruence].
      * rewrite (members_of_spec kj c kv) by (apply Hw || assumption). rewrite <- E.
        rewrite !mo_upd_holds. split; right; (split; [congruence|apply mo_holds_in_zs; assumption]).
    + apply add_to_together. exists kv. split; [apply remove_key_in; split; assumption|tauto].
  - apply add_to_together; assumption.
  - apply add_to_together; assumption.
  - destruct Ht as [kv [Hin H]]. exists kv. split; [apply in_or_app; left; assumption|assumption].
Qed.

Lemma connect_fold_together pairs c z z' :
  wf c -> together z z' c -> together z z' (fold_left connect_step pairs c).
Proof.
  revert c; induction pairs as [|ij r IH]; intros c Hw Ht; [assumption|].
  cbn [fold_left]. apply IH; [apply connect_step_wf; assumption|apply connect_step_together_keep; assumption].
Qed.

Theorem connected_pair_same_group pairs i j :
  In (i, j) pairs -> i <> j ->
  exists kv, In kv (connected pairs) /\ holds i kv = true /\ holds j kv = true.
Proof.
  intros Hin Hij. apply in_split in Hin. destruct Hin as [l1 [l2 ->]].
  unfold connected. rewrite fold_left_app. cbn [fold_left].
  assert (Hw : wf (fold_left connect_step l1 [])) by (apply connect_fold_wf, wf_nil).
  apply connect_fold_together.
  - apply connect_step_wf; assumption.
  - apply connect_step_together_new; assumption.
Qed.

(* ------------------------------------------------------------------ only indices of the pairs occur *)
Lemma add_to_held z k zs c : held z (add_to k zs c) -> held z c \/ In z zs.
Proof.
  intros [kv [Hin Hh]]. rewrite add_to_eq in Hin. apply in_map_iff in Hin. destruct Hin as [a [<- Ha]].
  apply mo_upd_holds in Hh. destruct Hh as [Hh|[_ Hz]]; [left; exists a; auto|right; assumption].
Qed.

Lemma connect_step_held z c ij : held z (connect_step c ij) -> held z c \/ z = fst ij \/ z = snd ij.
Proof.
  destruct ij as [i j]. unfold connect_step. cbn [fst snd].
  destruct (Z.eqb i j); [auto|].
  destruct (find_key i c) as [ki|] eqn:Ei; destruct (find_key j c) as [kj|] eqn:Ej.
  - destruct (Z.eqb ki kj); [auto|]. intros H. apply add_to_held in H. left. destruct H as [H|H].
    + destruct H as [kv [Hin Hh]]. apply remove_key_in in Hin. exists kv. tauto.
    + apply find_key_some in Ej. destruct Ej as [gj [Hgj [Egj Hj]]].
      apply in_app_iff in H. cbn [In] in H. destruct H as [H|[<-|[]]].
      * unfold members_of in H. destruct (find (fun kv0 => Z.eqb (fst kv0) kj) c) as [p|] eqn:F; [|contradiction].
        apply find_some in F. exists p. split; [apply F|]. apply holds_iff. right; assumption.
      * exists gj. split; [assumption|]. apply holds_iff. left; symmetry; assumption.
  - intros H. apply add_to_held in H. destruct H as [H|[<-|[]]]; auto.
  - intros H. apply add_to_held in H. destruct H as [H|[<-|[]]]; auto.
  - intros [kv [Hin Hh]]. apply in_app_iff in Hin. cbn [In] in Hin. destruct Hin as [Hin|[<-|[]]].
    + left. exists kv; auto.
    + apply holds_iff in Hh. cbn [fst snd In] in Hh. destruct Hh as [->|[<-|[]]]; auto.
Qed.

Lemma connect_fold_held z pairs c :
  held z (fold_left connect_step pairs c) -> held z c \/ exists ij, In ij pairs /\ (z = fst ij \/ z = snd ij).
Proof.
  revert c; induction pairs as [|ij r IH]; intros c H; [left; assumption|].
  cbn [fold_left] in H. apply IH in H. destruct H as [H|[ij' [Hin Hz]]].
  - apply connect_step_held in H. destruct H as [H|H]; [left; assumption|].
    right. exists ij. split; [left; reflexivity|assumption].
  - right. exists ij'. split; [right; assumption|assumption].
Qed.

Theorem connected_only_mentions z pairs :
  held z (connected pairs) -> exists ij, In ij pairs /\ (z = fst ij \/ z = snd ij).
Proof.
  intros H. apply connect_fold_held in H. destruct H as [[kv [[] _]]|H]; assumption.
Qed.

(* ================================================================== impose_as with offset 0: tied entries become equal *)
Lemma mo_norm_idx_nonneg n z : (0 <= z < Z.of_nat n)%Z -> norm_idx n z = Some (Z.to_nat z).
Proof.
  intros [A B]. unfold norm_idx. apply Z.leb_le in A. apply Z.ltb_lt in B. rewrite A, B. reflexivity.
Qed.

Lemma mo_set_nth_self {A} (l : list A) i d : set_nth l i (nth i l d) = l.
Proof.
  revert i; induction l as [|a r IH]; intros i; [reflexivity|].
  destruct i; cbn [set_nth nth]; [reflexivity|]. rewrite IH. reflexivity.
Qed.

Lemma bump_zero (x : list R) i : bump NumR 0%R x i = x.
Proof.
  unfold bump. mo_case_norm; [|reflexivity]. cbn [add NumR zero]. rewrite Rplus_0_r. apply mo_set_nth_self.
Qed.

Lemma mo_fold_id {A B} (f : A -> B -> A) (bs : list B) (x : A) :
  (forall a b, f a b = a) -> fold_left f bs x = x.
Proof. intros H. revert x; induction bs as [|b bs IH]; intros x; [reflexivity|]. cbn [fold_left]. rewrite H. apply IH. Qed.

Lemma offset_loop_zero fuel pairs (x y : list R) : offset_loop NumR fuel 0%R pairs x = Some y -> y = x.
Proof.
  revert pairs x; induction fuel as [|f IH]; intros pairs x.
  - destruct pairs; cbn; [intros H; inversion H; reflexivity|discriminate].
  - destruct pairs as [|pr pairs]; [cbn; intros H; inversion H; reflexivity|].
    cbn [offset_loop]. rewrite (mo_fold_id (bump NumR 0%R)) by (intros; apply bump_zero). apply IH.
Qed.

Lemma copy_entry_inrange (a : list R) m k :
  (0 <= k < Z.of_nat (length a))%Z -> (0 <= m < Z.of_nat (length a))%Z ->
  copy_entry NumR a m k = set_nth a (Z.to_nat m) (nth (Z.to_nat k) a 0%R).
Proof.
  intros Hk Hm. unfold copy_entry. change (T NumR) with R.
  rewrite (mo_norm_idx_nonneg _ _ Hk), (mo_norm_idx_nonneg _ _ Hm). reflexivity.
Qed.

(* one group: every member receives the key's value; the key's entry and all other entries are unchanged *)
Lemma mo_group_spec (k : Z) (d : R) n (ms : list Z) : forall (a : list R),
  length a = n -> (0 <= k < Z.of_nat n)%Z -> (forall m, In m ms -> (0 <= m < Z.of_nat n)%Z) ->
  length (fold_left (fun a m => copy_entry NumR a m k) ms a) = n /\
  nth (Z.to_nat k) (fold_left (fun a m => copy_entry NumR a m k) ms a) d = nth (Z.to_nat k) a d /\
  (forall m, In m ms -> nth (Z.to_nat m) (fold_left (fun a m => copy_entry NumR a m k) ms a) d = nth (Z.to_nat k) a d) /\
  (forall p, (forall m, In m ms -> Z.to_nat m <> p) -> nth p (fold_left (fun a m => copy_entry NumR a m k) ms a) d = nth p a d).
Proof.
  induction ms as [|m ms IH]; intros a Ha Hk Hms.
  - cbn [fold_left]. repeat split; auto. intros m [].
  - cbn [fold_left].
    assert (Hm : (0 <= m < Z.of_nat n)%Z) by (apply Hms; left; reflexivity).
    assert (C : copy_entry NumR a m k = set_nth a (Z.to_nat m) (nth (Z.to_nat k) a 0%R)).
    { apply copy_entry_inrange; rewrite Ha; assumption. }
    rewrite C. set (a' := set_nth a (Z.to_nat m) (nth (Z.to_nat k) a 0%R)).
    assert (La : length a' = n) by (unfold a'; rewrite mo_set_nth_length; assumption).
    assert (Pm : Z.to_nat m < length a) by (rewrite Ha; lia).
    assert (Pk : Z.to_nat k < length a) by (rewrite Ha; lia).
    assert (Ka : nth (Z.to_nat k) a' d = nth (Z.to_nat k) a d).
    { unfold a'. destruct (Nat.eq_dec (Z.to_nat k) (Z.to_nat m)) as [E|E].
      - rewrite E at 1. rewrite mo_set_nth_same by assumption. apply nth_indep; assumption.
      - apply mo_set_nth_other; assumption. }
    destruct (IH a' La Hk) as [L [K [M O]]].
    { intros m' Hm'. apply Hms. right; assumption. }
    split; [assumption|]. split; [rewrite K; assumption|]. split.
    + intros m0 [<-|Hm0]; [|rewrite M by assumption; assumption].
      destruct (in_dec Z.eq_dec m ms) as [I|I]; [rewrite M by assumption; assumption|].
      rewrite O.
      * unfold a'. rewrite mo_set_nth_same by assumption. apply nth_indep; assumption.
      * intros m' Hm'. assert ((0 <= m' < Z.of_nat n)%Z) by (apply Hms; right; assumption).
        assert (m' <> m) by (intros ->; contradiction). lia.
    + intros p Hp. rewrite O.
      * unfold a'. apply mo_set_nth_other. intros ->. apply (Hp m); [left; reflexivity|reflexivity].
      * intros m' Hm'. apply Hp. right; assumption.
Qed.

Definition mo_step (acc : list R) (kv : Z * list Z) : list R :=
  fold_left (fun a k => copy_entry NumR a k (fst kv)) (snd kv) acc.

Lemma wf_tail kv cs : wf (kv :: cs) -> wf cs /\ (forall z, holds z kv = true -> ~ held z cs).
Proof.
  intros [Hk Hu]. cbn [map] in Hk. inversion Hk as [|? ? Hn Hr]; subst. split; [split|].
  - assumption.
  - intros z a b Ha Hb. apply Hu; right; assumption.
  - intros z Hz [kv' [Hin Hh]]. apply Hn.
    rewrite (Hu z kv kv'); [apply in_map; assumption|left; reflexivity|right; assumption|assumption|assumption].
Qed.

(* phase 1 of impose_as on well-formed groups with in-range non-negative labels *)
Lemma mo_phase1_spec (d : R) n (c : list (Z * list Z)) : forall (x : list R),
  length x = n -> wf c -> (forall z, held z c -> (0 <= z < Z.of_nat n)%Z) ->
  length (fold_left mo_step c x) = n /\
  (forall kv z, In kv c -> holds z kv = true ->
     nth (Z.to_nat z) (fold_left mo_step c x) d = nth (Z.to_nat (fst kv)) x d) /\
  (forall p, (forall z, held z c -> Z.to_nat z <> p) -> nth p (fold_left mo_step c x) d = nth p x d).
Proof.
  induction c as [|kv cs IH]; intros x Hx Hw Hr.
  - cbn [fold_left]. repeat split; auto. intros kv z [].
  - cbn [fold_left]. destruct (wf_tail _ _ Hw) as [Hw' Hdis].
    assert (Hheld : forall z, holds z kv = true -> held z (kv :: cs)).
    { intros z Hz. exists kv. split; [left; reflexivity|assumption]. }
    assert (Hk : (0 <= fst kv < Z.of_nat n)%Z).
    { apply Hr, Hheld, holds_iff. left; reflexivity. }
    assert (Hms : forall m, In m (snd kv) -> (0 <= m < Z.of_nat n)%Z).
    { intros m Hm. apply Hr, Hheld, holds_iff. right; assumption. }
    destruct (mo_group_spec (fst kv) d n (snd kv) x Hx Hk Hms) as [GL [GK [GM GO]]].
    fold (mo_step x kv) in GL, GK, GM, GO.
    assert (Hr' : forall z, held z cs -> (0 <= z < Z.of_nat n)%Z).
    { intros z [kv' [Hin Hh]]. apply Hr. exists kv'. split; [right; assumption|assumption]. }
    destruct (IH (mo_step x kv) GL Hw' Hr') as [L [M O]].
    split; [assumption|]. split.
    + intros kv0 z [<-|Hin] Hz.
      * rewrite O.
        -- apply holds_iff in Hz. destruct Hz as [->|Hz]; [assumption|apply GM; assumption].
        -- intros z' Hz'. assert (z' <> z) by (intros ->; apply (Hdis z Hz Hz')).
           pose proof (Hr' z' Hz'). pose proof (Hr z (Hheld z Hz)). lia.
      * rewrite (M kv0 z Hin Hz). apply GO. intros m Hm.
        assert (Hm' : holds m kv = true) by (apply holds_iff; right; assumption).
        assert (Hk0 : held (fst kv0) cs).
        { exists kv0. split; [assumption|]. apply holds_iff. left; reflexivity. }
        assert (m <> fst kv0) by (intros ->; apply (Hdis _ Hm' Hk0)).
        pose proof (Hms m Hm). pose proof (Hr' _ Hk0). lia.
    + intros p Hp. rewrite O.
      * apply GO. intros m Hm. apply Hp, Hheld, holds_iff. right; assumption.
      * intros z [kv' [Hin Hh]]. apply Hp. exists kv'. split; [right; assumption|assumption].
Qed.

Lemma impose_as_zero_offset_eq mask (x y : list R) :
  impose_as NumR mask 0%R x = Some y -> y = fold_left mo_step (connected mask) x.
Proof. unfold impose_as. intros H. apply offset_loop_zero in H. exact H. Qed.

Theorem impose_as_zero_offset_tied mask (x y : list R) i j d :
  (forall ij, In ij mask -> (0 <= fst ij < Z.of_nat (length x))%Z /\ (0 <= snd ij < Z.of_nat (length x))%Z) ->
  impose_as NumR mask 0%R x = Some y -> In (i, j) mask ->
  nth (Z.to_nat j) y d = nth (Z.to_nat i) y d.
Proof.
  intros Hr H Hin. destruct (Z.eq_dec i j) as [->|Hij]; [reflexivity|].
  rewrite (impose_as_zero_offset_eq _ _ _ H).
  destruct (connected_pair_same_group mask i j Hin Hij) as [kv [Hkv [Hi Hj]]].
  destruct (mo_phase1_spec d (length x) (connected mask) x eq_refl (connected_wf mask)) as [_ [M _]].
  - intros z Hz. apply connected_only_mentions in Hz. destruct Hz as [ij [Hm [->| ->]]]; apply (Hr ij Hm).
  - rewrite (M kv j Hkv Hj), (M kv i Hkv Hi). reflexivity.
Qed.

(* more precisely: after the transform every held index carries the ORIGINAL value of its group's key *)
Theorem impose_as_zero_offset_group_value mask (x y : list R) kv z d :
  (forall ij, In ij mask -> (0 <= fst ij < Z.of_nat (length x))%Z /\ (0 <= snd ij < Z.of_nat (length x))%Z) ->
  impose_as NumR mask 0%R x = Some y -> In kv (connected mask) -> holds z kv = true ->
  nth (Z.to_nat z) y d = nth (Z.to_nat (fst kv)) x d.
Proof.
  intros Hr H Hkv Hz. rewrite (impose_as_zero_offset_eq _ _ _ H).
  destruct (mo_phase1_spec d (length x) (connected mask) x eq_refl (connected_wf mask)) as [_ [M _]].
  - intros z' Hz'. apply connected_only_mentions in Hz'. destruct Hz' as [ij [Hm [->| ->]]]; apply (Hr ij Hm).
  - apply M; assumption.
Qed.
