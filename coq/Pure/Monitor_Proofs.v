(* Proofs about the monitor model (Pure/Monitor.v). *)
From Coq Require Import List ZArith Bool Arith Lia Reals Lra.
From MV Require Import Common.Num Common.NumR Pure.Monitor.
Import ListNotations.

(* ------------------------------------------------------------------ *)
(* Part 1: structure (any numeric instance, any x / id / info types)    *)
(* ------------------------------------------------------------------ *)
Section Structure.
  Variable N : Num.
  Variables X I M : Type.
  Notation monitor := (monitor N X I M).
  Notation cost := (cost N).
  Notation store := (store N X I M).
  Notation op := (op N X I M).
  Notation record := (record N X I).

  Definition rec_x (r : record) : X := fst (fst r).
  Definition rec_y (r : record) : cost := snd (fst r).
  Definition rec_id (r : record) : option I := snd r.

  (* --- call_all: the stored lists --- *)
  Lemma call_all_mx (rs : list record) (m : monitor) :
    mx (call_all m rs) = mx m ++ map rec_x rs.
  Proof.
    revert m; induction rs as [|r rs IH]; intro m; cbn [call_all fold_left map].
    - now rewrite app_nil_r.
    - unfold call_all in IH. rewrite IH. cbn [call mx]. now rewrite <- app_assoc.
  Qed.
  Lemma call_all_my (rs : list record) (m : monitor) :
    my (call_all m rs) = my m ++ map (fun r => scale (mk m) (rec_y r)) rs.
  Proof.
    revert m; induction rs as [|r rs IH]; intro m; cbn [call_all fold_left map].
    - now rewrite app_nil_r.
    - unfold call_all in IH. rewrite IH. cbn [call my mk]. now rewrite <- app_assoc.
  Qed.
  Lemma call_all_mid (rs : list record) (m : monitor) :
    mid (call_all m rs) = mid m ++ map rec_id rs.
  Proof.
    revert m; induction rs as [|r rs IH]; intro m; cbn [call_all fold_left map].
    - now rewrite app_nil_r.
    - unfold call_all in IH. rewrite IH. cbn [call mid]. now rewrite <- app_assoc.
  Qed.
  Lemma call_all_mk (rs : list record) (m : monitor) : mk (call_all m rs) = mk m.
  Proof.
    revert m; induction rs as [|r rs IH]; intro m; cbn [call_all fold_left]; auto.
    unfold call_all in IH. now rewrite IH.
  Qed.
  Lemma call_all_minfo (rs : list record) (m : monitor) : minfo (call_all m rs) = minfo m.
  Proof.
    revert m; induction rs as [|r rs IH]; intro m; cbn [call_all fold_left]; auto.
    unfold call_all in IH. now rewrite IH.
  Qed.

  (* a monitor called n times has length n (len = len(x); y and id have the same length) *)
  Lemma len_after_n_calls (k : option (T N)) (rs : list record) :
    let m := call_all (new_monitor N X I M k) rs in
    mlen m = length rs /\ length (get_y m) = length rs /\ length (get_id m) = length rs.
  Proof.
    cbv zeta. unfold mlen, get_y, get_id.
    rewrite map_length, call_all_mx, call_all_my, call_all_mid. cbn [new_monitor mx my mid app].
    now rewrite !map_length.
  Qed.
  Lemma len_after_more_calls (m : monitor) (rs : list record) :
    mlen (call_all m rs) = mlen m + length rs.
  Proof. unfold mlen. now rewrite call_all_mx, app_length, map_length. Qed.

  (* x and id of what was recorded come back unchanged, in order *)
  Lemma get_x_calls (k : option (T N)) (rs : list record) :
    get_x (call_all (new_monitor N X I M k) rs) = map rec_x rs.
  Proof. unfold get_x. now rewrite call_all_mx. Qed.
  Lemma get_id_calls (k : option (T N)) (rs : list record) :
    get_id (call_all (new_monitor N X I M k) rs) = map rec_id rs.
  Proof. unfold get_id. now rewrite call_all_mid. Qed.

  (* --- python indexing --- *)
  Lemma py_index_nonneg (n i : nat) : i < n -> py_index n (Z.of_nat i) = Some i.
  Proof.
    intro H. unfold py_index.
    replace ((0 <=? Z.of_nat i)%Z) with true by (symmetry; apply Z.leb_le; lia).
    replace ((Z.of_nat i <? Z.of_nat n)%Z) with true by (symmetry; apply Z.ltb_lt; lia).
    cbn [andb]. now rewrite Nat2Z.id.
  Qed.
  Lemma py_index_neg (n i : nat) : i < n -> py_index n (Z.of_nat i - Z.of_nat n) = Some i.
  Proof.
    intro H. unfold py_index.
    replace ((0 <=? Z.of_nat i - Z.of_nat n)%Z) with false by (symmetry; apply Z.leb_gt; lia).
    cbn [andb].
    replace ((Z.of_nat i - Z.of_nat n <? 0)%Z) with true by (symmetry; apply Z.ltb_lt; lia).
    replace ((0 <=? Z.of_nat i - Z.of_nat n + Z.of_nat n)%Z) with true by (symmetry; apply Z.leb_le; lia).
    cbn [andb]. f_equal. lia.
  Qed.
  Lemma py_index_range (n : nat) (i : Z) (j : nat) : py_index n i = Some j -> j < n.
  Proof.
    unfold py_index.
    destruct ((0 <=? i)%Z && (i <? Z.of_nat n)%Z) eqn:E1.
    - apply andb_true_iff in E1 as [A B]. apply Z.leb_le in A. apply Z.ltb_lt in B.
      intro H; inversion H; subst. lia.
    - destruct ((i <? 0)%Z && (0 <=? i + Z.of_nat n)%Z) eqn:E2; [|discriminate].
      apply andb_true_iff in E2 as [A B]. apply Z.ltb_lt in A. apply Z.leb_le in B.
      intro H; inversion H; subst. lia.
  Qed.
  (* out of range in either direction is an IndexError *)
  Lemma py_index_error (n : nat) (i : Z) :
    (Z.of_nat n <= i \/ i < - Z.of_nat n)%Z -> py_index n i = None.
  Proof.
    intro H. unfold py_index.
    destruct ((0 <=? i)%Z && (i <? Z.of_nat n)%Z) eqn:E1.
    - apply andb_true_iff in E1 as [A B]. apply Z.leb_le in A. apply Z.ltb_lt in B. lia.
    - destruct ((i <? 0)%Z && (0 <=? i + Z.of_nat n)%Z) eqn:E2; auto.
      apply andb_true_iff in E2 as [A B]. apply Z.ltb_lt in A. apply Z.leb_le in B. lia.
  Qed.

  (* --- select / slices --- *)
  Lemma select_map {A B} (f : A -> B) (l : list A) (idx : list nat) :
    select (map f l) idx = map f (select l idx).
  Proof.
    unfold select. induction idx as [|j idx IH]; cbn [flat_map map]; auto.
    rewrite map_app, IH. f_equal. rewrite nth_error_map. destruct (nth_error l j); reflexivity.
  Qed.
  Lemma py_slice_map {A B} (f : A -> B) (l : list A) (s : pyslice) :
    py_slice (map f l) s = option_map (map f) (py_slice l s).
  Proof.
    unfold py_slice. rewrite map_length. destruct (slice_indices (length l) s); cbn [option_map]; auto.
    now rewrite select_map.
  Qed.
  Lemma select_length {A} (l : list A) (idx : list nat) :
    Forall (fun j => j < length l) idx -> length (select l idx) = length idx.
  Proof.
    unfold select. induction 1 as [|j idx Hj _ IH]; cbn [flat_map length]; auto.
    rewrite app_length, IH. destruct (nth_error l j) eqn:E; cbn [length]; auto.
    apply nth_error_None in E. lia.
  Qed.
  Lemma select_nth {A} (l : list A) (idx : list nat) (j : nat) :
    Forall (fun p => p < length l) idx ->
    nth_error (select l idx) j = match nth_error idx j with Some p => nth_error l p | None => None end.
  Proof.
    unfold select. intro H; revert j. induction H as [|p idx Hp _ IH]; intro j; cbn [flat_map].
    - destruct j; reflexivity.
    - destruct (nth_error l p) eqn:E; [|apply nth_error_None in E; lia].
      destruct j; cbn [app nth_error]; auto.
  Qed.
  Lemma skipn_app_len {A} (l1 r : list A) : skipn (length l1) (l1 ++ r) = r.
  Proof. induction l1; cbn [length skipn app]; auto. Qed.
  Lemma select_seq {A} (l : list A) (a len : nat) :
    a + len <= length l -> select l (seq a len) = firstn len (skipn a l).
  Proof.
    unfold select. revert a l. induction len as [|len IH]; intros a l H; cbn [seq flat_map].
    - reflexivity.
    - destruct (nth_error l a) eqn:E; [|apply nth_error_None in E; lia].
      rewrite IH by lia. apply nth_error_split in E as (l1 & l2 & -> & <-).
      rewrite skipn_app_len. cbn [firstn app]. f_equal. f_equal.
      replace (l1 ++ a0 :: l2) with ((l1 ++ [a0]) ++ l2) by (now rewrite <- app_assoc).
      replace (S (length l1)) with (length (l1 ++ [a0])) by (rewrite app_length; cbn; lia).
      apply skipn_app_len.
  Qed.

  (* indices produced by range_idx *)
  Lemma range_idx_nth (fuel : nat) (i stop step : Z) (j p : nat) :
    nth_error (range_idx fuel i stop step) j = Some p ->
    p = Z.to_nat (i + Z.of_nat j * step) /\
    (if (0 <? step)%Z then (i + Z.of_nat j * step <? stop)%Z else (stop <? i + Z.of_nat j * step)%Z) = true.
  Proof.
    revert i j. induction fuel as [|f IH]; intros i j; cbn [range_idx].
    - destruct j; discriminate.
    - destruct (if (0 <? step)%Z then (i <? stop)%Z else (stop <? i)%Z) eqn:E; [|destruct j; discriminate].
      destruct j; cbn [nth_error].
      + intro H; inversion H. replace (i + Z.of_nat 0 * step)%Z with i by lia. auto.
      + intro H. apply IH in H.
        replace (i + Z.of_nat (S j) * step)%Z with (i + step + Z.of_nat j * step)%Z by lia. exact H.
  Qed.
  Lemma range_idx_in (fuel : nat) (i stop step : Z) (p : nat) :
    In p (range_idx fuel i stop step) ->
    exists j, p = Z.to_nat (i + Z.of_nat j * step) /\
              (if (0 <? step)%Z then (i + Z.of_nat j * step <? stop)%Z else (stop <? i + Z.of_nat j * step)%Z) = true.
  Proof.
    revert i. induction fuel as [|f IH]; intro i; cbn [range_idx]; [intros []|].
    destruct (if (0 <? step)%Z then (i <? stop)%Z else (stop <? i)%Z) eqn:E; [|intros []].
    intros [H|H].
    - exists 0. replace (i + Z.of_nat 0 * step)%Z with i by lia. split; auto.
    - apply IH in H as (j & -> & Hj). exists (S j).
      replace (i + Z.of_nat (S j) * step)%Z with (i + step + Z.of_nat j * step)%Z by lia. auto.
  Qed.
  (* the fuel (= the length of the list) never cuts a slice short *)
  Lemma range_idx_complete_up (fuel : nat) (i stop step : Z) :
    (0 < step)%Z -> (stop - i <= Z.of_nat fuel)%Z ->
    (stop <= i + Z.of_nat (length (range_idx fuel i stop step)) * step)%Z.
  Proof.
    intros Hs. revert i. induction fuel as [|f IH]; intros i Hf; cbn [range_idx].
    - cbn [length]. lia.
    - replace ((0 <? step)%Z) with true by (symmetry; apply Z.ltb_lt; lia).
      destruct ((i <? stop)%Z) eqn:E.
      + apply Z.ltb_lt in E. cbn [length]. specialize (IH (i + step)%Z). lia.
      + apply Z.ltb_ge in E. cbn [length]. lia.
  Qed.
  Lemma range_idx_complete_down (fuel : nat) (i stop step : Z) :
    (step < 0)%Z -> (i - stop <= Z.of_nat fuel)%Z ->
    (i + Z.of_nat (length (range_idx fuel i stop step)) * step <= stop)%Z.
  Proof.
    intros Hs. revert i. induction fuel as [|f IH]; intros i Hf; cbn [range_idx].
    - cbn [length]. lia.
    - replace ((0 <? step)%Z) with false by (symmetry; apply Z.ltb_ge; lia).
      destruct ((stop <? i)%Z) eqn:E.
      + apply Z.ltb_lt in E. cbn [length]. specialize (IH (i + step)%Z). lia.
      + apply Z.ltb_ge in E. cbn [length]. lia.
  Qed.

  Lemma slice_bounds_spec (n : nat) (s : pyslice) (start stop step : Z) :
    slice_bounds n s = Some (start, stop, step) ->
    step <> 0%Z /\ step = match s_step s with None => 1%Z | Some t => t end /\
    ((0 < step)%Z -> (0 <= start <= Z.of_nat n /\ 0 <= stop <= Z.of_nat n)%Z) /\
    ((step < 0)%Z -> (-1 <= start <= Z.of_nat n - 1 /\ -1 <= stop <= Z.of_nat n - 1)%Z).
  Proof.
    unfold slice_bounds, clamp_idx.
    set (st := match s_step s with None => 1%Z | Some t => t end).
    destruct (st =? 0)%Z eqn:E0; [discriminate|]. apply Z.eqb_neq in E0.
    intro H; inversion H; subst step; clear H.
    split; [auto|]. split; [auto|].
    destruct (st <? 0)%Z eqn:Es; [apply Z.ltb_lt in Es|apply Z.ltb_ge in Es].
    - split; [lia|]. intros _.
      destruct (s_start s) as [v|], (s_stop s) as [w|]; subst start stop;
        repeat match goal with |- context[(?a <? 0)%Z] => destruct (a <? 0)%Z eqn:?H end;
        rewrite ?Z.ltb_lt, ?Z.ltb_ge in *; lia.
    - split; [|lia]. intros _.
      destruct (s_start s) as [v|], (s_stop s) as [w|]; subst start stop;
        repeat match goal with |- context[(?a <? 0)%Z] => destruct (a <? 0)%Z eqn:?H end;
        rewrite ?Z.ltb_lt, ?Z.ltb_ge in *; lia.
  Qed.

  (* every index a slice selects is a valid position, and the j-th one is start + j*step *)
  Lemma slice_indices_spec (n : nat) (s : pyslice) (idx : list nat) :
    slice_indices n s = Some idx ->
    exists start stop step, slice_bounds n s = Some (start, stop, step) /\
      Forall (fun p => p < n) idx /\
      (forall j p, nth_error idx j = Some p -> Z.of_nat p = (start + Z.of_nat j * step)%Z) /\
      ((0 < step)%Z -> (stop <= start + Z.of_nat (length idx) * step)%Z) /\
      ((step < 0)%Z -> (start + Z.of_nat (length idx) * step <= stop)%Z).
  Proof.
    unfold slice_indices. destruct (slice_bounds n s) as [[[start stop] step]|] eqn:B; [|discriminate].
    intro H; inversion H; subst idx; clear H.
    exists start, stop, step. split; [reflexivity|].
    destruct (slice_bounds_spec _ _ _ _ _ B) as (Hnz & _ & Hup & Hdown).
    assert (Hin : forall p, In p (range_idx n start stop step) ->
                  exists j, (Z.of_nat p = start + Z.of_nat j * step)%Z /\ p < n).
    { intros p Hp. apply range_idx_in in Hp as (j & -> & Hj). exists j.
      destruct (0 <? step)%Z eqn:Es.
      - apply Z.ltb_lt in Es. apply Z.ltb_lt in Hj. destruct (Hup Es) as [? ?].
        assert (0 <= Z.of_nat j * step)%Z by nia. split; [rewrite Z2Nat.id; lia|lia].
      - apply Z.ltb_ge in Es. apply Z.ltb_lt in Hj. assert (Es' : (step < 0)%Z) by lia.
        destruct (Hdown Es') as [? ?].
        assert (Z.of_nat j * step <= 0)%Z by nia. split; [rewrite Z2Nat.id; lia|lia]. }
    split; [|split; [|split]].
    - apply Forall_forall. intros p Hp. now destruct (Hin p Hp) as (j & _ & ?).
    - intros j p Hj. apply range_idx_nth in Hj as [-> Hj].
      destruct (0 <? step)%Z eqn:Es.
      + apply Z.ltb_lt in Es. apply Z.ltb_lt in Hj. destruct (Hup Es) as [? ?].
        assert (0 <= Z.of_nat j * step)%Z by nia. rewrite Z2Nat.id; lia.
      + apply Z.ltb_ge in Es. apply Z.ltb_lt in Hj. assert (Es' : (step < 0)%Z) by lia.
        destruct (Hdown Es') as [? ?]. rewrite Z2Nat.id; lia.
    - intro Es. apply range_idx_complete_up; auto. destruct (Hup Es) as [? ?]. lia.
    - intro Es. apply range_idx_complete_down; auto. destruct (Hdown Es) as [? ?]. lia.
  Qed.

  (* step 1 (or None): a contiguous block *)
  Lemma range_idx_seq (fuel : nat) (a : nat) (stop : Z) :
    range_idx fuel (Z.of_nat a) stop 1 = seq a (Nat.min fuel (Z.to_nat (stop - Z.of_nat a))).
  Proof.
    revert a. induction fuel as [|f IH]; intro a; [reflexivity|]. cbn [range_idx].
    cbn [Z.ltb Z.compare]. destruct (Z.of_nat a <? stop)%Z eqn:E.
    - apply Z.ltb_lt in E. replace (Z.of_nat a + 1)%Z with (Z.of_nat (S a)) by lia. rewrite IH.
      replace (Z.to_nat (stop - Z.of_nat a)) with (S (Z.to_nat (stop - Z.of_nat (S a)))) by lia.
      cbn [Nat.min seq]. now rewrite Nat2Z.id.
    - apply Z.ltb_ge in E. replace (Z.to_nat (stop - Z.of_nat a)) with 0 by lia.
      rewrite Nat.min_0_r. reflexivity.
  Qed.

  (* l[a:b] with step None *)
  Definition clampn (n : nat) (v : option Z) (dflt : nat) : nat :=
    match v with
    | None => dflt
    | Some v => Z.to_nat (clamp_idx (Z.of_nat n) 0 (Z.of_nat n) v)
    end.
  Lemma py_slice_contiguous {A} (l : list A) (a b : option Z) :
    let lo := clampn (length l) a 0 in let hi := clampn (length l) b (length l) in
    py_slice l (mkSlice a b None) = Some (firstn (hi - lo) (skipn lo l)).
  Proof.
    cbv zeta. unfold py_slice, slice_indices, slice_bounds. cbn [s_step s_start s_stop].
    cbn [Z.eqb Z.ltb Z.compare option_map]. f_equal.
    set (n := length l).
    set (start := match a with None => 0%Z | Some v => clamp_idx (Z.of_nat n) 0 (Z.of_nat n) v end).
    set (stop := match b with None => Z.of_nat n | Some v => clamp_idx (Z.of_nat n) 0 (Z.of_nat n) v end).
    assert (Hs : (0 <= start <= Z.of_nat n)%Z).
    { subst start. destruct a as [v|]; [|lia]. unfold clamp_idx. destruct (v <? 0)%Z eqn:E;
        rewrite ?Z.ltb_lt, ?Z.ltb_ge in E; lia. }
    assert (Ht : (0 <= stop <= Z.of_nat n)%Z).
    { subst stop. destruct b as [v|]; [|lia]. unfold clamp_idx. destruct (v <? 0)%Z eqn:E;
        rewrite ?Z.ltb_lt, ?Z.ltb_ge in E; lia. }
    assert (Elo : clampn n a 0 = Z.to_nat start) by (subst start; destruct a; reflexivity).
    assert (Ehi : clampn n b n = Z.to_nat stop).
    { subst stop; destruct b; cbn [clampn]; auto. now rewrite Nat2Z.id. }
    rewrite Elo, Ehi.
    replace start with (Z.of_nat (Z.to_nat start)) at 1 by lia.
    rewrite range_idx_seq.
    replace (Nat.min n (Z.to_nat (stop - Z.of_nat (Z.to_nat start)))) with (Z.to_nat stop - Z.to_nat start) by lia.
    destruct (Z_le_gt_dec start stop).
    - apply select_seq. fold n. lia.
    - replace (Z.to_nat stop - Z.to_nat start) with 0 by lia. reflexivity.
  Qed.

  (* python's  l[:a] + l[a:] == l  for every a, negative or out of range included *)
  Lemma py_slice_split {A} (l : list A) (a : Z) :
    exists l1 l2, py_slice l (mkSlice None (Some a) None) = Some l1 /\
                  py_slice l (mkSlice (Some a) None None) = Some l2 /\ l1 ++ l2 = l.
  Proof.
    pose proof (py_slice_contiguous l None (Some a)) as H1.
    pose proof (py_slice_contiguous l (Some a) None) as H2.
    cbv zeta in H1, H2. cbn [clampn] in H1, H2.
    set (c := Z.to_nat (clamp_idx (Z.of_nat (length l)) 0 (Z.of_nat (length l)) a)) in *.
    do 2 eexists. split; [exact H1|]. split; [exact H2|].
    rewrite Nat.sub_0_r. cbn [skipn].
    assert (c <= length l).
    { subst c. unfold clamp_idx. destruct (a <? 0)%Z eqn:E; rewrite ?Z.ltb_lt, ?Z.ltb_ge in E; lia. }
    rewrite (firstn_all2 (n := length l - c)) by (rewrite skipn_length; lia).
    apply firstn_skipn.
  Qed.
  (* l[:] is the whole list *)
  Lemma py_slice_all {A} (l : list A) : py_slice l (mkSlice None None None) = Some l.
  Proof.
    rewrite py_slice_contiguous. cbn [clampn skipn]. now rewrite Nat.sub_0_r, firstn_all.
  Qed.

  (* python slice semantics: element j of l[s] is element start + j*step of l (a valid position), and the
     slice is complete: the next index would be past stop *)
  Lemma py_slice_spec {A} (l l' : list A) (s : pyslice) :
    py_slice l s = Some l' ->
    exists start stop step, slice_bounds (length l) s = Some (start, stop, step) /\
      (forall j, j < length l' ->
         (0 <= start + Z.of_nat j * step < Z.of_nat (length l))%Z /\
         nth_error l' j = nth_error l (Z.to_nat (start + Z.of_nat j * step))) /\
      ((0 < step)%Z -> (stop <= start + Z.of_nat (length l') * step)%Z) /\
      ((step < 0)%Z -> (start + Z.of_nat (length l') * step <= stop)%Z).
  Proof.
    unfold py_slice. destruct (slice_indices (length l) s) as [idx|] eqn:E; [|discriminate].
    cbn [option_map]. intro H; inversion H; subst l'; clear H.
    destruct (slice_indices_spec _ _ _ E) as (start & stop & step & B & R & Nth & Up & Down).
    exists start, stop, step. rewrite select_length by exact R. split; [exact B|]. split; [|split; auto].
    intros j Hj. destruct (nth_error idx j) as [p|] eqn:Ej; [|apply nth_error_None in Ej; lia].
    pose proof (Nth _ _ Ej) as Hp. rewrite select_nth, Ej by exact R.
    assert (p < length l) by (eapply Forall_forall in R; [exact R|eapply nth_error_In; eauto]).
    split; [lia|]. rewrite <- Hp, Nat2Z.id. reflexivity.
  Qed.

  (* --- slices of monitors --- *)
  Lemma getitem_slice_contents (m m' : monitor) (s : pyslice) :
    getitem_slice m s = Some m' ->
    py_slice (get_x m) s = Some (get_x m') /\ py_slice (get_y m) s = Some (get_y m') /\
    py_slice (get_id m) s = Some (get_id m') /\ minfo m' = [] /\ mk m' = mk m.
  Proof.
    unfold getitem_slice, get_x, get_y, get_id.
    destruct (py_slice (mx m) s) eqn:Ex; [|discriminate].
    destruct (py_slice (my m) s) eqn:Ey; [|discriminate].
    destruct (py_slice (mid m) s) eqn:Ei; [|discriminate].
    intro H; inversion H; subst m'; clear H. cbn [mx my mid minfo mk].
    rewrite py_slice_map, Ey. auto.
  Qed.
  Lemma getitem_slice_error (m : monitor) (s : pyslice) :
    getitem_slice m s = None <-> s_step s = Some 0%Z.
  Proof.
    unfold getitem_slice, py_slice, slice_indices, slice_bounds.
    destruct (s_step s) as [t|]; cbn [Z.eqb].
    - destruct (t =? 0)%Z eqn:E; cbn [option_map].
      + apply Z.eqb_eq in E. subst. split; auto.
      + apply Z.eqb_neq in E. split; [discriminate|]. intro H; inversion H; contradiction.
    - cbn [option_map]. split; discriminate.
  Qed.

  (* --- the stored lists under extend / prepend / add (x, id, info; y is in part 2) --- *)
  Lemma extend_contents (a b : monitor) :
    get_x (extend a b) = get_x a ++ get_x b /\ get_id (extend a b) = get_id a ++ get_id b /\
    minfo (extend a b) = minfo a ++ minfo b /\ mk (extend a b) = mk a.
  Proof. repeat split. Qed.
  Lemma prepend_contents (a b : monitor) :
    get_x (prepend a b) = get_x b ++ get_x a /\ get_id (prepend a b) = get_id b ++ get_id a /\
    minfo (prepend a b) = minfo b ++ minfo a /\ mk (prepend a b) = mk a.
  Proof. repeat split. Qed.

  (* --- argument_unchanged: operations on a store touch only their target --- *)
  Definition target (o : op) : option nat :=
    match o with
    | OCall t _ _ _ => Some t | OInfo t _ => Some t
    | OExtend a _ => Some a | OPrepend a _ => Some a
    | _ => None
    end.
  Lemma nth_error_firstn_lt {A} (l : list A) (t j : nat) :
    j < t -> nth_error (firstn t l) j = nth_error l j.
  Proof.
    revert t j. induction l as [|a l IH]; intros t j H.
    - rewrite firstn_nil. reflexivity.
    - destruct t; [lia|]. destruct j; cbn [firstn nth_error]; auto. apply IH. lia.
  Qed.
  Lemma nth_error_skipn_add {A} (l : list A) (t j : nat) :
    nth_error (skipn t l) j = nth_error l (t + j).
  Proof.
    revert l. induction t as [|t IH]; intro l; cbn [skipn plus]; auto.
    destruct l; cbn [nth_error]; auto. destruct j; reflexivity.
  Qed.
  Lemma upd_other (st : store) (t j : nat) (m : monitor) :
    t < length st -> j <> t -> nth_error (upd st t m) j = nth_error st j.
  Proof.
    intros Ht Hj. unfold upd.
    destruct (Nat.lt_ge_cases j t) as [L|G].
    - rewrite nth_error_app1 by (rewrite firstn_length; lia). apply nth_error_firstn_lt; auto.
    - rewrite nth_error_app2 by (rewrite firstn_length; lia). rewrite firstn_length, Nat.min_l by lia.
      destruct (j - t) as [|d] eqn:E; [lia|]. cbn [nth_error]. rewrite nth_error_skipn_add. f_equal. lia.
  Qed.
  Lemma upd_same (st : store) (t : nat) (m : monitor) :
    t < length st -> nth_error (upd st t m) t = Some m.
  Proof.
    intro Ht. unfold upd. rewrite nth_error_app2 by (rewrite firstn_length; lia).
    rewrite firstn_length, Nat.min_l, Nat.sub_diag by lia. reflexivity.
  Qed.
  Lemma upd_length (st : store) (t : nat) (m : monitor) : t < length st -> length (upd st t m) = length st.
  Proof.
    intro Ht. unfold upd. rewrite app_length, firstn_length. cbn [length]. rewrite skipn_length. lia.
  Qed.

  Lemma step_untouched (st st' : store) (o : op) (j : nat) :
    step st o = Some st' -> j < length st -> target o <> Some j -> nth_error st' j = nth_error st j.
  Proof.
    intros H Hj Ht. destruct o; cbn [step target] in *.
    - inversion H; subst. now rewrite nth_error_app1.
    - destruct (nth_error st t) eqn:E; [|discriminate]. inversion H; subst.
      apply upd_other; [apply nth_error_Some; congruence|congruence].
    - destruct (nth_error st t) eqn:E; [|discriminate]. inversion H; subst.
      apply upd_other; [apply nth_error_Some; congruence|congruence].
    - destruct (nth_error st t) eqn:E; [|discriminate].
      destruct (getitem_slice m s); [|discriminate]. inversion H; subst. now rewrite nth_error_app1.
    - destruct (nth_error st a), (nth_error st b); try discriminate. inversion H; subst.
      now rewrite nth_error_app1.
    - destruct (nth_error st a) eqn:E, (nth_error st b); try discriminate. inversion H; subst.
      apply upd_other; [apply nth_error_Some; congruence|congruence].
    - destruct (nth_error st a) eqn:E, (nth_error st b); try discriminate. inversion H; subst.
      apply upd_other; [apply nth_error_Some; congruence|congruence].
  Qed.

  (* the monitor PASSED to +, extend, prepend, [slice] is exactly what it was (for extend/prepend: when it
     is another monitor than the one being extended -- a.extend(a) is meant to change a) *)
  Lemma argument_unchanged (st st' : store) (a b : nat) (s : pyslice) :
    (step st (OAdd a b) = Some st' -> nth_error st' a = nth_error st a /\ nth_error st' b = nth_error st b) /\
    (a <> b -> step st (OExtend a b) = Some st' -> nth_error st' b = nth_error st b) /\
    (a <> b -> step st (OPrepend a b) = Some st' -> nth_error st' b = nth_error st b) /\
    (step st (OSlice a s) = Some st' -> nth_error st' a = nth_error st a).
  Proof.
    split; [|split; [|split]].
    - intro H; pose proof H as H'; cbn [step] in H.
      destruct (nth_error st a) eqn:Ea, (nth_error st b) eqn:Eb; try discriminate.
      rewrite <- Ea, <- Eb.
      split; (eapply step_untouched; [exact H'| |cbn; discriminate]); apply nth_error_Some; congruence.
    - intros E H; pose proof H as H'; cbn [step] in H.
      destruct (nth_error st a) eqn:Ea, (nth_error st b) eqn:Eb; try discriminate.
      rewrite <- Eb. eapply step_untouched; [exact H'| |cbn; congruence].
      apply nth_error_Some; congruence.
    - intros E H; pose proof H as H'; cbn [step] in H.
      destruct (nth_error st a) eqn:Ea, (nth_error st b) eqn:Eb; try discriminate.
      rewrite <- Eb. eapply step_untouched; [exact H'| |cbn; congruence].
      apply nth_error_Some; congruence.
    - intro H; pose proof H as H'; cbn [step] in H. destruct (nth_error st a) eqn:Ea; [|discriminate].
      rewrite <- Ea. eapply step_untouched; [exact H'| |cbn; discriminate].
      apply nth_error_Some; congruence.
  Qed.

  (* what the operations put where *)
  Lemma step_result (st st' : store) (a b : nat) (ma mb : monitor) :
    nth_error st a = Some ma -> nth_error st b = Some mb ->
    (step st (OAdd a b) = Some st' -> nth_error st' (length st) = Some (madd ma mb)) /\
    (step st (OExtend a b) = Some st' -> nth_error st' a = Some (extend ma mb)) /\
    (step st (OPrepend a b) = Some st' -> nth_error st' a = Some (prepend ma mb)).
  Proof.
    intros Ea Eb. assert (La : a < length st) by (apply nth_error_Some; congruence).
    repeat split; cbn [step]; rewrite ?Ea, ?Eb.
    - intro H; inversion H; subst. rewrite nth_error_app2, Nat.sub_diag by lia. reflexivity.
    - intro H; inversion H; subst. now apply upd_same.
    - intro H; inversion H; subst. now apply upd_same.
  Qed.

  (* failing operations leave the store as it was *)
  Lemma run_failed_step (st : store) (o : op) (r : list op) :
    step st o = None -> run st (o :: r) = (fst (run st r), false :: snd (run st r)).
  Proof. intro H. cbn [run]. now rewrite H. Qed.
End Structure.
Arguments rec_x {N X I} r.
Arguments rec_y {N X I} r.
Arguments rec_id {N X I} r.

(* ------------------------------------------------------------------ *)
(* Part 2: the cost column, k transparent (real arithmetic, k <> 0)     *)
(* ------------------------------------------------------------------ *)
Section Costs.
  Variables X I M : Type.
  Notation monitor := (monitor NumR X I M).
  Notation cost := (cost NumR).
  Local Open Scope R_scope.
  Local Notation cmapR := (@cmap NumR).
  Local Notation unscaleR := (@unscale NumR).
  Local Notation scaleR := (@scale NumR).

  Definition knz (k : option R) : Prop := match k with Some v => v <> 0 | None => True end.

  Lemma cmap_cmap (f g : R -> R) (c : cost) : cmapR f (cmapR g c) = cmapR (fun v => f (g v)) c.
  Proof. destruct c; cbn [cmap]; auto. now rewrite map_map. Qed.
  Lemma cmap_id (f : R -> R) (c : cost) : (forall v, f v = v) -> cmapR f c = c.
  Proof.
    intro H. destruct c; cbn [cmap]; [now rewrite H|]. f_equal.
    rewrite (map_ext f (fun v => v) H). apply map_id.
  Qed.
  Lemma cmap_ext (f g : R -> R) (c : cost) : (forall v, f v = g v) -> cmapR f c = cmapR g c.
  Proof. intro H. destruct c; cbn [cmap]; [now rewrite H|]. f_equal. now apply map_ext. Qed.

  Lemma unscale_scale (k : option R) (y : cost) : knz k -> unscaleR k (scaleR k y) = y.
  Proof.
    destruct k as [k|]; cbn [knz unscale scale]; auto. intro Hk.
    rewrite cmap_cmap. apply cmap_id. intro v. cbn. field. exact Hk.
  Qed.

  (* y read back after n calls = y recorded *)
  Lemma get_y_calls (k : option R) (rs : list (record NumR X I)) :
    knz k -> get_y (call_all (new_monitor NumR X I M k) rs) = map rec_y rs.
  Proof.
    intro Hk. unfold get_y. rewrite call_all_my, call_all_mk. cbn [new_monitor my mk app].
    rewrite map_map. apply map_ext. intro r. now apply unscale_scale.
  Qed.
  Lemma get_y_call (m : monitor) x y id :
    knz (mk m) -> get_y (call m x y id) = get_y m ++ [y].
  Proof.
    intro Hk. unfold get_y. cbn [call my mk]. rewrite map_app. cbn [map]. now rewrite unscale_scale.
  Qed.

  (* the i-th recorded (x, y, id) comes back unchanged, with non-negative and with negative index *)
  Lemma nth_roundtrip (k : option R) (rs : list (record NumR X I)) (i : nat) x y id :
    knz k -> nth_error rs i = Some (x, y, id) ->
    let m := call_all (new_monitor NumR X I M k) rs in
    getitem_int m (Z.of_nat i) = Some (x, y) /\
    getitem_int m (Z.of_nat i - Z.of_nat (length rs)) = Some (x, y) /\
    nth_error (get_id m) i = Some id.
  Proof.
    intros Hk Hi. cbv zeta.
    assert (Li : (i < length rs)%nat) by (apply nth_error_Some; congruence).
    unfold getitem_int, py_nth. rewrite get_x_calls, get_y_calls, get_id_calls by auto.
    rewrite !map_length, py_index_nonneg, py_index_neg by auto.
    rewrite !nth_error_map, Hi. cbn. auto.
  Qed.
  Lemma nth_out_of_range (k : option R) (rs : list (record NumR X I)) (i : Z) :
    (Z.of_nat (length rs) <= i \/ i < - Z.of_nat (length rs))%Z ->
    getitem_int (call_all (new_monitor NumR X I M k) rs) i = None.
  Proof.
    intro H. unfold getitem_int, py_nth. rewrite get_x_calls, map_length, py_index_error; auto.
  Qed.

  (* the other monitor's costs re-expressed in self's scaling read back as the other's costs *)
  Lemma get_y_for_spec (a b : monitor) :
    knz (mk a) -> knz (mk b) ->
    map (unscaleR (mk a)) (get_y_for a b) = get_y b.
  Proof.
    intros Ha Hb. unfold get_y_for, get_y, kdiv.
    destruct (mk a) as [p|] eqn:Ea, (mk b) as [q|] eqn:Eb; cbn [knz kval] in *.
    - rewrite map_map. apply map_ext. intro c. cbn [unscale]. rewrite cmap_cmap. apply cmap_ext.
      intro v. cbn. field. auto.
    - rewrite map_map. apply map_ext. intro c. cbn [unscale]. rewrite cmap_cmap.
      apply cmap_id. intro v. cbn. field. auto.
    - rewrite map_map. apply map_ext. intro c. cbn [unscale]. apply cmap_ext. intro v. cbn. field. auto.
    - cbn [unscale]. reflexivity.
  Qed.

  Lemma extend_y (a b : monitor) :
    knz (mk a) -> knz (mk b) -> get_y (extend a b) = get_y a ++ get_y b.
  Proof.
    intros Ha Hb. unfold get_y at 1. cbn [extend my mk]. rewrite map_app. now rewrite get_y_for_spec.
  Qed.
  Lemma prepend_y (a b : monitor) :
    knz (mk a) -> knz (mk b) -> get_y (prepend a b) = get_y b ++ get_y a.
  Proof.
    intros Ha Hb. unfold get_y at 1. cbn [prepend my mk]. rewrite map_app. now rewrite get_y_for_spec.
  Qed.

  (* +, extend, prepend are exactly the corresponding concatenations of x, y, id (and info) *)
  Lemma extend_is_concat (a b : monitor) :
    knz (mk a) -> knz (mk b) ->
    let m := extend a b in
    get_x m = get_x a ++ get_x b /\ get_y m = get_y a ++ get_y b /\
    get_id m = get_id a ++ get_id b /\ minfo m = minfo a ++ minfo b /\ mk m = mk a.
  Proof. intros Ha Hb. cbv zeta. rewrite extend_y by auto. repeat split. Qed.
  Lemma prepend_is_concat (a b : monitor) :
    knz (mk a) -> knz (mk b) ->
    let m := prepend a b in
    get_x m = get_x b ++ get_x a /\ get_y m = get_y b ++ get_y a /\
    get_id m = get_id b ++ get_id a /\ minfo m = minfo b ++ minfo a /\ mk m = mk a.
  Proof. intros Ha Hb. cbv zeta. rewrite prepend_y by auto. repeat split. Qed.

  (* a monitor combined with itself: contents doubled *)
  Lemma self_combination (m : monitor) :
    knz (mk m) ->
    (get_x (extend m m) = get_x m ++ get_x m /\ get_y (extend m m) = get_y m ++ get_y m /\
     get_id (extend m m) = get_id m ++ get_id m /\ minfo (extend m m) = minfo m ++ minfo m) /\
    (get_x (prepend m m) = get_x m ++ get_x m /\ get_y (prepend m m) = get_y m ++ get_y m /\
     get_id (prepend m m) = get_id m ++ get_id m /\ minfo (prepend m m) = minfo m ++ minfo m).
  Proof.
    intro H. destruct (extend_is_concat m m H H) as (A & B & C & D & _).
    destruct (prepend_is_concat m m H H) as (A' & B' & C' & D' & _). repeat split; assumption.
  Qed.

  (* ---- cost column of the parameter files: the recorded costs (k transparent) ---- *)
  Lemma raw_file_cost_ok (k : option R) (rs : list (record NumR X I)) :
    knz k -> raw_file_cost (call_all (new_monitor NumR X I M k) rs) = map rec_y rs.
  Proof. apply get_y_calls. Qed.
  Lemma support_file_cost_any (m : monitor) : knz (mk m) -> support_file_cost m = get_y m.
  Proof.
    intro Hk. unfold support_file_cost, write_monitor_y. unfold get_y at 1. cbn [my mk].
    rewrite map_map. erewrite map_ext; [apply map_id|]. intro c. now apply unscale_scale.
  Qed.
  Lemma support_file_cost_ok (k : option R) (rs : list (record NumR X I)) :
    knz k -> support_file_cost (call_all (new_monitor NumR X I M k) rs) = map rec_y rs.
  Proof.
    intro Hk. rewrite support_file_cost_any by (now rewrite call_all_mk). now apply get_y_calls.
  Qed.
End Costs.
