(* C12 - proofs about the comparator algebra of Pure/Symbolic.v (all inputs, all evaluation points). *)
From Coq Require Import List ZArith QArith Bool Lia Lqa Setoid Morphisms.
From MV Require Import Pure.SymExpr Pure.Symbolic.
Import ListNotations.
Open Scope Q_scope.

(* ------------------------------------------------------------------ booleans on Q *)
Lemma Qeqb_true a b : Qeqb a b = true <-> a == b.
Proof. unfold Qeqb. apply Qeq_bool_iff. Qed.
Lemma Qeqb_false a b : Qeqb a b = false <-> ~ a == b.
Proof. rewrite <- Qeqb_true. destruct (Qeqb a b); split; intro H; try discriminate; auto. exfalso; apply H; reflexivity. Qed.
Lemma Qleb_true a b : Qleb a b = true <-> a <= b.
Proof. unfold Qleb. apply Qle_bool_iff. Qed.
Lemma Qleb_false a b : Qleb a b = false <-> b < a.
Proof.
  split; intro H.
  - apply Qnot_le_lt. intro L. apply Qleb_true in L. congruence.
  - destruct (Qleb a b) eqn:E; auto. apply Qleb_true in E. lra.
Qed.
Lemma Qltb_true a b : Qltb a b = true <-> a < b.
Proof. unfold Qltb. rewrite negb_true_iff. apply (Qleb_false b a). Qed.
Lemma Qltb_false a b : Qltb a b = false <-> b <= a.
Proof. unfold Qltb. rewrite negb_false_iff. apply (Qleb_true b a). Qed.

(* ------------------------------------------------------------------ holds / holdsb *)
Lemma definedb_spec e x : definedb e x = true <-> defined e x.
Proof.
  induction x; cbn; try tauto; try (rewrite andb_true_iff; tauto).
  rewrite !andb_true_iff, negb_true_iff, Qeqb_false. tauto.
Qed.

Lemma cmp_holdsb_spec c a b : cmp_holdsb c a b = true <-> cmp_holds c a b.
Proof.
  destruct c; cbn; rewrite ?negb_true_iff, ?Qltb_true, ?Qleb_true, ?Qeqb_true, ?Qeqb_false; tauto.
Qed.

Lemma holdsb_spec e r : holdsb e r = true <-> holds e r.
Proof. unfold holdsb, holds. rewrite !andb_true_iff, !definedb_spec, cmp_holdsb_spec. tauto. Qed.

Lemma holds_sys_Forall e s : holds_sys e s <-> Forall (holds e) s.
Proof.
  induction s; cbn.
  - split; auto.
  - rewrite IHs. split; [intros [A B]; constructor; auto | intro H; inversion H; auto].
Qed.

Lemma holds_cases_Exists e cs : holds_cases e cs <-> Exists (holds_sys e) cs.
Proof.
  induction cs; cbn.
  - split; [tauto | intro H; inversion H].
  - rewrite IHcs. split; [intros [A|B]; [left|right]; auto | intro H; inversion H; auto].
Qed.

Lemma holds_sysb_spec e s : holds_sysb e s = true <-> holds_sys e s.
Proof.
  unfold holds_sysb. rewrite forallb_forall, holds_sys_Forall, Forall_forall.
  split; intros H x Hx; apply holdsb_spec; auto.
Qed.

Lemma holds_casesb_spec e cs : holds_casesb e cs = true <-> holds_cases e cs.
Proof.
  unfold holds_casesb. rewrite existsb_exists, holds_cases_Exists, Exists_exists.
  split; intros [x [Hx H]]; exists x; split; auto; apply holds_sysb_spec; auto.
Qed.

Lemma holds_sys_app e s t : holds_sys e (s ++ t) <-> holds_sys e s /\ holds_sys e t.
Proof. induction s; cbn; [tauto | rewrite IHs; tauto]. Qed.

Lemma holds_cases_app e s t : holds_cases e (s ++ t) <-> holds_cases e s \/ holds_cases e t.
Proof. induction s; cbn; [tauto | rewrite IHs; tauto]. Qed.

Lemma holds_sys_In e s r : holds_sys e s -> In r s -> holds e r.
Proof. rewrite holds_sys_Forall, Forall_forall. auto. Qed.

(* ------------------------------------------------------------------ syntactic equality *)
Lemma Qsyn_eqb_eq p q : Qsyn_eqb p q = true -> p = q.
Proof.
  destruct p, q; unfold Qsyn_eqb; cbn. rewrite andb_true_iff, Z.eqb_eq, Pos.eqb_eq. intros [-> ->]; reflexivity.
Qed.

Lemma expr_eqb_eq x : forall y, expr_eqb x y = true -> x = y.
Proof.
  induction x; destruct y; cbn; try discriminate; intro H;
    try (apply andb_true_iff in H; destruct H as [H1 H2]);
    try (f_equal; auto; try (apply Qsyn_eqb_eq; assumption); try (apply Nat.eqb_eq; assumption); fail).
  f_equal. apply Qsyn_eqb_eq. unfold Qsyn_eqb. rewrite H1, H2. reflexivity.
Qed.

Lemma cmp_eqb_eq c d : cmp_eqb c d = true -> c = d.
Proof. destruct c, d; cbn; congruence. Qed.

Lemma rel_eqb_eq r s : rel_eqb r s = true -> r = s.
Proof.
  destruct r, s; unfold rel_eqb, same_sides; cbn. rewrite !andb_true_iff. intros [[A B] C].
  apply expr_eqb_eq in A. apply expr_eqb_eq in B. apply cmp_eqb_eq in C. subst; reflexivity.
Qed.

Lemma expr_eqb_refl x : expr_eqb x x = true.
Proof.
  induction x; cbn; rewrite ?andb_true_iff, ?Nat.eqb_refl; auto.
  unfold Qsyn_eqb. rewrite Z.eqb_refl, Pos.eqb_refl. reflexivity.
Qed.

Lemma In_rmem r l : In r l -> rmem r l = true.
Proof.
  intro H. unfold rmem. apply existsb_exists. exists r. split; auto.
  unfold rel_eqb, same_sides. rewrite !expr_eqb_refl. destruct (rcmp r); reflexivity.
Qed.

Lemma rmem_In r l : rmem r l = true -> In r l.
Proof.
  unfold rmem. rewrite existsb_exists. intros [s [Hs E]]. apply rel_eqb_eq in E. subst; auto.
Qed.

(* ------------------------------------------------------------------ flip *)
Lemma flip_sound c a b : cmp_holds (flipc c) a b <-> cmp_holds c b a.
Proof. destruct c; cbn; try tauto; split; intro H; try (symmetry; exact H); intro E; apply H; symmetry; exact E. Qed.

Lemma flipc_involutive c : flipc (flipc c) = c.
Proof. destruct c; reflexivity. Qed.

Lemma flipc_neg_mul c k a b : k < 0 -> (cmp_holds c a b <-> cmp_holds (flipc c) (k * a) (k * b)).
Proof. intro K. destruct c; cbn; split; intro H; try nra; intro E; apply H; nra. Qed.

Lemma cmp_pos_mul c k a b : 0 < k -> (cmp_holds c a b <-> cmp_holds c (k * a) (k * b)).
Proof. intro K. destruct c; cbn; split; intro H; try nra; intro E; apply H; nra. Qed.

Lemma flipb_sound c a b : is_ineq c = true -> (cmp_holds (flipb c) a b <-> ~ cmp_holds c a b).
Proof. destruct c; cbn; try discriminate; intros _; split; intro H; lra. Qed.

Lemma flipc_ineq c : is_ineq (flipc c) = is_ineq c.
Proof. destruct c; reflexivity. Qed.
Lemma flipb_ineq c : is_ineq (flipb c) = is_ineq c.
Proof. destruct c; reflexivity. Qed.

(* the comparison respects == *)
Lemma cmp_holds_compat c a a' b b' : a == a' -> b == b' -> (cmp_holds c a b <-> cmp_holds c a' b').
Proof. intros A B. destruct c; cbn; rewrite A, B; tauto. Qed.

(* ------------------------------------------------------------------ linear forms *)
Lemma tsum_app e s t : tsum e (s ++ t) == tsum e s + tsum e t.
Proof. induction s as [|[v c] s IH]; cbn; [ring | rewrite IH; ring]. Qed.

Lemma tsum_scale e k ts : tsum e (map (fun p => (fst p, k * snd p)) ts) == k * tsum e ts.
Proof. induction ts as [|[v c] s IH]; cbn; [ring | rewrite IH; ring]. Qed.

Lemma leval_ladd e a b : leval e (ladd a b) == leval e a + leval e b.
Proof. unfold leval, ladd; cbn. rewrite tsum_app. ring. Qed.
Lemma leval_lscale e k a : leval e (lscale k a) == k * leval e a.
Proof. unfold leval, lscale; cbn. rewrite tsum_scale. ring. Qed.
Lemma leval_lneg e a : leval e (lneg a) == - leval e a.
Proof. unfold lneg. rewrite leval_lscale. ring. Qed.
Lemma leval_lsub e a b : leval e (lsub a b) == leval e a - leval e b.
Proof. unfold lsub. rewrite leval_ladd, leval_lneg. ring. Qed.
Lemma leval_const e l : is_const l = true -> leval e l == snd l.
Proof. unfold is_const, leval. destruct (fst l); [cbn; intros _; ring | discriminate]. Qed.

Lemma qpow_compat a b k : a == b -> qpow a k == qpow b k.
Proof. intro E. induction k; cbn; [reflexivity | rewrite IHk, E; reflexivity]. Qed.

Lemma linearize_sound e x : forall l, linearize x = Some l -> defined e x /\ eval e x == leval e l.
Proof.
  induction x; cbn; intros l H.
  - inversion H; subst. split; auto. unfold leval, lconst; cbn. ring.
  - inversion H; subst. split; auto. unfold leval, lvar; cbn. ring.
  - destruct (linearize x) as [p|]; cbn in H; [|discriminate]. inversion H; subst.
    destruct (IHx p eq_refl) as [D E]. split; auto. rewrite leval_lneg, E. reflexivity.
  - destruct (linearize x1) as [p|]; [|discriminate]. destruct (linearize x2) as [q|]; [|discriminate].
    inversion H; subst. destruct (IHx1 p eq_refl) as [D1 E1]. destruct (IHx2 q eq_refl) as [D2 E2].
    split; auto. rewrite leval_ladd, E1, E2. reflexivity.
  - destruct (linearize x1) as [p|]; [|discriminate]. destruct (linearize x2) as [q|]; [|discriminate].
    inversion H; subst. destruct (IHx1 p eq_refl) as [D1 E1]. destruct (IHx2 q eq_refl) as [D2 E2].
    split; auto. rewrite leval_lsub, E1, E2. reflexivity.
  - destruct (linearize x1) as [p|]; [|discriminate]. destruct (linearize x2) as [q|]; [|discriminate].
    destruct (IHx1 p eq_refl) as [D1 E1]. destruct (IHx2 q eq_refl) as [D2 E2].
    destruct (is_const p) eqn:Cp.
    + inversion H; subst. split; auto. rewrite leval_lscale, E1, E2, (leval_const e p Cp). reflexivity.
    + destruct (is_const q) eqn:Cq; [|discriminate]. inversion H; subst. split; auto.
      rewrite leval_lscale, E1, E2, (leval_const e q Cq). ring.
  - destruct (linearize x1) as [p|]; [|discriminate]. destruct (linearize x2) as [q|]; [|discriminate].
    destruct (IHx1 p eq_refl) as [D1 E1]. destruct (IHx2 q eq_refl) as [D2 E2].
    destruct (is_const q) eqn:Cq; cbn in H; [|discriminate].
    destruct (Qeqb (snd q) 0) eqn:Z; cbn in H; [discriminate|]. inversion H; subst.
    apply Qeqb_false in Z. assert (E2' : eval e x2 == snd q) by (rewrite E2; apply leval_const; auto).
    split.
    + repeat split; auto. rewrite E2'. auto.
    + rewrite leval_lscale, E1, E2'. unfold Qdiv. ring.
  - destruct k as [|[|k]].
    + destruct (linearize x) as [p|]; [|discriminate]. destruct (IHx p eq_refl) as [D E].
      inversion H; subst. split; auto. cbn [eval qpow]. unfold leval, lconst; cbn [fst snd tsum]. ring.
    + destruct (IHx l H) as [D E]. split; auto. cbn. rewrite E. ring.
    + destruct (linearize x) as [p|]; [|discriminate]. destruct (IHx p eq_refl) as [D E].
      destruct (is_const p) eqn:Cp; [|discriminate]. inversion H; subst. split; auto.
      assert (Ex : eval e x == snd p) by (rewrite E; apply leval_const; auto).
      change (eval e (Pow x (S (S k)))) with (qpow (eval e x) (S (S k))).
      rewrite (qpow_compat _ _ (S (S k)) Ex). unfold leval, lconst. cbn [fst snd tsum qpow]. ring.
Qed.

Lemma eval_expr_of_terms e ts : defined e (expr_of_terms ts) /\ eval e (expr_of_terms ts) == tsum e ts.
Proof.
  induction ts as [|[v c] t [D E]]; cbn.
  - split; auto; ring.
  - destruct t as [|[w d] t'].
    + cbn. split; auto. ring.
    + cbn [defined eval] in *. split; [tauto|]. rewrite E. cbn [tsum]. ring.
Qed.

Lemma eval_expr_of_lin e l : defined e (expr_of_lin l) /\ eval e (expr_of_lin l) == leval e l.
Proof.
  unfold expr_of_lin, leval. destruct (eval_expr_of_terms e (fst l)) as [D E]. cbn [defined eval].
  split; [tauto | rewrite E; reflexivity].
Qed.

Lemma coeff_split e l v : leval e l == coeff l v * e v + leval e (lremove l v).
Proof.
  unfold leval, coeff, lremove; cbn [fst snd]. destruct l as [ts k]; cbn [fst snd].
  induction ts as [|[w c] t IH]; cbn [tsum tcoeff filter fst].
  - ring.
  - destruct (Nat.eqb w v) eqn:W; cbn [negb].
    + apply Nat.eqb_eq in W; subst. lra.
    + cbn [tsum]. lra.
Qed.

(* ------------------------------------------------------------------ isolating a variable in a linear line *)
Lemma isolate_lin_equiv l1 c l2 v i :
  isolate_lin l1 c l2 v = Some i ->
  forall e, cmp_holds c (leval e l1) (leval e l2) <-> holds_iso e i.
Proof.
  unfold isolate_lin. set (d := lsub l1 l2). set (a := coeff d v).
  destruct (Qeqb a 0) eqn:Z; [discriminate|]. apply Qeqb_false in Z. intros H e. inversion H; subst i; clear H.
  unfold holds_iso; cbn [iv ic il].
  assert (S : leval e l1 - leval e l2 == a * e v + leval e (lremove d v)).
  { rewrite <- leval_lsub. apply coeff_split. }
  rewrite (cmp_holds_compat _ _ _ _ _ (Qeq_refl (e v)) (leval_lscale e (- / a) (lremove d v))).
  set (r := leval e (lremove d v)) in *. set (x := e v) in *.
  set (A := leval e l1) in *. set (B := leval e l2) in *.
  assert (I : a * / a == 1) by (apply Qmult_inv_r; auto).
  set (ia := / a) in *.
  assert (K : ia * (A - B) == x + ia * r).
  { rewrite S. setoid_replace (ia * (a * x + r)) with ((a * ia) * x + ia * r) by ring. rewrite I. ring. }
  clearbody ia r x A B a.
  assert (Z0 : A == B <-> x == - ia * r).
  { split; intro H.
    - assert (ia * (A - B) == 0) by (rewrite H; ring). lra.
    - assert (H0 : ia * (A - B) == 0) by lra. destruct (Qmult_integral _ _ H0) as [H1|H1]; [|lra].
      rewrite H1 in I. lra. }
  destruct (Qltb a 0) eqn:N.
  - apply Qltb_true in N. assert (T : ia < 0) by nra.
    destruct c; cbn [flipc cmp_holds]; try tauto; split; intro H; nra.
  - apply Qltb_false in N. assert (T : 0 < ia) by nra.
    destruct c; cbn [cmp_holds]; try tauto; split; intro H; nra.
Qed.

Lemma holds_rel_of_iso e i : holds e (rel_of_iso i) <-> holds_iso e i.
Proof.
  unfold holds, rel_of_iso, holds_iso; cbn [lhs rhs rcmp defined eval].
  destruct (eval_expr_of_lin e (il i)) as [D E].
  rewrite (cmp_holds_compat _ _ _ _ _ (Qeq_refl (e (iv i))) E). tauto.
Qed.

Lemma isolate_equiv r v i :
  isolate r v = Some i -> forall e, holds e r <-> holds e (rel_of_iso i).
Proof.
  unfold isolate. destruct (linearize (lhs r)) as [l1|] eqn:L1; [|discriminate].
  destruct (linearize (rhs r)) as [l2|] eqn:L2; [|discriminate]. intros H e.
  destruct (linearize_sound e _ _ L1) as [D1 E1]. destruct (linearize_sound e _ _ L2) as [D2 E2].
  rewrite holds_rel_of_iso, <- (isolate_lin_equiv _ _ _ _ _ H e).
  unfold holds. rewrite (cmp_holds_compat _ _ _ _ _ E1 E2). tauto.
Qed.

(* the DESIGN's statement: a non-zero coefficient is all that is needed *)
Lemma isolate_total r v l1 l2 :
  linearize (lhs r) = Some l1 -> linearize (rhs r) = Some l2 -> ~ coeff (lsub l1 l2) v == 0 ->
  exists i, isolate r v = Some i /\ iv i = v /\ forall e, holds e r <-> holds e (rel_of_iso i).
Proof.
  intros L1 L2 NZ. unfold isolate. rewrite L1, L2. unfold isolate_lin.
  apply Qeqb_false in NZ. rewrite NZ. eexists. split; [reflexivity|]. split; [reflexivity|].
  apply (isolate_equiv r v). unfold isolate. rewrite L1, L2. unfold isolate_lin. rewrite NZ. reflexivity.
Qed.

Lemma isolate_none_zero_coeff r v l1 l2 :
  linearize (lhs r) = Some l1 -> linearize (rhs r) = Some l2 -> coeff (lsub l1 l2) v == 0 -> isolate r v = None.
Proof.
  intros L1 L2 Z. unfold isolate. rewrite L1, L2. unfold isolate_lin. apply Qeqb_true in Z. rewrite Z. reflexivity.
Qed.

(* ------------------------------------------------------------------ merge *)
Lemma dedupe_sound e l : holds_sys e (dedupe l) <-> holds_sys e l.
Proof.
  induction l as [|r t IH]; cbn; [tauto|].
  destruct (rmem r t) eqn:M; cbn; rewrite IH; [|tauto].
  apply rmem_In in M. split; [|tauto]. intro H. split; auto. eapply holds_sys_In; eauto.
Qed.

Lemma holds_with_cmp e r c :
  holds e (with_cmp r c) <-> defined e (lhs r) /\ defined e (rhs r) /\ cmp_holds c (eval e (lhs r)) (eval e (rhs r)).
Proof. unfold holds, with_cmp; cbn. tauto. Qed.

Lemma holds_sys_map e (f : rel -> rel) l :
  (forall i, In i l -> holds_sys e l -> holds e (f i)) ->
  (forall i, In i l -> holds e (f i) -> holds e i) ->
  (holds_sys e (map f l) <-> holds_sys e l).
Proof.
  intros F G. rewrite !holds_sys_Forall, !Forall_forall. split; intros H x Hx.
  - apply G; auto. apply H. apply in_map; auto.
  - apply in_map_iff in Hx. destruct Hx as [i [<- Hi]]. apply F; auto.
    apply holds_sys_Forall, Forall_forall. exact H.
Qed.

Lemma merge_excl_step1_sound e eqs : holds_sys e (merge_excl_step1 eqs) <-> holds_sys e eqs.
Proof.
  unfold merge_excl_step1. apply holds_sys_map.
  - intros i Hi HS.
    destruct (is_nonstrict (rcmp i) && rmem (flip i false) eqs) eqn:C.
    + apply andb_true_iff in C. destruct C as [NS M]. apply rmem_In in M.
      pose proof (holds_sys_In _ _ _ HS Hi) as H1. pose proof (holds_sys_In _ _ _ HS M) as H2.
      unfold flip in H2. apply holds_with_cmp in H2. apply holds_with_cmp.
      destruct H1 as [D1 [D2 H1]]. destruct H2 as [_ [_ H2]]. repeat split; auto.
      destruct (rcmp i); try discriminate; cbn in *; lra.
    + eapply holds_sys_In; eauto.
  - intros i Hi H.
    destruct (is_nonstrict (rcmp i) && rmem (flip i false) eqs) eqn:C; auto.
    apply andb_true_iff in C. destruct C as [NS _]. apply holds_with_cmp in H.
    destruct H as [D1 [D2 H]]. unfold holds. repeat split; auto.
    destruct (rcmp i); try discriminate; cbn in *; lra.
Qed.

Lemma step1_ineq_in eqs x :
  In x (merge_excl_step1 eqs) -> is_ineq (rcmp x) = true ->
  In x eqs /\ (is_nonstrict (rcmp x) && rmem (flip x false) eqs = false).
Proof.
  unfold merge_excl_step1. intros H I. apply in_map_iff in H. destruct H as [j [E Hj]].
  destruct (is_nonstrict (rcmp j) && rmem (flip j false) eqs) eqn:C.
  - subst x. cbn in I. discriminate.
  - subst x. auto.
Qed.

Theorem merge_excl_sound eqs out :
  merge_excl eqs = Some out -> forall e, holds_sys e eqs <-> holds_sys e out.
Proof.
  unfold merge_excl. destruct (existsb _ _); [discriminate|]. intros H e. inversion H; subst.
  rewrite dedupe_sound, merge_excl_step1_sound. tauto.
Qed.

Theorem merge_excl_none eqs : merge_excl eqs = None -> forall e, ~ holds_sys e eqs.
Proof.
  unfold merge_excl. destruct (existsb _ _) eqn:X; [|discriminate]. intros _ e HS.
  apply existsb_exists in X. destruct X as [i [Hi C]]. unfold clash in C.
  apply andb_true_iff in C. destruct C as [I C].
  destruct (step1_ineq_in _ _ Hi I) as [Ii Ui].
  pose proof (holds_sys_In _ _ _ HS Ii) as H1. destruct H1 as [D1 [D2 H1]].
  apply orb_true_iff in C. destruct C as [C|C]; apply rmem_In in C.
  - assert (I2 : is_ineq (rcmp (flip i false)) = true) by (cbn; rewrite flipc_ineq; auto).
    destruct (step1_ineq_in _ _ C I2) as [Is _].
    pose proof (holds_sys_In _ _ _ HS Is) as H2. apply holds_with_cmp in H2. destruct H2 as [_ [_ H2]].
    assert (M : rmem (flip i false) eqs = true) by (apply In_rmem; auto).
    rewrite M, andb_true_r in Ui.
    destruct (rcmp i) eqn:RC; try discriminate; cbn in *; try lra; rewrite RC in H2; cbn in H2; lra.
  - assert (I2 : is_ineq (rcmp (flip i true)) = true) by (cbn; rewrite flipb_ineq; auto).
    destruct (step1_ineq_in _ _ C I2) as [Is _].
    pose proof (holds_sys_In _ _ _ HS Is) as H2. apply holds_with_cmp in H2. destruct H2 as [_ [_ H2]].
    apply (flipb_sound _ _ _ I) in H2. auto.
Qed.

(* inclusive table: harmless (a de-duplication) exactly when no line has its opposite in the system *)
Lemma clash_false_of_no_opposing eqs i : no_opposing eqs = true -> In i eqs -> clash eqs i = false.
Proof.
  unfold no_opposing. rewrite negb_true_iff. intros N Hi.
  destruct (clash eqs i) eqn:C; auto.
  assert (X : existsb (clash eqs) eqs = true) by (apply existsb_exists; exists i; auto). congruence.
Qed.

Lemma merge_incl_step1_id eqs : no_opposing eqs = true -> merge_incl_step1 eqs = eqs.
Proof.
  intro N. unfold merge_incl_step1. transitivity (map (fun i : rel => i) eqs); [|apply map_id]. apply map_ext_in. intros i Hi.
  pose proof (clash_false_of_no_opposing _ _ N Hi) as C. unfold clash in C.
  destruct (is_strict (rcmp i)) eqn:S; cbn; auto.
  assert (I : is_ineq (rcmp i) = true) by (destruct (rcmp i); try discriminate; reflexivity).
  rewrite I in C. cbn in C. apply orb_false_iff in C. destruct C as [C _]. rewrite C. reflexivity.
Qed.

Theorem merge_incl_partial eqs :
  no_opposing eqs = true -> forall e, holds_sys e (merge_incl eqs) <-> holds_sys e eqs.
Proof.
  intros N e. unfold merge_incl. rewrite (merge_incl_step1_id _ N), dedupe_sound.
  assert (F : filter (fun i => negb (clash eqs i)) eqs = eqs).
  { assert (G : forall l, (forall i, In i l -> clash eqs i = false) -> filter (fun i => negb (clash eqs i)) l = l).
    { induction l as [|a l IH]; cbn; auto. intro H. rewrite (H a) by auto. cbn. f_equal. apply IH. intros; apply H; auto. }
    apply G. intros i Hi. apply clash_false_of_no_opposing; auto. }
  rewrite F. tauto.
Qed.

(* ... and NOT sound as a conjunction otherwise: ['x0 >= 1'; 'x0 <= 1'; 'x1 > 0'] becomes ['x1 > 0'] *)
Theorem merge_incl_refuted :
  exists eqs e, holds_sys e (merge_incl eqs) /\ ~ holds_sys e eqs.
Proof.
  exists [Rel (Var 0) Ge (Cst 1); Rel (Var 0) Le (Cst 1); Rel (Var 1) Gt (Cst 0)], (env_of [0; 1]).
  split.
  - apply holds_sysb_spec. vm_compute. reflexivity.
  - intro H. apply holds_sysb_spec in H. vm_compute in H. discriminate.
Qed.

(* ------------------------------------------------------------------ sign cases for a variable divisor *)
Lemma divfree_defined e x : divfree x = true -> defined e x.
Proof. induction x; cbn; try tauto; try discriminate; rewrite andb_true_iff; tauto. Qed.

Lemma div_cmp_pos c A B D : 0 < D -> (cmp_holds c (A / D) B <-> cmp_holds c A (B * D)).
Proof.
  intro P. rewrite (cmp_pos_mul c D (A / D) B P).
  apply cmp_holds_compat; [apply Qmult_div_r; lra | ring].
Qed.

Lemma div_cmp_neg c A B D : D < 0 -> (cmp_holds c (A / D) B <-> cmp_holds (flipc c) A (B * D)).
Proof.
  intro N. rewrite (flipc_neg_mul c D (A / D) B N).
  apply cmp_holds_compat; [apply Qmult_div_r; lra | ring].
Qed.

Lemma flipc_noineq c : is_ineq c = false -> flipc c = c.
Proof. destruct c; cbn; congruence. Qed.

Theorem isolate_div_equiv a d c b :
  divfree a = true -> divfree b = true ->
  forall e, holds e (Rel (Div a (Var d)) c b) <-> holds_cases e (isolate_div a d c b).
Proof.
  intros Da Db e. pose proof (divfree_defined e a Da) as DA. pose proof (divfree_defined e b Db) as DB.
  set (A := eval e a). set (B := eval e b). set (D := e d).
  assert (IN : holds e (Rel (Div a (Var d)) c b) <-> (~ D == 0 /\ cmp_holds c (A / D) B)).
  { unfold holds. cbn [lhs rhs rcmp defined eval]. fold A B D. tauto. }
  rewrite IN. unfold isolate_div.
  destruct (is_ineq c) eqn:I.
  - assert (OUT : holds_cases e [[Rel a c (Mul b (Var d)); Rel (Var d) Gt (Cst 0)];
                                 [Rel a (flipc c) (Mul b (Var d)); Rel (Var d) Lt (Cst 0)]]
                  <-> ((cmp_holds c A (B * D) /\ 0 < D) \/ (cmp_holds (flipc c) A (B * D) /\ D < 0))).
    { cbn [holds_cases holds_sys]. unfold holds. cbn [lhs rhs rcmp defined eval cmp_holds]. fold A B D. tauto. }
    rewrite OUT.
    destruct (Qlt_le_dec D 0) as [N|N]; [| destruct (Qeq_dec D 0) as [Z|Z]].
    + rewrite (div_cmp_neg c A B D N). split; [intros [_ H]; right; auto | intros [[_ H]|[H _]]; [lra | split; [lra | auto]]].
    + split; [tauto | intros [[_ H]|[_ H]]; lra].
    + assert (P : 0 < D) by lra. rewrite (div_cmp_pos c A B D P).
      split; [intros [_ H]; left; auto | intros [[H _]|[_ H]]; [split; [lra | auto] | lra]].
  - assert (OUT : holds_cases e [[Rel a c (Mul b (Var d)); Rel (Var d) Ne (Cst 0)]]
                  <-> (cmp_holds c A (B * D) /\ ~ D == 0)).
    { cbn [holds_cases holds_sys]. unfold holds. cbn [lhs rhs rcmp defined eval cmp_holds]. fold A B D. tauto. }
    rewrite OUT.
    destruct (Qlt_le_dec D 0) as [N|N]; [| destruct (Qeq_dec D 0) as [Z|Z]].
    + rewrite (div_cmp_neg c A B D N), (flipc_noineq c I). tauto.
    + tauto.
    + assert (P : 0 < D) by lra. rewrite (div_cmp_pos c A B D P). tauto.
Qed.

(* solving for the divisor variable:  n/x_d cmp x_a  ->  x_d cmp' n/x_a  (four strict sign cases) *)
Lemma den_line c N D A :
  ~ D == 0 -> ~ A == 0 ->
  (cmp_holds c (N / D) A <->
   cmp_holds (if (Qltb 0 A && Qltb 0 D) || (Qltb A 0 && Qltb D 0) then flipc c else c) D (N / A)).
Proof.
  intros HD HA.
  assert (SW : forall c', cmp_holds c' N (A * D) <-> cmp_holds c' N (D * A)).
  { intro c'. apply cmp_holds_compat; [reflexivity | ring]. }
  assert (R : cmp_holds c D (N / A) <-> cmp_holds (flipc c) (N / A) D).
  { rewrite <- (flip_sound (flipc c) D (N / A)), flipc_involutive. tauto. }
  destruct (Qlt_le_dec D 0) as [ND|PD]; destruct (Qlt_le_dec A 0) as [NA|PA].
  - assert (E1 : Qltb 0 A = false) by (apply Qltb_false; lra). assert (E2 : Qltb A 0 = true) by (apply Qltb_true; lra).
    assert (E3 : Qltb D 0 = true) by (apply Qltb_true; lra). rewrite E1, E2, E3. cbn.
    rewrite (div_cmp_neg c N A D ND), (flip_sound c D (N / A)), (div_cmp_neg c N D A NA). apply SW.
  - assert (PA' : 0 < A) by lra.
    assert (E1 : Qltb 0 A = true) by (apply Qltb_true; lra). assert (E2 : Qltb A 0 = false) by (apply Qltb_false; lra).
    assert (E3 : Qltb 0 D = false) by (apply Qltb_false; lra). rewrite E1, E2, E3. cbn.
    rewrite (div_cmp_neg c N A D ND), R, (div_cmp_pos (flipc c) N D A PA'). apply SW.
  - assert (PD' : 0 < D) by lra.
    assert (E1 : Qltb 0 A = false) by (apply Qltb_false; lra). assert (E2 : Qltb A 0 = true) by (apply Qltb_true; lra).
    assert (E3 : Qltb D 0 = false) by (apply Qltb_false; lra). rewrite E1, E2, E3. cbn.
    rewrite (div_cmp_pos c N A D PD'), R, (div_cmp_neg (flipc c) N D A NA), flipc_involutive. apply SW.
  - assert (PD' : 0 < D) by lra. assert (PA' : 0 < A) by lra.
    assert (E1 : Qltb 0 A = true) by (apply Qltb_true; lra). assert (E3 : Qltb 0 D = true) by (apply Qltb_true; lra).
    rewrite E1, E3. cbn.
    rewrite (div_cmp_pos c N A D PD'), (flip_sound c D (N / A)), (div_cmp_pos c N D A PA'). apply SW.
Qed.

Theorem isolate_den_partial n d c a :
  divfree n = true ->
  forall e, ~ e a == 0 ->
  (holds e (Rel (Div n (Var d)) c (Var a)) <-> holds_cases e (isolate_den n d c a)).
Proof.
  intros Dn e HA. pose proof (divfree_defined e n Dn) as DN.
  set (N := eval e n). set (D := e d). set (A := e a).
  assert (IN : holds e (Rel (Div n (Var d)) c (Var a)) <-> (~ D == 0 /\ cmp_holds c (N / D) A)).
  { unfold holds. cbn [lhs rhs rcmp defined eval]. fold N D A. tauto. }
  assert (OUT : holds_cases e (isolate_den n d c a) <->
    ((~ A == 0 /\ cmp_holds (flipc c) D (N / A)) /\ 0 < A /\ 0 < D) \/
    ((~ A == 0 /\ cmp_holds c D (N / A)) /\ A < 0 /\ 0 < D) \/
    ((~ A == 0 /\ cmp_holds c D (N / A)) /\ 0 < A /\ D < 0) \/
    ((~ A == 0 /\ cmp_holds (flipc c) D (N / A)) /\ A < 0 /\ D < 0)).
  { unfold isolate_den. cbn [holds_cases holds_sys]. unfold holds. cbn [lhs rhs rcmp defined eval cmp_holds]. fold N D A. tauto. }
  rewrite IN, OUT. fold A in HA.
  destruct (Qeq_dec D 0) as [ZD|ZD].
  - split; [tauto | intros [H|[H|[H|H]]]; lra].
  - rewrite (den_line c N D A ZD HA).
    destruct (Qlt_le_dec D 0) as [ND|PD]; destruct (Qlt_le_dec A 0) as [NA|PA].
    + assert (E2 : Qltb A 0 = true) by (apply Qltb_true; lra). assert (E3 : Qltb D 0 = true) by (apply Qltb_true; lra).
      rewrite E2, E3, orb_true_r. split; [intros [_ H]; right; right; right; tauto | intros [H|[H|[H|H]]]; try lra; tauto].
    + assert (E1 : Qltb A 0 = false) by (apply Qltb_false; lra). assert (E3 : Qltb 0 D = false) by (apply Qltb_false; lra).
      rewrite E1, E3, andb_false_r. cbn. split; [intros [_ H]; right; right; left; repeat split; auto; lra | intros [H|[H|[H|H]]]; try lra; tauto].
    + assert (E1 : Qltb 0 A = false) by (apply Qltb_false; lra). assert (E3 : Qltb D 0 = false) by (apply Qltb_false; lra).
      rewrite E1, E3, andb_false_r. cbn. split; [intros [_ H]; right; left; repeat split; auto; lra | intros [H|[H|[H|H]]]; try lra; tauto].
    + assert (E1 : Qltb 0 A = true) by (apply Qltb_true; lra). assert (E3 : Qltb 0 D = true) by (apply Qltb_true; lra).
      rewrite E1, E3. cbn. split; [intros [_ H]; left; repeat split; auto; lra | intros [H|[H|[H|H]]]; try lra; tauto].
Qed.

(* ... but the zero of the NEW divisor is lost: '1/x1 >= x0' holds at (x0, x1) = (0, 1), no returned case does *)
Theorem isolate_den_refuted :
  exists n d c a e, divfree n = true /\ holds e (Rel (Div n (Var d)) c (Var a)) /\ ~ holds_cases e (isolate_den n d c a).
Proof.
  exists (Cst 1), 1%nat, Ge, 0%nat, (env_of [0; 1]). split; [reflexivity|]. split.
  - apply holdsb_spec. vm_compute. reflexivity.
  - intro H. apply holds_casesb_spec in H. vm_compute in H. discriminate.
Qed.

(* ------------------------------------------------------------------ product of cases, system level *)
Lemma holds_cases_map_app e c ps : holds_cases e (map (fun p => c ++ p) ps) <-> holds_sys e c /\ holds_cases e ps.
Proof.
  induction ps as [|p t IH]; cbn; [tauto|]. rewrite IH, holds_sys_app. tauto.
Qed.

Lemma holds_cases_flat_map e (f : sys -> cases) cs :
  holds_cases e (flat_map f cs) <-> exists c, In c cs /\ holds_cases e (f c).
Proof.
  induction cs as [|c t IH]; cbn.
  - split; [tauto | intros [c [[] _]]].
  - rewrite holds_cases_app, IH. split.
    + intros [H|[c' [I H]]]; [exists c; auto | exists c'; auto].
    + intros [c' [[<-|I] H]]; [left; auto | right; exists c'; auto].
Qed.

Theorem holds_cases_product e css : holds_cases e (product css) <-> Forall (holds_cases e) css.
Proof.
  induction css as [|cs rest IH]; cbn [product].
  - cbn. split; [constructor | tauto].
  - rewrite holds_cases_flat_map. split.
    + intros [c [I H]]. apply holds_cases_map_app in H. destruct H as [Hc Hp]. constructor.
      * apply holds_cases_Exists, Exists_exists. exists c; auto.
      * apply IH; auto.
    + intro H. inversion H as [|? ? H1 H2]; subst. apply holds_cases_Exists, Exists_exists in H1.
      destruct H1 as [c [I Hc]]. exists c. split; auto. apply holds_cases_map_app. split; auto. apply IH; auto.
Qed.

Lemma merge_cases_sound e cs : holds_cases e (merge_cases cs) <-> holds_cases e cs.
Proof.
  induction cs as [|s t IH]; cbn; [tauto|].
  destruct (merge_excl s) as [m|] eqn:M; cbn.
  - rewrite IH, (merge_excl_sound _ _ M e). tauto.
  - rewrite IH. pose proof (merge_excl_none _ M e). tauto.
Qed.

Lemma omap_isolate_sound e : forall (ps : list (rel * nat)) isos,
  omap (fun p => isolate (fst p) (snd p)) ps = Some isos ->
  (holds_sys e (map fst ps) <-> holds_sys e (map rel_of_iso isos)).
Proof.
  induction ps as [|[r v] t IH]; cbn; intros isos H.
  - inversion H; subst; cbn; tauto.
  - destruct (isolate r v) as [i|] eqn:I; [|discriminate].
    destruct (omap _ t) as [rest|] eqn:O; [|discriminate]. inversion H; subst. cbn.
    rewrite (IH rest eq_refl), (isolate_equiv r v i I e). tauto.
Qed.

Lemma map_fst_combine {A B} : forall (l : list A) (m : list B), (length l <= length m)%nat -> map fst (combine l m) = l.
Proof.
  induction l as [|a l IH]; destruct m as [|b m]; cbn; intro H; auto; try lia. f_equal. apply IH. lia.
Qed.

(* a linear system with one (mystic-chosen) variable per line: every point satisfies the input iff it satisfies a returned case *)
Theorem simplify_lin_equiv lines targets cs :
  (length lines <= length targets)%nat -> simplify_lin lines targets = Some cs ->
  forall e, holds_sys e lines <-> holds_cases e cs.
Proof.
  unfold simplify_lin. intros L H e.
  destruct (omap _ (combine lines targets)) as [isos|] eqn:O; [|discriminate]. injection H as <-.
  rewrite (merge_cases_sound e [map rel_of_iso isos]). cbn [holds_cases].
  rewrite <- (omap_isolate_sound e _ _ O), (map_fst_combine _ _ L). tauto.
Qed.

Theorem simplify_model_partial lines targets cs :
  no_opposing lines = true ->
  (length (merge_incl lines) <= length targets)%nat -> simplify_model lines targets = Some cs ->
  forall e, holds_sys e lines <-> holds_cases e cs.
Proof.
  unfold simplify_model. intros N L H e.
  rewrite <- (simplify_lin_equiv _ _ _ L H e). symmetry. apply merge_incl_partial; auto.
Qed.

(* simplify('x0 >= 1 ; x0 <= 1 ; x1 > 0') = 'x1 > 0' *)
Theorem simplify_model_refuted :
  exists lines targets cs e, simplify_model lines targets = Some cs /\ holds_cases e cs /\ ~ holds_sys e lines.
Proof.
  exists [Rel (Var 0) Ge (Cst 1); Rel (Var 0) Le (Cst 1); Rel (Var 1) Gt (Cst 0)], [1%nat],
         [[Rel (Var 1) Gt (Add (Cst 0) (Cst (-0)))]], (env_of [0; 1]).
  split; [vm_compute; reflexivity|]. split.
  - apply holds_casesb_spec. vm_compute. reflexivity.
  - intro H. apply holds_sysb_spec in H. vm_compute in H. discriminate.
Qed.

(* ------------------------------------------------------------------ linear_symbolic / symbolic_bounds *)
Lemma eval_dot_expr e row : forall j, defined e (dot_expr row j) /\ eval e (dot_expr row j) == dot e row j.
Proof.
  induction row as [|c t IH]; intro j; cbn [dot_expr dot].
  - cbn. split; auto. reflexivity.
  - destruct t as [|c' t'].
    + cbn. split; auto. ring.
    + destruct (IH (S j)) as [D E]. cbn [defined eval]. split; [tauto|]. rewrite E. reflexivity.
Qed.

Lemma rows_text_sound e c : forall M v, length M = length v ->
  (holds_sys e (rows_text c M v) <-> Forall2 (fun row q => cmp_holds c (dot e row 0) q) M v).
Proof.
  unfold rows_text. induction M as [|row M IH]; destruct v as [|q v]; cbn [combine map holds_sys length]; intro L; try discriminate.
  - split; [constructor | auto].
  - injection L as L. rewrite (IH v L). unfold holds. cbn [lhs rhs rcmp defined eval fst snd].
    destruct (eval_dot_expr e row 0%nat) as [D E].
    rewrite (cmp_holds_compat c _ _ _ _ E (Qeq_refl q)).
    split; [intros [[_ [_ H]] T]; constructor; auto | intro H; inversion H; subst; tauto].
Qed.

Theorem text_of_matrix_sound A b G h s :
  text_of_matrix A b G h = Some s ->
  forall e, holds_sys e s <->
            (Forall2 (fun row q => dot e row 0 == q) A b /\ Forall2 (fun row q => dot e row 0 <= q) G h).
Proof.
  unfold text_of_matrix. destruct (Nat.eqb (length A) (length b)) eqn:LA; [|discriminate].
  destruct (Nat.eqb (length G) (length h)) eqn:LG; [|discriminate]. cbn. intros H e. injection H as <-.
  apply Nat.eqb_eq in LA. apply Nat.eqb_eq in LG.
  rewrite holds_sys_app, (rows_text_sound e Le G h LG), (rows_text_sound e Eq A b LA). cbn [cmp_holds]. tauto.
Qed.

Theorem text_of_matrix_none A b G h :
  text_of_matrix A b G h = None <-> (length A <> length b \/ length G <> length h).
Proof.
  unfold text_of_matrix.
  destruct (Nat.eqb (length A) (length b)) eqn:LA; destruct (Nat.eqb (length G) (length h)) eqn:LG; cbn;
    rewrite ?Nat.eqb_eq, ?Nat.eqb_neq in *; split; intro H; try discriminate; auto; destruct H; contradiction.
Qed.

Lemma bound_lines_ge e : forall bs j,
  holds_sys e (bound_lines Ge bs j) <-> (forall k q, nth_error bs k = Some (Some q) -> q <= e (j + k)%nat).
Proof.
  induction bs as [|[q|] t IH]; intro j; cbn [bound_lines holds_sys].
  - split; [intros _ k q H; destruct k; discriminate | auto].
  - rewrite (IH (S j)). unfold holds; cbn [lhs rhs rcmp defined eval cmp_holds]. split.
    + intros [[_ [_ H0]] H] k q' E. destruct k; cbn in E.
      * injection E as <-. rewrite Nat.add_0_r. exact H0.
      * replace (j + S k)%nat with (S j + k)%nat by lia. apply H; auto.
    + intro H. split.
      * repeat split; auto. specialize (H 0%nat q eq_refl). rewrite Nat.add_0_r in H. exact H.
      * intros k q' E. replace (S j + k)%nat with (j + S k)%nat by lia. apply H. exact E.
  - rewrite (IH (S j)). split.
    + intros H k q' E. destruct k; cbn in E; [discriminate|].
      replace (j + S k)%nat with (S j + k)%nat by lia. apply H; auto.
    + intros H k q' E. replace (S j + k)%nat with (j + S k)%nat by lia. apply H. exact E.
Qed.

Lemma bound_lines_le e : forall bs j,
  holds_sys e (bound_lines Le bs j) <-> (forall k q, nth_error bs k = Some (Some q) -> e (j + k)%nat <= q).
Proof.
  induction bs as [|[q|] t IH]; intro j; cbn [bound_lines holds_sys].
  - split; [intros _ k q H; destruct k; discriminate | auto].
  - rewrite (IH (S j)). unfold holds; cbn [lhs rhs rcmp defined eval cmp_holds]. split.
    + intros [[_ [_ H0]] H] k q' E. destruct k; cbn in E.
      * injection E as <-. rewrite Nat.add_0_r. exact H0.
      * replace (j + S k)%nat with (S j + k)%nat by lia. apply H; auto.
    + intro H. split.
      * repeat split; auto. specialize (H 0%nat q eq_refl). rewrite Nat.add_0_r in H. exact H.
      * intros k q' E. replace (S j + k)%nat with (j + S k)%nat by lia. apply H. exact E.
  - rewrite (IH (S j)). split.
    + intros H k q' E. destruct k; cbn in E; [discriminate|].
      replace (j + S k)%nat with (S j + k)%nat by lia. apply H; auto.
    + intros H k q' E. replace (S j + k)%nat with (j + S k)%nat by lia. apply H. exact E.
Qed.

(* the text holds exactly where every given (finite) bound holds *)
Theorem text_of_bounds_sound lo hi s :
  text_of_bounds lo hi = Some s ->
  forall e, holds_sys e s <->
            ((forall k q, nth_error lo k = Some (Some q) -> q <= e k) /\
             (forall k q, nth_error hi k = Some (Some q) -> e k <= q)).
Proof.
  unfold text_of_bounds. destruct (bounds_ok lo hi); [|discriminate]. intros H e. injection H as <-.
  rewrite holds_sys_app, bound_lines_ge, bound_lines_le. cbn. tauto.
Qed.

Lemma bounds_ok_spec : forall lo hi,
  bounds_ok lo hi = true <->
  (length lo = length hi /\ forall k a b, nth_error lo k = Some (Some a) -> nth_error hi k = Some (Some b) -> a <= b).
Proof.
  induction lo as [|l lt IH]; destruct hi as [|h ht]; cbn [bounds_ok length].
  - split; auto. intros _. split; auto. intros k a b H; destruct k; discriminate.
  - split; [discriminate | intros [H _]; discriminate].
  - split; [discriminate | intros [H _]; discriminate].
  - rewrite andb_true_iff, IH. split.
    + intros [H0 [L H]]. split; [congruence|]. intros k a b Ea Eb. destruct k; cbn in *.
      * injection Ea as ->. injection Eb as ->. apply Qleb_true; auto.
      * eapply H; eauto.
    + intros [L H]. split; [|split].
      * destruct l as [a|]; destruct h as [b|]; auto. apply Qleb_true. apply (H 0%nat); reflexivity.
      * congruence.
      * intros k a b Ea Eb. apply (H (S k)); auto.
Qed.

(* ------------------------------------------------------------------ clearing a variable divisor *)
Lemma mulden_divfree_case e d x :
  divfree x = true ->
  divfree (Mul (Var d) x) = true /\
  (~ e d == 0 -> defined e x /\ eval e (Mul (Var d) x) == e d * eval e x) /\
  (divfree x = false -> e d == 0 -> ~ defined e x).
Proof.
  intro DF. split; [cbn; exact DF|]. split.
  - intros _. split; [apply divfree_defined; auto | cbn; reflexivity].
  - intro C. congruence.
Qed.

Lemma mulden_sound e d : forall x x', mulden d x = Some x' ->
  divfree x' = true /\
  (~ e d == 0 -> defined e x /\ eval e x' == e d * eval e x) /\
  (divfree x = false -> e d == 0 -> ~ defined e x).
Proof.
  induction x; intros x' H; cbn [mulden] in H.
  - cbn [divfree] in H. injection H as <-. apply mulden_divfree_case. reflexivity.
  - cbn [divfree] in H. injection H as <-. apply mulden_divfree_case. reflexivity.
  - destruct (divfree (Neg x)) eqn:DF.
    + injection H as <-. destruct (mulden_divfree_case e d _ DF) as [A [B _]]. split; [exact A | split; [exact B | intro C; discriminate]].
    + destruct (mulden d x) as [a'|] eqn:M; [|discriminate]. cbn in H. injection H as <-.
      destruct (IHx a' eq_refl) as [F [P Z]]. cbn [divfree] in DF. split; [cbn; exact F|]. split.
      * intro NZ. destruct (P NZ) as [D E]. split; [exact D|]. cbn [eval]. rewrite E. ring.
      * intros _ Zd. cbn [defined]. apply Z; auto.
  - destruct (divfree (Add x1 x2)) eqn:DF.
    + injection H as <-. destruct (mulden_divfree_case e d _ DF) as [A [B _]]. split; [exact A | split; [exact B | intro C; discriminate]].
    + destruct (mulden d x1) as [a'|] eqn:M1; [|discriminate]. destruct (mulden d x2) as [b'|] eqn:M2; [|discriminate].
      injection H as <-. destruct (IHx1 a' eq_refl) as [F1 [P1 Z1]]. destruct (IHx2 b' eq_refl) as [F2 [P2 Z2]].
      cbn [divfree] in DF. split; [cbn; rewrite F1, F2; reflexivity|]. split.
      * intro NZ. destruct (P1 NZ) as [D1 E1]. destruct (P2 NZ) as [D2 E2]. split; [cbn; tauto|]. cbn [eval]. rewrite E1, E2. ring.
      * intros _ Zd [D1 D2]. apply andb_false_iff in DF. destruct DF as [DF|DF]; [apply (Z1 DF Zd D1) | apply (Z2 DF Zd D2)].
  - destruct (divfree (Sub x1 x2)) eqn:DF.
    + injection H as <-. destruct (mulden_divfree_case e d _ DF) as [A [B _]]. split; [exact A | split; [exact B | intro C; discriminate]].
    + destruct (mulden d x1) as [a'|] eqn:M1; [|discriminate]. destruct (mulden d x2) as [b'|] eqn:M2; [|discriminate].
      injection H as <-. destruct (IHx1 a' eq_refl) as [F1 [P1 Z1]]. destruct (IHx2 b' eq_refl) as [F2 [P2 Z2]].
      cbn [divfree] in DF. split; [cbn; rewrite F1, F2; reflexivity|]. split.
      * intro NZ. destruct (P1 NZ) as [D1 E1]. destruct (P2 NZ) as [D2 E2]. split; [cbn; tauto|]. cbn [eval]. rewrite E1, E2. ring.
      * intros _ Zd [D1 D2]. apply andb_false_iff in DF. destruct DF as [DF|DF]; [apply (Z1 DF Zd D1) | apply (Z2 DF Zd D2)].
  - destruct (divfree (Mul x1 x2)) eqn:DF.
    + injection H as <-. destruct (mulden_divfree_case e d _ DF) as [A [B _]]. split; [exact A | split; [exact B | intro C; discriminate]].
    + cbn [divfree] in DF. destruct (divfree x1) eqn:F1.
      * destruct (mulden d x2) as [b'|] eqn:M2; [|discriminate]. cbn in H. injection H as <-.
        destruct (IHx2 b' eq_refl) as [F2 [P2 Z2]]. split; [cbn; rewrite F1, F2; reflexivity|]. split.
        -- intro NZ. destruct (P2 NZ) as [D2 E2]. split; [cbn; split; [apply divfree_defined; auto | exact D2]|].
           cbn [eval]. rewrite E2. ring.
        -- intros _ Zd [D1 D2]. cbn in DF. apply (Z2 DF Zd D2).
      * destruct (divfree x2) eqn:F2; [|discriminate]. destruct (mulden d x1) as [a'|] eqn:M1; [|discriminate].
        cbn in H. injection H as <-. destruct (IHx1 a' eq_refl) as [F1' [P1 Z1]].
        split; [cbn; rewrite F1', F2; reflexivity|]. split.
        -- intro NZ. destruct (P1 NZ) as [D1 E1]. split; [cbn; split; [exact D1 | apply divfree_defined; auto]|].
           cbn [eval]. rewrite E1. ring.
        -- intros _ Zd [D1 D2]. apply (Z1 eq_refl Zd D1).
  - cbn [divfree] in H. destruct x2; try discriminate.
    destruct (Nat.eqb n d && divfree x1) eqn:C; [|discriminate]. injection H as <-.
    apply andb_true_iff in C. destruct C as [N F1]. apply Nat.eqb_eq in N. subst n.
    split; [exact F1|]. split.
    + intro NZ. split; [cbn; repeat split; auto; apply divfree_defined; auto|].
      cbn [eval]. unfold Qdiv. field. exact NZ.
    + intros _ Zd [_ [_ NZ]]. apply NZ. exact Zd.
  - destruct (divfree (Pow x k)) eqn:DF; [|discriminate].
    injection H as <-. destruct (mulden_divfree_case e d _ DF) as [A [B _]]. split; [exact A | split; [exact B | intro C; discriminate]].
Qed.

Lemma holds_divfree e l c r : divfree l = true -> divfree r = true ->
  (holds e (Rel l c r) <-> cmp_holds c (eval e l) (eval e r)).
Proof. intros A B. unfold holds; cbn. pose proof (divfree_defined e l A). pose proof (divfree_defined e r B). tauto. Qed.

Theorem clear_pos e d r r' : clear_rel d r = Some r' -> 0 < e d -> (holds e r <-> holds e r').
Proof.
  unfold clear_rel. destruct (mulden d (lhs r)) as [l|] eqn:ML; [|discriminate].
  destruct (mulden d (rhs r)) as [r2|] eqn:MR; [|discriminate]. intros H P. injection H as <-.
  destruct (mulden_sound e d _ _ ML) as [FL [PL _]]. destruct (mulden_sound e d _ _ MR) as [FR [PR _]].
  assert (NZ : ~ e d == 0) by lra. destruct (PL NZ) as [DL EL]. destruct (PR NZ) as [DR ER].
  rewrite (holds_divfree e l (rcmp r) r2 FL FR), (cmp_holds_compat _ _ _ _ _ EL ER), <- (cmp_pos_mul (rcmp r) (e d) _ _ P).
  unfold holds. tauto.
Qed.

Theorem clear_neg e d r r' : clear_rel d r = Some r' -> e d < 0 -> (holds e r <-> holds e (with_cmp r' (flipc (rcmp r)))).
Proof.
  unfold clear_rel. destruct (mulden d (lhs r)) as [l|] eqn:ML; [|discriminate].
  destruct (mulden d (rhs r)) as [r2|] eqn:MR; [|discriminate]. intros H P. injection H as <-.
  destruct (mulden_sound e d _ _ ML) as [FL [PL _]]. destruct (mulden_sound e d _ _ MR) as [FR [PR _]].
  assert (NZ : ~ e d == 0) by lra. destruct (PL NZ) as [DL EL]. destruct (PR NZ) as [DR ER].
  unfold with_cmp; cbn [lhs rhs rcmp].
  rewrite (holds_divfree e l (flipc (rcmp r)) r2 FL FR), (cmp_holds_compat _ _ _ _ _ EL ER), <- (flipc_neg_mul (rcmp r) (e d) _ _ P).
  unfold holds. tauto.
Qed.

Theorem clear_zero e d r r' : clear_rel d r = Some r' -> rel_divfree r = false -> e d == 0 -> (holds e r <-> False).
Proof.
  unfold clear_rel, rel_divfree. destruct (mulden d (lhs r)) as [l|] eqn:ML; [|discriminate].
  destruct (mulden d (rhs r)) as [r2|] eqn:MR; [|discriminate]. intros _ F Z.
  destruct (mulden_sound e d _ _ ML) as [_ [_ ZL]]. destruct (mulden_sound e d _ _ MR) as [_ [_ ZR]].
  unfold holds. apply andb_false_iff in F. destruct F as [F|F]; [pose proof (ZL F Z) | pose proof (ZR F Z)]; tauto.
Qed.

(* ------------------------------------------------------------------ lines in which every variable cancels *)
Lemma tsum_split e ts v : tsum e ts == tcoeff ts v * e v + tsum e (filter (fun p => negb (Nat.eqb (fst p) v)) ts).
Proof.
  induction ts as [|[w c] t IH]; cbn [tsum tcoeff filter fst].
  - ring.
  - destruct (Nat.eqb w v) eqn:W; cbn [negb].
    + apply Nat.eqb_eq in W; subst. lra.
    + cbn [tsum]. lra.
Qed.

Lemma tcoeff_filter ts v w :
  tcoeff (filter (fun p => negb (Nat.eqb (fst p) v)) ts) w == if Nat.eqb w v then 0 else tcoeff ts w.
Proof.
  induction ts as [|[u c] t IH]; cbn [filter tcoeff fst].
  - destruct (Nat.eqb w v); reflexivity.
  - destruct (Nat.eqb u v) eqn:UV; cbn [negb].
    + apply Nat.eqb_eq in UV. subst u. rewrite IH. destruct (Nat.eqb w v) eqn:WV; [reflexivity|].
      assert (VW : Nat.eqb v w = false) by (rewrite Nat.eqb_sym; exact WV). rewrite VW. reflexivity.
    + cbn [tcoeff]. destruct (Nat.eqb u w) eqn:UW.
      * apply Nat.eqb_eq in UW. subst w. rewrite IH. rewrite UV. reflexivity.
      * exact IH.
Qed.

Lemma filter_length_le {A} (f : A -> bool) l : (length (filter f l) <= length l)%nat.
Proof. induction l; cbn; [lia | destruct (f a); cbn; lia]. Qed.

Lemma tsum_zero e : forall n ts, (length ts <= n)%nat -> (forall v, tcoeff ts v == 0) -> tsum e ts == 0.
Proof.
  induction n as [|n IH]; intros ts L Z.
  - destruct ts; [reflexivity | cbn in L; lia].
  - destruct ts as [|[v c] t]; [reflexivity|].
    rewrite (tsum_split e ((v, c) :: t) v), (Z v).
    assert (R : tsum e (filter (fun p => negb (Nat.eqb (fst p) v)) ((v, c) :: t)) == 0).
    { apply IH.
      - cbn [filter fst]. rewrite Nat.eqb_refl. cbn [negb]. pose proof (filter_length_le (fun p : nat * Q => negb (Nat.eqb (fst p) v)) t).
        cbn in L. lia.
      - intro w. rewrite tcoeff_filter. destruct (Nat.eqb w v); [reflexivity | apply Z]. }
    rewrite R. ring.
Qed.

Lemma tcoeff_above ts m : (max_var_terms ts <= m)%nat -> tcoeff ts m = 0.
Proof.
  induction ts as [|[v c] t IH]; cbn [max_var_terms tcoeff]; intro H; [reflexivity|].
  destruct (Nat.eqb v m) eqn:E; [apply Nat.eqb_eq in E; lia | apply IH; lia].
Qed.

Lemma lin_eqb_upto_coeff : forall n a b, lin_eqb_upto n a b = true ->
  snd a == snd b /\ forall m, (m < n)%nat -> coeff a m == coeff b m.
Proof.
  induction n as [|n IH]; cbn [lin_eqb_upto]; intros a b H.
  - apply Qeqb_true in H. split; [exact H | intros m L; lia].
  - apply andb_true_iff in H. destruct H as [H1 H2]. apply Qeqb_true in H1. destruct (IH a b H2) as [S C].
    split; [exact S|]. intros m L. destruct (Nat.eq_dec m n) as [->|NE]; [exact H1 | apply C; lia].
Qed.

Lemma all_cancel e ts : lin_eqb (ts, 0) (lconst 0) = true -> tsum e ts == 0.
Proof.
  unfold lin_eqb. intro H. apply lin_eqb_upto_coeff in H. destruct H as [_ C].
  apply (tsum_zero e (length ts)); [lia|]. intro v.
  unfold nvars in C. cbn [fst lconst max_var_terms] in C. rewrite Nat.max_0_r in C.
  destruct (Nat.lt_ge_cases v (max_var_terms ts)) as [L|G].
  - specialize (C v L). unfold coeff in C. cbn [fst lconst tcoeff] in C. exact C.
  - rewrite (tcoeff_above ts v G). reflexivity.
Qed.

Theorem degenerate_sound r b : degenerate r = Some b -> forall e, holds e r <-> b = true.
Proof.
  unfold degenerate. destruct (linearize (lhs r)) as [l1|] eqn:L1; [|discriminate].
  destruct (linearize (rhs r)) as [l2|] eqn:L2; [|discriminate].
  destruct (lin_eqb (fst (lsub l1 l2), 0) (lconst 0)) eqn:Z; [|discriminate]. intros H e. injection H as <-.
  destruct (linearize_sound e _ _ L1) as [D1 E1]. destruct (linearize_sound e _ _ L2) as [D2 E2].
  pose proof (all_cancel e _ Z) as T. pose proof (leval_lsub e l1 l2) as S. unfold leval at 1 in S. rewrite T in S.
  rewrite cmp_holdsb_spec. unfold holds.
  rewrite (cmp_holds_compat (rcmp r) _ _ _ _ E1 E2).
  set (A := leval e l1) in *. set (B := leval e l2) in *. set (k := snd (lsub l1 l2)) in *.
  assert (K : k == A - B) by lra.
  assert (K2 : snd l1 + - (1) * snd l2 == A - B) by (rewrite <- K; subst k; reflexivity). clearbody A B k.
  split.
  - intros [_ [_ H]]. destruct (rcmp r); cbn [cmp_holds]; cbn [cmp_holds] in H; first [lra | (intro E; apply H; lra)].
  - intro H. split; [exact D1|]. split; [exact D2|]. destruct (rcmp r); cbn [cmp_holds]; cbn [cmp_holds] in H; first [lra | (intro E; apply H; lra)].
Qed.

(* what simplify does to the user's lines before isolating variables preserves the solution set when no two lines oppose
   each other and no dropped line is false ... *)
Theorem simplify_pre_partial lines :
  no_opposing lines = true -> drops_only_true lines = true ->
  forall e, holds_sys e (simplify_pre lines) <-> holds_sys e lines.
Proof.
  intros N DT e. unfold simplify_pre. rewrite N.
  unfold drops_only_true in DT. rewrite forallb_forall in DT.
  induction lines as [|r t IH]; cbn [filter holds_sys]; [tauto|].
  assert (IHt : holds_sys e (filter (fun r0 => negb (dropped r0)) t) <-> holds_sys e t).
  { clear IH N.
    induction t as [|s t' IH']; cbn [filter holds_sys]; [tauto|].
    assert (DT' : forall x, In x (r :: t') -> (if dropped x then match degenerate x with Some b => b | None => true end else true) = true).
    { intros x [<-|Hx]; apply DT; [left; auto | right; right; auto]. }
    assert (Hs := DT s (or_intror (or_introl eq_refl))).
    destruct (dropped s) eqn:Ds; cbn [negb holds_sys].
    - unfold dropped in Ds. destruct (degenerate s) as [b|] eqn:Dg; [|discriminate]. subst b.
      rewrite (degenerate_sound s true Dg e).
      rewrite (IH' (fun x Hx => DT x (match Hx with or_introl a => or_introl a | or_intror a => or_intror (or_intror a) end))). tauto.
    - rewrite (IH' (fun x Hx => DT x (match Hx with or_introl a => or_introl a | or_intror a => or_intror (or_intror a) end))). tauto. }
  assert (Hr := DT r (or_introl eq_refl)).
  destruct (dropped r) eqn:Dr; cbn [negb holds_sys].
  - unfold dropped in Dr. destruct (degenerate r) as [b|] eqn:Dg; [|discriminate]. subst b.
    rewrite (degenerate_sound r true Dg e), IHt. tauto.
  - rewrite IHt. tauto.
Qed.

(* ... and does not otherwise:  'x0 = x0 + 1'  becomes the empty (always true) system *)
Theorem simplify_pre_refuted :
  exists lines e, no_opposing lines = true /\ holds_sys e (simplify_pre lines) /\ ~ holds_sys e lines.
Proof.
  exists [Rel (Var 0) Eq (Add (Var 0) (Cst 1))], (env_of [0]). split; [reflexivity|]. split.
  - apply holds_sysb_spec. vm_compute. reflexivity.
  - intro H. apply holds_sysb_spec in H. vm_compute in H. discriminate.
Qed.
