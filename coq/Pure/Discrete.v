(* Model of mystic.math.discrete product measures / scenarios and of measures._pack/_unpack/_nested_split.
   Definitions only (executable); proofs are in Discrete_Proofs.v. *)
From Coq Require Import List Arith Bool.
From MV Require Import Common.Num.
Import ListNotations.

Section Structure.
  Variable A : Type.

  (* a discrete measure: list of point masses (weight, position) *)
  Definition measure := list (A * A).
  Definition pmeasure := list measure.

  Definition m_weights (m : measure) : list A := map fst m.
  Definition m_positions (m : measure) : list A := map snd m.
  Definition pts (c : pmeasure) : list nat := map (@length (A * A)) c.
  Definition wts (c : pmeasure) : list (list A) := map m_weights c.
  Definition pos (c : pmeasure) : list (list A) := map m_positions c.

  (* discrete.flatten: [wx1..wxM, x1..xM, wy1..wyN, y1..yN, ...] *)
  Definition flatten (c : pmeasure) : list A :=
    flat_map (fun m => m_weights m ++ m_positions m) c.

  (* measures._nested_split (python slices truncate silently) *)
  Fixpoint nested_split (params : list A) (npts : list nat) : list (list A) * list (list A) :=
    match npts with
    | [] => ([], [])
    | n :: r =>
        let w := firstn n params in let p1 := skipn n params in
        let x := firstn n p1 in let p2 := skipn n p1 in
        let wx := nested_split p2 r in (w :: fst wx, x :: snd wx)
    end.

  (* discrete._list_of_measures / compose: None models the IndexError on a missing weight *)
  Fixpoint one_measure (x w : list A) : option measure :=
    match x, w with
    | [], _ => Some []
    | _ :: _, [] => None
    | xi :: xr, wi :: wr => option_map (cons (wi, xi)) (one_measure xr wr)
    end.
  Fixpoint list_of_measures (xs ws : list (list A)) : option pmeasure :=
    match xs, ws with
    | [], _ => Some []
    | _ :: _, [] => None
    | x :: xr, w :: wr =>
        match one_measure x w, list_of_measures xr wr with
        | Some m, Some c => Some (m :: c)
        | _, _ => None
        end
    end.
  Definition compose (xs ws : list (list A)) : option pmeasure := list_of_measures xs ws.

  Definition decompose (c : pmeasure) : list (list A) * list (list A) :=
    let wx := nested_split (flatten c) (pts c) in (snd wx, fst wx).

  Definition unflatten (params : list A) (npts : list nat) : option pmeasure :=
    let wx := nested_split params npts in compose (snd wx) (fst wx).

  Definition sum_nat (l : list nat) : nat := fold_right Nat.add 0 l.

  (* product_measure.load: extra trailing parameters are ignored *)
  Definition load (c : pmeasure) (params : list A) (npts : list nat) : option pmeasure :=
    let len := 2 * sum_nat npts in
    option_map (app c) (unflatten (firstn len params) npts).

  Definition is_empty (m : measure) : bool := match m with [] => true | _ => false end.
  Definition count_empty (c : pmeasure) : nat := length (filter is_empty c).

  (* product_measure.update *)
  Definition update (c : pmeasure) (params : list A) : option pmeasure :=
    let len := 2 * sum_nat (pts c) in
    match unflatten (firstn len params) (pts c) with
    | None => None
    | Some pm => let k := length c - count_empty pm in
                 Some (firstn k pm ++ skipn (length pm - count_empty pm) c)
    end.

  (* scenario = product measure + values *)
  Definition sc_flatten (c : pmeasure) (values : list A) (all : bool) : list A :=
    if all then flatten c ++ values else flatten c.
  Definition sc_update (c : pmeasure) (values params : list A) : option (pmeasure * list A) :=
    let len := 2 * sum_nat (pts c) in
    let vals := skipn len params in
    let values' := if Nat.ltb len (length params)
                   then firstn (length values) vals ++ skipn (length vals) values else values in
    option_map (fun c' => (c', values')) (update c params).
  Definition sc_load (c : pmeasure) (values params : list A) (npts : list nat) : option (pmeasure * list A) :=
    let len := 2 * sum_nat npts in
    let values' := if Nat.ltb len (length params) then skipn len params else values in
    option_map (fun c' => (c', values')) (load c params npts).

  (* measures._pack: Cartesian product, first factor varying fastest *)
  Fixpoint pack (s : list (list A)) : list (list A) :=
    match s with
    | [] => [[]]
    | x :: r => flat_map (fun t => map (fun a => a :: t) x) (pack r)
    end.

  (* measures._unpack *)
  Definition column (k : nat) (samples : list (list A)) : list A :=
    flat_map (fun j => match nth_error j k with Some a => [a] | None => [] end) samples.
  Fixpoint every_aux (fuel k : nat) (l : list A) : list A :=
    match fuel with
    | O => []
    | S f => match l with [] => [] | a :: _ => a :: every_aux f k (skipn k l) end
    end.
  Definition every (k : nat) (l : list A) : list A := every_aux (length l) k l.   (* l[::k], k >= 1 *)
  Fixpoint unpack_from (samples : list (list A)) (i last : nat) (npts : list nat) : list (list A) :=
    match npts with
    | [] => []
    | n :: r => let cur := last * n in
                every last (firstn cur (column i samples)) :: unpack_from samples (S i) cur r
    end.
  Definition unpack (samples : list (list A)) (npts : list nat) : option (list (list A)) :=
    match npts with
    | [] => None                              (* IndexError on npts[0] *)
    | _ => if existsb (Nat.eqb 0) (removelast npts) then None   (* slice step 0: ValueError *)
           else Some (unpack_from samples 0 1 npts)
    end.

  Definition positions (c : pmeasure) : list (list A) := pack (pos c).
End Structure.

Arguments flatten {A}. Arguments nested_split {A}. Arguments compose {A}. Arguments decompose {A}.
Arguments unflatten {A}. Arguments load {A}. Arguments update {A}. Arguments pack {A}. Arguments unpack {A}.
Arguments pts {A}. Arguments wts {A}. Arguments pos {A}. Arguments positions {A}. Arguments column {A}.
Arguments every {A}. Arguments every_aux {A}. Arguments unpack_from {A}. Arguments m_weights {A}. Arguments m_positions {A}.
Arguments sc_flatten {A}. Arguments sc_update {A}. Arguments sc_load {A}. Arguments one_measure {A}.
Arguments list_of_measures {A}. Arguments count_empty {A}. Arguments is_empty {A}.

Section Arithmetic.
  Variable N : Num.
  Notation E := (T N).

  Definition weights (c : pmeasure E) : list E := map (nprod N) (pack (wts c)).
  Definition mass (c : pmeasure E) : list E := map (nsum N) (wts c).

  (* explicit sums over the weighted points of the product measure *)
  Definition wsum (f : list E -> E) (xs : list (list E)) (ws : list E) : E :=
    nsum N (map (fun p => mul N (f (fst p)) (snd p)) (combine xs ws)).

  (* measures.expectation with tol = 0: points of zero weight are skipped;
     None models the 0*inf = nan result when the retained weights sum to zero *)
  Definition nonzero (w : E) : bool := ltb N (zero N) (abs N w).
  Definition expectation (f : list E -> E) (xs : list (list E)) (ws : list E) : option E :=
    let kept := filter (fun p => nonzero (snd p)) (combine xs ws) in
    let tot := nsum N (map snd kept) in
    if eqb N tot (zero N) then None
    else Some (div N (nsum N (map (fun p => mul N (f (fst p)) (snd p)) kept)) tot).
  Definition expect (f : list E -> E) (c : pmeasure E) : option E :=
    expectation f (positions c) (weights c).

  (* measures.expected_variance (second moment about the weighted mean), same zero-weight skip *)
  Definition expected_variance (f : list E -> E) (xs : list (list E)) (ws : list E) : option E :=
    let kept := filter (fun p => nonzero (snd p)) (combine xs ws) in
    let tot := nsum N (map snd kept) in
    if eqb N tot (zero N) then None
    else let m := div N (nsum N (map (fun p => mul N (f (fst p)) (snd p)) kept)) tot in
         Some (div N (nsum N (map (fun p => mul N (mul N (sub N (f (fst p)) m) (sub N (f (fst p)) m)) (snd p)) kept)) tot).
  Definition expect_var (f : list E -> E) (c : pmeasure E) : option E :=
    expected_variance f (positions c) (weights c).

  (* product_measure.pof: total weight of the points where f <= 0 *)
  Definition pof (f : list E -> E) (c : pmeasure E) : E :=
    nsum N (map snd (filter (fun p => leb N (f (fst p)) (zero N)) (combine (positions c) (weights c)))).

  (* measures.support / support_index with tol = 0 *)
  Definition support (c : pmeasure E) : list (list E) :=
    map fst (filter (fun p => ltb N (zero N) (snd p)) (combine (positions c) (weights c))).
  Fixpoint support_index_from (i : nat) (ws : list E) : list nat :=
    match ws with
    | [] => []
    | w :: r => if ltb N (zero N) w then i :: support_index_from (S i) r else support_index_from (S i) r
    end.
  Definition support_index (c : pmeasure E) : list nat := support_index_from 0 (weights c).
End Arithmetic.
