(* C13 / C14 - proofs about the model in SymCompile.v.
   Part 1: list facts valid for every Num instance.
   Part 2: the real-number instance NumR: one compiled line (any right-hand-side FUNCTION f), systems, bounds.
   Part 3: conditions and penalty (C14) and the composition C13 o C14. *)
From Coq Require Import List Bool Arith Lia Reals Lra Permutation.
From MV Require Import Common.Num Common.NumR Pure.SymCompile.
Import ListNotations.

(* ===================================================================== Part 1: vectors, any Num *)
Section Generic.
  Variable N : Num.
  Local Notation E := (T N).

  Lemma upd_length (x : vec N) i v : length (upd N x i v) = length x.
  Proof. revert i; induction x as [|a x IH]; intros [|i]; cbn; auto. Qed.

  Lemma getx_upd_eq (x : vec N) i v : i < length x -> getx N (upd N x i v) i = v.
  Proof.
    unfold getx. revert i; induction x as [|a x IH]; intros [|i] H; cbn in *; try lia; auto.
    apply IH; lia.
  Qed.

  Lemma getx_upd_neq (x : vec N) i j v : i <> j -> getx N (upd N x i v) j = getx N x j.
  Proof.
    unfold getx. revert i j; induction x as [|a x IH]; intros [|i] [|j] H; cbn; auto; try congruence.
  Qed.

  Lemma upd_getx (x : vec N) i : upd N x i (getx N x i) = x.
  Proof.
    unfold getx. revert i; induction x as [|a x IH]; intros [|i]; cbn; auto. now rewrite IH.
  Qed.

  (* an expression only reads the coordinates it names *)
  Lemma eval_ext (e : expr N) (x y : vec N) :
    (forall j, In j (vars N e) -> getx N y j = getx N x j) -> eval N e y = eval N e x.
  Proof.
    induction e; cbn [eval vars]; intros H; auto.
    - apply H; cbn; auto.
    - rewrite IHe1, IHe2; auto; intros j Hj; apply H; apply in_or_app; auto.
    - rewrite IHe1, IHe2; auto; intros j Hj; apply H; apply in_or_app; auto.
    - rewrite IHe1, IHe2; auto; intros j Hj; apply H; apply in_or_app; auto.
    - rewrite IHe1, IHe2; auto; intros j Hj; apply H; apply in_or_app; auto.
    - rewrite IHe; auto.
    - rewrite IHe; auto.
    - rewrite IHe1, IHe2; auto; intros j Hj; apply H; apply in_or_app; auto.
    - rewrite IHe1, IHe2; auto; intros j Hj; apply H; apply in_or_app; auto.
  Qed.

  Lemma eval_upd_indep (e : expr N) (x : vec N) i v : ~ In i (vars N e) -> eval N e (upd N x i v) = eval N e x.
  Proof.
    intros H. apply eval_ext. intros j Hj. apply getx_upd_neq. intros ->. contradiction.
  Qed.

  (* coupler.inner nesting = application in text order *)
  Lemma generate_constraint_order tol rel (l : list (solver N)) (x : vec N) :
    generate_constraint N tol rel (rev l) x = run_in_order N tol rel l x.
  Proof.
    unfold generate_constraint, run_in_order.
    exact (fold_left_rev_right (fun s acc => run_solver N tol rel s acc) l x).
  Qed.

  Lemma constraints_parser_order sys : constraints_parser N sys = rev (apply_order N sys).
  Proof. reflexivity. Qed.

  Lemma run_solver_length tol rel s (x : vec N) : length (run_solver N tol rel s x) = length x.
  Proof. unfold run_solver, apply_rel. apply upd_length. Qed.

  Lemma run_in_order_length tol rel l (x : vec N) : length (run_in_order N tol rel l x) = length x.
  Proof.
    unfold run_in_order. revert x; induction l as [|s l IH]; intros x; cbn; auto.
    rewrite IH. apply run_solver_length.
  Qed.

  Lemma fold_max_le (l : list nat) a : In a l -> a <= fold_right Nat.max 0 l.
  Proof. induction l as [|b l IH]; cbn; intros H; [contradiction|]. destruct H as [->|H]; [lia|]. specialize (IH H). lia. Qed.

  Lemma need_sys_rel (sys : list (irel N)) r : In r sys -> need_rel N r <= need_sys N sys.
  Proof. intros H. unfold need_sys. apply fold_max_le. now apply in_map. Qed.

  Lemma need_sys_lhs (sys : list (irel N)) r : In r sys -> lhs r < need_sys N sys.
  Proof. intros H. pose proof (need_sys_rel sys r H) as A. unfold need_rel in A. lia. Qed.

  Lemma partition_perm {A} (p : A -> bool) (l : list A) :
    Permutation (filter p l ++ filter (fun a => negb (p a)) l) l.
  Proof.
    induction l as [|a l IH]; cbn; auto.
    destruct (p a); cbn.
    - now constructor.
    - apply Permutation_sym, Permutation_cons_app, Permutation_sym, IH.
  Qed.
End Generic.

(* ===================================================================== Part 2: reals *)
Open Scope R_scope.

(* the meaning of a line of text: the stated relation between the left value a and the right value b *)
Definition holds (c : cmp) (a b : R) : Prop :=
  match c with
  | Clt => a < b | Cle => a <= b | Ceq => a = b | Cne => a <> b | Cge => a >= b | Cgt => a > b
  end.

(* weak form (what is left of a strict comparator when the tolerance term is zero) *)
Definition holds_weak (c : cmp) (a b : R) : Prop :=
  match c with
  | Clt => a <= b | Cgt => a >= b | _ => True
  end.

Definition needs_tol (c : cmp) : bool := (is_strict c || is_ne c)%bool.

Notation vecR := (vec NumR).
Notation getR := (getx NumR).
Notation updR := (upd NumR).
Notation tolR := (tolerance NumR).

Lemma tolR_eq tol rel x : tolR tol rel x = tol + Rabs x * rel.
Proof. reflexivity. Qed.

Lemma tolR_nonneg tol rel x : 0 <= tol -> 0 <= rel -> 0 <= tolR tol rel x.
Proof. intros A B. rewrite tolR_eq. pose proof (Rabs_pos x). nra. Qed.

Lemma tolR_pos tol rel x : 0 < tol -> 0 <= rel -> 0 < tolR tol rel x.
Proof. intros A B. rewrite tolR_eq. pose proof (Rabs_pos x). nra. Qed.

Lemma pymaxR a b : (a < b /\ pymax NumR a b = b) \/ (b <= a /\ pymax NumR a b = a).
Proof.
  unfold pymax; cbn. destruct (Rltb a b) eqn:H.
  - left. apply Rltb_true in H. auto.
  - right. apply Rltb_false in H. auto.
Qed.

Lemma pyminR a b : (b < a /\ pymin NumR a b = b) \/ (a <= b /\ pymin NumR a b = a).
Proof.
  unfold pymin; cbn. destruct (Rltb b a) eqn:H.
  - left. apply Rltb_true in H. auto.
  - right. apply Rltb_false in H. auto.
Qed.

Ltac pym :=
  repeat match goal with
  | |- context [pymin NumR ?a ?b] =>
      let A := fresh "A" in let B := fresh "B" in destruct (pyminR a b) as [[A B]|[A B]]; rewrite B in *; clear B
  | |- context [pymax NumR ?a ?b] =>
      let A := fresh "A" in let B := fresh "B" in destruct (pymaxR a b) as [[A B]|[A B]]; rewrite B in *; clear B
  | _ : context [pymin NumR ?a ?b] |- _ =>
      let A := fresh "A" in let B := fresh "B" in destruct (pyminR a b) as [[A B]|[A B]]; rewrite B in *; clear B
  | _ : context [pymax NumR ?a ?b] |- _ =>
      let A := fresh "A" in let B := fresh "B" in destruct (pymaxR a b) as [[A B]|[A B]]; rewrite B in *; clear B
  end.

Lemma c11R : c11 NumR = 11 / 10.
Proof. reflexivity. Qed.

Lemma b2nR b : b2n NumR b = if b then 1 else 0.
Proof. destruct b; reflexivity. Qed.

Section OneLine.
  Variables tol rel : R.
  Hypothesis Htol : 0 <= tol.
  Hypothesis Hrel : 0 <= rel.

  Local Notation t := (tolR tol rel).
  Local Notation acmp := (apply_cmp NumR tol rel).

  (* ---- the value level: what the assignment statement computes *)
  Lemma cmp_holds_after c eta f xi :
    (needs_tol c = true -> 0 < t f) -> holds c (acmp c eta f xi) f.
  Proof.
    intros Hp. pose proof (tolR_nonneg tol rel f Htol Hrel) as Ht.
    destruct c; cbn [apply_cmp holds]; cbn [needs_tol is_strict is_ne orb] in Hp.
    - specialize (Hp eq_refl). change (sub NumR f (t f)) with (f - t f).
      pym; lra.
    - change (sub NumR f (mul NumR (t f) (b2n NumR eta))) with (f - t f * b2n NumR eta).
      rewrite b2nR. destruct eta; pym; lra.
    - reflexivity.
    - specialize (Hp eq_refl).
      change (add NumR xi (mul NumR (b2n NumR (eqb NumR xi f)) (mul NumR (t f) (c11 NumR))))
        with (xi + b2n NumR (Reqb xi f) * (t f * c11 NumR)).
      rewrite c11R, b2nR. destruct (Reqb xi f) eqn:Q.
      + apply Reqb_true in Q. subst. lra.
      + apply Reqb_false in Q. lra.
    - change (add NumR f (mul NumR (t f) (b2n NumR eta))) with (f + t f * b2n NumR eta).
      rewrite b2nR. destruct eta; pym; lra.
    - specialize (Hp eq_refl). change (add NumR f (t f)) with (f + t f).
      pym; lra.
  Qed.

  (* without any positivity of the tolerance the strict comparators still give the weak relation *)
  Lemma cmp_weak_after c eta f xi : holds_weak c (acmp c eta f xi) f.
  Proof.
    pose proof (tolR_nonneg tol rel f Htol Hrel) as Ht.
    destruct c; cbn [apply_cmp holds_weak]; auto.
    - change (sub NumR f (t f)) with (f - t f).
      pym; lra.
    - change (add NumR f (t f)) with (f + t f).
      pym; lra.
  Qed.

  (* fixed points: =, <=, >= (without a colliding `!=' line) and != *)
  Lemma cmp_identity c f xi :
    is_strict c = false -> holds c xi f -> acmp c false f xi = xi.
  Proof.
    intros Hs H. destruct c; cbn [is_strict] in Hs; try discriminate; cbn [apply_cmp holds] in *.
    - change (sub NumR f (mul NumR (t f) (b2n NumR false))) with (f - t f * 0).
      pym; lra.
    - auto.
    - change (add NumR xi (mul NumR (b2n NumR (eqb NumR xi f)) (mul NumR (t f) (c11 NumR))))
        with (xi + b2n NumR (Reqb xi f) * (t f * c11 NumR)).
      rewrite b2nR. destruct (Reqb xi f) eqn:Q.
      + apply Reqb_true in Q. contradiction.
      + lra.
    - change (add NumR f (mul NumR (t f) (b2n NumR false))) with (f + t f * 0).
      pym; lra.
  Qed.

  (* strict comparators: fixed point only with the margin tol(f) *)
  Lemma cmp_identity_lt f xi : xi <= f - t f -> acmp Clt false f xi = xi.
  Proof.
    intros H. cbn [apply_cmp]. change (sub NumR f (t f)) with (f - t f).
    pym; lra.
  Qed.
  Lemma cmp_identity_gt f xi : f + t f <= xi -> acmp Cgt false f xi = xi.
  Proof.
    intros H. cbn [apply_cmp]. change (add NumR f (t f)) with (f + t f).
    pym; lra.
  Qed.
  (* ... and inside the sliver the point is moved onto f -+ tol(f) *)
  Lemma cmp_moved_lt f xi : f - t f < xi -> acmp Clt false f xi = f - t f.
  Proof.
    intros H. cbn [apply_cmp]. change (sub NumR f (t f)) with (f - t f).
    pym; lra.
  Qed.
  Lemma cmp_moved_gt f xi : xi < f + t f -> acmp Cgt false f xi = f + t f.
  Proof.
    intros H. cbn [apply_cmp]. change (add NumR f (t f)) with (f + t f).
    pym; lra.
  Qed.

  (* ---- the vector level: one compiled line  x_i cmp f(x),  f ANY function that does not read x_i *)
  Section Rel.
    Variable f : vecR -> R.
    Variable i : nat.
    Hypothesis f_indep : forall x v, f (updR x i v) = f x.

    Local Notation arel c eta := (apply_rel NumR tol rel c eta i f).

    Lemma rel_holds_after c eta x :
      (i < length x)%nat -> (needs_tol c = true -> 0 < t (f x)) ->
      holds c (getR (arel c eta x) i) (f (arel c eta x)).
    Proof.
      intros Hi Hp. unfold apply_rel. rewrite f_indep, getx_upd_eq by exact Hi.
      now apply cmp_holds_after.
    Qed.

    Lemma rel_weak_after c eta x :
      (i < length x)%nat -> holds_weak c (getR (arel c eta x) i) (f (arel c eta x)).
    Proof.
      intros Hi. unfold apply_rel. rewrite f_indep, getx_upd_eq by exact Hi. apply cmp_weak_after.
    Qed.

    Lemma rel_only_xi_changes c eta x :
      length (arel c eta x) = length x /\ forall j, j <> i -> getR (arel c eta x) j = getR x j.
    Proof.
      unfold apply_rel. split; [apply upd_length|]. intros j Hj. apply getx_upd_neq. auto.
    Qed.

    Lemma rel_identity_if_satisfied c x :
      is_strict c = false -> holds c (getR x i) (f x) -> arel c false x = x.
    Proof.
      intros Hs H. unfold apply_rel. rewrite cmp_identity by assumption. apply upd_getx.
    Qed.

    Lemma rel_identity_strict_partial c x :
      (c = Clt /\ getR x i <= f x - t (f x)) \/ (c = Cgt /\ f x + t (f x) <= getR x i) ->
      arel c false x = x.
    Proof.
      intros [[-> H]|[-> H]]; unfold apply_rel.
      - rewrite cmp_identity_lt by assumption. apply upd_getx.
      - rewrite cmp_identity_gt by assumption. apply upd_getx.
    Qed.
  End Rel.

  (* the literal clause "equals the input whenever the input already satisfies the relation" fails for < and >:
     for EVERY positive tolerance there is a satisfied input that is moved *)
  Lemma rel_identity_strict_refuted_gt : 0 < tol ->
    exists (x : vecR), holds Cgt (getR x 0%nat) (getR x 1%nat) /\
      apply_rel NumR tol rel Cgt false 0 (fun x => getR x 1%nat) x <> x.
  Proof.
    intros Hpos. exists [tol / 2; 0]. split.
    - cbn. lra.
    - unfold apply_rel. cbn [getx nth upd].
      rewrite cmp_moved_gt.
      + rewrite tolR_eq, Rabs_R0. intros E. injection E. lra.
      + rewrite tolR_eq, Rabs_R0. lra.
  Qed.

  Lemma rel_identity_strict_refuted_lt : 0 < tol ->
    exists (x : vecR), holds Clt (getR x 0%nat) (getR x 1%nat) /\
      apply_rel NumR tol rel Clt false 0 (fun x => getR x 1%nat) x <> x.
  Proof.
    intros Hpos. exists [- tol / 2; 0]. split.
    - cbn. lra.
    - unfold apply_rel. cbn [getx nth upd].
      rewrite cmp_moved_lt.
      + rewrite tolR_eq, Rabs_R0. intros E. injection E. lra.
      + rewrite tolR_eq, Rabs_R0. lra.
  Qed.
End OneLine.

(* ===================================================================== systems of lines *)
Definition all_lhs {N} (l : list (solver N)) : list nat := map (s_lhs N) l.

(* "left-hand variables do not feed one another": no left variable occurs in any right-hand side *)
Definition no_feed_solvers {N} (l : list (solver N)) : Prop :=
  forall s q, In s l -> In q l -> ~ In (s_lhs N s) (vars N (s_rhs N q)).
Definition no_feed {N} (sys : list (irel N)) : Prop :=
  forall r q, In r sys -> In q sys -> ~ In (lhs r) (vars N (rhs q)).

Section Systems.
  Variables tol rel : R.
  Hypothesis Htol : 0 <= tol.
  Hypothesis Hrel : 0 <= rel.
  Local Notation t := (tolR tol rel).

  Lemma run_solver_other s (x : vecR) j : j <> s_lhs NumR s -> getR (run_solver NumR tol rel s x) j = getR x j.
  Proof. intros H. unfold run_solver, apply_rel. apply getx_upd_neq. auto. Qed.

  Lemma run_solver_own s (x : vecR) : (s_lhs NumR s < length x)%nat ->
    getR (run_solver NumR tol rel s x) (s_lhs NumR s)
    = apply_cmp NumR tol rel (s_cmp NumR s) (eta_of NumR s x) (eval NumR (s_rhs NumR s) x) (getR x (s_lhs NumR s)).
  Proof. intros H. unfold run_solver, apply_rel. now rewrite getx_upd_eq. Qed.

  (* characterisation of the composed function on a non-feeding list of lines with distinct left variables:
     every left variable receives the value its own line computes FROM THE INPUT vector, nothing else changes *)
  Lemma run_in_order_char (l : list (solver NumR)) : forall (x : vecR),
    NoDup (all_lhs l) -> no_feed_solvers l -> (forall s, In s l -> (s_lhs NumR s < length x)%nat) ->
    let y := run_in_order NumR tol rel l x in
    (forall j, ~ In j (all_lhs l) -> getR y j = getR x j) /\
    (forall s, In s l -> exists eta,
        getR y (s_lhs NumR s) = apply_cmp NumR tol rel (s_cmp NumR s) eta (eval NumR (s_rhs NumR s) x) (getR x (s_lhs NumR s))).
  Proof.
    induction l as [|s l IH]; intros x Hnd Hnf Hlen; cbn zeta.
    - split; [reflexivity | intros s []].
    - unfold run_in_order; cbn [fold_left]. fold (run_in_order NumR tol rel l (run_solver NumR tol rel s x)).
      set (x1 := run_solver NumR tol rel s x).
      cbn [all_lhs map] in Hnd. apply NoDup_cons_iff in Hnd. destruct Hnd as [Hnotin Hnd].
      assert (Hnf' : no_feed_solvers l) by (intros a b Ha Hb; apply Hnf; right; assumption).
      assert (Hlen' : forall q, In q l -> (s_lhs NumR q < length x1)%nat).
      { intros q Hq. unfold x1. rewrite run_solver_length. apply Hlen. now right. }
      destruct (IH x1 Hnd Hnf' Hlen') as [IHa IHb]. split.
      + intros j Hj. cbn [all_lhs map] in Hj.
        rewrite IHa by (intros Hin; apply Hj; right; exact Hin).
        unfold x1. apply run_solver_other. intros ->. apply Hj. now left.
      + intros q [->|Hq].
        * exists (eta_of NumR q x). rewrite IHa by exact Hnotin. unfold x1. apply run_solver_own. apply Hlen. now left.
        * destruct (IHb q Hq) as [eta Heta]. exists eta. rewrite Heta.
          assert (Hne : s_lhs NumR q <> s_lhs NumR s).
          { intros E. apply Hnotin. rewrite <- E. unfold all_lhs. now apply in_map. }
          f_equal.
          -- unfold x1, run_solver, apply_rel. apply eval_upd_indep. apply Hnf; [now left | now right].
          -- unfold x1. now apply run_solver_other.
  Qed.

  Lemma apply_order_lhs (sys : list (irel NumR)) :
    Permutation (all_lhs (apply_order NumR sys)) (map lhs sys).
  Proof.
    unfold all_lhs, apply_order. rewrite map_map. cbn [parse_line s_lhs].
    apply Permutation_map. apply partition_perm.
  Qed.

  Lemma apply_order_in (sys : list (irel NumR)) s :
    In s (apply_order NumR sys) <-> exists r, In r sys /\ s = parse_line NumR sys r.
  Proof.
    unfold apply_order. rewrite in_map_iff. split.
    - intros [r [E H]]. exists r. split; auto.
      apply (Permutation_in _ (partition_perm (fun r => is_ne (rcmp r)) sys)). exact H.
    - intros [r [H E]]. exists r. split; auto.
      apply (Permutation_in _ (Permutation_sym (partition_perm (fun r => is_ne (rcmp r)) sys))). exact H.
  Qed.

  (* the compiled function of a text: defined (no exception), and characterised line by line *)
  Lemma compiled_char (sys : list (irel NumR)) (x : vecR) :
    NoDup (map lhs sys) -> no_feed sys -> (need_sys NumR sys <= length x)%nat ->
    exists y, compiled_constraint NumR tol rel sys x = Some y /\ length y = length x /\
      (forall j, ~ In j (map lhs sys) -> getR y j = getR x j) /\
      (forall r, In r sys -> eval NumR (rhs r) y = eval NumR (rhs r) x) /\
      (forall r, In r sys -> exists eta,
          getR y (lhs r) = apply_cmp NumR tol rel (rcmp r) eta (eval NumR (rhs r) x) (getR x (lhs r))).
  Proof.
    intros Hnd Hnf Hneed.
    unfold compiled_constraint.
    assert (G : (ltb NumR tol (zero NumR) || ltb NumR rel (zero NumR))%bool = false).
    { cbn. apply orb_false_iff. split; apply Rltb_false; assumption. }
    rewrite G. apply Nat.leb_le in Hneed. rewrite Hneed. apply Nat.leb_le in Hneed.
    rewrite constraints_parser_order, generate_constraint_order.
    eexists. split; [reflexivity|].
    assert (Hnd' : NoDup (all_lhs (apply_order NumR sys))).
    { apply (Permutation_NoDup (Permutation_sym (apply_order_lhs sys))). exact Hnd. }
    assert (Hnf' : no_feed_solvers (apply_order NumR sys)).
    { intros a b Ha Hb. apply apply_order_in in Ha. apply apply_order_in in Hb.
      destruct Ha as [ra [Hra ->]]. destruct Hb as [rb [Hrb ->]]. cbn. now apply Hnf. }
    assert (Hlen' : forall s, In s (apply_order NumR sys) -> (s_lhs NumR s < length x)%nat).
    { intros s Hs. apply apply_order_in in Hs. destruct Hs as [r [Hr ->]]. cbn.
      eapply Nat.lt_le_trans; [apply need_sys_lhs; exact Hr | exact Hneed]. }
    destruct (run_in_order_char (apply_order NumR sys) x Hnd' Hnf' Hlen') as [Ca Cb].
    assert (Cother : forall j, ~ In j (map lhs sys) ->
              getR (run_in_order NumR tol rel (apply_order NumR sys) x) j = getR x j).
    { intros j Hj. apply Ca. intros Hin. apply Hj.
      apply (Permutation_in _ (apply_order_lhs sys)). exact Hin. }
    split; [apply run_in_order_length|]. split; [exact Cother|]. split.
    - intros r Hr. apply eval_ext. intros j Hj. apply Cother.
      intros Hin. apply in_map_iff in Hin. destruct Hin as [q [Eq Hq]]. subst j.
      exact (Hnf q r Hq Hr Hj).
    - intros r Hr. destruct (Cb (parse_line NumR sys r)) as [eta He].
      + apply apply_order_in. exists r. auto.
      + exists eta. exact He.
  Qed.

  (* C13: all lines of a non-feeding text hold at once after the compiled function, only left variables move *)
  Lemma system_all_hold (sys : list (irel NumR)) (x : vecR) :
    NoDup (map lhs sys) -> no_feed sys -> (need_sys NumR sys <= length x)%nat ->
    (forall r, In r sys -> needs_tol (rcmp r) = true -> 0 < t (eval NumR (rhs r) x)) ->
    exists y, compiled_constraint NumR tol rel sys x = Some y /\ length y = length x /\
      (forall j, ~ In j (map lhs sys) -> getR y j = getR x j) /\
      Forall (fun r => holds (rcmp r) (getR y (lhs r)) (eval NumR (rhs r) y)) sys.
  Proof.
    intros Hnd Hnf Hneed Hpos.
    destruct (compiled_char sys x Hnd Hnf Hneed) as [y [Hy [Hl [Ho [He Hc]]]]].
    exists y. repeat split; auto.
    apply Forall_forall. intros r Hr. rewrite (He r Hr).
    destruct (Hc r Hr) as [eta ->]. apply cmp_holds_after; auto.
  Qed.

End Systems.

(* ===================================================================== bounds *)
Definition ok_bound (lo hi : option R) : Prop := forall l h, lo = Some l -> hi = Some h -> l <= h.
Definition in_interval (lo hi : option R) (v : R) : Prop :=
  (forall l, lo = Some l -> l <= v) /\ (forall h, hi = Some h -> v <= h).

Section Bounds.
  Lemma clip1_in lo hi v : ok_bound lo hi -> in_interval lo hi (clip1 NumR lo hi v).
  Proof.
    intros Hok. unfold clip1, in_interval.
    destruct lo as [l|], hi as [h|]; split; intros b Hb; inversion Hb; subst; clear Hb;
      try (specialize (Hok _ _ eq_refl eq_refl)); pym; lra.
  Qed.

  Lemma clip1_id lo hi v : in_interval lo hi v -> clip1 NumR lo hi v = v.
  Proof.
    intros [Hl Hh]. unfold clip1.
    destruct lo as [l|], hi as [h|];
      try (specialize (Hl _ eq_refl)); try (specialize (Hh _ eq_refl)); pym; lra.
  Qed.

  (* "clip": a value below the box goes to the lower bound, a value above to the upper bound *)
  Lemma clip1_nearest lo hi v : ok_bound lo hi ->
    (forall l, lo = Some l -> v < l -> clip1 NumR lo hi v = l) /\
    (forall h, hi = Some h -> h < v -> clip1 NumR lo hi v = h).
  Proof.
    intros Hok. unfold clip1.
    destruct lo as [l|], hi as [h|]; split; intros b Hb Hv; inversion Hb; subst; clear Hb;
      try (specialize (Hok _ _ eq_refl eq_refl)); pym; lra.
  Qed.

  Lemma bounds_clip_length lo hi (x : vecR) : length (bounds_clip NumR lo hi x) = length x.
  Proof.
    revert hi x; induction lo as [|l lo IH]; intros [|h hi] [|v x]; cbn; auto.
  Qed.

  Lemma bounds_clip_nth lo hi (x : vecR) j :
    (j < length lo)%nat -> (j < length hi)%nat -> (j < length x)%nat ->
    getR (bounds_clip NumR lo hi x) j = clip1 NumR (nth j lo None) (nth j hi None) (getR x j).
  Proof.
    unfold getx. revert hi x j; induction lo as [|l lo IH]; intros [|h hi] [|v x] [|j] A B C; cbn in *; try lia; auto.
    apply IH; lia.
  Qed.

  Lemma bounds_clip_beyond lo hi (x : vecR) j :
    (length lo <= j)%nat \/ (length hi <= j)%nat -> getR (bounds_clip NumR lo hi x) j = getR x j.
  Proof.
    unfold getx. revert hi x j; induction lo as [|l lo IH]; intros [|h hi] [|v x] [|j] A; cbn in *; auto; try lia.
    apply IH. lia.
  Qed.

  Lemma bounds_clip_into_box lo hi (x : vecR) :
    (forall j, ok_bound (nth j lo None) (nth j hi None)) ->
    forall j, (j < length lo)%nat -> (j < length hi)%nat -> (j < length x)%nat ->
      in_interval (nth j lo None) (nth j hi None) (getR (bounds_clip NumR lo hi x) j).
  Proof. intros Hok j A B C. rewrite bounds_clip_nth by assumption. apply clip1_in. apply Hok. Qed.

  Lemma bounds_clip_nearest lo hi (x : vecR) :
    (forall j, ok_bound (nth j lo None) (nth j hi None)) ->
    forall j, (j < length lo)%nat -> (j < length hi)%nat -> (j < length x)%nat ->
      (forall l, nth j lo None = Some l -> getR x j < l -> getR (bounds_clip NumR lo hi x) j = l) /\
      (forall h, nth j hi None = Some h -> h < getR x j -> getR (bounds_clip NumR lo hi x) j = h).
  Proof. intros Hok j A B C. rewrite bounds_clip_nth by assumption. apply clip1_nearest. apply Hok. Qed.

  Lemma bounds_identity_inside lo hi (x : vecR) :
    (forall j, (j < length lo)%nat -> (j < length hi)%nat -> (j < length x)%nat ->
               in_interval (nth j lo None) (nth j hi None) (getR x j)) ->
    bounds_clip NumR lo hi x = x.
  Proof.
    unfold getx. revert hi x; induction lo as [|l lo IH]; intros [|h hi] [|v x] H; cbn; auto.
    f_equal.
    - apply clip1_id. apply (H 0%nat); apply Nat.lt_0_succ.
    - apply IH. intros j A B C. apply (H (S j)); apply (proj1 (Nat.succ_lt_mono _ _)); assumption.
  Qed.
End Bounds.

(* ===================================================================== Part 3: conditions and penalty (C14) *)
Definition satisfied (kd : kind) (v : R) : Prop :=
  match kd with Equality => v = 0 | Inequality => v <= 0 end.

Fixpoint rsum (l : list R) : R := match l with nil => 0 | a :: r => a + rsum r end.

Section Penalty.
  Variables tol rel : R.
  Hypothesis Htol : 0 <= tol.
  Hypothesis Hrel : 0 <= rel.
  Local Notation t := (tolR tol rel).
  Local Notation cval := (cond_value NumR tol rel).

  (* the condition value is lhs-rhs, oriented: the relation holds iff value <= 0 (inequalities) / = 0 (equalities) *)
  Lemma cond_orientation c a b : is_strict c = false ->
    (holds c a b <-> satisfied (cond_kind c) (cval c a b)).
  Proof.
    intros Hs. destruct c; cbn [is_strict] in Hs; try discriminate; cbn [holds cond_kind satisfied cond_value].
    - change (sub NumR a b) with (a - b). lra.
    - change (sub NumR a b) with (a - b). lra.
    - change (b2n NumR (eqb NumR (sub NumR a b) (zero NumR))) with (b2n NumR (Reqb (a - b) 0)).
      rewrite b2nR. destruct (Reqb (a - b) 0) eqn:Q.
      + apply Reqb_true in Q. lra.
      + apply Reqb_false in Q. lra.
    - change (opp NumR (sub NumR a b)) with (- (a - b)). lra.
  Qed.

  Lemma cond_value_nonstrict c a b : is_strict c = false -> is_ne c = false ->
    cval c a b = match c with Cge => b - a | _ => a - b end.
  Proof.
    intros Hs Hn. destruct c; try discriminate; cbn [cond_value].
    - reflexivity.
    - reflexivity.
    - change (opp NumR (sub NumR a b)) with (- (a - b)). lra.
  Qed.

  (* strict comparators: value <= 0 iff the relation holds WITH THE MARGIN tol(b) *)
  Lemma cond_strict_lt a b : cval Clt a b <= 0 <-> a <= b - t b.
  Proof. cbn [cond_value]. change (sub NumR a (sub NumR b (t b))) with (a - (b - t b)). lra. Qed.
  Lemma cond_strict_gt a b : cval Cgt a b <= 0 <-> b + t b <= a.
  Proof. cbn [cond_value]. change (opp NumR (sub NumR a (add NumR b (t b)))) with (- (a - (b + t b))). lra. Qed.

  Lemma cond_strict_sound c a b : is_strict c = true -> 0 < t b ->
    satisfied (cond_kind c) (cval c a b) -> holds c a b.
  Proof.
    intros Hs Hp. destruct c; try discriminate; cbn [cond_kind satisfied holds].
    - rewrite cond_strict_lt. lra.
    - rewrite cond_strict_gt. lra.
  Qed.

  (* ... so the literal "holds iff value <= 0" is refuted for every positive tolerance *)
  Lemma cond_orientation_strict_refuted : 0 < tol ->
    exists a b, holds Cgt a b /\ ~ satisfied (cond_kind Cgt) (cval Cgt a b).
  Proof.
    intros Hp. exists (tol / 2), 0. split; [cbn; lra|].
    cbn [cond_kind satisfied]. rewrite cond_strict_gt, tolR_eq, Rabs_R0. lra.
  Qed.
  Lemma cond_orientation_strict_refuted_lt : 0 < tol ->
    exists a b, holds Clt a b /\ ~ satisfied (cond_kind Clt) (cval Clt a b).
  Proof.
    intros Hp. exists (- tol / 2), 0. split; [cbn; lra|].
    cbn [cond_kind satisfied]. rewrite cond_strict_lt, tolR_eq, Rabs_R0. lra.
  Qed.

  (* ---- penalty terms *)
  Variable k : R.

  Lemma term_formula kd v :
    penalty_term NumR k kd v =
    match kd with Equality => k * (v * v) | Inequality => 2 * k * (Rmax 0 v * Rmax 0 v) end.
  Proof.
    destruct kd; cbn [penalty_term]; [reflexivity|].
    change (mul NumR (mul NumR (of_Z NumR 2) k) (mul NumR (pymax NumR (zero NumR) v) (pymax NumR (zero NumR) v)))
      with (2 * k * (pymax NumR 0 v * pymax NumR 0 v)).
    assert (E : pymax NumR 0 v = Rmax 0 v).
    { unfold Rmax. destruct (Rle_dec 0 v); pym; lra. }
    now rewrite E.
  Qed.

  Lemma term_nonneg kd v : 0 <= k -> 0 <= penalty_term NumR k kd v.
  Proof.
    intros Hk. rewrite term_formula. destruct kd.
    - pose proof (Rle_0_sqr v) as Q. unfold Rsqr in Q. nra.
    - pose proof (Rle_0_sqr (Rmax 0 v)) as Q. unfold Rsqr in Q. nra.
  Qed.

  Lemma term_zero_iff kd v : 0 < k -> (penalty_term NumR k kd v = 0 <-> satisfied kd v).
  Proof.
    intros Hk. rewrite term_formula. destruct kd; cbn [satisfied].
    - split; intros H; [|rewrite H; lra]. assert (v * v = 0) by nra. nra.
    - unfold Rmax. destruct (Rle_dec 0 v) as [A|A]; split; intros H.
      + assert (v * v = 0) by nra. nra.
      + assert (E : v = 0) by lra. rewrite E. lra.
      + lra.
      + lra.
  Qed.

  Lemma generate_penalty_sum conds (x : vecR) :
    generate_penalty NumR tol rel k conds x = rsum (map (fun g => line_term NumR tol rel k g x) conds).
  Proof.
    unfold generate_penalty.
    assert (G : forall l a, fold_left (fun acc g => add NumR (line_term NumR tol rel k g x) acc) l a
                            = rsum (map (fun g => line_term NumR tol rel k g x) l) + a).
    { induction l as [|g l IH]; intros a; cbn [fold_left map rsum]; [lra|]. rewrite IH. cbn. lra. }
    rewrite G. cbn. lra.
  Qed.

  Lemma rsum_perm l l' : Permutation l l' -> rsum l = rsum l'.
  Proof. induction 1; cbn; lra. Qed.

  Lemma rsum_nonneg l : Forall (fun v => 0 <= v) l -> 0 <= rsum l.
  Proof. induction 1; cbn; lra. Qed.

  Lemma rsum_zero_iff l : Forall (fun v => 0 <= v) l -> (rsum l = 0 <-> Forall (fun v => v = 0) l).
  Proof.
    induction 1 as [|a l Ha Hl IH]; cbn.
    - split; auto.
    - pose proof (rsum_nonneg l Hl). split.
      + intros E. constructor; [lra|]. apply IH. lra.
      + intros F. inversion F; subst. apply IH in H3. lra.
  Qed.

  (* the order (inequalities first) does not matter for the value: the penalty is the sum over the lines of the text *)
  Lemma penalty_sum_text_order sys (x : vecR) :
    generate_penalty NumR tol rel k (conditions_order NumR sys) x
    = rsum (map (fun g => line_term NumR tol rel k g x) sys).
  Proof.
    rewrite generate_penalty_sum. apply rsum_perm. apply Permutation_map.
    unfold conditions_order. apply partition_perm.
  Qed.

  Definition line_satisfied (x : vecR) (g : grel NumR) : Prop :=
    satisfied (cond_kind (gcmp g)) (condition NumR tol rel g x).
  Definition line_holds (x : vecR) (g : grel NumR) : Prop :=
    holds (gcmp g) (eval NumR (glhs g) x) (eval NumR (grhs g) x).

  Lemma penalty_nonneg sys (x : vecR) : 0 <= k ->
    0 <= generate_penalty NumR tol rel k (conditions_order NumR sys) x.
  Proof.
    intros Hk. rewrite penalty_sum_text_order. apply rsum_nonneg.
    apply Forall_forall. intros v Hv. apply in_map_iff in Hv. destruct Hv as [g [<- _]].
    unfold line_term. now apply term_nonneg.
  Qed.

  Lemma penalty_zero_iff_conditions sys (x : vecR) : 0 < k ->
    (generate_penalty NumR tol rel k (conditions_order NumR sys) x = 0 <-> Forall (line_satisfied x) sys).
  Proof.
    intros Hk. rewrite penalty_sum_text_order. rewrite rsum_zero_iff.
    - rewrite !Forall_forall. split.
      + intros H g Hg. unfold line_satisfied. apply (term_zero_iff _ _ Hk).
        apply H. apply in_map_iff. exists g. auto.
      + intros H v Hv. apply in_map_iff in Hv. destruct Hv as [g [<- Hg]].
        unfold line_term. apply (term_zero_iff _ _ Hk). exact (H g Hg).
    - apply Forall_forall. intros v Hv. apply in_map_iff in Hv. destruct Hv as [g [<- _]].
      unfold line_term. apply term_nonneg. lra.
  Qed.

  Lemma line_satisfied_iff_holds (x : vecR) g : is_strict (gcmp g) = false -> (line_holds x g <-> line_satisfied x g).
  Proof. intros Hs. unfold line_holds, line_satisfied, condition. now apply cond_orientation. Qed.

  (* texts without < and >: zero exactly at the points satisfying every line *)
  Lemma penalty_zero_iff_all_hold sys (x : vecR) : 0 < k ->
    Forall (fun g => is_strict (gcmp g) = false) sys ->
    (generate_penalty NumR tol rel k (conditions_order NumR sys) x = 0 <-> Forall (line_holds x) sys).
  Proof.
    intros Hk Hns. rewrite (penalty_zero_iff_conditions sys x Hk).
    rewrite !Forall_forall in *. split; intros H g Hg.
    - apply line_satisfied_iff_holds; auto.
    - apply line_satisfied_iff_holds; auto.
  Qed.

  Lemma penalty_positive_elsewhere sys (x : vecR) : 0 < k ->
    ~ Forall (line_satisfied x) sys -> 0 < generate_penalty NumR tol rel k (conditions_order NumR sys) x.
  Proof.
    intros Hk Hn. pose proof (penalty_nonneg sys x (Rlt_le _ _ Hk)) as P.
    destruct (Req_dec (generate_penalty NumR tol rel k (conditions_order NumR sys) x) 0) as [E|E]; [|lra].
    exfalso. apply Hn. now apply penalty_zero_iff_conditions.
  Qed.

  (* any comparators: zero penalty implies every line holds (strict lines need a positive tolerance term) *)
  Lemma penalty_zero_all_hold_partial sys (x : vecR) : 0 < k ->
    (forall g, In g sys -> is_strict (gcmp g) = true -> 0 < t (eval NumR (grhs g) x)) ->
    generate_penalty NumR tol rel k (conditions_order NumR sys) x = 0 -> Forall (line_holds x) sys.
  Proof.
    intros Hk Hp H0. apply (penalty_zero_iff_conditions sys x Hk) in H0.
    rewrite !Forall_forall in *. intros g Hg. specialize (H0 g Hg).
    destruct (is_strict (gcmp g)) eqn:Hs.
    - unfold line_holds. unfold line_satisfied, condition in H0. eapply cond_strict_sound; eauto.
    - now apply line_satisfied_iff_holds.
  Qed.

  (* the converse for strict lines fails inside the sliver: a point satisfying the text with positive penalty *)
  Lemma penalty_zero_iff_all_hold_strict_refuted : 0 < tol -> 0 < k ->
    exists (sys : list (grel NumR)) (x : vecR),
      Forall (line_holds x) sys /\ 0 < generate_penalty NumR tol rel k (conditions_order NumR sys) x.
  Proof.
    intros Hp Hk. exists [mkG (EVar 0) Cgt (EVar 1)], [tol / 2; 0]. split.
    - constructor; [|constructor]. unfold line_holds. cbn. lra.
    - apply penalty_positive_elsewhere; auto. intros F. inversion F as [|g l Hg Hl]; subst.
      unfold line_satisfied, condition in Hg. cbn [gcmp glhs grhs cond_kind satisfied eval getx nth] in Hg.
      rewrite cond_strict_gt, tolR_eq, Rabs_R0 in Hg. lra.
  Qed.

  (* ---- C13 o C14 *)
  Lemma cmp_cond_satisfied c eta f xi : (is_ne c = true -> 0 < t f) ->
    satisfied (cond_kind c) (cval c (apply_cmp NumR tol rel c eta f xi) f).
  Proof.
    intros Hp. pose proof (tolR_nonneg tol rel f Htol Hrel) as Ht.
    destruct c; cbn [apply_cmp cond_kind satisfied cond_value]; cbn [is_ne] in Hp.
    - change (sub NumR (pymin NumR (sub NumR f (t f)) xi) (sub NumR f (t f))) with (pymin NumR (f - t f) xi - (f - t f)).
      pym; lra.
    - change (sub NumR (pymin NumR (sub NumR f (mul NumR (t f) (b2n NumR eta))) xi) f)
        with (pymin NumR (f - t f * b2n NumR eta) xi - f).
      rewrite b2nR. destruct eta; pym; lra.
    - change (sub NumR f f) with (f - f). lra.
    - specialize (Hp eq_refl).
      change (b2n NumR (eqb NumR (sub NumR (add NumR xi (mul NumR (b2n NumR (eqb NumR xi f)) (mul NumR (t f) (c11 NumR)))) f) (zero NumR)))
        with (b2n NumR (Reqb (xi + b2n NumR (Reqb xi f) * (t f * c11 NumR) - f) 0)).
      rewrite c11R, !b2nR. destruct (Reqb xi f) eqn:Q.
      + apply Reqb_true in Q. subst.
        destruct (Reqb (f + 1 * (t f * (11 / 10)) - f) 0) eqn:Q2; [|reflexivity].
        apply Reqb_true in Q2. lra.
      + apply Reqb_false in Q.
        destruct (Reqb (xi + 0 * (t f * (11 / 10)) - f) 0) eqn:Q2; [|reflexivity].
        apply Reqb_true in Q2. lra.
    - change (opp NumR (sub NumR (pymax NumR (add NumR f (mul NumR (t f) (b2n NumR eta))) xi) f))
        with (- (pymax NumR (f + t f * b2n NumR eta) xi - f)).
      rewrite b2nR. destruct eta; pym; lra.
    - change (opp NumR (sub NumR (pymax NumR (add NumR f (t f)) xi) (add NumR f (t f))))
        with (- (pymax NumR (f + t f) xi - (f + t f))).
      pym; lra.
  Qed.

  Lemma need_e_var i : need_e NumR (EVar i) = S i.
  Proof. unfold need_e. cbn. lia. Qed.

  Lemma need_gsys_of_rel sys : need_gsys NumR (map (grel_of_rel NumR) sys) = need_sys NumR sys.
  Proof.
    unfold need_gsys, need_sys. rewrite map_map. f_equal.
  Qed.

  (* applying the constraint generated from a text drives the penalty generated from the SAME text to zero *)
  Lemma constraint_then_penalty_zero (sys : list (irel NumR)) (x : vecR) :
    NoDup (map lhs sys) -> no_feed sys -> (need_sys NumR sys <= length x)%nat ->
    (forall r, In r sys -> is_ne (rcmp r) = true -> 0 < t (eval NumR (rhs r) x)) ->
    exists y, compiled_constraint NumR tol rel sys x = Some y /\
              compiled_penalty NumR tol rel k (map (grel_of_rel NumR) sys) y = Some 0.
  Proof.
    intros Hnd Hnf Hneed Hpos.
    destruct (compiled_char tol rel Htol Hrel sys x Hnd Hnf Hneed) as [y [Hy [Hl [Ho [He Hc]]]]].
    exists y. split; [exact Hy|].
    unfold compiled_penalty.
    assert (G : (ltb NumR tol (zero NumR) || ltb NumR rel (zero NumR))%bool = false).
    { cbn. apply orb_false_iff. split; apply Rltb_false; assumption. }
    rewrite G, need_gsys_of_rel, Hl. apply Nat.leb_le in Hneed. rewrite Hneed. f_equal.
    rewrite penalty_sum_text_order.
    assert (Z : Forall (fun v => v = 0) (map (fun g => line_term NumR tol rel k g y) (map (grel_of_rel NumR) sys))).
    { apply Forall_forall. intros v Hv. rewrite map_map in Hv. apply in_map_iff in Hv. destruct Hv as [r [<- Hr]].
      unfold line_term, condition. cbn [grel_of_rel gcmp glhs grhs eval].
      rewrite (He r Hr). destruct (Hc r Hr) as [eta ->].
      pose proof (cmp_cond_satisfied (rcmp r) eta (eval NumR (rhs r) x) (getR x (lhs r)) (Hpos r Hr)) as S.
      rewrite term_formula. destruct (cond_kind (rcmp r)); cbn [satisfied] in S.
      - rewrite S. lra.
      - unfold Rmax. destruct (Rle_dec 0 _); [|lra].
        assert (E0 : cond_value NumR tol rel (rcmp r)
                       (apply_cmp NumR tol rel (rcmp r) eta (eval NumR (rhs r) x) (getR x (lhs r)))
                       (eval NumR (rhs r) x) = 0) by lra.
        rewrite E0. lra. }
    clear - Z. induction Z; cbn; [reflexivity|]. rewrite IHZ, H. lra.
  Qed.
End Penalty.

(* ===================================================================== one line of text = apply_rel with f := eval rhs *)
Lemma compiled_single_line tol rel i c (e : expr NumR) (x : vecR) :
  0 <= tol -> 0 <= rel -> (need_rel NumR (mkRel i c e) <= length x)%nat ->
  compiled_constraint NumR tol rel [mkRel i c e] x = Some (apply_rel NumR tol rel c false i (eval NumR e) x).
Proof.
  intros Htol Hrel Hneed. unfold compiled_constraint.
  assert (G : (ltb NumR tol (zero NumR) || ltb NumR rel (zero NumR))%bool = false).
  { cbn. apply orb_false_iff. split; apply Rltb_false; assumption. }
  rewrite G.
  assert (Hn : (need_sys NumR [mkRel i c e] <=? length x)%nat = true).
  { apply Nat.leb_le. unfold need_sys. cbn [map fold_right]. rewrite Nat.max_0_r. exact Hneed. }
  rewrite Hn. f_equal.
  destruct c; reflexivity.
Qed.

Lemma eval_indep_fun (e : expr NumR) i : ~ In i (vars NumR e) ->
  forall (x : vecR) v, eval NumR e (updR x i v) = eval NumR e x.
Proof. intros H x v. now apply eval_upd_indep. Qed.

(* ===================================================================== boundsconstrain = compiled symbolic_bounds text = clip *)
Section BoundsCompiled.
  Variables tol rel : R.
  Hypothesis Htol : 0 <= tol.
  Hypothesis Hrel : 0 <= rel.

  Fixpoint lowclip (lo : list (option R)) (x : vecR) : vecR :=
    match lo, x with
    | l :: lo', v :: x' => (match l with Some a => pymax NumR a v | None => v end) :: lowclip lo' x'
    | _, _ => x
    end.
  Fixpoint hiclip (hi : list (option R)) (x : vecR) : vecR :=
    match hi, x with
    | h :: hi', v :: x' => (match h with Some a => pymin NumR a v | None => v end) :: hiclip hi' x'
    | _, _ => x
    end.

  Lemma lowclip_length lo x : length (lowclip lo x) = length x.
  Proof. revert x; induction lo as [|l lo IH]; intros [|v x]; cbn; auto. Qed.

  Lemma clip_split lo hi (x : vecR) : length lo = length hi -> bounds_clip NumR lo hi x = hiclip hi (lowclip lo x).
  Proof.
    revert hi x; induction lo as [|l lo IH]; intros [|h hi] [|v x] E; cbn in *; try discriminate; auto.
    f_equal. apply IH. congruence.
  Qed.

  Lemma upd_app (pre : vecR) v rest w : updR (pre ++ v :: rest) (length pre) w = pre ++ w :: rest.
  Proof. induction pre as [|a pre IH]; cbn [app length upd]; auto. f_equal. exact IH. Qed.

  Lemma getx_app (pre : vecR) v rest : getR (pre ++ v :: rest) (length pre) = v.
  Proof. unfold getx. apply nth_middle. Qed.

  Definition plain (r : irel NumR) : solver NumR := mkSolver NumR (lhs r) (rcmp r) (rhs r) nil.

  Lemma run_plain_ge i l (x : vecR) :
    run_solver NumR tol rel (plain (mkRel i Cge (EConst l))) x = updR x i (pymax NumR l (getR x i)).
  Proof.
    unfold run_solver, apply_rel, plain, eta_of. cbn [s_lhs s_cmp s_rhs s_neq existsb eval apply_cmp lhs rcmp rhs].
    change (add NumR l (mul NumR (tolR tol rel l) (b2n NumR false))) with (l + tolR tol rel l * 0).
    replace (l + tolR tol rel l * 0) with l by lra. reflexivity.
  Qed.
  Lemma run_plain_le i h (x : vecR) :
    run_solver NumR tol rel (plain (mkRel i Cle (EConst h))) x = updR x i (pymin NumR h (getR x i)).
  Proof.
    unfold run_solver, apply_rel, plain, eta_of. cbn [s_lhs s_cmp s_rhs s_neq existsb eval apply_cmp lhs rcmp rhs].
    change (sub NumR h (mul NumR (tolR tol rel h) (b2n NumR false))) with (h - tolR tol rel h * 0).
    replace (h - tolR tol rel h * 0) with h by lra. reflexivity.
  Qed.

  Lemma run_cons s l (x : vecR) :
    run_in_order NumR tol rel (s :: l) x = run_in_order NumR tol rel l (run_solver NumR tol rel s x).
  Proof. reflexivity. Qed.

  Lemma run_lower lo : forall (pre rest : vecR), (length lo <= length rest)%nat ->
    run_in_order NumR tol rel (map plain (lower_lines NumR (length pre) lo)) (pre ++ rest) = pre ++ lowclip lo rest.
  Proof.
    induction lo as [|[a|] lo IH]; intros pre rest Hl.
    - reflexivity.
    - destruct rest as [|v rest]; [cbn in Hl; lia|].
      cbn [lower_lines map lowclip]. rewrite run_cons, run_plain_ge, upd_app, getx_app.
      replace (pre ++ pymax NumR a v :: rest) with ((pre ++ [pymax NumR a v]) ++ rest) by (now rewrite <- app_assoc).
      replace (S (length pre)) with (length (pre ++ [pymax NumR a v])) by (rewrite app_length; cbn; lia).
      rewrite IH by (apply (proj2 (Nat.succ_le_mono _ _)); exact Hl). now rewrite <- app_assoc.
    - destruct rest as [|v rest]; [cbn in Hl; lia|].
      cbn [lower_lines lowclip].
      replace (pre ++ v :: rest) with ((pre ++ [v]) ++ rest) by (now rewrite <- app_assoc).
      replace (S (length pre)) with (length (pre ++ [v])) by (rewrite app_length; cbn; lia).
      rewrite IH by (apply (proj2 (Nat.succ_le_mono _ _)); exact Hl). now rewrite <- app_assoc.
  Qed.

  Lemma run_upper hi : forall (pre rest : vecR), (length hi <= length rest)%nat ->
    run_in_order NumR tol rel (map plain (upper_lines NumR (length pre) hi)) (pre ++ rest) = pre ++ hiclip hi rest.
  Proof.
    induction hi as [|[a|] hi IH]; intros pre rest Hl.
    - reflexivity.
    - destruct rest as [|v rest]; [cbn in Hl; lia|].
      cbn [upper_lines map hiclip]. rewrite run_cons, run_plain_le, upd_app, getx_app.
      replace (pre ++ pymin NumR a v :: rest) with ((pre ++ [pymin NumR a v]) ++ rest) by (now rewrite <- app_assoc).
      replace (S (length pre)) with (length (pre ++ [pymin NumR a v])) by (rewrite app_length; cbn; lia).
      rewrite IH by (apply (proj2 (Nat.succ_le_mono _ _)); exact Hl). now rewrite <- app_assoc.
    - destruct rest as [|v rest]; [cbn in Hl; lia|].
      cbn [upper_lines hiclip].
      replace (pre ++ v :: rest) with ((pre ++ [v]) ++ rest) by (now rewrite <- app_assoc).
      replace (S (length pre)) with (length (pre ++ [v])) by (rewrite app_length; cbn; lia).
      rewrite IH by (apply (proj2 (Nat.succ_le_mono _ _)); exact Hl). now rewrite <- app_assoc.
  Qed.

  (* shape of the generated lines *)
  Lemma lower_lines_shape lo : forall k r, In r (lower_lines NumR k lo) ->
    (k <= lhs r < k + length lo)%nat /\ rcmp r = Cge /\ exists l, rhs r = EConst l.
  Proof.
    induction lo as [|[a|] lo IH]; intros k r H; cbn in H.
    - contradiction.
    - destruct H as [<-|H].
      + cbn. repeat split; try lia. now exists a.
      + destruct (IH _ _ H) as [A B]. cbn [length]. split; [lia|exact B].
    - destruct (IH _ _ H) as [A B]. cbn [length]. split; [lia|exact B].
  Qed.
  Lemma upper_lines_shape hi : forall k r, In r (upper_lines NumR k hi) ->
    (k <= lhs r < k + length hi)%nat /\ rcmp r = Cle /\ exists l, rhs r = EConst l.
  Proof.
    induction hi as [|[a|] hi IH]; intros k r H; cbn in H.
    - contradiction.
    - destruct H as [<-|H].
      + cbn. repeat split; try lia. now exists a.
      + destruct (IH _ _ H) as [A B]. cbn [length]. split; [lia|exact B].
    - destruct (IH _ _ H) as [A B]. cbn [length]. split; [lia|exact B].
  Qed.

  Lemma filter_all_false {A} (p : A -> bool) l : (forall a, In a l -> p a = false) ->
    filter p l = nil /\ filter (fun a => negb (p a)) l = l.
  Proof.
    induction l as [|a l IH]; intros H; cbn; [auto|].
    rewrite (H a (or_introl eq_refl)). cbn. destruct IH as [P Q]; [intros; apply H; now right|].
    split; [exact P | now rewrite Q].
  Qed.

  Lemma need_sys_bound (sys : list (irel NumR)) n :
    (forall r, In r sys -> (need_rel NumR r <= n)%nat) -> (need_sys NumR sys <= n)%nat.
  Proof.
    unfold need_sys. induction sys as [|r sys IH]; intros H; cbn [map fold_right]; [lia|].
    pose proof (H r (or_introl eq_refl)). specialize (IH (fun q Hq => H q (or_intror Hq))).
    apply Nat.max_lub; assumption.
  Qed.

  Lemma boundsconstrain_is_clip (lo hi : list (option R)) (x : vecR) :
    length lo = length hi -> (length lo <= length x)%nat ->
    (forall j, ok_bound (nth j lo None) (nth j hi None)) ->
    boundsconstrain NumR tol rel lo hi x = Some (bounds_clip NumR lo hi x).
  Proof.
    intros Hlen Hx Hok. unfold boundsconstrain, symbolic_bounds.
    change (T NumR) with R in *. rewrite Hlen, Nat.eqb_refl. cbn [negb].
    assert (Hb : existsb (fun p => bad_bound NumR (fst p) (snd p)) (combine lo hi) = false).
    { apply Bool.not_true_is_false. intros E. apply existsb_exists in E. destruct E as [[l h] [Hin Hbad]].
      destruct (In_nth _ _ (None, None) Hin) as [j [Hj Ej]]. rewrite combine_nth in Ej by exact Hlen.
      injection Ej as El Eh. cbn [fst snd] in Hbad. unfold bad_bound in Hbad.
      destruct l as [a|], h as [b|]; try discriminate. cbn in Hbad. apply Rltb_true in Hbad.
      pose proof (Hok j a b El Eh). lra. }
    change (T NumR) with R in *. rewrite Hb.
    set (sys := lower_lines NumR 0 lo ++ upper_lines NumR 0 hi).
    assert (Hshape : forall r, In r sys -> (lhs r < length lo)%nat /\ is_ne (rcmp r) = false /\ exists l, rhs r = EConst l).
    { intros r Hr. unfold sys in Hr. apply in_app_or in Hr. destruct Hr as [Hr|Hr].
      - destruct (lower_lines_shape _ _ _ Hr) as [A [B C]]. rewrite B. repeat split; auto. exact (proj2 A).
      - destruct (upper_lines_shape _ _ _ Hr) as [A [B C]]. rewrite B. repeat split; auto.
        rewrite Hlen. exact (proj2 A). }
    unfold compiled_constraint.
    assert (G : (ltb NumR tol (zero NumR) || ltb NumR rel (zero NumR))%bool = false).
    { cbn. apply orb_false_iff. split; apply Rltb_false; assumption. }
    rewrite G.
    assert (Hneed : (need_sys NumR sys <=? length x)%nat = true).
    { apply Nat.leb_le. apply need_sys_bound. intros r Hr. destruct (Hshape r Hr) as [A [_ [l El]]].
      unfold need_rel. rewrite El. unfold need_e. cbn. lia. }
    rewrite Hneed. f_equal.
    rewrite constraints_parser_order, generate_constraint_order.
    (* no `!=' line: application order = text order, every neq list is empty *)
    assert (Hne : forall r, In r sys -> is_ne (rcmp r) = false) by (intros r Hr; apply (Hshape r Hr)).
    destruct (filter_all_false (fun r : irel NumR => is_ne (rcmp r)) sys Hne) as [F1 F2].
    unfold apply_order. rewrite F1, F2. cbn [app].
    assert (Hparse : map (parse_line NumR sys) sys = map plain sys).
    { apply map_ext. intros r. unfold parse_line, plain. f_equal. unfold neq_list.
      assert (Q1 : filter (fun q : irel NumR => (is_ne (rcmp q) && Nat.eqb (lhs q) (lhs r))%bool) sys = nil).
      { apply (filter_all_false (fun q : irel NumR => (is_ne (rcmp q) && Nat.eqb (lhs q) (lhs r))%bool) sys).
        intros q Hq. now rewrite (Hne q Hq). }
      assert (Q2 : filter (fun q : irel NumR => (is_ne (rcmp q) && expr_is_var NumR (rhs q) (lhs r))%bool) sys = nil).
      { apply (filter_all_false (fun q : irel NumR => (is_ne (rcmp q) && expr_is_var NumR (rhs q) (lhs r))%bool) sys).
        intros q Hq. now rewrite (Hne q Hq). }
      now rewrite Q1, Q2. }
    rewrite Hparse. unfold sys. rewrite map_app.
    unfold run_in_order. rewrite fold_left_app.
    fold (run_in_order NumR tol rel (map plain (lower_lines NumR 0 lo)) x).
    pose proof (run_lower lo nil x Hx) as L. cbn [length app] in L. rewrite L.
    fold (run_in_order NumR tol rel (map plain (upper_lines NumR 0 hi)) (lowclip lo x)).
    pose proof (run_upper hi nil (lowclip lo x)) as U. cbn [length app] in U. rewrite U.
    - symmetry. now apply clip_split.
    - rewrite lowclip_length. change (T NumR) with R in *. rewrite <- Hlen. exact Hx.
  Qed.
End BoundsCompiled.

(* ===================================================================== packaged statements used by Props/Properties_C13.v *)
Lemma strict_after tol rel : 0 < tol -> 0 <= rel ->
  forall (f : vecR -> R) (i : nat), (forall x v, f (updR x i v) = f x) ->
  forall (eta : bool) (x : vecR), (i < length x)%nat ->
  getR (apply_rel NumR tol rel Clt eta i f x) i < f (apply_rel NumR tol rel Clt eta i f x) /\
  getR (apply_rel NumR tol rel Cgt eta i f x) i > f (apply_rel NumR tol rel Cgt eta i f x) /\
  getR (apply_rel NumR tol rel Cne eta i f x) i <> f (apply_rel NumR tol rel Cne eta i f x).
Proof.
  intros Ht Hr f i Hf eta x Hi.
  assert (P : forall c, needs_tol c = true -> 0 < tolR tol rel (f x))
    by (intros; apply tolR_pos; assumption).
  repeat split.
  - exact (rel_holds_after tol rel (Rlt_le _ _ Ht) Hr f i Hf Clt eta x Hi (P Clt)).
  - exact (rel_holds_after tol rel (Rlt_le _ _ Ht) Hr f i Hf Cgt eta x Hi (P Cgt)).
  - exact (rel_holds_after tol rel (Rlt_le _ _ Ht) Hr f i Hf Cne eta x Hi (P Cne)).
Qed.

Lemma identity_strict_refuted tol rel : 0 <= tol -> 0 <= rel -> 0 < tol ->
  (exists x : vecR, holds Cgt (getR x 0%nat) (getR x 1%nat) /\
     apply_rel NumR tol rel Cgt false 0 (fun x => getR x 1%nat) x <> x) /\
  (exists x : vecR, holds Clt (getR x 0%nat) (getR x 1%nat) /\
     apply_rel NumR tol rel Clt false 0 (fun x => getR x 1%nat) x <> x).
Proof.
  intros Ht Hr Hp. split.
  - exact (rel_identity_strict_refuted_gt tol rel Hp).
  - exact (rel_identity_strict_refuted_lt tol rel Hp).
Qed.

Lemma composition_order (N : Num) tol rel (sys : list (irel N)) (x : vec N) :
  generate_constraint N tol rel (constraints_parser N sys) x = run_in_order N tol rel (apply_order N sys) x.
Proof. rewrite constraints_parser_order. apply generate_constraint_order. Qed.

Lemma negative_tolerance_rejected tol rel (sys : list (irel NumR)) (x : vecR) :
  tol < 0 \/ rel < 0 -> compiled_constraint NumR tol rel sys x = None.
Proof.
  intros H. unfold compiled_constraint.
  assert (E : (ltb NumR tol (zero NumR) || ltb NumR rel (zero NumR))%bool = true).
  { cbn. apply Bool.orb_true_iff. destruct H; [left|right]; now apply Rltb_true. }
  now rewrite E.
Qed.

Lemma short_vector_rejected tol rel (sys : list (irel NumR)) (x : vecR) :
  (length x < need_sys NumR sys)%nat -> compiled_constraint NumR tol rel sys x = None.
Proof.
  intros H. unfold compiled_constraint.
  destruct (ltb NumR tol (zero NumR) || ltb NumR rel (zero NumR))%bool; [reflexivity|].
  apply Nat.leb_gt in H. now rewrite H.
Qed.

(* non-vacuity witness for Properties_C13 *)
Lemma c13_nonvacuous :
  let tol := / 1000000000000000 in
  let sys : list (irel NumR) :=
    [mkRel 0 Clt (EMul (@EVar NumR 1) (@EConst NumR 2)); mkRel 2 Cge (EAbs (@EVar NumR 1)); mkRel 3 Cne (@EVar NumR 1)] in
  let x : vec NumR := [5; 1; 0; 1] in
  0 <= tol /\ NoDup (map lhs sys) /\ no_feed sys /\ (need_sys NumR sys <= length x)%nat /\
  (forall r, In r sys -> needs_tol (rcmp r) = true -> 0 < tolerance NumR tol tol (eval NumR (rhs r) x)).
Proof.
  cbv zeta. assert (P : 0 < / 1000000000000000) by (apply Rinv_0_lt_compat; lra).
  split; [lra|]. split.
  { cbn. repeat constructor; cbn; intuition lia. }
  split.
  { intros r q Hr Hq. cbn in Hr, Hq.
    destruct Hr as [<-|[<-|[<-|[]]]]; destruct Hq as [<-|[<-|[<-|[]]]]; cbn; intuition lia. }
  split; [cbn; lia|].
  intros r _ _. apply tolR_pos; lra.
Qed.

(* packaged statements used by Props/Properties_C14.v *)
Lemma cond_strict_partial tol rel (a b : R) :
  (cond_value NumR tol rel Clt a b <= 0 <-> a <= b - tolR tol rel b) /\
  (cond_value NumR tol rel Cgt a b <= 0 <-> b + tolR tol rel b <= a).
Proof. split; [apply cond_strict_lt | apply cond_strict_gt]. Qed.

Lemma cond_strict_refuted tol rel : 0 < tol ->
  (exists a b, holds Cgt a b /\ ~ satisfied (cond_kind Cgt) (cond_value NumR tol rel Cgt a b)) /\
  (exists a b, holds Clt a b /\ ~ satisfied (cond_kind Clt) (cond_value NumR tol rel Clt a b)).
Proof. intros H. split; [now apply cond_orientation_strict_refuted | now apply cond_orientation_strict_refuted_lt]. Qed.

Lemma penalty_is_sum_of_terms tol rel k (sys : list (grel NumR)) (x : vecR) :
  generate_penalty NumR tol rel k (conditions_order NumR sys) x
  = rsum (map (fun g =>
       let c := condition NumR tol rel g x in
       match cond_kind (gcmp g) with
       | Equality => k * (c * c)
       | Inequality => 2 * k * (Rmax 0 c * Rmax 0 c)
       end) sys).
Proof.
  rewrite penalty_sum_text_order. f_equal. apply map_ext. intros g. unfold line_term. cbv zeta. apply term_formula.
Qed.

Lemma compiled_penalty_defined tol rel k (sys : list (grel NumR)) (x : vecR) :
  0 <= tol -> 0 <= rel -> (need_gsys NumR sys <= length x)%nat ->
  compiled_penalty NumR tol rel k sys x = Some (generate_penalty NumR tol rel k (conditions_order NumR sys) x) /\
  compiled_conditions NumR tol rel sys x =
    Some (map (fun g => condition NumR tol rel g x) (filter (is_ineq NumR) sys),
          map (fun g => condition NumR tol rel g x) (filter (fun g => negb (is_ineq NumR g)) sys)).
Proof.
  intros Ht Hr Hn. unfold compiled_penalty, compiled_conditions.
  assert (G : (ltb NumR tol (zero NumR) || ltb NumR rel (zero NumR))%bool = false).
  { cbn. apply orb_false_iff. split; apply Rltb_false; assumption. }
  apply Nat.leb_le in Hn. now rewrite G, Hn.
Qed.

Lemma c14_nonvacuous :
  let tol := / 1000000000000000 in
  let sys : list (irel NumR) :=
    [mkRel 0 Clt (EMul (@EVar NumR 1) (@EConst NumR 2)); mkRel 2 Cge (EAbs (@EVar NumR 1)); mkRel 3 Cne (@EVar NumR 1)] in
  let x : vec NumR := [5; 1; 0; 1] in
  0 <= tol /\ 0 < 100 /\ NoDup (map lhs sys) /\ no_feed sys /\ (need_sys NumR sys <= length x)%nat /\
  (forall r, In r sys -> is_ne (rcmp r) = true -> 0 < tolerance NumR tol tol (eval NumR (rhs r) x)) /\
  ~ Forall (line_satisfied tol tol x) (map (grel_of_rel NumR) sys).
Proof.
  cbv zeta. assert (P : 0 < / 1000000000000000) by (apply Rinv_0_lt_compat; lra).
  split; [lra|]. split; [lra|]. split.
  { cbn. repeat constructor; cbn; intuition lia. }
  split.
  { intros r q Hr Hq. cbn in Hr, Hq.
    destruct Hr as [<-|[<-|[<-|[]]]]; destruct Hq as [<-|[<-|[<-|[]]]]; cbn; intuition lia. }
  split; [cbn; lia|]. split.
  { intros r _ _. apply tolR_pos; lra. }
  intros F. inversion F as [|g l Hg Hl]; subst.
  unfold line_satisfied, condition in Hg. cbn [grel_of_rel gcmp glhs grhs lhs rcmp rhs cond_kind satisfied eval getx nth] in Hg.
  rewrite cond_strict_lt in Hg. rewrite tolR_eq in Hg.
  change (mul NumR 1 2) with (1 * 2) in Hg. rewrite Rabs_pos_eq in Hg by lra. lra.
Qed.
